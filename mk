#!/bin/bash
# developer helper: regenerate _CoqProject and build everything, printing only errors
cd /verif && PYTHONPATH=/repo/src:/verif /venv/bin/python -c "
from tools import lib, translate
print(translate.regenerate_all())
ok,log=lib.make()
import re
print('\n'.join(l for l in log.splitlines() if not l.startswith('COQC') and not l.startswith('COQDEP'))[-4000:])
print('BUILD', 'OK' if ok else 'FAILED')"

"""Shared helpers for the Kramers-Kronig harnesses (C07, C09): model spectra, a reference design matrix for conditioning,
parameter extraction."""
import math
import random

TESTS_LS = ["complex", "real", "imaginary"]
TESTS_MI = ["complex-inv", "real-inv", "imaginary-inv"]


def gen_model_circuit(adm, addC, addL, num_RC, logF, f, rng, signs=True, negative=()):
    import numpy as np
    from pyimpspec.analysis.kramers_kronig.utility import _generate_time_constants, _generate_circuit
    w = 2 * np.pi * f
    taus = _generate_time_constants(w, num_RC, logF)
    c = _generate_circuit(taus, addC, addL, adm)
    scale = 10 ** rng.uniform(-2, 4)
    for e in c.get_elements(recursive=True):
        n = type(e).__name__
        sgn = rng.choice([1, 1, 1, -1]) if signs else 1
        if n in negative:
            sgn = -1
        if n == "Resistor":
            e.set_values(R=sgn * scale * rng.uniform(0.5, 2))
        elif n == "KramersKronigRC":
            e.set_values(R=sgn * scale * rng.uniform(0.05, 1))
        elif n == "KramersKronigAdmittanceRC":
            e.set_values(C=sgn * rng.uniform(0.05, 1) * e.get_value("tau") / scale)
        elif n == "Capacitor":
            e.set_values(C=sgn * 10 ** rng.uniform(-4, -1) / scale)
        elif n == "Inductor":
            e.set_values(L=sgn * 10 ** rng.uniform(-7, -4) * scale)
    return c, taus


def params_of(circuit):
    """[(kind, value)] in element order; kind in R, K, C, L"""
    out = []
    for e in circuit.get_elements(recursive=True):
        n = type(e).__name__
        if n == "Resistor":
            out.append(("R", float(e.get_value("R"))))
        elif n == "KramersKronigRC":
            out.append(("K", float(e.get_value("R"))))
        elif n == "KramersKronigAdmittanceRC":
            out.append(("K", float(e.get_value("C"))))
        elif n == "Capacitor":
            out.append(("C", float(e.get_value("C"))))
        elif n == "Inductor":
            out.append(("L", float(e.get_value("L"))))
    return out


def ref_design(test, adm, addC, addL, w, taus, X):
    """reference design matrix of the fitted part (columns as in An/KK_facts.v), for conditioning only"""
    import numpy as np
    t = test.replace("-inv", "")
    inv = test.endswith("-inv")
    cols_re, cols_im = [np.ones_like(w)], [np.zeros_like(w)]
    for tau in taus:
        k = (w / (w * tau - 1j)) if adm else (1 / (1 + 1j * w * tau))
        cols_re.append(k.real)
        cols_im.append(k.imag)
    if addC:
        cols_re.append(np.zeros_like(w))
        cols_im.append(w if adm else -1 / w)
    if addL:
        cols_re.append(np.zeros_like(w))
        cols_im.append(1 / w if adm else w)
    Are, Aim = np.array(cols_re).T, np.array(cols_im).T
    if inv:
        Are = Are / abs(X)[:, None]
        Aim = Aim / abs(X)[:, None]
    if t == "complex":
        A = np.vstack([Are, Aim])
    elif t == "real":
        A = Are[:, :1 + len(taus)]
    else:
        A = Aim[:, 1:]
    # column-equilibrated condition number: what limits the accuracy of the fitted immittance
    nrm = np.linalg.norm(A, axis=0)
    nrm[nrm == 0] = 1
    ce, cr = float(np.linalg.cond(A / nrm)), float(np.linalg.cond(A))
    if t == "real":
        # second stage of the real tests: the series/parallel inductance (always) and capacitance (if requested) are fitted to the
        # imaginary part with the raw columns w and 1/w; pinv/lstsq truncate relative to the largest singular value, so the raw
        # condition number of this two-column system limits the accuracy as well (it grows with the square of a frequency factor)
        c2 = ([w if adm else -1 / w] if addC else []) + [1 / w if adm else w]
        A2 = np.array(c2).T / abs(X)[:, None]
        cr = max(cr, float(np.linalg.cond(A2)))
    return ce, cr

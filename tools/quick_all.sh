#!/bin/bash
# run the quick tier of every property on the current tree (rewrites evidence/*.json); one summary line per property
cd "$(dirname "$0")/.."
for p in C01 C02 C03 C04 C05 C06 C07 C08 C09 C10 C11 C12 C13 C14 C15 C16 C17 C18 C19 C20; do
  s=$(date +%s)
  timeout 3000 ./check $p --tier quick > /tmp/quick_$p.log 2>&1
  echo "$p rc=$? $(( $(date +%s) - s ))s $(grep -c '^VIOLATION' /tmp/quick_$p.log) viol $(grep -c '^KNOWN-FINDING' /tmp/quick_$p.log) known | $(tail -1 /tmp/quick_$p.log | cut -c1-110)"
done

#!/bin/bash
# run the thorough tier of every property in turn (used with `vp run --with-repo`); prints one summary line per property
cd "$(dirname "$0")/.."
for p in C14 C05 C15 C16 C04 C03 C01 C06 C19 C12 C17 C18 C07 C09 C10 C13 C11 C08 C20 C02; do
  s=$(date +%s)
  timeout 5400 ./check $p --tier thorough > thorough_$p.log 2>&1
  rc=$?
  echo "$p rc=$rc $(( $(date +%s) - s ))s $(grep -c '^VIOLATION' thorough_$p.log) violations $(tail -1 thorough_$p.log | cut -c1-160)"
done

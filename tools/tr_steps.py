"""gen/Steps_gen.v: the announced number of progress steps of perform_zhit, translated from the `num_steps` arithmetic in
/repo/src/pyimpspec/analysis/zhit/__init__.py (fail-closed: only `num_steps: int = 0`, `num_steps += <+,* over names>` and
`Progress(..., total=num_steps + k)` are accepted)."""
import ast
import os

from tools import lib

OUTPUTS = ["Steps_gen.v"]


class Reject(Exception):
    pass


def expr(node, names):
    if isinstance(node, ast.Name):
        names.add(node.id)
        return node.id
    if isinstance(node, ast.Constant) and isinstance(node.value, int):
        return "%d" % node.value
    if isinstance(node, ast.BinOp) and isinstance(node.op, (ast.Add, ast.Mult)):
        op = "+" if isinstance(node.op, ast.Add) else "*"
        return "(%s %s %s)" % (expr(node.left, names), op, expr(node.right, names))
    raise Reject("unsupported expression in num_steps arithmetic: " + ast.dump(node)[:120])


def zhit_total():
    path = os.path.join(lib.SRC, "pyimpspec", "analysis", "zhit", "__init__.py")
    tree = ast.parse(open(path).read())
    fn = next(n for n in ast.walk(tree) if isinstance(n, ast.FunctionDef) and n.name == "perform_zhit")
    terms, names, total = [], set(), None
    started = False
    for st in ast.walk(fn):
        pass
    for st in fn.body:
        if isinstance(st, ast.AnnAssign) and isinstance(st.target, ast.Name) and st.target.id == "num_steps":
            if not (isinstance(st.value, ast.Constant) and st.value.value == 0):
                raise Reject("num_steps does not start at 0")
            started = True
        elif isinstance(st, ast.AugAssign) and isinstance(st.target, ast.Name) and st.target.id == "num_steps":
            if not started or not isinstance(st.op, ast.Add):
                raise Reject("unexpected update of num_steps")
            terms.append(expr(st.value, names))
        elif isinstance(st, ast.Assign) and any(isinstance(t, ast.Name) and t.id == "num_steps" for t in st.targets):
            raise Reject("num_steps re-assigned")
        elif isinstance(st, ast.With):
            call = st.items[0].context_expr
            if isinstance(call, ast.Call) and getattr(call.func, "id", "") == "Progress":
                kw = {k.arg: k.value for k in call.keywords}
                if "total" not in kw:
                    raise Reject("Progress without total")
                total = expr(kw["total"], names)
                break
    if total is None or not terms:
        raise Reject("num_steps arithmetic not found")
    names.discard("num_steps")
    args = sorted(names)
    if args != ["num_interpolation", "num_smoothing", "num_window"]:
        raise Reject("unexpected variables in num_steps arithmetic: %r" % args)
    body = " + ".join(terms)
    return ("Definition zhit_total (num_window num_smoothing num_interpolation : Z) : Z :=\n  let num_steps := (%s)%%Z in (%s)%%Z.\n"
            % (body, total))


def fit_total():
    """fit_circuit: one step per (method, weight) combination, announced as num_steps + 1"""
    path = os.path.join(lib.SRC, "pyimpspec", "analysis", "fitting.py")
    tree = ast.parse(open(path).read())
    fn = next(n for n in ast.walk(tree) if isinstance(n, ast.FunctionDef) and n.name == "fit_circuit")
    src = ast.unparse(fn)
    need = ["num_steps: int = 0",
            "if isinstance(method, str):\n        num_steps = len(_METHODS) if method == 'auto' else 1\n    elif isinstance(method, list):\n        num_steps = len(method)",
            "if isinstance(weight, str):\n        num_steps *= len(_WEIGHT_FUNCTIONS) if weight == 'auto' else 1\n    elif isinstance(weight, list):\n        num_steps *= len(weight)",
            "for method in methods:\n            for weight in weights:\n                method_weight_combos.append((method, weight))",
            "for method, weight in method_weight_combos)"]
    for n_ in need:
        if n_ not in src:
            raise Reject("fit_circuit: expected `%s`" % n_.replace("\n", " / "))
    if src.count("num_steps") != 6:
        raise Reject("fit_circuit: num_steps is used in an unexpected place (%d occurrences)" % src.count("num_steps"))
    if src.count("fits.append(res)\n") != 2 or src.count("prog.increment()") != 2:
        raise Reject("fit_circuit: expected exactly one increment per collected fit in each of the two loops")
    w = [n for n in ast.walk(fn) if isinstance(n, ast.With) and getattr(n.items[0].context_expr.func, "id", "") == "Progress"]
    if len(w) != 1:
        raise Reject("fit_circuit: Progress context not found")
    kw = {k.arg: k.value for k in w[0].items[0].context_expr.keywords}
    names = set()
    total = expr(kw["total"], names)
    if names != {"num_steps"}:
        raise Reject("fit_circuit: unexpected total")
    return ("(* fit_circuit: num_steps = (number of methods) * (number of weights); one increment per collected fit *)\n"
            "Definition fit_total (num_methods num_weights : Z) : Z :=\n  let num_steps := (num_methods * num_weights)%%Z in (%s)%%Z.\n"
            "Definition fit_increments (num_methods num_weights : Z) : Z := (num_methods * num_weights)%%Z.\n" % total)


def generate():
    out = ["(* GENERATED by tools/tr_steps.py from /repo — do not edit *)", "From Coq Require Import ZArith.", "Open Scope Z_scope.", "", zhit_total(), fit_total()]
    lib._write_if_changed(os.path.join(lib.COQ, "gen", "Steps_gen.v"), "\n".join(out) + "\n")

"""gen/Suggest_gen.v: the selection skeleton of `_suggest_using_default` (the default path of suggest_num_RC), translated from
/repo/src/pyimpspec/analysis/kramers_kronig/algorithms/__init__.py.

What is translated is the data flow that decides WHICH test result is returned and which limits are reported:
  lower_limit, upper_limit = suggest_num_RC_limits(tests, lower_limit, upper_limit, limit_delta)
  if lower_limit >= upper_limit: raise ValueError
  ...
  tests = [t for t in tests if lower_limit <= t.num_RC <= upper_limit]
  ...
  suggested_test = sorted(tests, key=..., reverse=True)[0]
  ...
  for num_RC, ... in sorted(log_pseudo_chisqrs.items(), ...):     (log_pseudo_chisqrs is keyed by the filtered tests)
      if <condition>: suggested_test = [t for t in tests if t.num_RC == num_RC][0]; break
  return (suggested_test, relative_scores, lower_limit, upper_limit)
The scores, the sort keys and the replacement condition are left abstract (Section variables in the generated file), so the
theorem about the result holds whatever they compute.  Fail-closed: every statement of the function that assigns one of the names
{tests, lower_limit, upper_limit, suggested_test, log_pseudo_chisqrs} must have exactly one of the shapes above; the comparison
operators of the filter and of the guard are read from the source and emitted."""
import ast
import os

from tools import lib

OUTPUTS = ["Suggest_gen.v"]

TRACKED = {"tests", "lower_limit", "upper_limit", "suggested_test", "log_pseudo_chisqrs"}
CMP = {ast.LtE: "<=?", ast.Lt: "<?"}


class Reject(Exception):
    pass


def src(node):
    return ast.unparse(node)


def assigned_names(st):
    out = set()
    targets = []
    if isinstance(st, ast.Assign):
        targets = st.targets
    elif isinstance(st, (ast.AnnAssign, ast.AugAssign)):
        targets = [st.target]
    for t in targets:
        for n in ast.walk(t):
            if isinstance(n, ast.Name):
                out.add(n.id)
    return out


def is_name(node, ident):
    return isinstance(node, ast.Name) and node.id == ident


def filter_shape(value):
    """[t for t in tests if lower_limit OP1 t.num_RC OP2 upper_limit] -> (op1, op2)"""
    if not (isinstance(value, ast.ListComp) and is_name(value.elt, "t") and len(value.generators) == 1):
        return None
    g = value.generators[0]
    if not (is_name(g.target, "t") and is_name(g.iter, "tests") and len(g.ifs) == 1 and not g.is_async):
        return None
    c = g.ifs[0]
    if not (isinstance(c, ast.Compare) and len(c.ops) == 2 and is_name(c.left, "lower_limit") and is_name(c.comparators[1], "upper_limit")):
        return None
    mid = c.comparators[0]
    if not (isinstance(mid, ast.Attribute) and is_name(mid.value, "t") and mid.attr == "num_RC"):
        return None
    if type(c.ops[0]) not in CMP or type(c.ops[1]) not in CMP:
        return None
    return CMP[type(c.ops[0])], CMP[type(c.ops[1])]


def sorted_first(value):
    """sorted(tests, key=..., [reverse=...])[0]"""
    if not (isinstance(value, ast.Subscript) and isinstance(value.slice, ast.Constant) and value.slice.value == 0):
        return False
    call = value.value
    return (isinstance(call, ast.Call) and is_name(call.func, "sorted") and len(call.args) == 1 and is_name(call.args[0], "tests")
            and all(k.arg in ("key", "reverse") for k in call.keywords))


def pick_by_num_RC(value):
    """[t for t in tests if t.num_RC == num_RC][0]"""
    if not (isinstance(value, ast.Subscript) and isinstance(value.slice, ast.Constant) and value.slice.value == 0):
        return False
    lc = value.value
    if not (isinstance(lc, ast.ListComp) and is_name(lc.elt, "t") and len(lc.generators) == 1):
        return False
    g = lc.generators[0]
    if not (is_name(g.target, "t") and is_name(g.iter, "tests") and len(g.ifs) == 1):
        return False
    c = g.ifs[0]
    return (isinstance(c, ast.Compare) and len(c.ops) == 1 and isinstance(c.ops[0], ast.Eq)
            and isinstance(c.left, ast.Attribute) and is_name(c.left.value, "t") and c.left.attr == "num_RC" and is_name(c.comparators[0], "num_RC"))


def generate():
    path = os.path.join(lib.SRC, "pyimpspec", "analysis", "kramers_kronig", "algorithms", "__init__.py")
    tree = ast.parse(open(path).read())
    fn = next((n for n in tree.body if isinstance(n, ast.FunctionDef) and n.name == "_suggest_using_default"), None)
    if fn is None:
        raise Reject("_suggest_using_default not found")
    # the dispatcher must still send the default configuration here
    disp = next((n for n in tree.body if isinstance(n, ast.FunctionDef) and n.name == "suggest_num_RC"), None)
    if disp is None or "_suggest_using_default" not in src(disp):
        raise Reject("suggest_num_RC no longer calls _suggest_using_default")
    stage = 0          # 0: before limits, 1: after limits, 2: after guard, 3: after filter, 4: after first pick, 5: after refinement loop
    ops = None
    guard_op = None
    for st in fn.body:
        names = assigned_names(st) & TRACKED
        if isinstance(st, ast.Return):
            if stage < 4:
                raise Reject("return before a test was selected")
            if src(st.value) != "(suggested_test, relative_scores, lower_limit, upper_limit)":
                raise Reject("unexpected return value: " + src(st.value))
            stage = 6
            continue
        if isinstance(st, ast.If) and stage == 1 and not names:
            t = st.test
            if (isinstance(t, ast.Compare) and len(t.ops) == 1 and is_name(t.left, "lower_limit") and is_name(t.comparators[0], "upper_limit")
                    and isinstance(t.ops[0], (ast.GtE, ast.Gt)) and len(st.body) == 1 and isinstance(st.body[0], ast.Raise) and not st.orelse):
                guard_op = ">=?" if isinstance(t.ops[0], ast.GtE) else ">?"
                stage = 2
                continue
        if isinstance(st, ast.For):
            inner = set()
            for sub in ast.walk(st):
                if isinstance(sub, (ast.Assign, ast.AnnAssign, ast.AugAssign)):
                    inner |= assigned_names(sub) & TRACKED
            inner |= {n.id for n in ast.walk(st.target) if isinstance(n, ast.Name)} & TRACKED
            if not inner:
                continue
            if inner != {"suggested_test"} or stage != 4:
                raise Reject("a loop assigns %s at stage %d" % (sorted(inner), stage))
            # for num_RC, _ in sorted(log_pseudo_chisqrs.items(), ...): if cond: suggested_test = [...][0]; break
            it = st.iter
            if not (isinstance(it, ast.Call) and is_name(it.func, "sorted") and len(it.args) == 1 and src(it.args[0]) == "log_pseudo_chisqrs.items()"):
                raise Reject("refinement loop does not iterate over log_pseudo_chisqrs.items()")
            if not (isinstance(st.target, ast.Tuple) and is_name(st.target.elts[0], "num_RC")):
                raise Reject("refinement loop target")
            if not (len(st.body) == 1 and isinstance(st.body[0], ast.If) and not st.body[0].orelse and not st.orelse):
                raise Reject("refinement loop body")
            body = st.body[0].body
            if not (len(body) == 2 and isinstance(body[0], ast.Assign) and is_name(body[0].targets[0], "suggested_test")
                    and pick_by_num_RC(body[0].value) and isinstance(body[1], ast.Break)):
                raise Reject("refinement loop does not pick a test from the filtered list by num_RC")
            stage = 5
            continue
        if not names:
            # statements that assign none of the tracked names may not contain a nested assignment to them either
            for sub in ast.walk(st):
                if isinstance(sub, (ast.Assign, ast.AnnAssign, ast.AugAssign, ast.NamedExpr)) and sub is not st:
                    tgt = assigned_names(sub) if not isinstance(sub, ast.NamedExpr) else {sub.target.id}
                    if tgt & TRACKED:
                        raise Reject("nested assignment to %s" % sorted(tgt & TRACKED))
            continue
        value = st.value if isinstance(st, (ast.Assign, ast.AnnAssign)) else None
        if names == {"lower_limit", "upper_limit"} and stage == 0:
            if src(value).replace("\n", "").replace(" ", "") != "suggest_num_RC_limits(tests,lower_limit,upper_limit,limit_delta,)".replace(" ", "") \
                    and src(value).replace(" ", "") != "suggest_num_RC_limits(tests,lower_limit,upper_limit,limit_delta)":
                raise Reject("limits are not taken from suggest_num_RC_limits(tests, lower_limit, upper_limit, limit_delta): " + src(value))
            stage = 1
        elif names == {"tests"} and stage == 2:
            ops = filter_shape(value)
            if ops is None:
                raise Reject("tests is not filtered to the limits: " + src(value))
            stage = 3
        elif names == {"log_pseudo_chisqrs"} and stage == 3:
            if src(value) != "{t.num_RC: log(t.pseudo_chisqr) for t in tests}":
                raise Reject("log_pseudo_chisqrs is not keyed by the filtered tests: " + src(value))
        elif names == {"suggested_test"} and stage == 3:
            if not sorted_first(value):
                raise Reject("the first pick is not sorted(tests, ...)[0]: " + src(value))
            stage = 4
        else:
            raise Reject("unexpected assignment to %s at stage %d: %s" % (sorted(names), stage, src(st)[:120]))
    if stage != 6 or ops is None or guard_op is None:
        raise Reject("selection skeleton incomplete (stage %d)" % stage)
    text = r'''(* gen/Suggest_gen.v — GENERATED by tools/tr_suggest.py from analysis/kramers_kronig/algorithms/__init__.py
   (_suggest_using_default); do not edit. *)
From Coq Require Import ZArith Bool List.
From PV Require Import Base.Outcome.
Import ListNotations.
Open Scope Z_scope.

Section Suggest.
Variable T : Type.                                  (* KramersKronigResult *)
Variable num_RC : T -> Z.
Variable limits : list T -> Z -> Z -> Z -> Z * Z.   (* suggest_num_RC_limits *)
Variable first_pick : list T -> list T.             (* sorted(tests, key=relative score, reverse=True): a reordering of its argument *)
Variable order : list T -> list Z.                  (* the num_RC keys of log_pseudo_chisqrs in the order of the refinement loop *)
Variable better : Z -> T -> bool.                   (* the replacement condition *)

Definition in_limits (lo hi : Z) (t : T) : bool := (lo %OP1% num_RC t) && (num_RC t %OP2% hi).

Definition refine (ts : list T) (s : T) : outcome T :=
  match find (fun k => better k s) (order ts) with
  | None => Ok s
  | Some k => match filter (fun t => num_RC t =? k) ts with t :: _ => Ok t | [] => Crash CIndex end
  end.

Definition suggest_default (tests : list T) (lower upper delta : Z) : outcome (T * Z * Z) :=
  let '(lo, hi) := limits tests lower upper delta in
  if lo %GUARD% hi then Err EValue
  else
    let ts := filter (in_limits lo hi) tests in
    match first_pick ts with
    | [] => Crash CIndex
    | s :: _ => let* t := refine ts s in Ok (t, lo, hi)
    end.
End Suggest.
'''
    text = text.replace("%OP1%", ops[0]).replace("%OP2%", ops[1]).replace("%GUARD%", guard_op)
    lib._write_if_changed(os.path.join(lib.COQ, "gen", "Suggest_gen.v"), text)

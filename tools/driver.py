"""Entry point of ./check: one property per invocation."""
import argparse
import importlib
import os
import sys
import traceback

from tools import lib


def main():
    ap = argparse.ArgumentParser()
    ap.add_argument("prop")
    ap.add_argument("--tier", default=os.environ.get("VERIF_TIER", "quick"), choices=["quick", "thorough"])
    ap.add_argument("--replay", default=None)
    ap.add_argument("--no-build", action="store_true")
    args = ap.parse_args()
    seed = int(os.environ.get("VERIF_SEED", "20260930"))
    prop = args.prop
    if prop == "setup":
        return setup()
    mod = importlib.import_module("tools.harness." + prop)
    if args.replay:
        return mod.replay(args.replay)
    rep = lib.Report(prop, args.tier, seed)
    try:
        # tie 1: regenerate every generated Coq file from /repo's working tree, then rebuild what changed
        from tools import translate
        tr_errors = translate.regenerate_all()
        for name, err in tr_errors.items():
            rep.extra.setdefault("translator_errors", {})[name] = err
        ok, log = lib.make()
        rep.extra["make_ok"] = ok
        if not ok:
            rep.extra["make_log_tail"] = log[-3000:]
        mod.run(rep, args.tier, seed, tr_errors)
    except Exception:
        tb = traceback.format_exc()
        print(tb, file=sys.stderr)
        rep.oblige("harness-completed", False, tb[-1500:])
        rep.violation("harness_error", {"kind": "broken-obligation", "obligation": "harness-completed", "traceback": tb}, no_input=True)
    return rep.finish()


def setup():
    from tools import translate
    errs = translate.regenerate_all()
    for k, v in errs.items():
        print("translator error (reported by the owning check):", k, v[:300])
    ok, log = lib.make(keep_going=True)
    print(log[-6000:])
    bad = lib.forbidden_scan()
    if bad:
        print("FORBIDDEN vernacular found:\n" + "\n".join(bad))
        return 1
    print("setup: make %s" % ("ok" if ok else "had failures (each reported by the owning property check)"))
    return 0


if __name__ == "__main__":
    sys.exit(main())

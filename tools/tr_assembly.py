"""gen/Assembly_gen.v: how the analysis code calls the two formulas of property C08 — `_calculate_residuals(Z_exp, Z_fit)` and
`_calculate_pseudo_chisqr(Z_exp, Z_fit[, weight])` — at EVERY call site under src/pyimpspec/analysis (on every path, whatever the
options).

For each call site the walker classifies, by reaching definitions inside the enclosing function (every assignment to a name in that
function must agree):
  * the experimental argument (first positional or `Z_exp=`): `exp_ok` iff it denotes impedances of the data — `data.get_impedances()`
    (the unmasked view), a function parameter that is itself called `Z_exp`/`Z`, or a name all of whose assignments are such expressions
    (also through `X ** (-1 if admittance else 1)`-style conversions is NOT accepted: the formulas are defined on impedances);
  * the model argument (second positional or `Z_fit=`): `fit_ok` iff it does NOT denote the data (a different name / expression);
  * the optional weight of the pseudo chi-squared: `weight_ok` iff absent (the formula then computes Boukamp's weight from the data in
    the impedance representation) or a name all of whose assignments in the function are `_boukamp_weight(<exp>, admittance=False)` or
    `_boukamp_weight(<exp>)`.
Fail-closed: a call with starred arguments, or an argument the walker cannot classify as a name/attribute call, gives `false` for
that component (so the theorem over the table breaks); a file that cannot be parsed rejects the translation."""
import ast
import os

from tools import lib

OUTPUTS = ["Assembly_gen.v"]
EXP_PARAMS = {"Z_exp", "Z"}


class Reject(Exception):
    pass


def is_data_impedances(node):
    """data.get_impedances()  /  data.get_impedances(masked=False)"""
    if not (isinstance(node, ast.Call) and isinstance(node.func, ast.Attribute) and node.func.attr == "get_impedances"
            and isinstance(node.func.value, ast.Name) and node.func.value.id == "data" and not node.args):
        return False
    for k in node.keywords:
        if not (k.arg == "masked" and isinstance(k.value, ast.Constant) and k.value.value is False):
            return False
    return True


def assignments(fdef, name):
    """all values assigned to `name` inside fdef (plain, annotated, tuple targets and loop targets count as opaque)"""
    vals = []
    for n in ast.walk(fdef):
        if isinstance(n, ast.Assign):
            for t in n.targets:
                if isinstance(t, ast.Name) and t.id == name:
                    vals.append(n.value)
                elif any(isinstance(x, ast.Name) and x.id == name for x in ast.walk(t)):
                    vals.append(None)
        elif isinstance(n, ast.AnnAssign) and isinstance(n.target, ast.Name) and n.target.id == name:
            if n.value is not None:
                vals.append(n.value)
        elif isinstance(n, ast.AugAssign) and any(isinstance(x, ast.Name) and x.id == name for x in ast.walk(n.target)):
            vals.append(None)
        elif isinstance(n, (ast.For, ast.comprehension)) and any(isinstance(x, ast.Name) and x.id == name for x in ast.walk(n.target)):
            vals.append(None)
        elif isinstance(n, ast.With):
            for it in n.items:
                if it.optional_vars is not None and any(isinstance(x, ast.Name) and x.id == name for x in ast.walk(it.optional_vars)):
                    vals.append(None)
    return vals


def params_of(fdef):
    a = fdef.args
    return {x.arg for x in a.args + a.kwonlyargs + a.posonlyargs}


def unpacked_from_param(fdef, name):
    """`(..., name, ...) = args` with `args` a parameter of the function, and no other binding of the name"""
    found = False
    for n in ast.walk(fdef):
        if isinstance(n, ast.Assign):
            for t in n.targets:
                if isinstance(t, ast.Tuple) and any(isinstance(x, ast.Name) and x.id == name for x in t.elts):
                    if isinstance(n.value, ast.Name) and n.value.id in params_of(fdef):
                        found = True
                    else:
                        return False
    return found and all(v is None for v in assignments(fdef, name)) and len(assignments(fdef, name)) == 1


def handed_in(fdef, name, allowed):
    """the name is a parameter of the function, or unpacked from its argument tuple, and is one of the names the callers use for it"""
    if name not in allowed:
        return False
    if name in params_of(fdef) and not assignments(fdef, name):
        return True
    return unpacked_from_param(fdef, name)


def is_admittance_conversion(node):
    """X ** (-1 if admittance else 1)"""
    return (isinstance(node, ast.BinOp) and isinstance(node.op, ast.Pow) and isinstance(node.right, ast.IfExp)
            and isinstance(node.right.test, ast.Name) and node.right.test.id == "admittance"
            and ast.unparse(node.right.body) == "-1" and ast.unparse(node.right.orelse) == "1")


def denotes_data(node, fdef, depth=0, assuming=()):
    if node is None or depth > 6:
        return False
    if is_data_impedances(node):
        return True
    # numpy.flip of the data (the Loewner method works in ascending order and flips back): a re-ordering of the same points
    if isinstance(node, ast.Call) and isinstance(node.func, ast.Name) and node.func.id == "flip" and len(node.args) == 1 and not node.keywords:
        return denotes_data(node.args[0], fdef, depth + 1, assuming)
    # the working immittance converted back to an impedance (Z-HIT candidates): X_exp ** (-1 if admittance else 1)
    if is_admittance_conversion(node) and isinstance(node.left, ast.Name) and handed_in(fdef, node.left.id, {"X_exp"}):
        return True
    if isinstance(node, ast.Name):
        if node.id in assuming:           # a re-binding in terms of itself (Z_exp = flip(Z_exp)): judged with the other bindings
            return True
        if handed_in(fdef, node.id, EXP_PARAMS):
            return True
        if node.id in params_of(fdef):
            return False
        vals = assignments(fdef, node.id)
        selfless = [v for v in vals if v is None or not any(isinstance(x, ast.Name) and x.id == node.id for x in ast.walk(v))]
        return (bool(selfless) and all(v is not None and denotes_data(v, fdef, depth + 1, assuming) for v in selfless)
                and all(v is not None and denotes_data(v, fdef, depth + 1, tuple(assuming) + (node.id,)) for v in vals))
    return False


def weight_ok(node, fdef, call):
    """absent, or a name whose binding that reaches the call is a top-level statement of the function (so it is executed on every
    path) of the form  name = _boukamp_weight(<data>[, admittance=False])  with no other binding of the name between it and the call"""
    if node is None:
        return True
    if not isinstance(node, ast.Name):
        return False
    tops = []
    for st in fdef.body:
        tgt = None
        if isinstance(st, ast.Assign) and len(st.targets) == 1 and isinstance(st.targets[0], ast.Name):
            tgt, val = st.targets[0].id, st.value
        elif isinstance(st, ast.AnnAssign) and isinstance(st.target, ast.Name) and st.value is not None:
            tgt, val = st.target.id, st.value
        if tgt == node.id and st.lineno < call.lineno:
            tops.append((st.lineno, val))
    if not tops:
        return False                      # a weight handed in from outside may belong to another representation
    line, v = max(tops, key=lambda t: t[0])
    # no other binding of the name after that statement and before the call
    for n in ast.walk(fdef):
        if isinstance(n, (ast.Assign, ast.AnnAssign, ast.AugAssign, ast.For)) and line < n.lineno <= call.lineno:
            tg = n.targets if isinstance(n, ast.Assign) else [n.target]
            if any(isinstance(x, ast.Name) and x.id == node.id for t in tg for x in ast.walk(t)):
                return False
    if not (isinstance(v, ast.Call) and isinstance(v.func, ast.Name) and v.func.id == "_boukamp_weight" and len(v.args) == 1
            and denotes_data(v.args[0], fdef)):
        return False
    for k in v.keywords:
        if not (k.arg == "admittance" and isinstance(k.value, ast.Constant) and k.value.value is False):
            return False
    return True


def collect():
    root = os.path.join(lib.SRC, "pyimpspec", "analysis")
    rows = []
    for d, _, files in sorted(os.walk(root)):
        for fn in sorted(files):
            if not fn.endswith(".py"):
                continue
            path = os.path.join(d, fn)
            try:
                tree = ast.parse(open(path).read())
            except SyntaxError as e:
                raise Reject("cannot parse %s: %s" % (path, e))
            rel = os.path.relpath(path, os.path.join(lib.SRC, "pyimpspec"))
            funcs = [n for n in ast.walk(tree) if isinstance(n, (ast.FunctionDef, ast.AsyncFunctionDef))]
            # innermost enclosing function of every call
            owner = {}
            for f in funcs:
                for n in ast.walk(f):
                    if isinstance(n, ast.Call):
                        prev = owner.get(id(n))
                        if prev is None or any(x is f for x in ast.walk(prev)):
                            owner[id(n)] = f
            for f in funcs:
                if f.name in ("_calculate_pseudo_chisqr", "_calculate_residuals"):
                    continue
                for n in ast.walk(f):
                    if not (isinstance(n, ast.Call) and isinstance(n.func, ast.Name) and n.func.id in ("_calculate_pseudo_chisqr", "_calculate_residuals")):
                        continue
                    if owner.get(id(n)) is not f:
                        continue
                    kind = "chisqr" if n.func.id == "_calculate_pseudo_chisqr" else "residuals"
                    where = "%s:%s:%d:%s" % (rel, f.name, n.lineno, kind)
                    if any(isinstance(a, ast.Starred) for a in n.args) or any(k.arg is None for k in n.keywords):
                        rows.append((where, False, False, False))
                        continue
                    kw = {k.arg: k.value for k in n.keywords}
                    pos = list(n.args)
                    exp = kw.get("Z_exp", pos[0] if len(pos) > 0 else None)
                    fit = kw.get("Z_fit", pos[1] if len(pos) > 1 else None)
                    wt = kw.get("weight", pos[2] if len(pos) > 2 else None)
                    if set(kw) - {"Z_exp", "Z_fit", "weight"} or len(pos) > (3 if kind == "chisqr" else 2):
                        rows.append((where, False, False, False))
                        continue
                    e_ok = denotes_data(exp, f)
                    f_ok = fit is not None and not denotes_data(fit, f) and not (isinstance(fit, ast.Name) and isinstance(exp, ast.Name) and fit.id == exp.id)
                    w_ok = weight_ok(wt, f, n) if kind == "chisqr" else wt is None
                    rows.append((where, e_ok, f_ok, w_ok))
    if len(rows) < 10:
        raise Reject("fewer than 10 call sites of the C08 formulas found (%d)" % len(rows))
    return rows


def generate():
    rows = collect()
    body = ";\n  ".join("(%s, %s, %s, %s)" % (lib.codepoints(w), lib.coqbool(a), lib.coqbool(b), lib.coqbool(c)) for w, a, b, c in rows)
    text = ("(* gen/Assembly_gen.v — GENERATED by tools/tr_assembly.py from src/pyimpspec/analysis/**.py; do not edit.\n"
            "   (call site, the experimental argument denotes the data's impedances, the model argument does not, the weight (if any) is\n"
            "   Boukamp's weight of the data in the impedance representation) *)\n"
            "From Coq Require Import NArith Bool List.\nImport ListNotations.\n\n"
            "(* %s *)\n" % "; ".join(w for w, _, _, _ in rows) +
            "Definition formula_calls : list (list N * bool * bool * bool) :=\n  [%s].\n" % body)
    lib._write_if_changed(os.path.join(lib.COQ, "gen", "Assembly_gen.v"), text)

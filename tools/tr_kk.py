"""gen/KK_gen.v: the entries of the design matrices and right-hand sides of the linear Kramers-Kronig tests, translated from
/repo/src/pyimpspec/analysis/kramers_kronig/{least_squares,matrix_inversion,utility}.py.  numpy arithmetic on the frequency axis
is pointwise, so each column is translated as a function of one angular frequency w (and the time constant tau); the row slices
A[0:m//2, i] / A[m//2:, i] of the 'complex' test become the boolean `half` (false = upper block = real parts).  Column order is
emitted as data and pinned by lemmas.  Fail-closed: any construct outside the whitelist raises Reject and the run reports the
translator as a broken obligation."""
import ast
import os

from tools import lib

OUTPUTS = ["KK_gen.v"]
KK = os.path.join(lib.SRC, "pyimpspec", "analysis", "kramers_kronig")


class Reject(Exception):
    pass


REALS = {"w", "tau", "abs_X_exp", "weight", "log_F_ext", "F_ext", "tau_min", "tau_max", "w_min", "w_max", "k", "num_RC"}
COMPLEXES = {"c", "Z_exp", "X_exp", "X_fit", "Z"}


def is_cx(n):
    for s in ast.walk(n):
        if isinstance(s, ast.Constant) and isinstance(s.value, complex):
            return True
        if isinstance(s, ast.Name) and s.id in COMPLEXES:
            return True
    return False


def is_pm1_exponent(n):
    """-1 if admittance else 1"""
    return (isinstance(n, ast.IfExp) and isinstance(n.test, ast.Name) and n.test.id == "admittance"
            and isinstance(n.body, ast.UnaryOp) and isinstance(n.body.op, ast.USub) and getattr(n.body.operand, "value", None) == 1
            and isinstance(n.orelse, ast.Constant) and n.orelse.value == 1)


def rex(n):
    if isinstance(n, ast.Constant) and type(n.value) is int:
        return "(IZR (%d))" % n.value
    if isinstance(n, ast.Name):
        if n.id in REALS:
            return n.id
        raise Reject("name %s is not a known real" % n.id)
    if isinstance(n, ast.UnaryOp) and isinstance(n.op, ast.USub):
        return "(- %s)" % rex(n.operand)
    if isinstance(n, ast.IfExp) and isinstance(n.test, ast.Name) and n.test.id == "admittance":
        return "(if admittance then %s else %s)" % (rex(n.body), rex(n.orelse))
    if isinstance(n, ast.Attribute) and n.attr in ("real", "imag"):
        return "(%s %s)" % ("Re" if n.attr == "real" else "Im", cex(n.value))
    if isinstance(n, ast.BinOp):
        if isinstance(n.op, ast.Pow):
            if isinstance(n.right, ast.Constant) and n.right.value == 2:
                b = rex(n.left)
                return "(%s * %s)" % (b, b)
            if isinstance(n.right, ast.UnaryOp) and isinstance(n.right.op, ast.USub) and getattr(n.right.operand, "value", None) == 1:
                return "(/ %s)" % rex(n.left)
            if isinstance(n.left, ast.Constant) and n.left.value == 10:
                return "(pow10 %s)" % rex(n.right)
            raise Reject("unsupported real power")
        op = {ast.Add: "+", ast.Sub: "-", ast.Mult: "*", ast.Div: "/"}.get(type(n.op))
        if op is None:
            raise Reject("unsupported operator")
        return "(%s %s %s)" % (rex(n.left), op, rex(n.right))
    if isinstance(n, ast.Call) and isinstance(n.func, ast.Name):
        if n.func.id == "abs" and len(n.args) == 1:
            return "(Cmod %s)" % cex(n.args[0])
        if n.func.id == "log" and len(n.args) == 1:
            return "(log10 %s)" % rex(n.args[0])
        if n.func.id in ("max", "min") and len(n.args) == 1 and isinstance(n.args[0], ast.Name) and n.args[0].id == "w":
            return "w_" + n.func.id
    raise Reject("unsupported real expression: " + ast.dump(n)[:120])


def cex(n):
    if not is_cx(n):
        return "(RtoC %s)" % rex(n)
    if isinstance(n, ast.Constant) and isinstance(n.value, complex):
        if n.value == 1j:
            return "Ci"
        raise Reject("complex constant other than 1j")
    if isinstance(n, ast.Name):
        return n.id
    if isinstance(n, ast.BinOp):
        if isinstance(n.op, ast.Pow):
            if is_pm1_exponent(n.right):
                return "(imm admittance %s)" % cex(n.left)
            raise Reject("unsupported complex power")
        op = {ast.Add: "+", ast.Sub: "-", ast.Mult: "*", ast.Div: "/"}.get(type(n.op))
        if op is None:
            raise Reject("unsupported operator")
        return "(%s %s %s)%%C" % (cex(n.left), op, cex(n.right))
    raise Reject("unsupported complex expression: " + ast.dump(n)[:120])


def find(tree, name):
    for n in tree.body:
        if isinstance(n, ast.FunctionDef) and n.name == name:
            return n
    raise Reject("function %s not found" % name)


def body_wo_ann(fn):
    """the statements of a function without bare annotations and docstrings"""
    out = []
    for s in fn.body:
        if isinstance(s, ast.AnnAssign) and s.value is None:
            continue
        if isinstance(s, ast.Expr) and isinstance(s.value, ast.Constant):
            continue
        out.append(s)
    return out


def slice_half(sl):
    """classify a row slice: 'upper' (0:m//2), 'lower' (m//2:), 'all' (0:m or :)"""
    d = ast.dump(sl)
    m2 = ast.dump(ast.parse("m // 2", mode="eval").body)
    if isinstance(sl, ast.Slice):
        lo = ast.dump(sl.lower) if sl.lower is not None else None
        up = ast.dump(sl.upper) if sl.upper is not None else None
        zero = ast.dump(ast.Constant(0))
        mm = ast.dump(ast.Name("m", ast.Load()))
        if sl.step is not None:
            raise Reject("slice with a step")
        if lo in (None, zero) and up == m2:
            return "upper"
        if lo == m2 and up is None:
            return "lower"
        if lo in (None, zero) and up in (None, mm):
            return "all"
    raise Reject("unsupported row slice " + d[:80])


def test_chain(stmts):
    """if test == 'complex': ... elif test == 'real': ... [else: ...]  ->  {kind: [stmts]}"""
    kinds = {"complex": "TComplex", "real": "TReal", "imaginary": "TImag"}
    res = {}
    if len(stmts) != 1 or not isinstance(stmts[0], ast.If):
        raise Reject("expected a single if-chain on test")
    node = stmts[0]
    while True:
        t = node.test
        if not (isinstance(t, ast.Compare) and isinstance(t.left, ast.Name) and t.left.id == "test" and len(t.ops) == 1
                and isinstance(t.ops[0], ast.Eq) and isinstance(t.comparators[0], ast.Constant) and t.comparators[0].value in kinds):
            raise Reject("unsupported condition in test chain")
        res[t.comparators[0].value] = node.body
        if len(node.orelse) == 1 and isinstance(node.orelse[0], ast.If):
            node = node.orelse[0]
            continue
        if node.orelse:
            rest = [k for k in kinds if k not in res]
            if len(rest) != 1:
                raise Reject("else branch of a test chain must stand for exactly one test")
            res[rest[0]] = node.orelse
        break
    return res


def column_from_chain(chain, target, value_of):
    """chain: {kind: stmts}; every stmt must be `target[slice(, i)] = expr`; returns the Coq match on t"""
    arms = []
    for kind, con in (("complex", "TComplex"), ("real", "TReal"), ("imaginary", "TImag")):
        parts = {}
        for s in chain.get(kind, []):
            if not (isinstance(s, ast.Assign) and len(s.targets) == 1 and isinstance(s.targets[0], ast.Subscript)
                    and isinstance(s.targets[0].value, ast.Name) and s.targets[0].value.id == target):
                raise Reject("unsupported statement in test chain: " + ast.dump(s)[:100])
            sl = s.targets[0].slice
            if isinstance(sl, ast.Tuple):
                if len(sl.elts) != 2 or not (isinstance(sl.elts[1], ast.Name) and sl.elts[1].id == "i"):
                    raise Reject("column index is not i")
                sl = sl.elts[0]
            h = slice_half(sl)
            if h in parts:
                raise Reject("block written twice")
            parts[h] = value_of(s.value)
        if kind == "complex":
            if "all" in parts:
                if len(parts) > 1:
                    raise Reject("overlapping blocks")
                arms.append("| %s => %s" % (con, parts["all"]))
            else:
                arms.append("| %s => if half then %s else %s" % (con, parts.get("lower", "0"), parts.get("upper", "0")))
        else:
            if "upper" in parts or "lower" in parts:
                raise Reject("half-block slice outside the complex test")
            arms.append("| %s => %s" % (con, parts.get("all", "0")))
    return "match t with\n    " + "\n    ".join(arms) + "\n    end"


def expect_dump(node, src, what):
    want = ast.dump(ast.parse(src, mode="exec").body[0])
    if ast.dump(node) != want:
        raise Reject("%s: expected `%s`, found `%s`" % (what, src, ast.unparse(node)))


def gen_ls(tree, out):
    # R column
    fn = find(tree, "_add_resistance_to_A_matrix")
    b = body_wo_ann(fn)
    expect_dump(b[0], "m: int = A.shape[0]", "ls R m")
    expect_dump(b[1], "i: int = 0", "ls R index")
    out.append("Definition ls_R_index : nat := 0.")
    out.append("Definition ls_col_R (t : test) (half : bool) : R :=\n    %s." % column_from_chain(test_chain(b[2:]), "A", rex))
    # kth
    fn = find(tree, "_calculate_kth_A_matrix_variables")
    b = body_wo_ann(fn)
    if not (len(b) == 1 and isinstance(b[0], ast.If) and isinstance(b[0].test, ast.Name) and b[0].test.id == "admittance"
            and isinstance(b[0].body[0], ast.Return) and isinstance(b[0].orelse[0], ast.Return)):
        raise Reject("_calculate_kth_A_matrix_variables: expected if admittance: return .. else: return ..")
    out.append("Definition ls_kth (admittance : bool) (w tau : R) : C :=\n    if admittance then %s else %s." % (cex(b[0].body[0].value), cex(b[0].orelse[0].value)))
    fn = find(tree, "_add_kth_variables_to_A_matrix")
    b = body_wo_ann(fn)
    expect_dump(b[0], "c: NDArray[complex128] = _calculate_kth_A_matrix_variables(w=w, tau=tau, admittance=admittance)", "ls kth call")
    expect_dump(b[1], "m: int = A.shape[0]", "ls kth m")
    out.append("Definition ls_col_K (t : test) (half : bool) (admittance : bool) (w tau : R) : R :=\n    let c := ls_kth admittance w tau in\n    %s." % column_from_chain(test_chain(b[2:]), "A", rex))
    for name, pyfn in (("C", "_add_capacitance_to_A_matrix"), ("L", "_add_inductance_to_A_matrix")):
        b = body_wo_ann(find(tree, pyfn))
        expect_dump(b[0], "m: int = A.shape[0]", "ls %s m" % name)
        out.append("Definition ls_col_%s (t : test) (half : bool) (admittance : bool) (w : R) : R :=\n    %s." % (name, column_from_chain(test_chain(b[1:]), "A", rex)))
    # b vector
    b = body_wo_ann(find(tree, "_add_values_to_b_vector"))
    expect_dump(b[0], "m: int = b.shape[0]", "ls b m")
    out.append("Definition ls_b (t : test) (half : bool) (admittance : bool) (Z_exp : C) : R :=\n    %s." % column_from_chain(test_chain(b[1:]), "b", rex))
    # number of rows and columns
    b = body_wo_ann(find(tree, "_initialize_A_matrix"))
    expect_dump(b[0], "m: int = len(w) * (2 if test == 'complex' else 1)", "ls rows")
    expect_dump(b[1], "n: int = len(taus) + 1", "ls cols")
    # column order in _generate_A_matrix
    b = body_wo_ann(find(tree, "_generate_A_matrix"))
    order = []
    kstart = None
    for s in b:
        if isinstance(s, ast.Expr) and isinstance(s.value, ast.Call) and getattr(s.value.func, "id", "") == "_add_resistance_to_A_matrix":
            order.append("ColR")
        elif isinstance(s, ast.For):
            it = s.iter
            if not (isinstance(it, ast.Call) and getattr(it.func, "id", "") == "enumerate" and ast.dump(it.args[0]) == ast.dump(ast.Name("taus", ast.Load()))
                    and len(it.keywords) == 1 and it.keywords[0].arg == "start" and isinstance(it.keywords[0].value, ast.Constant)):
                raise Reject("ls: kth loop is not enumerate(taus, start=k)")
            kstart = it.keywords[0].value.value
            call = s.body[0].value
            if not (len(s.body) == 1 and getattr(call.func, "id", "") == "_add_kth_variables_to_A_matrix"
                    and {k.arg: ast.unparse(k.value) for k in call.keywords} == {"A": "A", "test": "test", "w": "w", "tau": "tau", "i": "i", "admittance": "admittance"}):
                raise Reject("ls: unexpected kth loop body")
            order.append("ColK")
        elif isinstance(s, ast.If) and isinstance(s.test, ast.Name) and s.test.id in ("add_capacitance", "add_inductance"):
            expect_dump(s.body[0], "i += 1", "ls column increment")
            call = s.body[1].value
            want = "_add_capacitance_to_A_matrix" if s.test.id == "add_capacitance" else "_add_inductance_to_A_matrix"
            if getattr(call.func, "id", "") != want or len(s.body) != 2 or s.orelse:
                raise Reject("ls: %s branch calls %s" % (s.test.id, ast.unparse(call.func)))
            order.append("ColC" if s.test.id == "add_capacitance" else "ColL")
        elif isinstance(s, (ast.AnnAssign, ast.Return)):
            continue
        else:
            raise Reject("ls _generate_A_matrix: unexpected statement " + ast.unparse(s)[:80])
    out.append("Definition ls_order : list colkind := [%s]." % "; ".join(order))
    out.append("Definition ls_kth_start : nat := %d." % kstart)
    # _real_test second stage
    fn = find(tree, "_real_test")
    cols = {}
    bcall = None
    for s in ast.walk(fn):
        if isinstance(s, ast.If) and isinstance(s.test, ast.Name) and s.test.id in ("add_capacitance", "add_inductance"):
            for a in s.body:
                if isinstance(a, ast.Assign) and isinstance(a.targets[0], ast.Subscript) and getattr(a.targets[0].value, "id", "") == "A":
                    sl = a.targets[0].slice
                    if not (isinstance(sl, ast.Tuple) and slice_half(sl.elts[0]) == "all"):
                        raise Reject("ls _real_test: unexpected slice")
                    cols[s.test.id] = (ast.unparse(sl.elts[1]), rex(a.value))
        if isinstance(s, ast.Assign) and getattr(s.targets[0], "id", "") == "b" and isinstance(s.value, ast.Call) and getattr(s.value.func, "id", "") == "_generate_b_vector" and len(s.value.args) == 3:
            if isinstance(s.value.args[0], ast.Constant):
                bcall = s.value
    if set(cols) != {"add_capacitance", "add_inductance"} or bcall is None:
        raise Reject("ls _real_test: second stage not found")
    if cols["add_capacitance"][0] != "0" or cols["add_inductance"][0] != "-1":
        raise Reject("ls _real_test: second-stage columns are not 0 (C) and -1 (L)")
    if bcall.args[0].value != "imaginary":
        raise Reject("ls _real_test: second stage does not use the imaginary part")
    want = "(Z_exp ** (-1 if admittance else 1) - circuit.get_impedances(f) ** (-1 if admittance else 1)) ** (-1 if admittance else 1)"
    if ast.dump(bcall.args[1]) != ast.dump(ast.parse(want, mode="eval").body):
        raise Reject("ls _real_test: second-stage right-hand side is not the immittance difference")
    out.append("Definition ls_real2_col_C (admittance : bool) (w : R) : R := %s." % cols["add_capacitance"][1])
    out.append("Definition ls_real2_col_L (admittance : bool) (w : R) : R := %s." % cols["add_inductance"][1])
    # positions of the corrections
    src = ast.unparse(fn)
    if "x[i] = corrections[0]" not in src or "x[i] = corrections[-1]" not in src:
        raise Reject("ls _real_test: corrections are not taken from [0] (C) and [-1] (L)")
    # _imaginary_test: the weighted mean for the resistance
    fn = find(tree, "_imaginary_test")
    got = [s for s in fn.body if isinstance(s, ast.Assign) and ast.unparse(s.targets[0]) == "x[0]"]
    if len(got) != 1:
        raise Reject("ls _imaginary_test: x[0] assignment not found")
    expect_dump(got[0], "x[0] = array_sum(weight * (X_exp.real - X_fit.real)) / array_sum(weight)", "ls imaginary-test resistance")
    num = got[0].value.left.args[0]
    out.append("Definition ls_imag_R_term (weight : R) (X_exp X_fit : C) : R := %s." % rex(num))


def gen_mi(tree, out):
    b = body_wo_ann(find(tree, "_add_resistance_to_A_matrix"))
    expect_dump(b[0], "A_re[:, 0] = 1", "mi R column")
    out.append("Definition mi_pos_R : colpos := PIdx 0.")
    out.append("Definition mi_col_R_re : R := 1.")
    for name, pyfn, pos in (("C", "_add_capacitance_to_A_matrix", -2), ("L", "_add_inductance_to_A_matrix", -1)):
        b = body_wo_ann(find(tree, pyfn))
        if not (len(b) == 1 and isinstance(b[0], ast.If) and getattr(b[0].test, "id", "") == "admittance" and len(b[0].body) == 1 and len(b[0].orelse) == 1):
            raise Reject("mi %s column: expected if admittance" % name)
        vals = []
        for s in (b[0].body[0], b[0].orelse[0]):
            if not (isinstance(s, ast.Assign) and ast.unparse(s.targets[0]) == "A_im[:, %d]" % pos):
                raise Reject("mi %s column: expected A_im[:, %d] = ..., found %s" % (name, pos, ast.unparse(s)))
            vals.append(rex(s.value))
        out.append("Definition mi_pos_%s : colpos := PEnd %d." % (name, -pos))
        out.append("Definition mi_col_%s_im (admittance : bool) (w : R) : R := if admittance then %s else %s." % (name, vals[0], vals[1]))
    b = body_wo_ann(find(tree, "_add_kth_variables_to_A_matrices"))
    if not (len(b) == 1 and isinstance(b[0], ast.If) and getattr(b[0].test, "id", "") == "admittance"):
        raise Reject("mi kth: expected if admittance")
    res = {}
    for key, stmts in (("Y", b[0].body), ("Z", b[0].orelse)):
        if not (len(stmts) == 1 and isinstance(stmts[0], ast.For) and ast.unparse(stmts[0].iter) == "enumerate(taus)" and ast.unparse(stmts[0].target) == "(i, tau)"):
            raise Reject("mi kth: expected for i, tau in enumerate(taus)")
        local = None
        for s in stmts[0].body:
            if isinstance(s, ast.AnnAssign) and ast.unparse(s.target) == "k":
                local = cex(s.value)
            elif isinstance(s, ast.Assign) and ast.unparse(s.targets[0]) in ("A_re[:, i + 1]", "A_im[:, i + 1]"):
                v = s.value
                if local is not None and isinstance(v, ast.Attribute) and ast.unparse(v.value) == "k":
                    e = "(%s %s)" % ("Re" if v.attr == "real" else "Im", local)
                else:
                    e = rex(v)
                res[(key, ast.unparse(s.targets[0])[2:4])] = e
            else:
                raise Reject("mi kth: unexpected statement " + ast.unparse(s))
    if set(res) != {("Y", "re"), ("Y", "im"), ("Z", "re"), ("Z", "im")}:
        raise Reject("mi kth: missing column assignment")
    out.append("Definition mi_kth_offset : nat := 1.")
    for part in ("re", "im"):
        out.append("Definition mi_col_K_%s (admittance : bool) (w tau : R) : R := if admittance then %s else %s." % (part, res[("Y", part)], res[("Z", part)]))
    b = body_wo_ann(find(tree, "_scale_A_matrices"))
    if not (len(b) == 1 and isinstance(b[0], ast.For) and ast.unparse(b[0].iter) == "range(A_re.shape[1])" and
            [ast.unparse(s) for s in b[0].body] == ["A_re[:, i] /= abs_X_exp", "A_im[:, i] /= abs_X_exp"]):
        raise Reject("mi scaling: unexpected body")
    out.append("Definition mi_scale (a abs_X_exp : R) : R := a / abs_X_exp.")
    # the order of the steps in _generate_A_matrices: scaling must come last
    b = body_wo_ann(find(tree, "_generate_A_matrices"))
    calls = [s.value.func.id for s in b if isinstance(s, ast.Expr) and isinstance(s.value, ast.Call)] + \
            [s.body[0].value.func.id for s in b if isinstance(s, ast.If)]
    seq = []
    for s in b:
        if isinstance(s, ast.Expr) and isinstance(s.value, ast.Call):
            seq.append(s.value.func.id)
        elif isinstance(s, ast.If):
            if ast.unparse(s.test) != "add_capacitance" or len(s.body) != 1:
                raise Reject("mi: unexpected conditional in _generate_A_matrices")
            seq.append(s.body[0].value.func.id)
    if seq != ["_add_resistance_to_A_matrix", "_add_capacitance_to_A_matrix", "_add_inductance_to_A_matrix", "_add_kth_variables_to_A_matrices", "_scale_A_matrices"]:
        raise Reject("mi: unexpected step order %s" % seq)
    # right-hand sides
    src = {n: ast.unparse(find(tree, n)) for n in ("_real_test", "_imaginary_test", "_complex_test", "_test_wrapper")}
    for need, where in (("pinv(A_re).dot(X_exp.real / abs_X_exp)", "_real_test"), ("pinv(A_im).dot(X_exp.imag / abs_X_exp)", "_imaginary_test"),
                        ("inv(A_re.T.dot(A_re) + A_im.T.dot(A_im))", "_complex_test"),
                        ("A_re.T.dot(X_exp.real / abs_X_exp) + A_im.T.dot(X_exp.imag / abs_X_exp)", "_complex_test"),
                        ("abs_X_exp: NDArray[float64] = abs(X_exp)", "_complex_test"), ("abs_X_exp: NDArray[float64] = abs(X_exp)", "_real_test"),
                        ("abs_X_exp: NDArray[float64] = abs(X_exp)", "_imaginary_test"),
                        ("X_exp: NDArray[complex128] = Z_exp ** (-1 if admittance else 1)", "_test_wrapper"),
                        ("_generate_A_matrices(w, taus, add_capacitance, admittance, abs(X_exp))", "_test_wrapper"),
                        ("coefs: NDArray[float64] = pinv(A_im).dot((X_exp.imag - X_fit.imag) / abs_X_exp)", "_real_test"),
                        ("variables[0] = array_sum(weight * (X_exp.real - X_fit.real)) / array_sum(weight)", "_imaginary_test")):
        if need not in src[where]:
            raise Reject("mi %s: expected `%s`" % (where, need))
    out.append("Definition mi_b_re (X_exp : C) : R := %s." % rex(ast.parse("X_exp.real / abs(X_exp)", mode="eval").body))
    out.append("Definition mi_b_im (X_exp : C) : R := %s." % rex(ast.parse("X_exp.imag / abs(X_exp)", mode="eval").body))
    # second stage of the real test
    fn = find(tree, "_real_test")
    got = {}
    for s in ast.walk(fn):
        if isinstance(s, ast.Assign) and ast.unparse(s.targets[0]) in ("A_im[:, -1]", "A_im[:, -2]"):
            got[ast.unparse(s.targets[0])] = rex(s.value)
    if set(got) != {"A_im[:, -1]", "A_im[:, -2]"}:
        raise Reject("mi _real_test: second-stage columns not found")
    out.append("Definition mi_real2_col_C (admittance : bool) (w : R) : R := %s." % got["A_im[:, -2]"])
    out.append("Definition mi_real2_col_L (admittance : bool) (w : R) : R := %s." % got["A_im[:, -1]"])


def gen_util(tree, out):
    fn = find(tree, "_generate_time_constants")
    b = [s for s in body_wo_ann(fn) if not isinstance(s, ast.If)]
    expect_dump(b[0], "F_ext: float = 10 ** log_F_ext", "F_ext")
    expect_dump(b[2 - 1], "tau_min: float64 = 1 / (max(w) * F_ext)", "tau_min")
    expect_dump(b[2], "tau_max: float64 = F_ext / min(w)", "tau_max")
    expect_dump(b[3], "k: NDArray[int64] = array(list(range(1, num_RC + 1)))", "k range")
    ret = b[4]
    if not isinstance(ret, ast.Return):
        raise Reject("_generate_time_constants: expected return")
    out.append("Definition kk_F_ext (log_F_ext : R) : R := %s." % rex(b[0].value))
    out.append("Definition kk_tau_min (w_max F_ext : R) : R := %s." % rex(b[1].value))
    out.append("Definition kk_tau_max (w_min F_ext : R) : R := %s." % rex(b[2].value))
    out.append("(* k ranges over 1..num_RC *)")
    out.append("Definition kk_tau (tau_min tau_max num_RC k : R) : R := %s." % rex(ret.value))
    fn = find(tree, "_boukamp_weight")
    b = body_wo_ann(fn)
    if not (isinstance(b[0], ast.If) and ast.unparse(b[0].test) == "admittance"):
        raise Reject("_boukamp_weight: expected if admittance")
    expect_dump(b[0].body[0], "Y: NDArray[complex128] = 1 / Z", "_boukamp_weight Y")
    ry = ast.unparse(b[0].body[1].value).replace("Y.", "(1 / Z).")
    out.append("Definition kk_weight (admittance : bool) (Z : C) : R := if admittance then %s else %s." %
               (rex(ast.parse(ry, mode="eval").body), rex(b[1].value)))
    for name in ("_estimate_pseudo_chisqr", "_estimate_pct_noise"):
        fn = find(tree, name)
        r = body_wo_ann(fn)[-1]
        src = ast.unparse(r.value)
        out.append("(* %s: %s *)" % (name, src))
    expect_dump(body_wo_ann(find(tree, "_estimate_pseudo_chisqr"))[-1], "return len(Z) * pct_noise ** 2 / 5000", "_estimate_pseudo_chisqr")
    expect_dump(body_wo_ann(find(tree, "_estimate_pct_noise"))[-1], "return sqrt(5000 * pseudo_chisqr / len(Z))", "_estimate_pct_noise")
    out.append("Definition kk_estimate_chisqr (n pct_noise : R) : R := n * (pct_noise * pct_noise) / 5000.")
    out.append("Definition kk_estimate_pct_noise (n pseudo_chisqr : R) : R := sqrt (5000 * pseudo_chisqr / n).")
    # the model topology
    src = ast.unparse(find(tree, "_generate_circuit"))
    for need in ("elements.append(Resistor(R=1).set_lower_limits(R=-inf).set_upper_limits(R=inf))", "elements.append(KramersKronigAdmittanceRC(tau=t))",
                 "elements.append(KramersKronigRC(tau=t))", "return Circuit(Parallel(elements))", "return Circuit(Series(elements))"):
        if need not in src:
            raise Reject("_generate_circuit: expected `%s`" % need)


def generate():
    out = ["(* GENERATED by tools/tr_kk.py from /repo/src/pyimpspec/analysis/kramers_kronig — do not edit *)",
           "From Coq Require Import Reals Bool List.", "From Coquelicot Require Import Coquelicot.", "From PV Require Import An.KKBase.",
           "Import ListNotations.", "Open Scope R_scope.", "",
           "Definition log10 (x : R) : R := ln x / ln 10.", "Definition pow10 (y : R) : R := exp (y * ln 10).", ""]
    out.append("(* ---- least_squares.py ---- *)")
    gen_ls(ast.parse(open(os.path.join(KK, "least_squares.py")).read()), out)
    out.append("")
    out.append("(* ---- matrix_inversion.py ---- *)")
    gen_mi(ast.parse(open(os.path.join(KK, "matrix_inversion.py")).read()), out)
    out.append("")
    out.append("(* ---- utility.py ---- *)")
    gen_util(ast.parse(open(os.path.join(KK, "utility.py")).read()), out)
    out.append("")
    out.append("(* ---- mock_data.py: the noise model ---- *)")
    mtree = ast.parse(open(os.path.join(lib.SRC, "pyimpspec", "mock_data.py")).read())
    src = ast.unparse(find(mtree, "_add_noise"))
    for need in ("sd: NDArray[float64] = noise / 100 * abs(Z_ideal)", "Z_noisy.real = rs.normal(0, sd)", "Z_noisy.imag = rs.normal(0, sd)", "Z_noisy += Z_ideal",
                 "rs: RandomState = RandomState(seed=seed)"):
        if need not in src:
            raise Reject("_add_noise: expected `%s`" % need)
    out.append("(* rs.normal(0, sd) is sd times a standard normal draw: a, b stand for the two draws of one point *)")
    out.append("Definition mock_sd (noise abs_Z_ideal : R) : R := noise / 100 * abs_Z_ideal.")
    out.append("Definition mock_noisy_re (Z_re sd a : R) : R := sd * a + Z_re.")
    out.append("Definition mock_noisy_im (Z_im sd b : R) : R := sd * b + Z_im.")
    lib._write_if_changed(os.path.join(lib.COQ, "gen", "KK_gen.v"), "\n".join(out) + "\n")

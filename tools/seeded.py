"""Run the registered check of a property against a seeded change:  python -m tools.seeded <dir> [tier]
Applies <dir>/patch.diff to /repo, runs ./check <prop>, undoes the patch, and reports whether a VIOLATION was raised."""
import json
import os
import subprocess
import sys


def main():
    d = os.path.abspath(sys.argv[1])
    tier = sys.argv[2] if len(sys.argv) > 2 else "quick"
    meta = json.load(open(os.path.join(d, "meta.json")))
    prop = meta["property"]
    props = sys.argv[3].split(",") if len(sys.argv) > 3 else [prop]
    patch = os.path.join(d, "patch.diff")
    st = subprocess.run(["git", "-C", "/repo", "status", "--porcelain"], capture_output=True, text=True).stdout.strip()
    if st:
        print("refusing: /repo has local changes:\n" + st)
        return 2
    subprocess.run(["git", "-C", "/repo", "apply", patch], check=True)
    results = {}
    # evidence written while a seeded change is applied must never be committed: keep the clean files and put them back
    saved = {}
    for p in props:
        ev = os.path.join("/verif", "evidence", p + ".json")
        if os.path.exists(ev):
            saved[ev] = open(ev).read()
    try:
        for p in props:
            r = subprocess.run(["./check", p, "--tier", tier], cwd="/verif", capture_output=True, text=True)
            lines = [l for l in r.stdout.splitlines() if l.startswith("VIOLATION") or l.startswith("KNOWN-FINDING") or l.startswith("[")]
            results[p] = {"exit": r.returncode, "lines": lines[:8]}
            print(p, "exit", r.returncode)
            for l in lines[:8]:
                print("   ", l[:300])
    finally:
        subprocess.run(["git", "-C", "/repo", "checkout", "--", "."], check=True)
        for ev, txt in saved.items():
            with open(ev, "w") as fp:
                fp.write(txt)
    return 0


if __name__ == "__main__":
    sys.exit(main())

"""Shared pieces for the CDC properties (C03, C04, C15, C16, C20): running parse_cdc, mapping outcomes,
random circuit generation through the public API, Gallina literals."""
import math
import random

from tools import lib, tr_classes, circuit_lit

PARSE_ERRORS = ["ParsingError", "InsufficientTokens", "UnexpectedToken", "UnexpectedIdentifier",
                "ExpectedParameterIdentifier", "ExpectedNumericValue", "InvalidNumericValue",
                "ConnectionWithoutElements", "InsufficientElementsInParallelConnection", "InvalidElementSymbol",
                "DuplicateParameterDefinition", "InvalidParameterDefinition", "TooManyParameterDefinitions",
                "InvalidParameterLowerLimit", "InvalidParameterUpperLimit"]
CRASH = {"TypeError": "Err EType", "IndexError": "Crash CIndex", "AttributeError": "Crash CAttr",
         "KeyError": "Crash CKeyMissing", "RecursionError": "Crash CRecursion", "OverflowError": "Crash COverflow",
         "ZeroDivisionError": "Crash CZeroDiv"}

HEADER = """From Coq Require Import ZArith QArith List Bool.
From PV Require Import Base.Num Base.Outcome Circuit.ElemState Circuit.Tree Circuit.Token Circuit.Parser Circuit.Printer Circuit.Canon.
From PV Require Import gen.Classes_gen.
Import ListNotations.
Open Scope N_scope.
"""


def exc_lit(name):
    if name in PARSE_ERRORS:
        return "Err (EParse %d)" % PARSE_ERRORS.index(name)
    if name in ("UnexpectedCharacter", "TokenizingError"):
        return "Err ETokenizing"
    if name == "ValueError":
        return "Err EValue"
    return CRASH.get(name, "Crash (COtherCrash 0)")


def allowed_exc(name):
    return name in PARSE_ERRORS or name in ("UnexpectedCharacter", "TokenizingError", "ValueError")


class Ctx:
    def __init__(self):
        self.rows = tr_classes.class_rows()
        self.idx = circuit_lit.class_index(self.rows)
        self.by_sym = {r["symbol"]: r for r in self.rows}


def parse_observe(s):
    from pyimpspec import parse_cdc
    try:
        return ("ok", parse_cdc(s))
    except RecursionError as e:
        return ("err", "RecursionError")
    except Exception as e:  # noqa
        return ("err", type(e).__name__)


def outcome_lit(ctx, obs):
    if obs[0] == "ok":
        return "(Ok %s)" % circuit_lit.circuit_lit(obs[1], ctx.rows, ctx.idx)
    return "(%s)" % exc_lit(obs[1])


# ---- random circuits through the public API ---------------------------------------------------------
LABEL_ALPHABET = "abcXYZ019 _{}:,=/%.-+()[]!"


def rand_label(rng, printable=True):
    r = rng.random()
    if r < 0.55:
        return ""
    n = rng.randint(1, 6)
    s = "".join(rng.choice(LABEL_ALPHABET) for _ in range(n))
    if printable:
        # what the serialisation can carry: starts with a letter, braces balanced and never closing below zero
        s = rng.choice("abqXZ") + s
        depth = 0
        out = []
        for c in s:
            if c == "{":
                depth += 1
            elif c == "}":
                if depth == 0:
                    continue
                depth -= 1
            out.append(c)
        s = "".join(out) + "}" * depth
    s = s.strip()
    if s and all(ch.isdigit() for ch in s):
        s = "a" + s
    return s


def sig(x, digits):
    if x == 0 or not math.isfinite(x):
        return x
    return float("%.*e" % (digits - 1, x))


def rand_element(ctx, rng, depth, digits=6, containers=True, tweak=True):
    rows = [r for r in ctx.rows if containers or not r["container"]]
    row = rng.choice(rows)
    cls = row["cls"]
    el = cls()
    if tweak:
        for k in row["keys"]:
            lo, hi, v = row["lo"][k], row["hi"][k], row["vals"][k]
            r = rng.random()
            if r < 0.45:
                continue
            # choose new limits and a value inside them
            base = abs(v) if v else 1.0
            if math.isfinite(lo) and math.isfinite(hi) and hi - lo <= 10:
                a, b = sorted([lo + (hi - lo) * rng.random(), lo + (hi - lo) * rng.random()])
                if b - a < 1e-3 * max(abs(b), 1e-3):
                    continue
                x = a + (b - a) * rng.random()
            else:
                scale = 10 ** rng.uniform(-3, 6) if rng.random() < 0.3 else 10 ** rng.uniform(-1, 1)
                a = base * scale * rng.uniform(0.1, 0.5)
                b = base * scale * rng.uniform(2, 10)
                x = base * scale
                if rng.random() < 0.2:
                    a = float("-inf")
                if rng.random() < 0.2:
                    b = float("inf")
                if math.isfinite(lo) and lo >= 0 and a < 0:
                    pass
            a, b, x = sig(a, digits), sig(b, digits), sig(x, digits)
            if not (a < b) or not (a <= x <= b):
                continue
            try:
                el._set_limits({k: a}, {k: b})
                el.set_values(**{k: x})
                if rng.random() < 0.3:
                    el.set_fixed(**{k: rng.random() < 0.5})
            except Exception:
                pass
        el.set_label(rand_label(rng))
    if row["container"] and depth > 0:
        subs = {}
        for k in row["subs"]:
            r = rng.random()
            if r < 0.25:
                continue
            if r < 0.40:
                subs[k] = None
            elif r < 0.5:
                from pyimpspec.circuit.series import Series
                subs[k] = Series([])
            else:
                subs[k] = rand_conn(ctx, rng, depth - 1, top=False, digits=digits)
        # X_1/X_2 open or both short are refused by the impedance code only, not by the syntax
        el.set_subcircuits(**subs)
    return el


SINGLE_PATH_PARALLELS = False      # set by harnesses that build circuits from objects only (the CDC syntax cannot express them)


def rand_conn(ctx, rng, depth, top=True, digits=6, kind=None):
    from pyimpspec.circuit.series import Series
    from pyimpspec.circuit.parallel import Parallel
    kind = kind or rng.choice(["s", "p"])
    n = rng.randint(1 if kind == "s" else 2, 4)
    if kind == "p" and SINGLE_PATH_PARALLELS and rng.random() < 0.15:
        n = 1
    only_nested = depth > 0 and rng.random() < 0.12        # a connection whose direct children are all connections
    items = []
    for _ in range(n):
        if depth > 0 and (only_nested or rng.random() < 0.35):
            items.append(rand_conn(ctx, rng, depth - 1, top=False, digits=digits))
        else:
            items.append(rand_element(ctx, rng, depth, digits=digits, containers=rng.random() < 0.25))
    return Series(items) if kind == "s" else Parallel(items)


def rand_circuit(ctx, rng, depth=2, digits=6):
    from pyimpspec import Circuit
    return Circuit(rand_conn(ctx, rng, depth, digits=digits, kind="s"))


# ---- grammar-directed printer of alternative spellings (the generator is the oracle) ---------------
def num_text(x, rng):
    if x == float("inf") or x == float("-inf"):
        return "inf"
    r = rng.random()
    if float(x).is_integer() and abs(x) < 1e6 and r < 0.4:
        return str(int(x))
    if r < 0.7:
        return repr(float(x)).replace("e+", rng.choice(["e+", "e", "E"]))
    s = "%.17e" % x
    return s.upper() if rng.random() < 0.5 else s


def is_default_param(row, el, k):
    return (el.get_value(k) == row["vals"][k] and el.get_lower_limit(k) == row["lo"][k]
            and el.get_upper_limit(k) == row["hi"][k] and el.is_fixed(k) == row["fx"][k])


def ws(rng, p=0.25):
    return rng.choice([" ", "  ", "\t", "\n"]) if rng.random() < p else ""


def spell_element(ctx, el, rng, pcts):
    from pyimpspec.circuit.base import Container
    row = ctx.rows[ctx.idx[type(el)]]
    parts = []
    keys = list(row["keys"])
    subs = el.get_subcircuits() if isinstance(el, Container) else {}
    items = [("p", k) for k in keys] + [("s", k) for k in subs]
    rng.shuffle(items)
    for kind, k in items:
        if kind == "p":
            if is_default_param(row, el, k) and rng.random() < 0.7:
                continue
            v, lo, hi, fx = el.get_value(k), el.get_lower_limit(k), el.get_upper_limit(k), el.is_fixed(k)
            txt = k + ws(rng) + "=" + ws(rng) + num_text(v, rng) + (rng.choice("Ff") if fx else "")
            lo_def, hi_def = lo == row["lo"][k], hi == row["hi"][k]
            pc = pcts.get((id(el), k))

            def lim(x, which):
                if pc and pc[which] is not None and rng.random() < 0.8:
                    return str(pc[which]) + ws(rng) + "%"
                return num_text(x, rng)
            if lo_def and hi_def and rng.random() < 0.6:
                pass
            elif hi_def and rng.random() < 0.6:
                txt += ws(rng) + "/" + ws(rng) + lim(lo, 0)
            elif lo_def and rng.random() < 0.6:
                txt += ws(rng) + "/" + ws(rng) + "/" + ws(rng) + lim(hi, 1)
            else:
                txt += ws(rng) + "/" + ws(rng) + lim(lo, 0) + ws(rng) + "/" + ws(rng) + lim(hi, 1)
            parts.append(txt)
        else:
            con = subs[k]
            default = row["subdefs"][k]
            same_as_default = (con is None and default is None) or (
                con is not None and default is not None and con.to_string(17) == default.to_string(17))
            if same_as_default and rng.random() < 0.6:
                continue
            if con is None:
                val = rng.choice(["open", "inf"])
            elif len(con.get_elements()) == 0:
                val = rng.choice(["short", "zero"])
            else:
                from pyimpspec.circuit.series import Series
                inner = con._elements
                if isinstance(con, Series) and rng.random() < 0.5 and not (
                        # a bare list must start with an element symbol, and must not be a keyword
                        not hasattr(inner[0], "get_symbol")):
                    val = "".join(spell_node(ctx, x, rng, pcts) for x in inner)
                else:
                    val = spell_conn(ctx, con, rng, pcts)
            parts.append(k + ws(rng) + "=" + ws(rng) + val)
    label = el.get_label()
    if not parts and not label:
        return row["symbol"]
    txt = row["symbol"] + ws(rng, 0.1) + "{" + ws(rng) + ("," + ws(rng)).join(p + ws(rng) for p in parts)
    if label:
        txt += ":" + ws(rng) + label + ws(rng, 0.3)
    return txt + "}"


def spell_node(ctx, x, rng, pcts):
    from pyimpspec.circuit.base import Connection
    if isinstance(x, Connection):
        return spell_conn(ctx, x, rng, pcts)
    return spell_element(ctx, x, rng, pcts) + ws(rng, 0.15)


def spell_conn(ctx, con, rng, pcts):
    from pyimpspec.circuit.series import Series
    o, c = ("[", "]") if isinstance(con, Series) else ("(", ")")
    return o + ws(rng) + "".join(spell_node(ctx, x, rng, pcts) for x in con._elements) + c + ws(rng, 0.15)


def spell_circuit(ctx, circuit, rng, pcts):
    top = circuit._elements
    if rng.random() < 0.5 and len(top._elements) > 0:
        body = "".join(spell_node(ctx, x, rng, pcts) for x in top._elements)   # implicit outer series
    else:
        body = spell_conn(ctx, top, rng, pcts)
    hdr = rng.choice(["", "", "!V=1!", "!v=1!", "!V=1.0!", "! V = 1 !"])
    return ws(rng) + hdr + body + ws(rng)


def apply_percent_limits(ctx, circuit, rng):
    """give some parameters limits that are exact percentages of the value; returns {(id(el), key): (pct_lo, pct_hi)}"""
    pcts = {}
    for el in circuit.generate_element_identifiers(running=True).keys():       # incl. elements inside containers
        row = ctx.rows[ctx.idx[type(el)]]
        for k in row["keys"]:
            v = el.get_value(k)
            if rng.random() < 0.15 and v > 0:
                pl, ph = rng.choice([10, 25, 50, 90]), rng.choice([110, 150, 200, 1000])
                lo, hi = v * pl / 100, v * ph / 100
                if lo < hi:
                    try:
                        el._set_limits({k: lo}, {k: hi})
                        el.set_values(**{k: v})
                        pcts[(id(el), k)] = (pl, ph)
                    except Exception:
                        pass
    return pcts

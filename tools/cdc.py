"""Shared pieces for the CDC properties (C03, C04, C15, C16, C20): running parse_cdc, mapping outcomes,
random circuit generation through the public API, Gallina literals."""
import math
import random

from tools import lib, tr_classes, circuit_lit

PARSE_ERRORS = ["ParsingError", "InsufficientTokens", "UnexpectedToken", "UnexpectedIdentifier",
                "ExpectedParameterIdentifier", "ExpectedNumericValue", "InvalidNumericValue",
                "ConnectionWithoutElements", "InsufficientElementsInParallelConnection", "InvalidElementSymbol",
                "DuplicateParameterDefinition", "InvalidParameterDefinition", "TooManyParameterDefinitions",
                "InvalidParameterLowerLimit", "InvalidParameterUpperLimit"]
CRASH = {"TypeError": "Err EType", "IndexError": "Crash CIndex", "AttributeError": "Crash CAttr",
         "KeyError": "Crash CKeyMissing", "RecursionError": "Crash CRecursion", "OverflowError": "Crash COverflow",
         "ZeroDivisionError": "Crash CZeroDiv"}

HEADER = """From Coq Require Import ZArith QArith List Bool.
From PV Require Import Base.Num Base.Outcome Circuit.ElemState Circuit.Tree Circuit.Token Circuit.Parser Circuit.Printer Circuit.Canon.
From PV Require Import gen.Classes_gen.
Import ListNotations.
Open Scope N_scope.
"""


def exc_lit(name):
    if name in PARSE_ERRORS:
        return "Err (EParse %d)" % PARSE_ERRORS.index(name)
    if name in ("UnexpectedCharacter", "TokenizingError"):
        return "Err ETokenizing"
    if name == "ValueError":
        return "Err EValue"
    return CRASH.get(name, "Crash (COtherCrash 0)")


def allowed_exc(name):
    return name in PARSE_ERRORS or name in ("UnexpectedCharacter", "TokenizingError", "ValueError")


class Ctx:
    def __init__(self):
        self.rows = tr_classes.class_rows()
        self.idx = circuit_lit.class_index(self.rows)
        self.by_sym = {r["symbol"]: r for r in self.rows}


def parse_observe(s):
    from pyimpspec import parse_cdc
    try:
        return ("ok", parse_cdc(s))
    except RecursionError as e:
        return ("err", "RecursionError")
    except Exception as e:  # noqa
        return ("err", type(e).__name__)


def outcome_lit(ctx, obs):
    if obs[0] == "ok":
        return "(Ok %s)" % circuit_lit.circuit_lit(obs[1], ctx.rows, ctx.idx)
    return "(%s)" % exc_lit(obs[1])


# ---- random circuits through the public API ---------------------------------------------------------
LABEL_ALPHABET = "abcXYZ019 _{}:,=/%.-+()[]!"


def rand_label(rng, printable=True):
    r = rng.random()
    if r < 0.55:
        return ""
    n = rng.randint(1, 6)
    s = "".join(rng.choice(LABEL_ALPHABET) for _ in range(n))
    if printable:
        # what the serialisation can carry: starts with a letter, braces balanced and never closing below zero
        s = rng.choice("abqXZ") + s
        depth = 0
        out = []
        for c in s:
            if c == "{":
                depth += 1
            elif c == "}":
                if depth == 0:
                    continue
                depth -= 1
            out.append(c)
        s = "".join(out) + "}" * depth
    s = s.strip()
    if s and all(ch.isdigit() for ch in s):
        s = "a" + s
    return s


def sig(x, digits):
    if x == 0 or not math.isfinite(x):
        return x
    return float("%.*e" % (digits - 1, x))


def rand_element(ctx, rng, depth, digits=6, containers=True, tweak=True):
    rows = [r for r in ctx.rows if containers or not r["container"]]
    row = rng.choice(rows)
    cls = row["cls"]
    el = cls()
    if tweak:
        for k in row["keys"]:
            lo, hi, v = row["lo"][k], row["hi"][k], row["vals"][k]
            r = rng.random()
            if r < 0.45:
                continue
            # choose new limits and a value inside them
            base = abs(v) if v else 1.0
            if math.isfinite(lo) and math.isfinite(hi) and hi - lo <= 10:
                a, b = sorted([lo + (hi - lo) * rng.random(), lo + (hi - lo) * rng.random()])
                if b - a < 1e-3 * max(abs(b), 1e-3):
                    continue
                x = a + (b - a) * rng.random()
            else:
                scale = 10 ** rng.uniform(-3, 6) if rng.random() < 0.3 else 10 ** rng.uniform(-1, 1)
                a = base * scale * rng.uniform(0.1, 0.5)
                b = base * scale * rng.uniform(2, 10)
                x = base * scale
                if rng.random() < 0.2:
                    a = float("-inf")
                if rng.random() < 0.2:
                    b = float("inf")
                if math.isfinite(lo) and lo >= 0 and a < 0:
                    pass
            a, b, x = sig(a, digits), sig(b, digits), sig(x, digits)
            if not (a < b) or not (a <= x <= b):
                continue
            try:
                el._set_limits({k: a}, {k: b})
                el.set_values(**{k: x})
                if rng.random() < 0.3:
                    el.set_fixed(**{k: rng.random() < 0.5})
            except Exception:
                pass
        el.set_label(rand_label(rng))
    if row["container"] and depth > 0:
        subs = {}
        for k in row["subs"]:
            r = rng.random()
            if r < 0.25:
                continue
            if r < 0.40:
                subs[k] = None
            elif r < 0.5:
                from pyimpspec.circuit.series import Series
                subs[k] = Series([])
            else:
                subs[k] = rand_conn(ctx, rng, depth - 1, top=False, digits=digits)
        # X_1/X_2 open or both short are refused by the impedance code only, not by the syntax
        el.set_subcircuits(**subs)
    return el


def rand_conn(ctx, rng, depth, top=True, digits=6, kind=None):
    from pyimpspec.circuit.series import Series
    from pyimpspec.circuit.parallel import Parallel
    kind = kind or rng.choice(["s", "p"])
    n = rng.randint(1 if kind == "s" else 2, 4)
    items = []
    for _ in range(n):
        if depth > 0 and rng.random() < 0.35:
            items.append(rand_conn(ctx, rng, depth - 1, top=False, digits=digits))
        else:
            items.append(rand_element(ctx, rng, depth, digits=digits, containers=rng.random() < 0.25))
    return Series(items) if kind == "s" else Parallel(items)


def rand_circuit(ctx, rng, depth=2, digits=6):
    from pyimpspec import Circuit
    return Circuit(rand_conn(ctx, rng, depth, digits=digits, kind="s"))

"""Shared machinery for /verif checks: Coq build, case shards, evidence, findings, replay.

Everything here runs under /venv/bin/python with PYTHONPATH=/repo/src PYTHONHASHSEED=0
(the `check` entry point re-executes itself to guarantee that)."""
import fcntl
import json
import math
import os
import re
import shutil
import subprocess
import sys
import tempfile
import time
from concurrent.futures import ThreadPoolExecutor
from fractions import Fraction

ROOT = os.path.dirname(os.path.dirname(os.path.abspath(__file__)))
COQ = os.path.join(ROOT, "coq")
REPO = os.environ.get("VERIF_REPO", "/repo")
SRC = os.path.join(REPO, "src")
NPROC = int(os.environ.get("VERIF_NPROC", str(os.cpu_count() or 4)))
COQ_DIRS = ["Base", "Cx", "Circuit", "Data", "KK", "An", "Cli", "gen", "Props"]
COQ_WARN = "-notation-overridden,-deprecated-hint-without-locality,-deprecated-instance-without-locality,-ambiguous-paths,-deprecated-hint-rewrite-without-locality,-deprecated-syntactic-definition"

ALLOWED_AXIOMS = {
    # standard-library axioms (named in the trusted base of every ℝ/ℂ theorem)
    "ClassicalDedekindReals.sig_forall_dec",
    "ClassicalDedekindReals.sig_not_dec",
    "FunctionalExtensionality.functional_extensionality_dep",
    "Classical_Prop.classic",
    "ClassicalEpsilon.constructive_indefinite_description",
    "IndefiniteDescription.constructive_indefinite_description",
    "PropExtensionality.propositional_extensionality",
    "Eqdep.Eq_rect_eq.eq_rect_eq",
    "JMeq.JMeq_eq",
    "ProofIrrelevance.proof_irrelevance",
}


# --------------------------------------------------------------------------------------------
# numbers
def qlit(x):
    """exact Coq literal (Q) of a finite float / int / Fraction"""
    fr = Fraction(x)
    n, d = fr.numerator, fr.denominator
    return "((%d) # %d)" % (n, d)


def xlit(x):
    """Coq literal of type xnum for a Python float"""
    x = float(x)
    if math.isnan(x):
        return "NaN"
    if math.isinf(x):
        return "PInf" if x > 0 else "NInf"
    return "(Fin %s)" % qlit(x)


def nlist(seq):
    return "[" + ";".join("%d" % int(v) for v in seq) + "]%N"


def coqlist(items):
    return "[" + ";\n ".join(items) + "]"


def coqbool(b):
    return "true" if b else "false"


def codepoints(s):
    return nlist([ord(c) for c in s])


# --------------------------------------------------------------------------------------------
# Coq build
class CoqBuildError(Exception):
    def __init__(self, msg, log=""):
        super().__init__(msg)
        self.log = log


def _write_if_changed(path, text):
    old = None
    if os.path.exists(path):
        with open(path) as fp:
            old = fp.read()
    if old != text:
        os.makedirs(os.path.dirname(path), exist_ok=True)
        with open(path, "w") as fp:
            fp.write(text)
        return True
    return False


def coq_files():
    out = []
    for d in COQ_DIRS:
        p = os.path.join(COQ, d)
        if not os.path.isdir(p):
            continue
        for f in sorted(os.listdir(p)):
            if f.endswith(".v") and not f.startswith("cases_") and not f.startswith("."):
                out.append(os.path.join(d, f))
    return out


def write_coqproject():
    lines = ["-Q . PV", "-arg -w -arg " + COQ_WARN] + coq_files()
    _write_if_changed(os.path.join(COQ, "_CoqProject"), "\n".join(lines) + "\n")


class BuildLock:
    def __enter__(self):
        self.fp = open(os.path.join(COQ, ".build.lock"), "w")
        fcntl.flock(self.fp, fcntl.LOCK_EX)
        return self

    def __exit__(self, *a):
        fcntl.flock(self.fp, fcntl.LOCK_UN)
        self.fp.close()


def make(targets=None, timeout=3000, keep_going=True):
    """(re)build the Coq development; returns (ok, log).  Only what changed is rebuilt."""
    with BuildLock():
        write_coqproject()
        mk = os.path.join(COQ, "Makefile")
        proj = os.path.join(COQ, "_CoqProject")
        if (not os.path.exists(mk)) or os.path.getmtime(mk) < os.path.getmtime(proj):
            subprocess.run(["coq_makefile", "-f", "_CoqProject", "-o", "Makefile"], cwd=COQ, check=True,
                           stdout=subprocess.DEVNULL, stderr=subprocess.DEVNULL)
        cmd = ["timeout", str(timeout), "make", "-j%d" % NPROC]
        if keep_going:
            cmd.append("-k")
        if targets:
            cmd += targets
        p = subprocess.run(cmd, cwd=COQ, stdout=subprocess.PIPE, stderr=subprocess.STDOUT, text=True)
        return p.returncode == 0, p.stdout


# generous limits: several checks may run at the same time on a loaded machine; these only guard against hangs
SLOW_TIMEOUT = int(os.environ.get("VERIF_SLOW_TIMEOUT", "3000"))


def vo_ok(vfile):
    """was this .v compiled (its .vo newer than the source)?"""
    v = os.path.join(COQ, vfile)
    vo = v[:-2] + ".vo"
    return os.path.exists(vo) and os.path.getmtime(vo) >= os.path.getmtime(v)


def coqc(path, timeout=300, cwd=None):
    cmd = ["timeout", str(timeout), "coqc", "-Q", COQ, "PV", "-w", COQ_WARN, path]
    p = subprocess.run(cmd, cwd=cwd or os.path.dirname(path), stdout=subprocess.PIPE, stderr=subprocess.STDOUT, text=True)
    return p.returncode, p.stdout


def print_assumptions(props_file):
    """Re-compile Props/<file>.v standalone and return {theorem: [axioms]} from its Print Assumptions."""
    with BuildLock():
        rc, out = coqc(os.path.join(COQ, props_file), timeout=SLOW_TIMEOUT, cwd=COQ)
    if rc != 0:
        raise CoqBuildError("coqc failed on %s" % props_file, out)
    # output blocks: "Closed under the global context" or "Axioms:\n name : type ..."
    blocks = []
    cur = None
    for line in out.splitlines():
        if line.startswith("Closed under the global context"):
            blocks.append([])
            cur = None
        elif line.startswith("Axioms:"):
            cur = []
            blocks.append(cur)
        elif cur is not None:
            m = re.match(r"^([A-Za-z_][A-Za-z0-9_.']*)\s*(:|$)", line)
            if m:
                cur.append(m.group(1))
            elif line and not line[0].isspace():
                cur = None
    return blocks, out


def theorem_names(props_file):
    txt = open(os.path.join(COQ, props_file)).read()
    txt = re.sub(r"\(\*.*?\*\)", "", txt, flags=re.S)
    return re.findall(r"^\s*(?:Theorem|Corollary)\s+([A-Za-z0-9_']+)", txt, flags=re.M)


FORBIDDEN = re.compile(r"\b(Admitted|admit|Axiom|Axioms|Parameter|Parameters|Conjecture|Conjectures|Admit Obligations|Unset Guard Checking|Unset Positivity Checking|Unset Universe Checking|bypass_check|Hypothesis|Hypotheses|Variable|Variables)\b")


def forbidden_scan():
    """grep the development for declared axioms / switched-off checks.
    Variable/Hypothesis are allowed only inside a Section (checked textually)."""
    bad = []
    for f in coq_files():
        txt = open(os.path.join(COQ, f)).read()
        txt = re.sub(r"\(\*.*?\*\)", lambda m: "\n" * m.group(0).count("\n"), txt, flags=re.S)
        depth = 0
        for ln, line in enumerate(txt.splitlines(), 1):
            if re.match(r"^\s*Section\s", line):
                depth += 1
            elif re.match(r"^\s*End\s", line) and depth > 0:
                depth -= 1
            for m in FORBIDDEN.finditer(line):
                w = m.group(1)
                if w in ("Variable", "Variables", "Hypothesis", "Hypotheses") and depth > 0:
                    continue
                bad.append("%s:%d: %s" % (f, ln, w))
    return bad


# --------------------------------------------------------------------------------------------
# case shards evaluated by vm_compute
def run_shards(name, header, shard_bodies, timeout=600):
    """shard_bodies: list of strings, each a complete Gallina fragment that ends by defining
    `result : list Z` (indices that mismatch; property violations are reported as -(index+1)).  Returns list of (rc, parsed list or None, raw)."""
    timeout = max(timeout, SLOW_TIMEOUT)      # a shard takes seconds to a minute; the limit only guards against a hang, also under heavy load
    tmp = tempfile.mkdtemp(prefix="verif_%s_" % name)
    try:
        paths = []
        for i, body in enumerate(shard_bodies):
            p = os.path.join(tmp, "cases_%s_%d.v" % (name, i))
            with open(p, "w") as fp:
                fp.write(header + "\n" + body + "\nEval vm_compute in result.\n")
            paths.append(p)

        def one(p):
            cmd = "ulimit -s unlimited 2>/dev/null; exec timeout %d coqc -Q %s PV -w %s %s" % (timeout, COQ, COQ_WARN, p)
            pr = subprocess.run(["bash", "-c", cmd], cwd=tmp, stdout=subprocess.PIPE, stderr=subprocess.STDOUT, text=True)
            return pr.returncode, pr.stdout

        with ThreadPoolExecutor(max_workers=NPROC) as ex:
            outs = list(ex.map(one, paths))
        res = []
        for rc, out in outs:
            parsed = None
            if rc == 0:
                flat = re.sub(r"\s+", " ", out)
                m = re.search(r"= (\[.*?\]|nil)\s*: list Z", flat)
                if m:
                    body = m.group(1)
                    parsed = [] if body in ("[]", "nil") else [int(x) for x in re.findall(r"-?\d+", body)]
            res.append((rc, parsed, out))
        return res
    finally:
        shutil.rmtree(tmp, ignore_errors=True)


def coq_eval(header, expr, timeout=300, name="eval"):
    """Evaluate one closed Gallina expression with vm_compute and return Coq's printed output."""
    tmp = tempfile.mkdtemp(prefix="verif_%s_" % name)
    try:
        p = os.path.join(tmp, "eval_%s.v" % name)
        with open(p, "w") as fp:
            fp.write(header + "\nEval vm_compute in (" + expr + ").\n")
        cmd = "ulimit -s unlimited 2>/dev/null; exec timeout %d coqc -Q %s PV -w %s %s" % (timeout, COQ, COQ_WARN, p)
        pr = subprocess.run(["bash", "-c", cmd], cwd=tmp, stdout=subprocess.PIPE, stderr=subprocess.STDOUT, text=True)
        return pr.returncode, pr.stdout
    finally:
        shutil.rmtree(tmp, ignore_errors=True)


# --------------------------------------------------------------------------------------------
# findings, replay, evidence
def load_known_findings():
    p = os.path.join(ROOT, "known_findings.json")
    if not os.path.exists(p):
        return {"findings": [], "fixed": []}
    with open(p) as fp:
        return json.load(fp)


def write_replay(prop, name, payload):
    d = os.path.join(ROOT, "replays", prop)
    os.makedirs(d, exist_ok=True)
    p = os.path.join(d, name + ".json")
    with open(p, "w") as fp:
        json.dump(payload, fp, indent=1, default=str)
    return p


class Report:
    """Collects obligations, coverage and violations for one property run and writes evidence."""

    def __init__(self, prop, tier, seed):
        self.prop, self.tier, self.seed = prop, tier, seed
        self.t0 = time.time()
        self.obligations = []       # (name, discharged: bool, detail)
        self.violations = []        # (replay path, suffix)
        self.known = []
        self.coverage = {}
        self.trusted = []
        self.assumptions = []
        self.samples = []
        self.evaluations = 0
        self.distinct = set()
        self.rule = ""
        self.checker_cmd = ""
        self.extra = {}

    def oblige(self, name, ok, detail=""):
        self.obligations.append((name, bool(ok), detail))
        return ok

    def violation(self, replay_name, payload, no_input=False):
        payload = dict(payload)
        payload.setdefault("property", self.prop)
        payload.setdefault("seed", self.seed)
        path = write_replay(self.prop, replay_name, payload)
        self.violations.append((path, " no-failing-input-found" if no_input else ""))

    def known_finding(self, text):
        self.known.append(text)

    def finish(self):
        # an obligation that is not discharged is never silent: if the harness found no failing input for it, the violation
        # names the obligations that no longer check
        if not self.violations and any(not ok for _, ok, _ in self.obligations):
            self.violation("undischarged", {"kind": "broken-obligation",
                                            "obligation": "; ".join(n for n, ok, _ in self.obligations if not ok),
                                            "detail": [[n, d] for n, ok, d in self.obligations if not ok]}, no_input=True)
        wall = time.time() - self.t0
        n_ob = len(self.obligations)
        n_ok = sum(1 for o in self.obligations if o[1])
        cov = {
            "obligations": n_ob,
            "discharged": n_ok,
            "checker_cmd": self.checker_cmd or "coqc (Coq 8.16.1) via ./check %s --tier %s" % (self.prop, self.tier),
            "trusted_base": self.trusted,
            "evaluations": self.evaluations,
            "distinct_nontrivial": len(self.distinct),
            "rule": self.rule,
            "samples": self.samples[:8],
            "obligation_list": [{"name": n, "discharged": ok, "detail": d} for n, ok, d in self.obligations],
            "known_findings_reported": self.known,
        }
        cov.update(self.coverage)
        cov.update(self.extra)
        ev = {
            "property_id": self.prop,
            "tier": self.tier,
            "seed": int(self.seed),
            "level": "proof",
            "coverage": cov,
            "assumptions": self.assumptions,
            "wall_s": round(wall, 2),
            "violations": len(self.violations),
        }
        os.makedirs(os.path.join(ROOT, "evidence"), exist_ok=True)
        with open(os.path.join(ROOT, "evidence", self.prop + ".json"), "w") as fp:
            json.dump(ev, fp, indent=1, default=str)
        for k in self.known:
            print("KNOWN-FINDING: property=%s %s" % (self.prop, k))
        for path, suffix in self.violations:
            print("VIOLATION property=%s replay=%s%s" % (self.prop, path, suffix))
        print("[%s] tier=%s obligations=%d discharged=%d evaluations=%d violations=%d wall=%.1fs" % (
            self.prop, self.tier, n_ob, n_ok, self.evaluations, len(self.violations), wall))
        return 1 if self.violations else 0


def check_props_file(rep, props_file, expect=None):
    """Obligations: every theorem of Props/<file> compiles and depends only on allowed axioms."""
    names = theorem_names(props_file)
    if not vo_ok(props_file):
        for n in names or [props_file]:
            rep.oblige("theorem:" + n, False, "Props file did not compile")
        return False, names, "not compiled"
    try:
        blocks, out = print_assumptions(props_file)
    except CoqBuildError as e:
        for n in names or [props_file]:
            rep.oblige("theorem:" + n, False, "coqc failed: " + e.log[-400:])
        return False, names, e.log
    ok_all = True
    if len(blocks) != len(names):
        rep.oblige("print-assumptions-count:" + props_file, False,
                   "%d theorems but %d Print Assumptions blocks" % (len(names), len(blocks)))
        ok_all = False
    axioms_seen = set()
    for n, b in zip(names, blocks):
        bad = [a for a in b if a not in ALLOWED_AXIOMS]
        axioms_seen.update(b)
        if not rep.oblige("theorem:" + n, not bad, "axioms: " + (", ".join(b) if b else "closed under the global context")):
            ok_all = False
    if expect:
        missing = [n for n in expect if n not in names]
        if missing:
            rep.oblige("expected-theorems:" + props_file, False, "missing: " + ", ".join(missing))
            ok_all = False
    rep.trusted.append("Print Assumptions for %s: %s" % (props_file, ", ".join(sorted(axioms_seen)) if axioms_seen else "closed under the global context"))
    return ok_all, names, out

"""Regenerates the generated parts of DESIGN.md (A4: fixes and known findings; A5: seeded changes) from known_findings.json and
seeded/*/meta.json:  /venv/bin/python tools/design_tables.py"""
import glob
import json
import os

ROOT = os.path.dirname(os.path.dirname(os.path.abspath(__file__)))
WHY = {
    "C03-label-first-char": "the obvious repair (accepting such labels) makes the pinned test `test_invalid_cdcs` fail",
    "C03-label-unbalanced-brace": "needs an escaping convention for labels; not a local change",
    "C03-infinite-value": "needs a decision on how infinite values are spelled in a CDC",
    "C07-cnls-nonlinear-parameter": "needs a re-parametrisation or a linear pre-fit of the CNLS test; not a small patch",
    "C09-real-inv-sentinels": "replacing the absolute sentinels needs a redesign of the two-stage real test of matrix_inversion.py (a `+=` repairs only part of it)",
    "C11-whithend-order-1": "inherent to a first-difference penalty; the repair is an API decision (refuse the setting)",
    "C11-savgol-even-window": "SciPy's documented behaviour for even windows; the repair is an API decision (require odd num_points or pass pos)",
    "C13-nnls-max-iterations": "raised inside scipy.optimize.nnls during the lambda search; catching it changes which lambda is chosen",
}


def main():
    kf = json.load(open(os.path.join(ROOT, "known_findings.json")))
    a4 = ["## A4. Defects found on the pinned tree", "", "### Repaired (`fix:` commits in /repo, each minimal, relevant pinned tests still pass)", ""]
    for f in kf["fixed"]:
        a4.append("* " + f.replace("fixed: ", ""))
    a4 += ["", "### Recorded, not repaired (known findings; the checks print `KNOWN-FINDING` and exit 0 for exactly these)", ""]
    for f in kf["findings"]:
        a4.append("* **%s** (%s): %s  \n  *why not repaired:* %s" % (f["id"], f["property"], f["what"], WHY.get(f["id"], "see text")))
    a4.append("")
    a5 = ["## A5. Seeded changes (written by fresh sub-agents from the property text only) and which check catches them", "",
          "Each directory `seeded/<id>/` holds `patch.diff`, `demo.py` (exit 0 on the unchanged tree, 1 with the patch — re-run here) and",
          "`meta.json`.  Run with `python -m tools.seeded seeded/<id> quick [Cxx,...]` (applies the patch to /repo, runs the checks, undoes it).", "",
          "| id | change | needs | caught by | history |", "|----|--------|-------|-----------|---------|"]
    for d in sorted(glob.glob(os.path.join(ROOT, "seeded", "*", "meta.json"))):
        m = json.load(open(d))
        sid = os.path.basename(os.path.dirname(d))

        def cell(x, n):
            return str(x)[:n].replace("|", "/").replace("\n", " ")
        a5.append("| %s | %s | %s | `%s` | %s |" % (sid, cell(m.get("summary", ""), 260), cell(m.get("needs", ""), 200), m.get("check_cmd", ""), cell(m.get("note", m.get("detected", "")), 400)))
    p = os.path.join(ROOT, "DESIGN.md")
    s = open(p).read()
    for tag, body in (("A4", a4), ("A5", a5)):
        b, e = "<!-- BEGIN GENERATED %s -->" % tag, "<!-- END GENERATED %s -->" % tag
        i, j = s.index(b) + len(b), s.index(e)
        s = s[:i] + "\n" + "\n".join(body) + "\n" + s[j:]
    open(p, "w").write(s)


if __name__ == "__main__":
    main()

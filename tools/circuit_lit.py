"""Python circuit objects -> Gallina literals of Circuit/Tree.v types (node, conn), and plain-JSON canonical forms."""
from tools import lib


def class_index(rows):
    return {r["cls"]: i for i, r in enumerate(rows)}


def elt_lit(el, row):
    v, lo, hi, fx = el.get_values(), el.get_lower_limits(), el.get_upper_limits(), el.are_fixed()
    ps = []
    for i, k in enumerate(row["keys"]):
        ps.append("(%d%%N, mkP %s %s %s %s)" % (i, lib.xlit(v[k]), lib.xlit(lo[k]), lib.xlit(hi[k]), lib.coqbool(fx[k])))
    return "(mkE %s [%s])" % (lib.codepoints(el.get_label()), ";".join(ps))


def node_lit(obj, rows, idx):
    from pyimpspec.circuit.base import Connection, Container, Element
    from pyimpspec.circuit.series import Series
    from pyimpspec.circuit.parallel import Parallel
    if isinstance(obj, Connection):
        return "(NC %s)" % conn_lit(obj, rows, idx)
    if isinstance(obj, Element):
        ci = idx[type(obj)]
        row = rows[ci]
        subs = []
        if isinstance(obj, Container):
            sc = obj.get_subcircuits()
            for k in row["subs"]:
                c = sc[k]
                subs.append("None" if c is None else "(Some %s)" % conn_lit(c, rows, idx))
        return "(NE %d %s [%s])" % (ci, elt_lit(obj, row), ";".join(subs))
    raise TypeError(type(obj))


def conn_lit(con, rows, idx):
    from pyimpspec.circuit.series import Series
    from pyimpspec.circuit.parallel import Parallel
    items = ";".join(node_lit(x, rows, idx) for x in con._elements)
    if isinstance(con, Series):
        return "(Ser [%s])" % items
    if isinstance(con, Parallel):
        return "(Par [%s])" % items
    raise TypeError(type(con))


def circuit_lit(circuit, rows, idx):
    return conn_lit(circuit._elements, rows, idx)

"""Tie 1: regenerate coq/gen/*.v from /repo's working tree.  Each translator is fail-closed:
on any construct outside its whitelist it raises and the owning property reports a broken obligation."""
import importlib
import os
import traceback

from tools import lib

TRANSLATORS = ["tr_classes", "tr_elements", "tr_steps", "tr_formulas", "tr_kk", "tr_columns", "tr_zhit", "tr_drt", "tr_tlm", "tr_suggest", "tr_progress", "tr_pool", "tr_dataaccess", "tr_kksteps", "tr_assembly"]


def regenerate_all():
    errors = {}
    os.makedirs(os.path.join(lib.COQ, "gen"), exist_ok=True)
    for name in TRANSLATORS:
        try:
            mod = importlib.import_module("tools." + name)
            mod.generate()
        except Exception:
            errors[name] = traceback.format_exc()
            # leave a stub that fails to compile so that dependent theorems are not silently re-used
            stub = getattr(importlib.import_module("tools." + name), "OUTPUTS", [])
            for out in stub:
                lib._write_if_changed(os.path.join(lib.COQ, "gen", out),
                                      "(* translator %s failed *)\nDefinition translator_failed : False := I.\n" % name)
    return errors

"""Writers for the documented file conventions (C06): delimited tables in every header/sign/separator/decimal/order/sweep
convention and the simple instrument layouts.  Numbers are written with 12 significant digits."""
import math

ALIASES = {
    "frequency": ["frequency", "freq", "f"],
    "imaginary": ['z"', "z''", "z im", "z_im", "zim", "imaginary", "imag", "im"],
    "real": ["z'", "z re", "z_re", "zre", "real", "re"],
    "magnitude": ["|z|", "z", "magnitude", "modulus", "mag", "mod"],
    "phase": ["phase", "phz", "phi"],
}
CLI_HEADERS = ["f (Hz)", "Re(Z) (ohm)", "Im(Z) (ohm)", "Mod(Z) (ohm)", "Phase(Z) (deg.)"]
SUFFIXES = ["", " (unit)", "(unit)", "/unit", " /unit"]
SEPARATORS = [",", "\t", ";", " "]


def num(x, decimal="."):
    s = "%.11e" % x
    return s.replace(".", decimal) if decimal != "." else s


def recase(s, case):
    return {"lower": s.lower(), "upper": s.upper(), "title": s.title()}[case]


def round12(x):
    return float("%.11e" % x)


def table_text(sweeps, conv):
    """sweeps: list of (f list, Z list); conv: dict(alias_f, alias_a, alias_b, case, suffix, neg_a, neg_b, polar, sep, decimal, marker, extra)
    returns (text, expected list of (f, Z) with values as they will be read back)"""
    sep, dec = conv["sep"], conv["decimal"]
    sfx = conv["suffix"]
    if sep in (" ", ";"):
        # the detection contract: space- or semicolon-separated files use space-free headers
        sfx = sfx.replace(" ", "")
        assert " " not in conv["alias_a"] + conv["alias_b"] + conv["alias_f"]
    if sep == "," and "," in sfx:
        sfx = ""
    mk = conv.get("marker", "-")
    ha = (mk if conv["neg_a"] else "") + recase(conv["alias_a"], conv["case"]) + sfx
    hb = (mk if conv["neg_b"] else "") + recase(conv["alias_b"], conv["case"]) + sfx
    hf = recase(conv["alias_f"], conv["case"]) + sfx
    cols = [hf, ha, hb]
    order = conv.get("column_order", [0, 1, 2])
    lines = [sep.join(cols[i] for i in order)]
    expected = []
    for f, Z in sweeps:
        ef, eZ = [], []
        for fi, zi in zip(f, Z):
            if conv["polar"]:
                a = abs(zi)
                b = math.degrees(math.atan2(zi.imag, zi.real))
            else:
                a, b = zi.real, zi.imag
            a_w = -a if conv["neg_a"] else a
            b_w = -b if conv["neg_b"] else b
            vals = [num(fi, dec), num(a_w, dec), num(b_w, dec)]
            lines.append(sep.join(vals[i] for i in order))
            fa, aa, bb = round12(fi), round12(a_w), round12(b_w)
            aa = -aa if conv["neg_a"] else aa
            bb = -bb if conv["neg_b"] else bb
            ef.append(fa)
            if conv["polar"]:
                eZ.append(complex(aa * math.cos(math.radians(bb)), aa * math.sin(math.radians(bb))))
            else:
                eZ.append(complex(aa, bb))
        expected.append((ef, eZ))
    return "\n".join(lines) + "\n", expected


def _exp(f, Z, negate_im):
    ef = [round12(x) for x in f]
    if negate_im:
        eZ = [complex(round12(z.real), -round12(-z.imag)) for z in Z]
    else:
        eZ = [complex(round12(z.real), round12(z.imag)) for z in Z]
    return ef, eZ


def mpt_text(sweeps):
    lines = ["EC-Lab ASCII FILE", "Nb header lines : 5", "", "some metadata", "",
             "freq/Hz\tRe(Z)/Ohm\t-Im(Z)/Ohm\t|Z|/Ohm\tPhase(Z)/deg\ttime/s"]
    exp = []
    for f, Z in sweeps:
        for fi, zi in zip(f, Z):
            lines.append("\t".join([num(fi), num(zi.real), num(-zi.imag), num(abs(zi)), num(math.degrees(math.atan2(zi.imag, zi.real))), num(0.0)]))
        exp.append(_exp(f, Z, True))
    return "\n".join(lines) + "\n", exp


def i2b_text(f, Z):
    lines = ["Some metadata", "can be stored", "here in the first", "few lines", "", str(len(f))]
    for fi, zi in zip(f, Z):
        lines.append(" ".join([num(fi), num(zi.real), num(zi.imag)]))
    return "\n".join(lines) + "\n", [_exp(f, Z, False)]


def p00_text(f, Z):
    lines = ["Procedure : Some title", "DD.MM.YYYY HH:MM:SS", "Description", "t =  736.4 s",
             " f/Hz       \t Z'/Ohm     \t -Z''/Ohm   \t time/s    \t Edc/V     \t Idc/A     \t", " %d " % len(f)]
    for fi, zi in zip(f, Z):
        lines.append(" " + "\t ".join([num(fi), num(zi.real), num(-zi.imag), num(59.3), num(0.3), num(1.8e-7)]) + "\t")
    return "\n".join(lines) + "\n", [_exp(f, Z, True)]


def dfr_text(f, Z):
    lines = ["VERSION8.0", " %d" % len(f), " 1"]
    for fi, zi in zip(f, Z):
        lines += [" " + num(fi), " " + num(zi.real), " " + num(-zi.imag)] + [" 0.0"] * 6
    return "\n".join(lines) + "\n", [_exp(f, Z, True)]


def dta_text(f, Z, decimal=","):
    lines = ["EXPLAIN", "TAG\tEISPOT", "TITLE\tLABEL\tPotentiostatic EIS\tTest &Identifier", "DRIFTCOR\tSELECTOR\t0\t&Drift Correction",
             "ZCURVE\tTABLE", "\tPt\tTime\tFreq\tZreal\tZimag\tZsig\tZmod\tZphz\tIdc\tVdc\tIERange", "\t#\ts\tHz\tohm\tohm\tV\tohm\t\xb0\tA\tV\t#"]
    for i, (fi, zi) in enumerate(zip(f, Z)):
        lines.append("\t" + "\t".join([str(i), str(2 * i), num(fi, decimal), num(zi.real, decimal), num(zi.imag, decimal), "1", num(abs(zi), decimal),
                                        num(math.degrees(math.atan2(zi.imag, zi.real)), decimal), num(8e-8, decimal), num(-4.5e-5, decimal), "8"]))
    return "\n".join(lines) + "\n", [_exp(f, Z, False)]


def z_text(f, Z):
    lines = ["ZPLOT2 ASCII", "  Measured Data, Software:    1.0.0", "  Freq(Hz)\tAmpl\tBias\tTime(Sec)\tZ'(a)\tZ''(b)\tGD\tErr\tRange", "End Comments"]
    for fi, zi in zip(f, Z):
        lines.append("\t".join([num(fi), num(0.0), num(0.0), num(0.0), num(zi.real), num(zi.imag), num(0.0), "0", "0"]))
    return "\n".join(lines) + "\n", [_exp(f, Z, False)]


LAYOUTS = {".mpt": lambda s: mpt_text(s), ".i2b": lambda s: i2b_text(*s[0]), ".P00": lambda s: p00_text(*s[0]), ".dfr": lambda s: dfr_text(*s[0]),
           ".dta": lambda s: dta_text(*s[0]), ".z": lambda s: z_text(*s[0])}

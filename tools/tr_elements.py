"""Tie 1 for C02: translate every registered element's `_impedance` body and `_equation` string into
Gallina over Coquelicot's C (one file gen/El_<symbol>.v per class, each with its lemma
`<symbol>_impl_eq_eqn`).  Fail-closed: anything outside the whitelist raises TranslatorReject and the
class's file becomes a stub that does not compile."""
import ast
import inspect
import os
import textwrap
from fractions import Fraction

from tools import lib

OUTPUTS = []  # per-class files are handled individually (a reject only breaks that class)

FUNCS = {"sqrt": "s_sqrt S", "coth": "s_coth S", "tanh": "s_tanh S", "cosh": "s_cosh S", "sinh": "s_sinh S",
         "exp": "s_exp S", "log": "s_log S"}


class TranslatorReject(Exception):
    pass


def rej(node, what):
    raise TranslatorReject("line %s: unsupported %s: %s" % (getattr(node, "lineno", "?"), what, ast.dump(node)[:200]))


def const(node, v):
    if isinstance(v, bool):
        rej(node, "boolean constant")
    if isinstance(v, int):
        return "(cz %d)" % v
    if isinstance(v, float):
        fr = Fraction(str(v))   # the decimal literal as written, never its binary approximation
        if fr.denominator == 1:
            return "(cz %d)" % fr.numerator
        return "(cq %d %d)" % (fr.numerator, fr.denominator)
    if isinstance(v, complex):
        if v.real != 0:
            rej(node, "complex constant with real part")
        im = Fraction(str(v.imag))
        if im == 1:
            return "Ci"
        if im.denominator == 1:
            return "(cz %d * Ci)" % im.numerator
        return "(cq %d %d * Ci)" % (im.numerator, im.denominator)
    rej(node, "constant")


def small_int(node):
    """exponent that is a literal integer (possibly negated)"""
    if isinstance(node, ast.Constant) and isinstance(node.value, int) and not isinstance(node.value, bool):
        return node.value
    if isinstance(node, ast.UnaryOp) and isinstance(node.op, ast.USub):
        v = small_int(node.operand)
        return None if v is None else -v
    return None


def expr(node, env):
    if isinstance(node, ast.Constant):
        return const(node, node.value)
    if isinstance(node, ast.Name):
        if node.id in env:
            return env[node.id]
        if node.id == "pi":
            return "cpi"
        if node.id == "I":
            return "Ci"
        rej(node, "name")
    if isinstance(node, ast.UnaryOp):
        if isinstance(node.op, ast.USub):
            return "(- %s)" % expr(node.operand, env)
        if isinstance(node.op, ast.UAdd):
            return expr(node.operand, env)
        rej(node, "unary operator")
    if isinstance(node, ast.BinOp):
        if isinstance(node.op, ast.Pow):
            n = small_int(node.right)
            b = expr(node.left, env)
            if n == -1:
                return "(/ %s)" % b
            if n == 2:
                return "(%s * %s)" % (b, b)
            if n == 1:
                return b
            if n is not None and n not in (0,):
                pass
            return "(s_cpow S %s %s)" % (b, expr(node.right, env))
        a, b = expr(node.left, env), expr(node.right, env)
        if isinstance(node.op, ast.Add):
            return "(%s + %s)" % (a, b)
        if isinstance(node.op, ast.Sub):
            return "(%s - %s)" % (a, b)
        if isinstance(node.op, ast.Mult):
            return "(%s * %s)" % (a, b)
        if isinstance(node.op, ast.Div):
            return "(%s / %s)" % (a, b)
        rej(node, "binary operator")
    if isinstance(node, ast.Call):
        if isinstance(node.func, ast.Name) and node.func.id in FUNCS and len(node.args) == 1 and not node.keywords:
            return "(%s %s)" % (FUNCS[node.func.id], expr(node.args[0], env))
        if isinstance(node.func, ast.Attribute) and node.func.attr == "astype" and len(node.args) == 1:
            return expr(node.func.value, env)     # dtype cast: dropped
        rej(node, "call")
    rej(node, "expression")


def translate_body(fn, params):
    """fn: ast.FunctionDef of _impedance(self, f, <params>) -> Gallina term (string)"""
    argnames = [a.arg for a in fn.args.args]
    if argnames[:2] != ["self", "f"]:
        raise TranslatorReject("unexpected signature %r" % argnames)
    if fn.args.vararg or fn.args.kwarg or fn.args.kwonlyargs:
        raise TranslatorReject("varargs in signature")
    if sorted(argnames[2:]) != sorted(params):
        raise TranslatorReject("signature parameters %r differ from class parameters %r" % (argnames[2:], params))
    env = {"f": "v_f"}
    for p in params:
        env[p] = "v_" + p
    lets = []
    ret = None
    for st in fn.body:
        if ret is not None:
            rej(st, "statement after return")
        if isinstance(st, ast.Expr) and isinstance(st.value, ast.Constant) and isinstance(st.value.value, str):
            continue
        if isinstance(st, ast.AnnAssign) and isinstance(st.target, ast.Name) and st.value is not None:
            name, val = st.target.id, st.value
        elif isinstance(st, ast.Assign) and len(st.targets) == 1 and isinstance(st.targets[0], ast.Name):
            name, val = st.targets[0].id, st.value
        elif isinstance(st, ast.Return) and st.value is not None:
            ret = expr(st.value, env)
            continue
        else:
            rej(st, "statement")
        if name in ("f",) or name in params:
            rej(st, "re-assignment of an argument")
        t = expr(val, env)
        local = "l_" + name
        lets.append((local, t))
        env[name] = local
    if ret is None:
        raise TranslatorReject("no return")
    out = ret
    for local, t in reversed(lets):
        out = "let %s := %s in\n    %s" % (local, t, out)
    return out


def translate_equation(eq, params):
    src = eq.replace("^", "**")
    try:
        tree = ast.parse(src.strip(), mode="eval")
    except SyntaxError as e:
        raise TranslatorReject("equation does not parse: %s" % e)
    env = {"f": "v_f"}
    for p in params:
        env[p] = "v_" + p
    return expr(tree.body, env), sorted({n.id for n in ast.walk(tree) if isinstance(n, ast.Name)})


HEADER = """(* GENERATED by tools/tr_elements.py from /repo — do not edit.
   class %(cls)s (symbol %(sym)s), file %(file)s
   _equation = %(eq)s *)
From Coq Require Import Reals ZArith.
From Coquelicot Require Import Coquelicot.
From PV Require Import Cx.CFun.
Open Scope C_scope.

"""


def class_file(row):
    cls = row["cls"]
    sym = row["symbol"]
    params = row["keys"]
    src = textwrap.dedent(inspect.getsource(cls._impedance))
    tree = ast.parse(src)
    fn = tree.body[0]
    if not isinstance(fn, ast.FunctionDef) or fn.name != "_impedance":
        raise TranslatorReject("unexpected source for _impedance")
    impl = translate_body(fn, params)
    eqn, names = translate_equation(cls._equation, params)
    allowed = set(params) | {"f", "pi", "I"} | set(FUNCS)
    extra = [n for n in names if n not in allowed]
    if extra:
        raise TranslatorReject("equation mentions unknown names %r" % extra)
    args = " ".join(["v_f"] + ["v_" + p for p in params])
    txt = HEADER % dict(cls=cls.__name__, sym=sym, file=inspect.getsourcefile(cls), eq=cls._equation)
    txt += "\nDefinition %s_impl (S : syms) (%s : C) : C :=\n    %s.\n" % (sym, args, impl)
    txt += "\nDefinition %s_eqn (S : syms) (%s : C) : C :=\n    %s.\n" % (sym, args, eqn)
    txt += "\nLemma %s_impl_eq_eqn : forall (S : syms) (%s : C), %s_impl S %s = %s_eqn S %s.\n" % (sym, args, sym, args, sym, args)
    txt += "Proof. intro S. unfold %s_impl, %s_eqn. Timeout 120 ceq S. Qed.\n" % (sym, sym)
    return txt


def generate():
    """returns {symbol: error or None}; containers are translated by tr_tlm (separately)"""
    from tools import tr_classes
    status = {}
    for row in tr_classes.class_rows():
        if row["container"]:
            continue
        sym = row["symbol"]
        path = os.path.join(lib.COQ, "gen", "El_%s.v" % sym)
        try:
            txt = class_file(row)
            status[sym] = None
        except TranslatorReject as e:
            txt = "(* translator rejected class %s: %s *)\nDefinition translator_rejected : False := I.\n" % (sym, str(e).replace("*)", "* )"))
            status[sym] = str(e)
        lib._write_if_changed(path, txt)
    # remove stale files of classes that no longer exist
    for f in os.listdir(os.path.join(lib.COQ, "gen")):
        if f.startswith("El_") and f.endswith(".v") and f[3:-2] not in status:
            os.remove(os.path.join(lib.COQ, "gen", f))
    generate.status = status
    return status


generate.status = {}

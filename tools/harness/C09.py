"""C09 — Kramers-Kronig verdicts do not depend on units or point order.
Proof: Props/C09.v (An/KK_scale.v) over the design-matrix entries regenerated from the source (tie 1, shared with C07).
Search/support: the real pipeline on noisy spectra, rescaled impedances (powers of two and general factors over 1e-6..1e6),
rescaled frequencies and reversed input order, compared within a conditioning-aware tolerance."""
import json
import math
import random
import warnings

from tools import lib
from tools import kk

PROP = "C09"
PROPS_FILE = "Props/C09.v"
EXPECT = ["C09_ls_zscale", "C09_mi_zscale", "C09_model_zscale", "C09_residuals_scale_invariant", "C09_window_fscale", "C09_tau_fscale",
          "C09_ls_fscale", "C09_mi_rows_fscale", "C09_model_fscale", "C09_ls_order", "C09_mi_order"]
EPS = 2.220446049250313e-16


def kk_run(f, Z, o):
    import pyimpspec
    from pyimpspec import DataSet
    return pyimpspec.perform_kramers_kronig_test(DataSet(f, Z), test=o["test"], num_RC=o["num_RC"], add_capacitance=o["add_capacitance"], add_inductance=o["add_inductance"],
                                                 admittance=o["admittance"], log_F_ext=o["log_F_ext"], num_F_ext_evaluations=0, num_procs=1)


def make_case(rng, test, adm):
    import numpy as np
    from pyimpspec import parse_cdc
    addC = rng.random() < 0.5
    addL = True if test.endswith("-inv") else rng.random() < 0.5
    cdc = "R{R=%r}(R{R=%r}Q{Y=%r,n=0.8})(R{R=%r}C{C=%r})" % (rng.uniform(10, 100), rng.uniform(50, 500), 10 ** rng.uniform(-5, -3), rng.uniform(50, 500), 10 ** rng.uniform(-3, -1))
    ppd = rng.choice([5, 10])
    f = np.logspace(4, -1, 5 * ppd + 1)
    Z = parse_cdc(cdc).get_impedances(f)
    ns = rng.randint(0, 10 ** 6)
    nrs = np.random.RandomState(ns)
    Z = Z * (1 + 0.002 * nrs.normal(size=len(f))) + 0.002j * abs(Z) * nrs.normal(size=len(f))
    o = dict(test=test, admittance=adm, add_capacitance=addC, add_inductance=addL, num_RC=rng.randint(3, 12), log_F_ext=rng.uniform(-0.5, 0.5),
             cdc=cdc, points_per_decade=ppd, noise_seed=ns)
    return f, Z, o


def rebuild(o):
    import numpy as np
    from pyimpspec import parse_cdc
    f = np.logspace(4, -1, 5 * o["points_per_decade"] + 1)
    Z = parse_cdc(o["cdc"]).get_impedances(f)
    nrs = np.random.RandomState(o["noise_seed"])
    Z = Z * (1 + 0.002 * nrs.normal(size=len(f))) + 0.002j * abs(Z) * nrs.normal(size=len(f))
    return f, Z


def expected_params(p0, variant, factor):
    out = []
    for kind, v in p0:
        # K is a resistance in the impedance model and a capacitance in the admittance model: handled by the caller's flag
        out.append((kind, v))
    return out


def sentinel_bound(o, f, Z):
    """matrix_inversion._real_test fixes the capacitance variable at 1e-18 and (admittance) turns a zero inductance variable into
    -1e18 H before its second stage: absolute constants whose contribution relative to |X| is bounded by this number"""
    import numpy as np
    w = 2 * np.pi * f
    X = Z ** (-1 if o["admittance"] else 1)
    colC = w if o["admittance"] else 1 / w
    colL = 1 / w if o["admittance"] else w
    return float(np.max(1e-18 * (colC + colL) / abs(X)))


def compare(o, r0, r1, variant, factor, tol, sentinel=0.0):
    """returns a list of problems"""
    import numpy as np
    probs = []
    d = float(np.max(abs(np.asarray(r1.residuals) - np.asarray(r0.residuals))))
    if d > tol and o["test"] == "real-inv" and d <= 10 * sentinel + tol:
        return [("known", "C09-real-inv-sentinels", d)]
    if d > tol:
        probs.append("relative residuals change by %.3g (tolerance %.3g)" % (d, tol))
    c0, c1 = float(r0.pseudo_chisqr), float(r1.pseudo_chisqr)
    if abs(c1 - c0) > 10 * tol * max(1.0, math.sqrt(abs(c0)) * len(r0.residuals)) :
        probs.append("pseudo chi-squared changes from %.12g to %.12g" % (c0, c1))
    if 1e3 * tol <= 1e-3 and not probs:
        p0, p1 = kk.params_of(r0.circuit), kk.params_of(r1.circuit)
        adm = o["admittance"]
        exp = []
        for kind, v in p0:
            if variant == "z":
                # R, R_k, L scale with k; C, C_k scale with 1/k
                e = v * factor if (kind in ("R", "L") or (kind == "K" and not adm)) else v / factor
            elif variant == "f":
                e = v if (kind == "R" or (kind == "K" and not adm)) else v / factor
            else:
                e = v
            exp.append((kind, e))
        for kind in "RKCL":
            a = [x for k_, x in exp if k_ == kind]
            b = [x for k_, x in p1 if k_ == kind]
            if a and len(a) == len(b):
                m = max(abs(x) for x in a)
                if m > 0 and all(math.isfinite(x) for x in a + b):
                    err = max(abs(x - y) for x, y in zip(a, b)) / m
                    # sentinels (1e18 / 1e-18 / 1e-50) of the matrix-inversion variant do not rescale: ignore absurd magnitudes
                    if err > 1e3 * tol and m < 1e15 and m > 1e-15:
                        probs.append("fitted %s values do not rescale (error %.3g relative to the largest)" % (kind, err))
        if variant == "f":
            t0 = [e.get_value("tau") for e in r0.circuit.get_elements(recursive=True) if "tau" in e.get_values()]
            t1 = [e.get_value("tau") for e in r1.circuit.get_elements(recursive=True) if "tau" in e.get_values()]
            if len(t0) != len(t1) or any(abs(a / factor - b) > 1e-9 * abs(b) for a, b in zip(t0, t1)):
                probs.append("time constants are not divided by the frequency factor")
    return probs


def run_case(rng, f, Z, o, tier):
    import numpy as np
    from pyimpspec.analysis.kramers_kronig.utility import _generate_time_constants
    res = {"problems": [], "judged": False}
    with warnings.catch_warnings():
        warnings.simplefilter("ignore")
        r0 = kk_run(f, Z, o)
        def bound_of(f_, Z_):
            taus_ = _generate_time_constants(2 * np.pi * f_, o["num_RC"], o["log_F_ext"])
            ce_, cr_ = kk.ref_design(o["test"], o["admittance"], o["add_capacitance"], o["add_inductance"], 2 * np.pi * f_, taus_, Z_ ** (-1 if o["admittance"] else 1))
            return ce_ * ce_ if o["test"] == "complex-inv" else cr_
        bound = bound_of(f, Z)
        tol = 1e4 * EPS * bound * (1 + float(np.max(abs(r0.residuals)))) + 1e-10
        res["tolerance"] = tol
        if tol > 1e-3:
            return res
        res["judged"] = True
        # the ends of the stated ranges are always exercised, the interior is sampled
        variants = [("z", 2.0 ** 20), ("z", 2.0 ** -20), ("z", 2.0 ** rng.randint(-20, 20)), ("z", 10 ** rng.uniform(-6, 6)),
                    ("f", 2.0 ** 20), ("f", 2.0 ** -20), ("f", 2.0 ** 10), ("f", 2.0 ** -10), ("f", 2.0 ** rng.randint(-20, 20)), ("f", 10 ** rng.uniform(-6, 6)), ("order", 1.0), ("sweeps", float(rng.randint(2, max(2, len(f) - 2))))]
        for variant, factor in variants:
            sb = sentinel_bound(o, f, Z)
            # the series capacitance / inductance columns (1/w, w) are not rescaled by the implementation, so a frequency factor
            # changes the conditioning of the design matrix: each variant is judged at the worse of the two condition numbers
            tol_v = tol
            if variant == "f" and (o["add_capacitance"] or o["add_inductance"] or o["test"].startswith("real")):
                tol_v = 1e4 * EPS * max(bound, bound_of(factor * f, Z)) * (1 + float(np.max(abs(r0.residuals)))) + 1e-10
                if tol_v > 1e-3:
                    res["variants_not_judged"] = res.get("variants_not_judged", 0) + 1
                    continue
            if variant == "z":
                r1 = kk_run(f, factor * Z, o)
                sb = max(sb, sentinel_bound(o, f, factor * Z))
            elif variant == "f":
                r1 = kk_run(factor * f, Z, o)
                sb = max(sb, sentinel_bound(o, factor * f, Z))
            elif variant == "sweeps":
                # the same points supplied as two concatenated sweeps (neither ascending nor descending): results per point are the same
                k_ = max(1, min(len(f) - 1, int(factor)))
                f2, Z2 = np.concatenate([f[k_:], f[:k_]]), np.concatenate([Z[k_:], Z[:k_]])
                rr = kk_run(f2, Z2, o)
                f1 = np.asarray(rr.get_frequencies())
                idx = [int(np.argmin(abs(f1 - x))) for x in np.asarray(r0.get_frequencies())]

                class _Aligned:
                    residuals = np.asarray(rr.residuals)[idx]
                    pseudo_chisqr = rr.pseudo_chisqr
                    circuit = rr.circuit
                r1 = _Aligned
            else:
                r1 = kk_run(f[::-1].copy(), Z[::-1].copy(), o)
            for p in compare(o, r0, r1, variant, factor, tol_v, sb):
                if isinstance(p, tuple) and p[0] == "known":
                    res.setdefault("known", []).append({"id": p[1], "variant": variant, "factor": factor, "change": p[2]})
                else:
                    res["problems"].append({"variant": variant, "factor": factor, "observed": p})
    return res


def run(rep, tier, seed, tr_errors):
    rng = random.Random(seed)
    rep.rule = ("perform_kramers_kronig_test(num_RC=n, num_F_ext_evaluations=0, log_F_ext=x) on noisy R(RQ)(RC) spectra (26 or 51 points, 0.2 % noise) "
                "for 6 linear tests x {Z,Y} x random add_capacitance/add_inductance x num_RC 3..12 x log_F_ext in [-0.5,0.5]; each compared with the same "
                "run on impedances scaled by 2^m (|m|<=20) and by a factor in 1e-6..1e6, frequencies scaled by 2^m (|m|<=20) and by a factor in "
                "1e-6..1e6, and reversed point order; tolerance 1e4*eps*cond(A)*(1+max|res|); judged when tolerance <= 1e-3; 'cnls' is not "
                "compared (iterative, path dependent); non-trivial = judged base run; distinct by (test, representation, options, spectrum)")
    rep.trusted += ["Coq 8.16.1 kernel; real-number axioms of the standard library (Print Assumptions)", "tools/tr_kk.py, tools/tr_formulas.py",
                    "numpy.linalg solvers return least-squares minimisers (oracle contract); DataSet ordering is C05's subject",
                    "floating point is covered only by the sampled runs"]
    for tr in ("tr_kk", "tr_formulas"):
        rep.oblige("translator:" + tr, tr not in tr_errors, tr_errors.get(tr, "regenerated")[-300:])
    thm_ok, names, out = lib.check_props_file(rep, PROPS_FILE, expect=EXPECT)
    kf = lib.load_known_findings()
    reps = 4 if tier == "quick" else 14
    bad, judged, skipped, stats = [], 0, 0, {}
    for f_ in kf.get("findings", []):          # recorded reproducers run first
        if f_.get("property") == PROP and "reproducer" in f_:
            o_ = dict(f_["reproducer"])
            try:
                import numpy as np
                with warnings.catch_warnings():
                    warnings.simplefilter("ignore")
                    fr, Zr = rebuild(o_)
                    r0_ = kk_run(fr, Zr, o_)
                    r1_ = kk_run(fr, o_["factor"] * Zr, o_)
                    d_ = float(np.max(abs(np.asarray(r1_.residuals) - np.asarray(r0_.residuals))))
                    sb_ = max(sentinel_bound(o_, fr, Zr), sentinel_bound(o_, fr, o_["factor"] * Zr))
                if 1e-8 < d_ <= 10 * sb_ + 1e-8:
                    rep.known.append("%s: %s" % (f_["id"], f_["what"]))
                rep.evaluations += 2
            except Exception:  # noqa
                pass
    for test in kk.TESTS_LS + kk.TESTS_MI:
        for adm in (False, True):
            for _ in range(reps):
                f, Z, o = make_case(rng, test, adm)
                try:
                    res = run_case(rng, f, Z, o, tier)
                except Exception as e:  # noqa
                    bad.append((o, [{"variant": "-", "factor": 1, "observed": "raised %s: %s" % (type(e).__name__, str(e)[:200])}]))
                    continue
                rep.evaluations += 10 if res["judged"] else 1
                key = "%s/%s" % (test, "Y" if adm else "Z")
                st = stats.setdefault(key, {"judged": 0, "ill_conditioned": 0})
                if not res["judged"]:
                    st["ill_conditioned"] += 1
                    skipped += 1
                    continue
                st["judged"] += 1
                judged += 1
                rep.distinct.add(json.dumps([test, adm, o["add_capacitance"], o["add_inductance"], o["num_RC"], o["noise_seed"]]))
                for k_ in res.get("known", []):
                    f_ = next((x for x in kf.get("findings", []) if x["id"] == k_["id"]), None)
                    if f_ is None:
                        res["problems"].append({"variant": k_["variant"], "factor": k_["factor"], "observed": "relative residuals change by %.3g" % k_["change"]})
                    else:
                        msg = "%s: %s" % (f_["id"], f_["what"])
                        if msg not in rep.known:
                            rep.known.append(msg)
                if res["problems"]:
                    bad.append((o, res["problems"]))
    rep.extra["pipeline"] = {"by_test": stats, "judged": judged, "ill_conditioned_not_judged": skipped}
    rep.oblige("pipeline: residuals and chi-squared invariant, parameters rescale", not bad and judged > 0, "%d judged base runs x 11 variants (frequency variants judged at the worse of the two condition numbers), %d not judged, %d with differences" % (judged, skipped, len(bad)))
    for n_, (o, probs) in enumerate(bad[:5]):
        inp = dict(o)
        inp["differences"] = probs[:4]
        rep.violation("scale_%d" % n_, {"kind": "counterexample", "obligation": "invariance under rescaling / reordering", "input": inp})
    if (not thm_ok or "tr_kk" in tr_errors or "tr_formulas" in tr_errors) and not rep.violations:
        rep.violation("theorems", {"kind": "broken-obligation", "obligation": PROPS_FILE, "detail": [o_ for o_ in rep.obligations if not o_[1]]}, no_input=True)


def replay(path):
    d = json.load(open(path))
    print(json.dumps(d, indent=1)[:3000])
    o = d.get("input", {})
    if "cdc" in o:
        f, Z = rebuild(o)
        res = run_case(random.Random(1), f, Z, o, "quick")
        print("replayed:", res)
        return 1 if res["problems"] else 0
    return 0

"""C20 — symbolic, LaTeX and diagram exports exist for every circuit.
Tie 2: coq/Circuit/Ident.v (tikz_components, sym_vars) vs to_circuitikz / to_sympy on generated circuits; existence
(no exception) of to_sympy, to_latex, to_circuitikz, to_drawing is exercised on the implementation."""
import json
import random
import re

from tools import lib, cdc
from tools.harness import C16

PROP = "C20"
PROPS_FILE = "Props/C20.v"
HEADER = C16.HEADER + """
Fixpoint comp_eqb (a b : list (str * str)) : bool :=
  match a, b with [], [] => true
  | (x, u) :: a', (y, v) :: b' => str_eqb x y && str_eqb u v && comp_eqb a' b' | _, _ => false end.
"""

LINE = re.compile(r"to\[([A-Za-z]+)=\$(.*)\$\] \(")


class _Timeout(Exception):
    pass


def with_timeout(seconds, fn):
    """run fn() under SIGALRM; raises _Timeout when it does not return in time"""
    import signal

    def handler(*a):
        raise _Timeout()
    old = signal.signal(signal.SIGALRM, handler)
    signal.alarm(seconds)
    try:
        return fn()
    finally:
        signal.alarm(0)
        signal.signal(signal.SIGALRM, old)


def tikz_observe(circuit, running):
    src = circuit.to_circuitikz(running=running)
    comps = []
    for line in src.splitlines():
        m = LINE.search(line)
        if m:
            comps.append((m.group(1), m.group(2)))
    ok = src.count("\\begin{circuitikz}") == 1 and src.count("\\end{circuitikz}") == 1 and src.strip().endswith("\\end{circuitikz}")
    return comps, ok


def shard_text(cases):
    items = []
    for i, t, running, comps in cases:
        items.append("(%d%%Z, %s, %s, [%s])" % (i, t, lib.coqbool(running), ";".join("(%s, %s)" % (lib.codepoints(a), lib.codepoints(b)) for a, b in comps)))
    return ("Definition cases : list (Z * iconn * bool * list (str * str)) := [\n" + ";\n".join(items) + "].\n"
            "Definition mism := flat_map (fun c : Z * iconn * bool * list (str * str) => let '(i, t, r, o) := c in\n"
            "  if comp_eqb (tikz_components F r t) o then [] else [i]) cases.\n"
            "Definition viol := flat_map (fun c : Z * iconn * bool * list (str * str) => let '(i, t, r, o) := c in\n"
            "  if Nat.eqb (length o) (length (items_conn F t)) then [] else [(- (i + 1))%Z]) cases.\n"
            "Definition result : list Z := mism ++ viol.\n")


def run(rep, tier, seed, tr_errors):
    import numpy as np
    rng = random.Random(seed)
    ctx = cdc.Ctx()
    rep.rule = ("random circuits through the public API incl. single-path parallels built from objects, containers, labels with "
                "arbitrary printable characters; every export is called; non-trivial = >= 3 elements and >= 1 parallel; distinct by structure")
    rep.trusted += ["Coq 8.16.1 kernel, vm_compute", "model coq/Circuit/Ident.v: tikz_components (one line per element of the connections, symbol table, label = symbol_{\\rm label|id}), sym_vars",
                    "to_latex (sympy printer), to_drawing (schemdraw/matplotlib) and the layout coordinates of to_circuitikz are only run for totality (oracles, not modelled)"]
    thm_ok, names, out = lib.check_props_file(rep, PROPS_FILE, expect=["C20_one_component_per_element", "C20_one_variable_per_parameter", "C20_variable_names_distinct_refuted"])
    n = 250 if tier == "quick" else 4000
    cases, direct = [], []
    slow = []      # exports that were abandoned after the time limit (sympy on large containers): not counted either way
    from pyimpspec import Circuit, Resistor, Capacitor
    from pyimpspec.circuit.parallel import Parallel
    from pyimpspec.circuit.series import Series
    specials = [Circuit(Series([Parallel([Resistor()])])), Circuit(Series([Resistor(), Parallel([Series([Resistor(), Capacitor()])])])),
                Circuit(Series([Parallel([Parallel([Resistor(), Capacitor()])])])), Circuit(Series([]))]
    cdc.SINGLE_PATH_PARALLELS = True
    specials.append(Circuit(Series([Resistor(), Parallel([Capacitor()]), Resistor()])))
    # recorded finding (reproducer runs first): two different (element, parameter) pairs whose names key_label coincide
    kf = lib.load_known_findings()
    for f_ in kf.get("findings", []):
        if f_.get("property") == PROP and "reproducer" in f_:
            try:
                from pyimpspec import parse_cdc as _p
                c_ = _p(f_["reproducer"]["cdc"])
                nv = len([s_ for s_ in c_.to_sympy().free_symbols if str(s_) != "f"])
                if nv < sum(len(e_.get_values()) for e_ in c_.get_elements(recursive=True)):
                    rep.known_finding("%s: %s" % (f_["id"], f_["what"]))
                rep.evaluations += 1
            except Exception:  # noqa
                pass
    for i in range(n):
        c = specials[i] if i < len(specials) else cdc.rand_circuit(ctx, rng, depth=rng.randint(0, 3))
        if rng.random() < 0.4:
            # a label that turns one parameter's variable name into another's key (Y + "_B" = Y_B)
            for el in c.get_elements(recursive=True):
                keys = list(el.get_values().keys())
                sfx = [k2[len(k1) + 1:] for k1 in keys for k2 in keys if k2.startswith(k1 + "_")]
                if sfx and rng.random() < 0.7:
                    el.set_label(rng.choice(sfx))
        uids = {}
        t = C16.build_lit(c._elements, uids, ctx)
        simulated = True
        try:
            with np.errstate(all="ignore"):
                with_timeout(30, lambda: c.get_impedances(np.array([1.0, 100.0])))
        except Exception:
            simulated = False
        probs = []
        running = rng.random() < 0.5
        try:
            comps, ok = with_timeout(30, lambda: tikz_observe(c, running))
            if not ok:
                probs.append("begin/end structure of the CircuiTikZ source is not balanced")
            cases.append((i, t, running, comps))
        except _Timeout:
            slow.append("circuitikz")
        except Exception as e:  # noqa
            probs.append("to_circuitikz raised %s: %s" % (type(e).__name__, str(e)[:80]))
        if simulated:
            n_params = sum(len(el.get_values()) for _, el in uids.values())
            try:
                e0 = with_timeout(60, lambda: c.to_sympy())
                free = sorted(str(s) for s in e0.free_symbols)
                labels = [el.get_label() for _, el in uids.values()]
                if len(set(l for l in labels if l)) == len([l for l in labels if l]):
                    # one variable per parameter (a parameter of an element in an unused position may cancel; at most)
                    if len([s for s in free if s != "f"]) > n_params:
                        probs.append("more symbolic variables (%d) than parameters (%d)" % (len(free) - 1, n_params))
                # element by element: renaming the parameters to key_<label|id> neither merges nor loses a variable
                from pyimpspec.circuit.base import Container
                import copy as _copy
                for j, (_, el) in enumerate(uids.values()):
                    if isinstance(el, Container):
                        continue
                    plain = _copy.deepcopy(el)
                    plain.set_label("")
                    base = set(str(s_) for s_ in plain.to_sympy().free_symbols) - {"f"}
                    want = set("%s_%s" % (k, el.get_label() if el.get_label() else j) for k in base)
                    got = set(str(s_) for s_ in el.to_sympy(identifier=j).free_symbols) - {"f"}
                    if got != want:
                        probs.append("element %s: variables %s instead of %s" % (el.to_string(), sorted(got), sorted(want)))
                        break
                e1 = with_timeout(60, lambda: c.to_sympy(substitute=True))
                if not set(str(s) for s in e1.free_symbols) <= {"f"}:
                    probs.append("substituted expression still has variables %s" % sorted(map(str, e1.free_symbols)))
                if rng.random() < 0.3:
                    if not isinstance(with_timeout(60, lambda: c.to_latex()), str):
                        probs.append("to_latex did not return a string")
            except _Timeout:
                slow.append("symbolic")
            except Exception as e:  # noqa
                probs.append("symbolic export raised %s: %s" % (type(e).__name__, str(e)[:80]))
            if rng.random() < (0.08 if tier == "quick" else 0.2):
                try:
                    with_timeout(60, lambda: c.to_drawing())
                    import matplotlib.pyplot as plt
                    plt.close("all")
                except _Timeout:
                    slow.append("drawing")
                except Exception as e:  # noqa
                    probs.append("to_drawing raised %s: %s" % (type(e).__name__, str(e)[:80]))
        if probs:
            direct.append((c.to_string(), probs))
        rep.evaluations += 1
        if len(uids) >= 3 and "(" in c.to_string():
            rep.distinct.add(t)
    cdc.SINGLE_PATH_PARALLELS = False
    rep.extra["exports_abandoned_after_time_limit"] = len(slow)
    rep.samples = [{"circuit": c[1][:200], "components": c[3][:6]} for c in cases[4:6]]
    shards = [cases[j:j + 100] for j in range(0, len(cases), 100)]
    outs = lib.run_shards(PROP, HEADER, [shard_text(sh) for sh in shards])
    mism, viol, broken = [], [], []
    for si, (rc, parsed, raw) in enumerate(outs):
        if rc != 0 or parsed is None:
            broken.append((si, raw[-800:]))
            continue
        for j in parsed:
            (viol if j < 0 else mism).append(-j - 1 if j < 0 else j)
    rep.oblige("correspondence:tikz_components-vs-to_circuitikz", not mism and not broken, "%d cases, %d mismatches, %d shards failed" % (len(cases), len(mism), len(broken)))
    rep.oblige("one-component-per-element-on-observed-source", not viol, "%d cases" % len(viol))
    rep.oblige("exports-exist-and-variables-consistent", not direct, "%d failures" % len(direct))
    by = {c[0]: c for c in cases}
    for j in sorted(set(viol))[:3]:
        rep.violation("counterexample_%d" % j, {"kind": "counterexample", "obligation": "one CircuiTikZ component per element", "input": {"circuit": by[j][1][:1500], "components": by[j][3]}})
    for what, pr in direct[:3]:
        rep.violation("direct_%d" % (abs(hash(what)) % 100000), {"kind": "counterexample", "obligation": "exports exist", "input": {"circuit": what, "problems": pr}})
    if not viol and not direct:
        for j in sorted(set(mism))[:3]:
            # the component-line model IS the specification of this clause ("one component per element ... named as the circuit
            # names it": symbol_{label|identifier}, Ident.v, the naming proved injective in C16): an observed component list that
            # differs from it is a failing input of the property, reported with the circuit as replay
            rep.violation("components_%d" % j, {"kind": "counterexample", "obligation": "CircuiTikZ components named as the circuit names its elements (model tikz_components)", "input": {"circuit": by[j][1][:1500], "components": by[j][3]}})
        for si, raw in broken[:2]:
            rep.violation("shard_%d" % si, {"kind": "broken-obligation", "obligation": "cases shard did not evaluate", "log": raw}, no_input=True)
    if not thm_ok and not rep.violations:
        rep.violation("theorems", {"kind": "broken-obligation", "obligation": PROPS_FILE, "detail": [o for o in rep.obligations if not o[1]]}, no_input=True)


def replay(path):
    print(open(path).read()[:3000])
    return 0

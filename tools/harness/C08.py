"""C08 — every analysis result is internally consistent with the data it came from.
Proof part: Props/C08.v over formulas translated from analysis/utility.py (tie 1).  The consistency of each entry point's result
object with its input (frequencies = unmasked frequencies, residuals, pseudo chi-squared, attached circuit, masked points
irrelevant, inputs untouched) is checked on the implementation for sampled options and data sets."""
import copy
import json
import random

from tools import lib

PROP = "C08"
PROPS_FILE = "Props/C08.v"


def make_data(rng, n, masked_frac, ascending, garbage_seed, negative=False):
    import numpy as np
    from pyimpspec import DataSet, parse_cdc
    f = np.logspace(4.5, -1.5, n)
    circuit = parse_cdc("R{R=-150}(R{R=100}C{C=1e-4})(R{R=300}Q{Y=1e-3,n=0.8})" if negative else "R{R=50}(R{R=200}C{C=2e-5})(R{R=400}Q{Y=2e-3,n=0.85})")
    Z = circuit.get_impedances(f)
    rs = np.random.RandomState(1234)
    Z = Z * (1 + 0.001 * rs.normal(size=n)) + 1j * 0.001 * abs(Z) * rs.normal(size=n)
    mask_idx = sorted(rng.sample(range(n), int(masked_frac * n)))
    g = np.random.RandomState(garbage_seed)
    Zg = Z.copy()
    for i in mask_idx:
        Zg[i] = complex(g.choice([np.nan, np.inf, 1e12, -5.0, 0.0]), g.normal() * 1e6)
    mask = {i: True for i in mask_idx}
    if ascending:
        return DataSet(f[::-1].copy(), Zg[::-1].copy(), mask={n - 1 - i: True for i in mask_idx}, label="asc")
    return DataSet(f.copy(), Zg.copy(), mask=dict(mask), label="desc")


def check_result(res, data, name, tol=1e-9):
    import numpy as np
    probs = []
    f = data.get_frequencies()
    Z = data.get_impedances()
    rf = np.asarray(res.get_frequencies() if hasattr(res, "get_frequencies") else res.frequencies)
    if rf.shape != f.shape or not np.array_equal(rf, f):
        probs.append("result frequencies are not the unmasked frequencies of the data set")
        return probs
    Zm = np.asarray(res.get_impedances() if hasattr(res, "get_impedances") else res.impedances)
    r = np.asarray(res.residuals)
    expect = (Z - Zm) / abs(Z)
    if r.shape != expect.shape or not np.allclose(r, expect, rtol=tol, atol=tol * max(1e-30, float(np.max(abs(expect))))):
        probs.append("residuals differ from (Z_data - Z_model)/|Z_data| (max difference %.3g)" % float(np.max(abs(r - expect))))
    chi = float(res.pseudo_chisqr)
    s = float(np.sum(abs(r) ** 2))
    if not (abs(chi - s) <= tol * max(abs(s), 1e-300) + 1e-300):
        probs.append("pseudo chi-squared %.12g differs from the sum of squared residual moduli %.12g" % (chi, s))
    circ = getattr(res, "circuit", None)
    if circ is not None and name not in ("calculate_drt[mrq-fit]",):
        try:
            Zc = circ.get_impedances(f)
            if not np.allclose(Zc, Zm, rtol=1e-9, atol=0):
                probs.append("reported impedances differ from the attached circuit's impedances (max rel %.3g)" % float(np.max(abs(Zc - Zm) / abs(Zm))))
        except Exception as e:  # noqa
            probs.append("attached circuit cannot be evaluated: %s" % type(e).__name__)
    return probs


def signature(res):
    import numpy as np
    Zm = np.asarray(res.get_impedances() if hasattr(res, "get_impedances") else res.impedances)
    return (float(res.pseudo_chisqr).hex(), Zm.tobytes())


def entries(tier):
    import pyimpspec
    from pyimpspec import parse_cdc
    from pyimpspec.analysis.kramers_kronig import evaluate_log_F_ext
    E = []
    for t in (["complex", "real", "imaginary-inv"] if tier == "quick" else ["complex", "real", "imaginary", "complex-inv", "real-inv", "imaginary-inv"]):
        for adm in (False, True):
            E.append(("perform_kramers_kronig_test[%s,adm=%s]" % (t, adm), lambda d, t=t, adm=adm: pyimpspec.perform_kramers_kronig_test(d, test=t, admittance=adm, num_RC=8, num_F_ext_evaluations=0, num_procs=1), None))
    E.append(("perform_kramers_kronig_test[auto]", lambda d: pyimpspec.perform_kramers_kronig_test(d, num_procs=1), None))
    E.append(("evaluate_log_F_ext", lambda d: evaluate_log_F_ext(d, test="real", num_F_ext_evaluations=10, num_procs=1)[0][1][3], None))
    E.append(("perform_exploratory_kramers_kronig_tests", lambda d: pyimpspec.perform_exploratory_kramers_kronig_tests(d, test="complex", num_procs=1)[1][0], None))
    for adm in (False, True):
        E.append(("perform_zhit[adm=%s]" % adm, lambda d, adm=adm: pyimpspec.perform_zhit(d, admittance=adm, window="hann", num_procs=1), None))
    E.append(("perform_zhit[auto]", lambda d: pyimpspec.perform_zhit(d, smoothing="auto", interpolation="auto", window="auto", num_procs=1), None))
    for mode in ("real", "imaginary"):
        E.append(("calculate_drt[tr-nnls,%s]" % mode, lambda d, mode=mode: pyimpspec.calculate_drt(d, method="tr-nnls", mode=mode), None))
    E.append(("calculate_drt[lm]", lambda d: pyimpspec.calculate_drt(d, method="lm", num_procs=1), None))
    # the other ways of choosing the model order (each has its own assembly of the reported pseudo chi-squared)
    E.append(("calculate_drt[lm,model_order_method=pseudo_chisqr]", lambda d: pyimpspec.calculate_drt(d, method="lm", model_order_method="pseudo_chisqr", num_procs=1), None))
    E.append(("calculate_drt[lm,model_order=7]", lambda d: pyimpspec.calculate_drt(d, method="lm", model_order=7, num_procs=1), None))
    circ = parse_cdc("R{R=60}(R{R=150}C{C=1e-5})(R{R=300}Q{Y=1e-3,n=0.9})")
    E.append(("fit_circuit", lambda d, c=None: pyimpspec.fit_circuit(c, d, method="least_squares", weight="boukamp", max_nfev=200, num_procs=1), circ))
    # several method/weight combinations evaluated in one process: what is returned belongs to ONE of them
    E.append(("fit_circuit[lists,serial]", lambda d, c=None: pyimpspec.fit_circuit(c, d, method=["least_squares", "nelder"], weight=["modulus", "boukamp", "unity"], max_nfev=60, num_procs=1), circ))
    E.append(("calculate_drt[mrq-fit]", lambda d, c=None: pyimpspec.calculate_drt(d, method="mrq-fit", circuit=c, max_nfev=100, num_procs=1), parse_cdc("R{R=60}(R{R=150}Q{Y=1e-5,n=0.95})(R{R=300}Q{Y=1e-3,n=0.9})")))
    if tier != "quick":
        E.append(("calculate_drt[bht]", lambda d: pyimpspec.calculate_drt(d, method="bht", num_samples=300, num_attempts=3, num_procs=1), None))
    return E


def run(rep, tier, seed, tr_errors):
    rng = random.Random(seed)
    rep.rule = ("entry points (KK single tests Z/Y, automatic KK, evaluate_log_F_ext, exploratory, Z-HIT Z/Y/auto, DRT tr-nnls/lm/mrq-fit[/bht], "
                "fit_circuit) x data sets of 29..47 points with 0..25 % masked points carrying garbage (nan, inf, huge, negative), ascending or "
                "descending input; each run repeated with different garbage on the masked points; non-trivial = result returned; distinct by (entry, data variant)")
    rep.trusted += ["Coq 8.16.1 kernel; standard-library real-number axioms (Print Assumptions)", "tools/tr_formulas.py (translation of _calculate_residuals, _boukamp_weight, _calculate_pseudo_chisqr)",
                    "tools/tr_assembly.py (reaching-definition analysis of every call site of the two formulas: which argument denotes the data, which the model, which weight); which result field each value is stored in is checked on the implementation per case with tolerance 1e-9, not modelled"]
    if "tr_formulas" in tr_errors:
        rep.oblige("translator:tr_formulas", False, tr_errors["tr_formulas"][-400:])
    else:
        rep.oblige("translator:tr_formulas", True, "gen/Formulas_gen.v regenerated")
    thm_ok, names, out = lib.check_props_file(rep, PROPS_FILE, expect=["C08_chisqr_term_is_residual_modulus_squared", "C08_chisqr_is_sum_sq_residuals", "C08_exact_fit_zero"])
    thm_ok2, _, _ = lib.check_props_file(rep, "Props/C08_Mask.v", expect=["C08_masked_values_never_reach_the_views", "C08_analyses_read_only_the_unmasked_views", "C08_masked_values_example"])
    rep.oblige("translator:tr_dataaccess", "tr_dataaccess" not in tr_errors, tr_errors.get("tr_dataaccess", "gen/DataAccess_gen.v regenerated (how each analysis function reads its DataSet)")[-400:])
    thm_ok3, _, _ = lib.check_props_file(rep, "Props/C08_Assembly.v", expect=["C08_formulas_are_called_with_data_and_model", "C08_every_result_module_uses_the_formulas"])
    rep.oblige("translator:tr_assembly", "tr_assembly" not in tr_errors, tr_errors.get("tr_assembly", "gen/Assembly_gen.v regenerated (every call site of _calculate_residuals / _calculate_pseudo_chisqr under analysis/: data argument, model argument, weight)")[-400:])
    thm_ok = thm_ok and thm_ok2 and thm_ok3
    problems = []
    kf = lib.load_known_findings()
    # the last flag: a spectrum with a negative series resistance (negative real parts of Z and Y at low frequencies)
    variants = ([(29, 0.0, False, False), (33, 0.2, False, False), (33, 0.2, True, False), (31, 0.1, False, True)] if tier == "quick" else
                [(29, 0.0, False, False), (33, 0.2, False, False), (33, 0.2, True, False), (47, 0.25, True, False), (41, 0.1, False, False), (31, 0.1, False, True), (45, 0.2, True, True)])
    stats = {}
    for name, fn, circ in entries(tier):
        for (n, mf, asc, neg) in variants:
            if neg and not (name.startswith("perform_zhit") or name.startswith("perform_kramers_kronig_test[") or name.startswith("calculate_drt[tr-nnls")):
                continue
            d1 = make_data(random.Random(seed + n), n, mf, asc, 1, neg)
            d2 = make_data(random.Random(seed + n), n, mf, asc, 2, neg)
            before = json.dumps(d1.to_dict(), sort_keys=True, default=str)
            cbefore = circ.serialize(17) if circ is not None else None
            try:
                # calculate_drt[bht] draws its initial values from numpy's global generator: both runs start from the same
                # generator state, so that any difference between them is due to the values on the masked points
                import numpy as np
                np.random.seed(20260930 + n)
                r1 = fn(d1, c=circ) if circ is not None else fn(d1)
                np.random.seed(20260930 + n)
                r2 = fn(d2, c=circ) if circ is not None else fn(d2)
            except Exception as e:  # noqa
                stats.setdefault(name, {}).setdefault("raised:" + type(e).__name__, 0)
                stats[name]["raised:" + type(e).__name__] += 1
                continue
            rep.evaluations += 2
            rep.distinct.add((name, n, mf, asc, neg))
            stats.setdefault(name, {}).setdefault("ok", 0)
            stats[name]["ok"] += 1
            pr = check_result(r1, d1, name)
            if mf > 0 and signature(r1) != signature(r2):
                pr.append("values on masked points influence the result")
            if json.dumps(d1.to_dict(), sort_keys=True, default=str) != before:
                pr.append("the input data set was modified")
            if circ is not None and circ.serialize(17) != cbefore:
                pr.append("the input circuit was modified")
            for p in pr:
                known = next((f_ for f_ in kf.get("findings", []) if f_.get("property") == PROP and f_["match"].get("entry") in name and f_["match"].get("text") in p), None)
                if known:
                    rep.known.append("%s: %s" % (known["id"], known["what"])) if ("%s: %s" % (known["id"], known["what"])) not in rep.known else None
                else:
                    problems.append((name, (n, mf, asc, neg), p))
    rep.extra["entry_point_runs"] = stats
    rep.samples = [{"entry": k, "runs": v} for k, v in list(stats.items())[:4]]
    dead = [k for k, v in stats.items() if not v.get("ok")]
    rep.oblige("every entry point returned a result on at least one data variant", not dead, "raised everywhere: %s" % dead)
    if dead:
        rep.violation("entry_raises", {"kind": "counterexample", "obligation": "entry point returns a result for valid data", "input": {"entries": dead, "runs": {k: stats[k] for k in dead}}})
    rep.oblige("results-consistent-with-data (frequencies, residuals, chi-squared, circuit, masked points, inputs untouched)", not problems, "%d problems" % len(problems))
    for n_, (name, var, p) in enumerate(problems[:5]):
        rep.violation("result_%d" % n_, {"kind": "counterexample", "obligation": "result consistent with its data", "input": {"entry": name, "points": var[0], "masked_fraction": var[1], "ascending": var[2], "negative_series_resistance": var[3], "observed": p}})
    if not thm_ok and not rep.violations:
        rep.violation("theorems", {"kind": "broken-obligation", "obligation": PROPS_FILE, "detail": [o for o in rep.obligations if not o[1]]}, no_input=True)


def replay(path):
    print(open(path).read()[:3000])
    return 0

"""C11 — Z-HIT reconstructs the modulus from the phase.
Proof: Props/C11.v over gen/Zhit_gen.v (tie 1: reconstruction line, offset residual, window clipping, Whittaker-Henderson
coefficients).  Exercised on the implementation: constant-phase elements (exact), RC/RQ ladders (a few percent), scaling, zero-weight
points, smoothing of constant/linear data, weights in [0,1]."""
import itertools
import json
import math
import random
import warnings

from tools import lib

PROP = "C11"
PROPS_FILE = "Props/C11.v"
EXPECT = ["C11_recon_formula", "C11_const_phase_offset_is_constant", "C11_offset_exact_unique", "C11_offset_zero_weight_irrelevant", "C11_offset_minimiser_shifts",
          "C11_weights", "C11_element_moduli", "C11_whithend_preserves_affine", "C11_symmetric_unit_kernel_preserves_affine", "C11_whithend_order1_refuted"]
SMOOTH = ["none", "lowess", "savgol", "modsinc", "whithend"]
INTERP = ["akima", "makima", "cubic", "pchip"]
TOL_EXACT = 2e-4        # the lmfit offset fit (a quartic objective) stops at about 1e-5 relative
TOL_LADDER = 0.12       # "a few percent": 5.3 % is the largest error seen on the unchanged tree; a wrong sign of the correction term gives 35..70 %


def ladder(rng):
    n = rng.randint(1, 3)
    s = "R{R=%r}" % rng.uniform(10, 100)
    tau = 10 ** rng.uniform(-4.0, -3.0)
    for _ in range(n):
        R = rng.uniform(50, 500)
        if rng.random() < 0.5:
            s += "(R{R=%r}C{C=%r})" % (R, tau / R)
        else:
            s += "(R{R=%r}Q{Y=%r,n=0.85})" % (R, tau ** 0.85 / R)
        tau *= 10 ** rng.uniform(1.2, 2)
    return s


def known(kf, ident):
    return next((f_ for f_ in kf.get("findings", []) if f_["id"] == ident), None)


def run(rep, tier, seed, tr_errors):
    import numpy as np
    import pyimpspec
    from pyimpspec import DataSet, parse_cdc
    from pyimpspec.analysis.zhit.smoothing import _smooth_phase
    from pyimpspec.analysis.zhit.weights import _generate_weights, _initialize_window_functions, _WINDOW_FUNCTIONS
    from pyimpspec.analysis.zhit.offset import _calculate_modulus_offset
    rng = random.Random(seed)
    rep.rule = ("perform_zhit on R, C, L, Q, W with random parameters x 5 smoothers x 4 interpolators x {Z,Y} x windows/custom weights (modulus error <= 2e-4); "
                "random RC/RQ ladders (1..3 elements) x smoothing/interpolation pairs (<= 12 %); impedance scaled by 1e-3..1e3; offsets with garbage on "
                "zero-weight points; _smooth_phase on constant and linear data for every smoother x (num_points, polynomial_order); _generate_weights for "
                "every window x centre x width within [0,1]; non-trivial = completed run; distinct by (input, options)")
    rep.trusted += ["Coq 8.16.1 kernel; real-number axioms of the standard library (Print Assumptions)", "tools/tr_zhit.py",
                    "SciPy interpolators/quad/savgol, statsmodels lowess, the banded Cholesky solve and lmfit's minimiser are oracles: exercised, not modelled",
                    "phase of Q and W (complex powers) is not derived in Coq: those two families are covered by the runs only"]
    rep.oblige("translator:tr_zhit", "tr_zhit" not in tr_errors, tr_errors.get("tr_zhit", "gen/Zhit_gen.v regenerated")[-300:])
    thm_ok, names, out = lib.check_props_file(rep, PROPS_FILE, expect=EXPECT)
    kf = lib.load_known_findings()
    bad = []
    stats = {"const_phase_runs": 0, "ladder_runs": 0, "scaling_runs": 0, "smoothing_cases": 0, "weight_cases": 0, "offset_cases": 0, "worst_const_phase": 0.0, "worst_ladder": 0.0}

    def zhit(f, Z, **kw):
        with warnings.catch_warnings():
            warnings.simplefilter("ignore")
            return pyimpspec.perform_zhit(DataSet(f, Z), num_procs=1, **kw)

    # (1) constant-phase families
    fams = {"R": lambda: "R{R=%r}" % 10 ** rng.uniform(0, 4), "C": lambda: "C{C=%r}" % 10 ** rng.uniform(-7, -3), "L": lambda: "L{L=%r}" % 10 ** rng.uniform(-6, -2),
            "Q": lambda: "Q{Y=%r,n=%r}" % (10 ** rng.uniform(-6, -3), rng.uniform(0.5, 0.95)), "W": lambda: "W{Y=%r}" % 10 ** rng.uniform(-4, -1)}
    combos = list(itertools.product(SMOOTH, INTERP, [False, True]))
    for name, mk in fams.items():
        pick = combos if tier != "quick" else rng.sample(combos, 6)
        for sm, ip, adm in pick:
            cdc = mk()
            n = rng.choice([21, 36, 51])
            f = np.logspace(rng.uniform(3, 5), rng.uniform(-2, 0), n)
            Z = parse_cdc(cdc).get_impedances(f)
            kw = dict(smoothing=sm, interpolation=ip, admittance=adm)
            if rng.random() < 0.3:
                kw["weights"] = np.array([rng.choice([0.0, 0.5, 1.0]) for _ in range(n - 1)] + [1.0])
            else:
                kw["window"] = rng.choice(["boxcar", "hann", "hamming"])
                kw["center"] = rng.uniform(0.5, 2.5)
                kw["width"] = rng.uniform(1.5, 4)
            desc = dict(cdc=cdc, points=n, f_max=float(f[0]), f_min=float(f[-1]), options={k: (v.tolist() if hasattr(v, "tolist") else v) for k, v in kw.items()})
            try:
                r = zhit(f, Z, **kw)
            except Exception as e:  # noqa
                bad.append((desc, "raised %s: %s" % (type(e).__name__, str(e)[:160])))
                continue
            rep.evaluations += 1
            stats["const_phase_runs"] += 1
            err = float(np.max(abs(abs(r.impedances) / abs(Z) - 1)))
            stats["worst_const_phase"] = max(stats["worst_const_phase"], err)
            rep.distinct.add(json.dumps([name, sm, ip, adm]))
            if err > TOL_EXACT:
                bad.append((desc, "constant-phase element: reconstructed modulus off by %.3g (tolerance %.1g)" % (err, TOL_EXACT)))
    # (2) ladders and (3) scaling
    pairs = [("none", "akima", False), ("savgol", "cubic", True), ("modsinc", "pchip", False), ("whithend", "makima", True), ("lowess", "akima", False)]
    for it in range(3 if tier == "quick" else 40):
        cdc = ladder(rng)
        ppd = rng.choice([5, 10, 20])
        f = np.logspace(5, -2, 7 * ppd + 1)
        Z = parse_cdc(cdc).get_impedances(f)
        for sm, ip, adm in (pairs if tier != "quick" else rng.sample(pairs, 2)):
            desc = dict(cdc=cdc, points=len(f), f_max=1e5, f_min=1e-2, options=dict(smoothing=sm, interpolation=ip, admittance=adm, window="boxcar"))
            try:
                r = zhit(f, Z, smoothing=sm, interpolation=ip, admittance=adm, window="boxcar")
                k = 10 ** rng.uniform(-3, 3)
                r2 = zhit(f, k * Z, smoothing=sm, interpolation=ip, admittance=adm, window="boxcar")
            except Exception as e:  # noqa
                bad.append((desc, "raised %s: %s" % (type(e).__name__, str(e)[:160])))
                continue
            rep.evaluations += 2
            stats["ladder_runs"] += 1
            stats["scaling_runs"] += 1
            err = float(np.max(abs(abs(r.impedances) / abs(Z) - 1)))
            stats["worst_ladder"] = max(stats["worst_ladder"], err)
            rep.distinct.add(json.dumps([cdc, sm, ip, adm]))
            if err > TOL_LADDER:
                bad.append((desc, "ladder: reconstructed modulus off by %.3g (tolerance %.2g)" % (err, TOL_LADDER)))
            sc = float(np.max(abs(r2.impedances / (k * r.impedances) - 1)))
            if sc > TOL_EXACT:
                d2 = dict(desc)
                d2["scale"] = k
                bad.append((d2, "scaling the impedance by %.4g does not scale the reconstruction (relative difference %.3g)" % (k, sc)))
    # (4) offsets: garbage on zero-weight points
    for it in range(6 if tier == "quick" else 60):
        n = rng.choice([12, 30])
        r_ = np.array([rng.uniform(-3, 3) for _ in range(n)])
        c = rng.uniform(-5, 5)
        m = r_ + c + np.array([rng.gauss(0, 0.01) for _ in range(n)])
        w = np.array([rng.choice([0.0, 0.0, 0.3, 1.0]) for _ in range(n)])
        w[rng.randrange(n)] = 1.0
        m2 = m.copy()
        r2 = r_.copy()
        for i in range(n):
            if w[i] == 0.0:
                m2[i] += rng.uniform(-50, 50)
                r2[i] += rng.uniform(-50, 50)
        with warnings.catch_warnings():
            warnings.simplefilter("ignore")
            o1 = _calculate_modulus_offset(r_, m, w)
            o2 = _calculate_modulus_offset(r2, m2, w)
        stats["offset_cases"] += 1
        rep.evaluations += 2
        if o1 != o2:
            bad.append((dict(weights=w.tolist()), "values on zero-weight points change the offset: %r vs %r" % (o1, o2)))
        if abs(o1 - c) > 0.05:
            bad.append((dict(weights=w.tolist()), "offset %r far from the generating constant %r" % (o1, c)))
    # (4b) the same clause through perform_zhit with a NAMED window: the modulus is corrupted only where the requested window
    # (centre +- width/2 in log10 f) gives zero weight; the reconstruction must be the one obtained from the clean spectrum
    for it in range(4 if tier == "quick" else 30):
        n_exp = rng.uniform(0.6, 0.95)
        cdc = "Q{Y=%.6e,n=%.4f}" % (10 ** rng.uniform(-6, -3), n_exp)
        f = np.logspace(4, -2, 61)
        Z = parse_cdc(cdc).get_impedances(f)
        win = rng.choice(["boxcar", "hann", "triang", "hamming"])
        center, width = rng.choice([(3.0, 1.0), (2.5, 2.0), (0.0, 1.5), (1.0, 3.0), (-1.0, 1.0)])
        lo, hi = center - width / 2, center + width / 2
        outside = (np.log10(f) < lo - 1e-9) | (np.log10(f) > hi + 1e-9)
        if not outside.any() or outside.all():
            continue
        Zc = Z.copy()
        Zc[outside] = Zc[outside] * rng.choice([1.5, 0.4, 3.0])      # same phase, wrong modulus, only where the weight is zero
        adm = rng.random() < 0.5
        desc = dict(cdc=cdc, points=61, f_max=1e4, f_min=1e-2, options=dict(window=win, center=center, width=width, admittance=adm),
                    corrupted_modulus_outside_log10_f=[lo, hi])
        try:
            ra = zhit(f, Z, smoothing="none", interpolation="akima", admittance=adm, window=win, center=center, width=width)
            rb = zhit(f, Zc, smoothing="none", interpolation="akima", admittance=adm, window=win, center=center, width=width)
        except Exception as e:  # noqa
            bad.append((desc, "raised %s: %s" % (type(e).__name__, str(e)[:120])))
            continue
        stats["offset_cases"] += 1
        rep.evaluations += 2
        dev = float(np.max(abs(rb.impedances / ra.impedances - 1)))
        if dev > 1e-6:
            bad.append((desc, "the modulus of points outside the requested window (zero weight) changes the reconstruction by %.3g" % dev))
        tru = float(np.max(abs(abs(ra.impedances) / abs(Z) - 1)))
        if tru > TOL_EXACT:
            bad.append((desc, "constant-phase spectrum with a named window: reconstructed modulus off by %.3g" % tru))
    # (5a) LOWESS regresses on ln(omega) itself: data that are linear in ln(omega) stay unchanged also when the points are NOT equally
    # spaced (two sweeps of different density merged); the other smoothers work on the point index and are judged on uniform grids below
    for n_hi, n_lo in ((20, 4), (5, 12)):
        f_nu = np.concatenate([np.logspace(4, 1, 3 * n_hi + 1), np.logspace(1, -2, 3 * n_lo + 1)[1:]])
        lw_nu = np.log(2 * np.pi * f_nu)
        for npts in (5, 7, 9):
            data_nu = 0.3 - 0.11 * lw_nu
            try:
                with warnings.catch_warnings():
                    warnings.simplefilter("ignore")
                    outp = _smooth_phase("lowess", npts, 2, 3, lw_nu, data_nu.copy())
            except Exception as e:  # noqa
                bad.append((dict(smoothing="lowess", num_points=npts, grid="%d and %d points per decade" % (n_hi, n_lo)), "raised %s: %s" % (type(e).__name__, str(e)[:100])))
                continue
            stats["smoothing_cases"] += 1
            rep.evaluations += 1
            e_ = float(np.max(abs(outp - data_nu)))
            if e_ > 1e-9:
                bad.append((dict(smoothing="lowess", num_points=npts, data="linear in ln(omega)", grid="%d and %d points per decade" % (n_hi, n_lo)),
                            "smoothing changes data that are linear in ln(omega) by %.3g" % e_))
    # (5) smoothing of constant and linear data
    known_hits = set()
    for n in ((21, 41) if tier == "quick" else (21, 41, 71, 101)):
        lw = np.log(2 * np.pi * np.logspace(4, -1, n))
        for dname, data in (("constant", np.full(n, -0.7)), ("linear in ln(omega)", 0.3 - 0.11 * lw)):
            for sm in ("lowess", "savgol", "modsinc", "whithend"):
                for npts, order in ((3, 2), (5, 2), (5, 3), (7, 4), (5, 1), (9, 2), (11, 6), (4, 1), (4, 2), (6, 3), (3, 1)):
                    if sm == "modsinc" and order not in (2, 4, 6, 8, 10):
                        continue
                    if not (0 < order < npts):
                        continue
                    try:
                        with warnings.catch_warnings():
                            warnings.simplefilter("ignore")
                            outp = _smooth_phase(sm, npts, order, 3, lw, data.copy())
                    except Exception as e:  # noqa
                        bad.append((dict(smoothing=sm, num_points=npts, polynomial_order=order, data=dname, points=n), "raised %s: %s" % (type(e).__name__, str(e)[:100])))
                        continue
                    stats["smoothing_cases"] += 1
                    rep.evaluations += 1
                    e = float(np.max(abs(outp - data)))
                    if e > 1e-9:
                        ident = None
                        if sm == "whithend" and order == 1 and dname != "constant":
                            ident = "C11-whithend-order-1"
                        elif sm == "savgol" and npts % 2 == 0 and dname != "constant":
                            ident = "C11-savgol-even-window"
                        f_ = known(kf, ident) if ident else None
                        if f_:
                            known_hits.add("%s: %s" % (f_["id"], f_["what"]))
                        else:
                            bad.append((dict(smoothing=sm, num_points=npts, polynomial_order=order, data=dname, points=n), "smoothing changes %s data by %.3g" % (dname, e)))
    for kmsg in sorted(known_hits):
        if kmsg not in rep.known:
            rep.known.append(kmsg)
    # (6) weights
    if len(_WINDOW_FUNCTIONS) == 0:
        _initialize_window_functions()
    wins = sorted(_WINDOW_FUNCTIONS)
    for win in (rng.sample(wins, min(6, len(wins))) if tier == "quick" else wins):
        for _ in range(3):
            log_f = np.log10(np.logspace(5, -2, 50))
            c, wd = rng.uniform(-2, 5), rng.uniform(0.3, 6)
            try:
                with warnings.catch_warnings():
                    warnings.simplefilter("ignore")
                    wts = _generate_weights(log_f, win, c, wd)
            except Exception as e:  # noqa
                bad.append((dict(window=win, center=c, width=wd), "raised %s: %s" % (type(e).__name__, str(e)[:100])))
                continue
            stats["weight_cases"] += 1
            rep.evaluations += 1
            outside = [(lf < c - wd / 2 or lf > c + wd / 2) for lf in log_f]
            if np.any(wts < 0) or np.any(wts > 1) or any(o and wv != 0 for o, wv in zip(outside, wts)) or np.any(np.isnan(wts)):
                bad.append((dict(window=win, center=c, width=wd), "weights outside [0,1], not zero outside the window, or nan"))
            # the same window on a second grid with the same number of points, in the same process: the weights belong to the grid
            # they were asked for (no state may survive between calls), and asking again for the first grid gives the first answer
            log_f2 = log_f - 3.0
            try:
                with warnings.catch_warnings():
                    warnings.simplefilter("ignore")
                    wts2 = _generate_weights(log_f2, win, c, wd)
                    wts1b = _generate_weights(log_f, win, c, wd)
            except Exception as e:  # noqa
                bad.append((dict(window=win, center=c, width=wd, second_grid=True), "raised %s: %s" % (type(e).__name__, str(e)[:100])))
                continue
            rep.evaluations += 2
            outside2 = [(lf < c - wd / 2 or lf > c + wd / 2) for lf in log_f2]
            if any(o and wv != 0 for o, wv in zip(outside2, wts2)) or not np.array_equal(wts1b, wts):
                bad.append((dict(window=win, center=c, width=wd, second_grid=True), "weights for a second grid of the same length are not zero outside the window / repeating the first call gives different weights"))
    rep.extra["runs"] = stats
    rep.samples = [{"families": list(fams)}, {"pairs": pairs[:2]}]
    rep.oblige("zhit-runs: exact on constant-phase elements, few percent on ladders, scaling, zero weights, smoothing, weights", not bad, "%s; %d failures" % (stats, len(bad)))
    for n_, (desc, why) in enumerate(bad[:5]):
        d = dict(desc)
        d["observed"] = why
        rep.violation("zhit_%d" % n_, {"kind": "counterexample", "obligation": "Z-HIT reconstruction", "input": d})
    if (not thm_ok or "tr_zhit" in tr_errors) and not rep.violations:
        rep.violation("theorems", {"kind": "broken-obligation", "obligation": PROPS_FILE, "detail": [o_ for o_ in rep.obligations if not o_[1]]}, no_input=True)


def replay(path):
    d = json.load(open(path))
    print(json.dumps(d, indent=1)[:3000])
    return 1

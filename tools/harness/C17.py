"""C17 — results are reproducible and independent of worker scheduling.
Proof part: An/Winner.v, Props/C17.v (stable sort after an unordered fan-out picks a winner that depends only on the set of
candidates when the keys are distinct).  Exercise: real runs with 1, 2, 4 (and 16 in thorough) worker processes and delays
injected into the worker functions (inherited by the forked workers) that force different completion orders; results compared
bit for bit; mock data per seed."""
import json
import random
import time

from tools import lib

PROP = "C17"
PROPS_FILE = "Props/C17.v"


def result_signature(res):
    import numpy as np
    out = {}
    for name in ("pseudo_chisqr", "smoothing", "interpolation", "window", "method", "weight", "num_RC", "log_F_ext"):
        if hasattr(res, name):
            v = getattr(res, name)
            out[name] = float(v).hex() if isinstance(v, float) else v
    if hasattr(res, "impedances"):
        z = np.asarray(res.impedances)
        out["impedances"] = [complex(x).real.hex() + "," + complex(x).imag.hex() for x in z[:: max(1, len(z) // 8)]]
    return out


def delayed(fn, pattern, salt):
    """wraps a worker: sleeps by a deterministic function of its argument so that completion order follows `pattern`"""
    def wrapper(args):
        h = abs(hash(repr(args)[-80:] + salt)) % 7
        time.sleep(0.01 * ((h * pattern) % 7))
        return fn(args)
    wrapper.__module__ = fn.__module__
    wrapper.__name__ = fn.__name__
    wrapper.__qualname__ = fn.__qualname__
    return wrapper


def run(rep, tier, seed, tr_errors):
    import numpy as np
    import pyimpspec
    from pyimpspec import DataSet, parse_cdc
    rng = random.Random(seed)
    rep.rule = ("entry points that fan out (perform_zhit with 'auto' options, fit_circuit with method/weight lists, evaluate_log_F_ext with "
                "num_F_ext_evaluations > 0) run with num_procs in {1,2,4[,16]} under injected worker delays (several delay patterns), "
                "repeated runs, mock data per seed; non-trivial = a run with >= 2 workers and a delay pattern; distinct by (entry, num_procs, pattern)")
    rep.trusted += ["Coq 8.16.1 kernel", "model coq/An/Winner.v of the selection after pool.imap / pool.imap_unordered + sorted(key=chi-squared)",
                    "purity of the worker functions, bit-stability of BLAS/LAPACK across processes and the OS scheduler are assumptions exercised here, not proved",
                    "delays are injected by replacing the module-level worker functions before the pool forks (tools/harness/C17.py)"]
    thm_ok, names, out = lib.check_props_file(rep, PROPS_FILE, expect=["C17_sort_schedule_free", "C17_winner_schedule_free", "C17_winner_is_min", "C17_ordered_map_schedule_free", "C17_pool_sites_are_ordered"])
    rep.oblige("translator:tr_pool", "tr_pool" not in tr_errors, tr_errors.get("tr_pool", "gen/PoolSites_gen.v regenerated (how each fan-out of the C17 entry points collects its results)")[-400:])
    f = np.logspace(4, -1, 26)
    circuit = parse_cdc("R{R=100}(R{R=200}C{C=1e-4})(R{R=300}Q{Y=1e-3,n=0.8})")
    rs = np.random.RandomState(seed % (2 ** 31))
    Z = circuit.get_impedances(f)
    Z = Z + (rs.normal(0, 0.002, Z.shape) + 1j * rs.normal(0, 0.002, Z.shape)) * abs(Z)
    data = DataSet(f, Z, label="c17")
    exact = DataSet(f, parse_cdc("R{R=100}(R{R=200}C{C=1e-4})").get_impedances(f), label="c17-exact")
    data41 = pyimpspec.generate_mock_data("CIRCUIT_1", noise=0.5, seed=42, num_per_decade=10)[0]
    problems = []
    procs = [1, 2, 4] if tier == "quick" else [1, 2, 4, 16]
    patterns = [0, 1, 3] if tier == "quick" else [0, 1, 2, 3, 5]
    import pyimpspec.analysis.zhit.offset as zo
    import pyimpspec.analysis.zhit.reconstruction as zr
    import pyimpspec.analysis.fitting as fit_mod
    import pyimpspec.analysis.kramers_kronig.exploratory as kk_exp
    import pyimpspec.analysis.kramers_kronig.cnls as kk_cnls
    orig = (zo._adjust_offset, zr._reconstruct, fit_mod._fit_process, kk_exp._cnls_test)
    runs = 0
    try:
        base = {}
        for np_ in procs:
            for pat in patterns:
                if np_ == 1 and pat != 0:
                    continue
                zo._adjust_offset = delayed(orig[0], pat, "a") if pat else orig[0]
                zr._reconstruct = delayed(orig[1], pat, "b") if pat else orig[1]
                fit_mod._fit_process = delayed(orig[2], pat, "c") if pat else orig[2]
                kk_exp._cnls_test = delayed(orig[3], pat, "d") if pat else orig[3]
                kk_cnls._test_wrapper = kk_exp._cnls_test        # pickled by reference: the name must resolve to the same object
                calls = {
                    "perform_zhit(auto,auto,auto)": lambda: pyimpspec.perform_zhit(data, smoothing="auto", interpolation="auto", window="auto", num_procs=np_),
                    "fit_circuit(lists)": lambda: pyimpspec.fit_circuit(parse_cdc("R(RC)(RQ)"), data, method=["leastsq", "least_squares", "nelder"],
                                                                        weight=["boukamp", "modulus"], max_nfev=60, num_procs=np_),
                }
                # ties: exact data fitted from the generating values — several method/weight pairs reach exactly the same pseudo
                # chi-squared, and the winner among equals must be the first in method/weight order whatever finishes first
                calls["fit_circuit(ties: exact data, 1 method x 4 weights)"] = lambda: pyimpspec.fit_circuit(
                    parse_cdc("R{R=100}(R{R=200}C{C=1e-4})"), exact, method=["least_squares"],
                    weight=["unity", "modulus", "proportional", "boukamp"], max_nfev=60, num_procs=np_)
                calls["fit_circuit(ties: exact data, 4 methods x 1 weight)"] = lambda: pyimpspec.fit_circuit(
                    parse_cdc("R{R=100}(R{R=200}C{C=1e-4})"), exact, method=["leastsq", "nelder", "lbfgsb", "bfgs"],
                    weight=["boukamp"], max_nfev=60, num_procs=np_)
                if pat == 0:
                    from pyimpspec.analysis.kramers_kronig import evaluate_log_F_ext
                    calls["evaluate_log_F_ext"] = lambda: evaluate_log_F_ext(data, test="real", num_F_ext_evaluations=10, num_procs=np_)[0][1][0]
                if pat in (0, 3) and np_ in (1, 4, 16):
                    # the CNLS test consumes its pool results one by one and stops early: the set of fits must not depend on completion order
                    from pyimpspec.analysis.kramers_kronig import evaluate_log_F_ext as elf

                    class _Sig:
                        pass

                    def cnls_call():
                        ev = elf(data41, test="cnls", num_F_ext_evaluations=0, max_nfev=100, num_procs=np_)    # stops early after ~26 of 76 fits
                        o = _Sig()
                        o.num_RC = tuple(r.num_RC for r in ev[0][1])
                        o.pseudo_chisqr = float(sum(r.pseudo_chisqr for r in ev[0][1]))
                        return o
                    calls["evaluate_log_F_ext(cnls, automatic num_RC range)"] = cnls_call
                for name, fn in calls.items():
                    try:
                        sig = result_signature(fn())
                    except Exception as e:  # noqa
                        problems.append("%s with num_procs=%d pattern=%d raised %s: %s" % (name, np_, pat, type(e).__name__, str(e)[:80]))
                        continue
                    runs += 1
                    rep.evaluations += 1
                    if np_ > 1:
                        rep.distinct.add((name, np_, pat))
                    if name not in base:
                        base[name] = (sig, np_, pat)
                    elif base[name][0] != sig:
                        diff = [k for k in sig if sig[k] != base[name][0].get(k)]
                        problems.append("%s: num_procs=%d pattern=%d differs from num_procs=%d pattern=%d in %s (%r vs %r)" % (
                            name, np_, pat, base[name][1], base[name][2], diff, {k: sig[k] for k in diff if k != "impedances"},
                            {k: base[name][0].get(k) for k in diff if k != "impedances"}))
    finally:
        zo._adjust_offset, zr._reconstruct, fit_mod._fit_process, kk_exp._cnls_test = orig
        kk_cnls._test_wrapper = orig[3]
    # many workers: the extension search must not depend on how many processes were asked for (more workers than points of the
    # first grid is the interesting case: 9 for 10 evaluations, 13 for the default 20)
    from pyimpspec.analysis.kramers_kronig import evaluate_log_F_ext as elf_many
    for n_eval, many in ((10, 9), (20, 13)) if tier == "quick" else ((10, 7), (10, 9), (20, 12), (20, 13), (20, 16)):
        try:
            one = elf_many(data, test="real", num_F_ext_evaluations=n_eval, num_procs=1)
            par = elf_many(data, test="real", num_F_ext_evaluations=n_eval, num_procs=many)
            runs += 2
            rep.evaluations += 2
            rep.distinct.add(("evaluate_log_F_ext many workers", n_eval, many))
            s1 = (float(one[0][0]).hex(), float(one[0][2]).hex(), sorted(float(x[0]).hex() for x in one))
            s2 = (float(par[0][0]).hex(), float(par[0][2]).hex(), sorted(float(x[0]).hex() for x in par))
            if s1 != s2:
                problems.append("evaluate_log_F_ext(num_F_ext_evaluations=%d): num_procs=%d evaluates other extensions or picks another winner than num_procs=1 (log_F_ext %r vs %r)"
                                % (n_eval, many, float(par[0][0]), float(one[0][0])))
        except Exception as e:  # noqa
            problems.append("evaluate_log_F_ext(num_F_ext_evaluations=%d, num_procs=%d) raised %s: %s" % (n_eval, many, type(e).__name__, str(e)[:80]))
    # mock data: bit-identical per seed, different between seeds
    for ident in (["CIRCUIT_1", "CIRCUIT_2"] if tier == "quick" else ["CIRCUIT_1", "CIRCUIT_2", "CIRCUIT_3", "CIRCUIT_4", "CIRCUIT_5"]):
        try:
            a = pyimpspec.generate_mock_data(ident, noise=0.05, seed=7)[0].get_impedances()
            b = pyimpspec.generate_mock_data(ident, noise=0.05, seed=7)[0].get_impedances()
            c = pyimpspec.generate_mock_data(ident, noise=0.05, seed=8)[0].get_impedances()
            rep.evaluations += 3
            if not (a.tobytes() == b.tobytes()):
                problems.append("generate_mock_data(%s, seed=7) is not bit-identical between two calls" % ident)
            if a.tobytes() == c.tobytes():
                problems.append("generate_mock_data(%s) gives the same data for seeds 7 and 8" % ident)
        except Exception as e:  # noqa
            problems.append("generate_mock_data(%s) raised %s" % (ident, type(e).__name__))
    rep.samples = [{"entry": k, "signature_keys": list(v[0].keys())} for k, v in base.items()]
    rep.extra["support_runs"] = {"runs_compared": runs, "num_procs": procs, "delay_patterns": patterns}
    rep.oblige("results-identical-across-num_procs-and-completion-orders (exercised)", not problems, "%d differences" % len(problems))
    for n, p in enumerate(problems[:4]):
        rep.violation("schedule_%d" % n, {"kind": "counterexample", "obligation": "schedule independence / reproducibility", "input": {"observed": p}})
    if not thm_ok and not rep.violations:
        rep.violation("theorems", {"kind": "broken-obligation", "obligation": PROPS_FILE, "detail": [o for o in rep.obligations if not o[1]]}, no_input=True)


def replay(path):
    print(open(path).read()[:3000])
    return 0

"""C07 — Kramers-Kronig tests reproduce exactly any spectrum of their own model.
Tie 1: gen/KK_gen.v (design-matrix entries, right-hand sides, column order) regenerated from least_squares.py,
matrix_inversion.py, utility.py; theorems in An/KK_facts.v.  Tie 2: An/KKUpdate.v (the two _update_circuit functions) evaluated
in Coq against the implementations on generated solution vectors.  Search/support: the real pipeline on generated model spectra,
judged against a conditioning-aware tolerance."""
import json
import math
import random
import warnings

from tools import lib
from tools import kk

PROP = "C07"
PROPS_FILE = "Props/C07.v"
EXPECT = ["C07_ls_design_consistent", "C07_mi_design_consistent", "C07_layout", "C07_ls_exact", "C07_mi_exact", "C07_ls_complex_reproduces",
          "C07_real_first_stage", "C07_real_second_stage", "C07_real_second_stage_mi", "C07_weighted_mean", "C07_ls_update_refines",
          "C07_mi_update_refines", "C07_generated_exists"]
HEADER = """From Coq Require Import ZArith QArith List Bool.
From PV Require Import Base.Num Base.Outcome An.KKUpdate.
Import ListNotations.
Open Scope Q_scope.
Definition ls_f (c : bool * bool * bool * nat * nat * list Q) : outcome kkout :=
  let '(adm, addC, addL, n, k, v) := c in ls_update_exec adm addC addL n k v.
Definition mi_f (c : bool * bool * nat * nat * list Q) : outcome kkout :=
  let '(adm, addC, n, k, v) := c in mi_update_exec adm addC n k v.
"""
EPS = 2.220446049250313e-16


# ---- tie 2: _update_circuit --------------------------------------------------------------------------------------------
def dyadic(rng, allow_zero=False):
    if allow_zero and rng.random() < 0.25:
        return 0.0
    return rng.choice([-1, 1]) * rng.randint(1, 2 ** 20) * 2.0 ** rng.randint(-30, 10)


def pow2(rng, allow_zero=True):
    if allow_zero and rng.random() < 0.25:
        return 0.0
    return rng.choice([-1, 1]) * 2.0 ** rng.randint(-30, 20)


def observe_update(which, adm, addC, addL, num_RC, v):
    import numpy as np
    from pyimpspec.analysis.kramers_kronig.utility import _generate_circuit
    from pyimpspec.analysis.kramers_kronig import least_squares, matrix_inversion
    taus = np.logspace(-3, 1, num_RC)
    circuit = _generate_circuit(taus, addC, addL, adm)
    n_el = len(circuit.get_elements(recursive=True))
    try:
        with warnings.catch_warnings():
            warnings.simplefilter("ignore")
            if which == "ls":
                least_squares._update_circuit(circuit, np.array(v, dtype=np.float64), addC, addL, adm)
            else:
                matrix_inversion._update_circuit(circuit=circuit, variables=np.array(v, dtype=np.float64), add_capacitance=addC, admittance=adm)
    except Exception as e:  # noqa
        n = type(e).__name__
        lit = {"ValueError": "Err EValue", "IndexError": "Crash CIndex", "KramersKronigError": "Err (EOther 7)"}.get(n, "Crash (COtherCrash 0)")
        return n_el, lit, n
    ps = kk.params_of(circuit)
    R = [x for k, x in ps if k == "R"][0]
    K = [x for k, x in ps if k == "K"]
    C = [x for k, x in ps if k == "C"]
    L = [x for k, x in ps if k == "L"]
    lit = "Ok (mkOut %s [%s] %s %s)" % (lib.xlit(R), ";".join(lib.qlit(x) for x in K),
                                        ("(Some %s)" % lib.xlit(C[0])) if C else "None", ("(Some %s)" % lib.xlit(L[0])) if L else "None")
    return n_el, lit, "ok"


def update_cases(rng, n):
    cases, kinds = [], {}
    for i in range(n):
        which = rng.choice(["ls", "mi"])
        adm, addC = rng.random() < 0.5, rng.random() < 0.5
        addL = True if which == "mi" else rng.random() < 0.5
        num_RC = rng.randint(1, 6)
        v = [pow2(rng)] + [dyadic(rng) for _ in range(num_RC)] + ([pow2(rng)] if addC else []) + ([pow2(rng)] if addL else [])
        r = rng.random()
        if r < 0.08:
            v = v[:-1]
        elif r < 0.16:
            v = v + [1.0]
        n_el, lit, kind = observe_update(which, adm, addC, addL, num_RC, v)
        kinds[kind] = kinds.get(kind, 0) + 1
        vl = "[" + ";".join(lib.qlit(x) for x in v) + "]"
        if which == "ls":
            inp = "(%s, %s, %s, %d%%nat, %d%%nat, %s)" % (lib.coqbool(adm), lib.coqbool(addC), lib.coqbool(addL), n_el, num_RC, vl)
        else:
            inp = "(%s, %s, %d%%nat, %d%%nat, %s)" % (lib.coqbool(adm), lib.coqbool(addC), n_el, num_RC, vl)
        cases.append((i, which, inp, lit, dict(which=which, admittance=adm, add_capacitance=addC, add_inductance=addL, num_RC=num_RC, variables=v, observed=lit)))
    return cases, kinds


def shard_text(cases):
    ls = ["(%d%%Z, %s, %s)" % (i, inp, lit) for i, w, inp, lit, _ in cases if w == "ls"]
    mi = ["(%d%%Z, %s, %s)" % (i, inp, lit) for i, w, inp, lit, _ in cases if w == "mi"]
    return ("Definition result : list Z := mism ls_f [%s] ++ mism mi_f [%s]." % (";\n".join(ls), ";\n".join(mi)))


# ---- the real pipeline on model spectra ------------------------------------------------------------------------------------
def pipeline_case(rng, test, adm, addC, addL, tier, fixed=None, negative=()):
    import numpy as np
    import pyimpspec
    from pyimpspec import DataSet, parse_cdc
    if fixed is None:
        ppd = rng.choice([3, 5, 10, 20])
        lo = rng.uniform(-3, 1)
        dec = rng.choice([3, 5, 7])
        f = np.logspace(lo + dec, lo, int(dec * ppd) + 1)
        num_RC = rng.randint(2, max(2, min(3 * dec, len(f) // 2 - 2)))
        if test == "cnls":
            num_RC = min(num_RC, 6)
        logF = rng.uniform(-1, 1)
        circuit, taus = kk.gen_model_circuit(adm, addC, addL, num_RC, logF, f, rng, negative=negative)
    else:
        from pyimpspec.analysis.kramers_kronig.utility import _generate_time_constants
        f = np.logspace(math.log10(fixed["f_max"]), math.log10(fixed["f_min"]), fixed["points"])
        num_RC, logF = fixed["num_RC"], fixed["log_F_ext"]
        circuit = parse_cdc(fixed["cdc"])
        taus = _generate_time_constants(2 * np.pi * f, num_RC, logF)
    Z = circuit.get_impedances(f)
    info = dict(test=test, admittance=adm, add_capacitance=addC, add_inductance=addL, num_RC=num_RC, log_F_ext=logF,
                f_max=float(f[0]), f_min=float(f[-1]), points=len(f), cdc=circuit.serialize(17))
    with warnings.catch_warnings():
        warnings.simplefilter("ignore")
        try:
            r = pyimpspec.perform_kramers_kronig_test(DataSet(f, Z), test=test, num_RC=num_RC, add_capacitance=addC, add_inductance=addL, admittance=adm,
                                                      log_F_ext=logF, num_F_ext_evaluations=0, num_procs=1)
        except Exception as e:  # noqa
            info["raised"] = "%s: %s" % (type(e).__name__, str(e)[:200])
            return info
    info["max_residual"] = float(np.max(abs(r.residuals)))
    if test == "cnls":
        info["threshold"] = 1e-4
        info["param_threshold"] = None
    else:
        ce, cr = kk.ref_design(test, adm, addC, addL, 2 * np.pi * f, taus, Z ** (-1 if adm else 1))
        bound = ce * ce * 1e3 if test == "complex-inv" else cr * 1e5
        info["cond"] = cr
        info["threshold"] = EPS * bound + 1e-10
        info["param_threshold"] = 1e3 * info["threshold"]
    p0, p1 = kk.params_of(circuit), kk.params_of(r.circuit)
    if [k for k, _ in p0] == [k for k, _ in p1] and test != "cnls":
        worst = 0.0
        for kind in "RKCL":
            a = [x for k, x in p0 if k == kind]
            b = [x for k, x in p1 if k == kind]
            if a:
                m = max(abs(x) for x in a)
                worst = max(worst, max(abs(x - y) for x, y in zip(a, b)) / m)
        info["param_error"] = worst
    elif test != "cnls":
        # matrix inversion always carries an inductance (and reports a negligible one when none was asked for)
        info["param_error"] = None
    return info


def run(rep, tier, seed, tr_errors):
    rng = random.Random(seed)
    rep.rule = ("(1) _update_circuit of least_squares.py and matrix_inversion.py on generated solution vectors (dyadic entries, zeros at the "
                "inverted positions, wrong lengths) vs the Coq model; (2) perform_kramers_kronig_test(num_RC=n, num_F_ext_evaluations=0, log_F_ext=x) "
                "on spectra generated by the test's own model: 7 tests x {Z,Y} x add_capacitance x add_inductance x grids (3..7 decades, 3..20 "
                "points per decade) x num_RC 2..3 per decade x log_F_ext in [-1,1] x parameter magnitudes over 6 decades with sign flips; a run "
                "is judged when the conditioning-aware tolerance 1e5*eps*cond(A) (complex-inv: 1e3*eps*cond_eq(A)^2) is below 1e-3; non-trivial "
                "= judged run; distinct by (test, representation, C, L, num_RC, grid)")
    rep.trusted += ["Coq 8.16.1 kernel, vm_compute; real-number axioms of the standard library (Print Assumptions)",
                    "tools/tr_kk.py (translation of the design-matrix columns, right-hand sides and column order)",
                    "numpy.linalg.lstsq / pinv / inv return a least-squares minimiser (oracle contract of the theorems); lmfit for 'cnls' (not modelled)",
                    "floating point: only the sampled runs speak about rounding; the theorems are over the reals"]
    if "tr_kk" in tr_errors:
        rep.oblige("translator:tr_kk", False, tr_errors["tr_kk"][-400:])
    else:
        rep.oblige("translator:tr_kk", True, "gen/KK_gen.v regenerated")
    thm_ok, names, out = lib.check_props_file(rep, PROPS_FILE, expect=EXPECT)
    # tie 2
    n_upd = 240 if tier == "quick" else 3000
    cases, kinds = update_cases(rng, n_upd)
    rep.evaluations += len(cases)
    outs = lib.run_shards(PROP, HEADER, [shard_text(cases[j:j + 300]) for j in range(0, len(cases), 300)])
    mism, broken = [], []
    for si, (rc, parsed, raw) in enumerate(outs):
        if rc != 0 or parsed is None:
            broken.append((si, raw[-800:]))
        else:
            mism += parsed
    rep.oblige("correspondence:KKUpdate.v-vs-_update_circuit", not mism and not broken, "%d vectors (%s), %d mismatches, %d shards failed" % (len(cases), kinds, len(mism), len(broken)))
    # pipeline
    kf = lib.load_known_findings()
    combos = []
    for test in kk.TESTS_LS + kk.TESTS_MI + ["cnls"]:
        for adm in (False, True):
            for addC in (False, True):
                for addL in ((True,) if test.endswith("-inv") else (False, True)):
                    combos.append((test, adm, addC, addL))
    reps = 4 if tier == "quick" else 12
    bad, judged, skipped, stats = [], 0, 0, {}
    worst_ratio = {}
    plan = []
    for f_ in kf.get("findings", []):       # recorded reproducers run first
        if f_.get("property") == PROP and "reproducer" in f_:
            r_ = f_["reproducer"]
            plan.append((r_["test"], r_["admittance"], r_["add_capacitance"], r_["add_inductance"], r_))
    # sign patterns: every option combination is run with a negative series/parallel resistance and with negative C/L as well
    NEG = [(), ("Resistor",), ("Capacitor", "Inductor"), ("Resistor", "Inductor"), ("KramersKronigRC", "KramersKronigAdmittanceRC")]
    for test, adm, addC, addL in combos:
        for r_ in range(reps if test != "cnls" else max(1, reps // 4)):
            plan.append((test, adm, addC, addL, NEG[r_ % len(NEG)]))
    for test, adm, addC, addL, fixed in plan:
        negative = fixed if isinstance(fixed, tuple) else ()
        fixed = fixed if isinstance(fixed, dict) else None
        for attempt in range(4):
            info = pipeline_case(rng, test, adm, addC, addL, tier, fixed, negative)
            if fixed is not None or "raised" in info or info["threshold"] <= 1e-3:
                break       # otherwise: ill-conditioned grid, draw another one
        if True:
            rep.evaluations += 1
            key = "%s/%s" % (test, "Y" if adm else "Z")
            st = stats.setdefault(key, {"runs": 0, "judged": 0, "ill_conditioned": 0, "raised": 0})
            st["runs"] += 1
            if "raised" in info:
                st["raised"] += 1
                bad.append((info, "raised " + info["raised"]))
                continue
            if info["threshold"] > 1e-3:
                st["ill_conditioned"] += 1
                skipped += 1
                continue
            st["judged"] += 1
            judged += 1
            rep.distinct.add(json.dumps([test, adm, addC, addL, info["num_RC"], info["points"]]))
            ratio = info["max_residual"] / info["threshold"]
            worst_ratio[key] = max(worst_ratio.get(key, 0.0), ratio)
            if ratio > 1:
                known = next((f_ for f_ in kf.get("findings", []) if f_.get("property") == PROP and f_["match"].get("test") == test and f_["match"].get("nonlinear_parameter") == bool(adm or addC)), None)
                if known:
                    msg = "%s: %s" % (known["id"], known["what"])
                    if msg not in rep.known:
                        rep.known.append(msg)
                    continue
                bad.append((info, "max |residual| %.3g exceeds %.3g" % (info["max_residual"], info["threshold"])))
            elif info.get("param_error") is not None and info["param_threshold"] <= 1e-3 and info["param_error"] > info["param_threshold"]:
                bad.append((info, "generating parameters not recovered: error %.3g (relative to the largest of its kind) exceeds %.3g" % (info["param_error"], info["param_threshold"])))
    rep.extra["pipeline"] = {"by_test": stats, "worst_residual_over_tolerance": worst_ratio, "judged": judged, "ill_conditioned_not_judged": skipped}
    rep.samples = [c[4] for c in cases[:2]]
    rep.oblige("pipeline: zero residuals and recovered parameters on model spectra", not bad, "%d judged, %d ill-conditioned (not judged), %d failures" % (judged, skipped, len(bad)))
    for n_, (info, why) in enumerate(bad[:5]):
        info = dict(info)
        info["observed"] = why
        rep.violation("pipeline_%d" % n_, {"kind": "counterexample", "obligation": "exact reproduction of a model spectrum", "input": info})
    if (mism or broken) and not bad:
        by_i = {c[0]: c for c in cases}
        for j in mism[:3]:
            rep.violation("update_%d" % j, {"kind": "counterexample", "obligation": "correspondence:KKUpdate.v (the model's _update_circuit and the implementation differ on this vector)", "input": by_i[j][4]})
        for si, raw in broken[:2]:
            rep.violation("shard_%d" % si, {"kind": "broken-obligation", "obligation": "cases shard did not evaluate", "log": raw}, no_input=True)
    if (not thm_ok or "tr_kk" in tr_errors) and not rep.violations:
        rep.violation("theorems", {"kind": "broken-obligation", "obligation": PROPS_FILE, "detail": [o for o in rep.obligations if not o[1]]}, no_input=True)


def replay(path):
    d = json.load(open(path))
    print(json.dumps(d, indent=1)[:3000])
    inp = d.get("input", {})
    if "cdc" in inp:
        import numpy as np
        import pyimpspec
        from pyimpspec import DataSet, parse_cdc
        n = inp["points"]
        f = np.logspace(math.log10(inp["f_max"]), math.log10(inp["f_min"]), n)
        c = parse_cdc(inp["cdc"])
        r = pyimpspec.perform_kramers_kronig_test(DataSet(f, c.get_impedances(f)), test=inp["test"], num_RC=inp["num_RC"], add_capacitance=inp["add_capacitance"],
                                                  add_inductance=inp["add_inductance"], admittance=inp["admittance"], log_F_ext=inp["log_F_ext"], num_F_ext_evaluations=0, num_procs=1)
        m = float(np.max(abs(r.residuals)))
        print("replayed: max |residual| = %.3g" % m)
        return 1 if m > 1e-3 else 0
    return 0

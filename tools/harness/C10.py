"""C10 — automatic Kramers-Kronig testing tracks the noise and flags drift.
Proof (partial): Props/C10.v — the noise estimate inverts the pseudo chi-squared expected from the library's own noise model
(tie 1: kramers_kronig/utility.py, analysis/utility.py, mock_data.py).  The statistical clauses are exercised on fixed seeds with a
frozen acceptance band; they are reported as an obligation because the property is about the behaviour, but they are sampled."""
import json
import math
import random
import warnings

from tools import lib

PROP = "C10"
PROPS_FILE = "Props/C10.v"
EXPECT = ["C10_noise_estimator_inverse", "C10_chisqr_term_of_noise_model", "C10_expected_chisqr_matches_estimator"]
# calibrated once on the unchanged tree (observed 0.87 .. 1.36), frozen with a wide safety factor
BAND = (0.4, 2.5)
DRIFT_FACTOR = 5.0        # at 0.02 % noise the drift-corrupted counterpart had 10 .. 950 times the pseudo chi-squared over five seeds (17 .. 36 at 0.05 %: asked to be >= 3 there)


def run(rep, tier, seed, tr_errors):
    import numpy as np
    import pyimpspec
    from pyimpspec import DataSet, parse_cdc
    from pyimpspec.analysis.kramers_kronig import evaluate_log_F_ext, suggest_num_RC
    rng = random.Random(seed)
    rep.rule = ("perform_kramers_kronig_test(data) with default settings on bundled valid mock circuits and random RC/RQ ladders with Gaussian noise of "
                "0.02 .. 1 % (seeds derived from the run seed): estimated noise within [0.4, 2.5] x injected; suggested num_RC inside the limits "
                "reported by suggest_num_RC; at 0.02 % noise the drift-corrupted counterpart (<ID>_INVALID) has >= 5 x (>= 3 x at 0.05 %) the pseudo chi-squared; "
                "the estimate equals _estimate_pct_noise of the reported chi-squared; non-trivial = completed run; distinct by (circuit, noise, seed)")
    rep.trusted += ["Coq 8.16.1 kernel; real-number axioms of the standard library (Print Assumptions)", "tools/tr_kk.py, tools/tr_formulas.py",
                    "tools/tr_suggest.py: the selection skeleton of _suggest_using_default (which test is returned, which limits are reported); scores, sort keys and the replacement condition are parameters; sorted() is assumed to return the elements of its argument",
                    "the statistical clauses are sampled on fixed seeds against a frozen band (calibrated once on the unchanged tree: ratios 0.87 .. 1.36, drift factors 97 .. 243); no theorem covers them",
                    "numpy's RandomState.normal(0, sd) = sd x standard normal draw (modelling assumption of the noise theorem)"]
    for tr in ("tr_kk", "tr_formulas", "tr_suggest"):
        rep.oblige("translator:" + tr, tr not in tr_errors, tr_errors.get(tr, "regenerated")[-300:])
    thm_ok, names, out = lib.check_props_file(rep, PROPS_FILE, expect=EXPECT)
    thm_ok2, _, _ = lib.check_props_file(rep, "Props/C10_Limits.v", expect=["C10_suggestion_inside_reported_limits", "C10_suggestion_example"])
    thm_ok = thm_ok and thm_ok2
    bad = []
    idents = ["CIRCUIT_1", "CIRCUIT_2", "CIRCUIT_5", "CIRCUIT_8", "CIRCUIT_9"] if tier == "quick" else ["CIRCUIT_%d" % i for i in (1, 2, 3, 4, 5, 6, 7, 8, 9, 10, 11, 12)]
    plan = []
    for ident in idents:
        for noise in ((rng.choice([0.02, 0.05]), rng.choice([0.2, 1.0])) if tier == "quick" else (0.02, 0.05, 0.2, 0.5, 1.0)):
            plan.append((ident, noise, rng.randint(1, 10 ** 6)))
    # ladders written as circuit description codes (the quantifier's "random RC/RQ ladder circuits"), among them spectra dominated by
    # their series resistance.  On the unchanged tree 264 runs gave 0.78 .. 1.68 and ONE run 3.54 (the single-resistor shortcut of the
    # limits estimation fires for about one seed in a hundred on such spectra), so a ladder is judged by the MEDIAN over its seeds
    ladder_plan = []
    for cdc_ in ("R{R=1000}(R{R=50}C{C=1e-5})", "R{R=500}(R{R=100}C{C=1e-5})(R{R=60}C{C=1e-3})"):
        for noise in ((0.05, 0.2) if tier == "quick" else (0.05, 0.1, 0.2, 0.5)):
            ladder_plan.append((cdc_, noise, [rng.randint(1, 10 ** 6) for _ in range(5 if tier == "quick" else 9)]))
    ladders = 1 if tier == "quick" else 8
    stats = {"runs": 0, "ratios": [], "drift_factors": []}

    def kk(data):
        with warnings.catch_warnings():
            warnings.simplefilter("ignore")
            return pyimpspec.perform_kramers_kronig_test(data, num_procs=1)

    for ident, noise, sd in plan:
        desc = dict(identifier=ident, noise=noise, seed=sd)
        try:
            data = pyimpspec.generate_mock_data(ident, noise=noise, seed=sd)[0]
            r = kk(data)
        except Exception as e:  # noqa
            bad.append((desc, "raised %s: %s" % (type(e).__name__, str(e)[:150])))
            continue
        rep.evaluations += 1
        stats["runs"] += 1
        rep.distinct.add(json.dumps(desc))
        est = float(r.get_estimated_percent_noise())
        ratio = est / noise
        stats["ratios"].append(round(ratio, 3))
        if not (BAND[0] <= ratio <= BAND[1]):
            bad.append((desc, "estimated noise %.4g %% is %.2f x the injected %.4g %% (band %.1f .. %.1f)" % (est, ratio, noise, BAND[0], BAND[1])))
        n = len(r.get_frequencies())
        if abs(est - math.sqrt(5000 * r.pseudo_chisqr / n)) > 1e-9 * est:
            bad.append((desc, "estimated noise is not sqrt(5000 chi^2 / N)"))
        if noise <= 0.05 and ident.startswith("CIRCUIT_"):
            try:
                ri = kk(pyimpspec.generate_mock_data(ident + "_INVALID", noise=noise, seed=sd)[0])
                fac = float(ri.pseudo_chisqr / r.pseudo_chisqr)
                stats["drift_factors"].append(round(fac, 1))
                rep.evaluations += 1
                if fac < (DRIFT_FACTOR if noise <= 0.02 else 3.0):
                    bad.append((desc, "the drift-corrupted counterpart has only %.1f x the pseudo chi-squared" % fac))
            except Exception as e:  # noqa
                bad.append((desc, "drift counterpart raised %s: %s" % (type(e).__name__, str(e)[:100])))
    for cdc_, noise, seeds_ in ladder_plan:
        ratios_ = []
        desc = dict(identifier=cdc_, noise=noise, seeds=seeds_, judged="median over the seeds")
        for sd in seeds_:
            try:
                r = kk(pyimpspec.generate_mock_data(cdc_, noise=noise, seed=sd)[0])
                ratios_.append(float(r.get_estimated_percent_noise()) / noise)
                rep.evaluations += 1
                stats["runs"] += 1
            except Exception as e:  # noqa
                bad.append((desc, "raised %s: %s" % (type(e).__name__, str(e)[:150])))
        rep.distinct.add(json.dumps(desc))
        if ratios_:
            med = sorted(ratios_)[len(ratios_) // 2]
            stats["ratios"].append(round(med, 3))
            if not (BAND[0] <= med <= BAND[1]):
                bad.append((desc, "the median estimated noise over %d seeds is %.2f x the injected %.4g %% (band %.1f .. %.1f; ratios %s)" % (len(ratios_), med, noise, BAND[0], BAND[1], [round(x, 2) for x in ratios_])))
    # suggested num_RC inside the reported limits (one evaluation of the candidates, then suggest_num_RC)
    for i in range(ladders + (1 if tier == "quick" else 4)):
        if i < ladders:
            n_el = rng.randint(1, 3)
            cdc = "R{R=%r}" % rng.uniform(10, 100)
            tau = 10 ** rng.uniform(-4, -3)
            for _ in range(n_el):
                R = rng.uniform(50, 500)
                cdc += ("(R{R=%r}C{C=%r})" % (R, tau / R)) if rng.random() < 0.5 else ("(R{R=%r}Q{Y=%r,n=0.85})" % (R, tau ** 0.85 / R))
                tau *= 10 ** rng.uniform(1.2, 2)
            ident = cdc
        else:
            ident = rng.choice(idents)
        noise, sd = rng.choice([0.05, 0.2, 0.5]), rng.randint(1, 10 ** 6)
        desc = dict(identifier=ident, noise=noise, seed=sd, check="num_RC within limits")
        try:
            with warnings.catch_warnings():
                warnings.simplefilter("ignore")
                data = pyimpspec.generate_mock_data(ident, noise=noise, seed=sd)[0]
                ev = evaluate_log_F_ext(data, num_procs=1)
                res, scores, lo, hi = suggest_num_RC(ev[0][1])
            rep.evaluations += 1
            stats["runs"] += 1
            if not (lo <= res.num_RC <= hi and lo < hi):
                bad.append((desc, "suggested num_RC = %d lies outside the reported limits [%d, %d]" % (res.num_RC, lo, hi)))
            # (no noise band here: this call fixes the impedance representation, which cannot describe e.g. a negative differential
            #  resistance; the representation choice is part of perform_kramers_kronig_test, judged above)
        except Exception as e:  # noqa
            bad.append((desc, "raised %s: %s" % (type(e).__name__, str(e)[:150])))
    # the search for a failing input behind the limits theorem: when the selection skeleton can no longer be translated (or the
    # theorem over it breaks), scan single-representation suggestions over the bundled circuits for one outside its limits
    if "tr_suggest" in tr_errors or not thm_ok2:
        import time as _time
        t0_, tried = _time.time(), 0
        found_ = None
        for sd in range(1, 9):
            for ident in ["CIRCUIT_%d" % k for k in (8, 17, 11, 19, 1, 2, 3, 4, 5, 6, 7, 9, 10, 12)]:
                for noise in (0.05, 0.02, 1.0, 0.2):
                    for adm in (False, True):
                        if found_ is not None or _time.time() - t0_ > 420:
                            break
                        try:
                            with warnings.catch_warnings():
                                warnings.simplefilter("ignore")
                                data = pyimpspec.generate_mock_data(ident, noise=noise, seed=sd)[0]
                                ev = evaluate_log_F_ext(data, admittance=adm, num_F_ext_evaluations=0, num_procs=1)
                                res, scores, lo, hi = suggest_num_RC(ev[0][1])
                            tried += 1
                            if not (lo <= res.num_RC <= hi and lo < hi):
                                found_ = (dict(identifier=ident, noise=noise, seed=sd, admittance=adm, check="num_RC within limits (search)"),
                                          "suggested num_RC = %d lies outside the reported limits [%d, %d]" % (res.num_RC, lo, hi))
                        except Exception:  # noqa
                            pass
        rep.extra["limits_search"] = {"tried": tried, "found": found_ is not None}
        rep.evaluations += tried
        if found_ is not None:
            bad.append(found_)
    rep.extra["support_runs"] = stats
    rep.samples = [dict(identifier=p[0], noise=p[1], seed=p[2]) for p in plan[:3]]
    rep.oblige("automatic test: noise tracked, num_RC within limits, drift flagged (sampled on fixed seeds, frozen band)", not bad, "%d runs, ratios %s..%s, %d failures" % (
        stats["runs"], min(stats["ratios"]) if stats["ratios"] else None, max(stats["ratios"]) if stats["ratios"] else None, len(bad)))
    for n_, (desc, why) in enumerate(bad[:5]):
        d = dict(desc)
        d["observed"] = why
        rep.violation("auto_%d" % n_, {"kind": "counterexample", "obligation": "automatic Kramers-Kronig test tracks the noise", "input": d})
    if (not thm_ok or "tr_kk" in tr_errors or "tr_formulas" in tr_errors) and not rep.violations:
        rep.violation("theorems", {"kind": "broken-obligation", "obligation": PROPS_FILE, "detail": [o_ for o_ in rep.obligations if not o_[1]]}, no_input=True)


def replay(path):
    d = json.load(open(path))
    print(json.dumps(d, indent=1)[:3000])
    inp = d.get("input", {})
    if "identifier" in inp:
        import pyimpspec
        data = pyimpspec.generate_mock_data(inp["identifier"], noise=inp["noise"], seed=inp["seed"])[0]
        r = pyimpspec.perform_kramers_kronig_test(data, num_procs=1)
        print("replayed: estimated %.4g %% for injected %.4g %%" % (r.get_estimated_percent_noise(), inp["noise"]))
    return 1

"""C16 — element names and identifiers are unique and used consistently.
Tie 2: coq/Circuit/Ident.v vs generate_element_identifiers / get_element_name / generate_fit_identifiers /
to_sympy().free_symbols on generated circuits (containers with nested sub-circuits, repeated types, label mixes)."""
import json
import random

from tools import lib, cdc

PROP = "C16"
PROPS_FILE = "Props/C16.v"
HEADER = """From Coq Require Import ZArith List Bool.
From PV Require Import Base.Outcome Circuit.Tree Circuit.Printer Circuit.Printer_facts Circuit.Ident Circuit.Ident_facts Circuit.IdentQueue.
Import ListNotations.
Open Scope N_scope.
Definition F := 200%nat.
Fixpoint nat_list_eqb (a b : list nat) : bool :=
  match a, b with [], [] => true | x :: a', y :: b' => Nat.eqb x y && nat_list_eqb a' b' | _, _ => false end.
Fixpoint pairs_eqb (a b : list (nat * nat)) : bool :=
  match a, b with [], [] => true
  | (x, u) :: a', (y, v) :: b' => Nat.eqb x y && Nat.eqb u v && pairs_eqb a' b' | _, _ => false end.
Fixpoint strs_eqb (a b : list str) : bool :=
  match a, b with [], [] => true | x :: a', y :: b' => str_eqb x y && strs_eqb a' b' | _, _ => false end.
Fixpoint named_eqb (a b : list (nat * str)) : bool :=
  match a, b with [], [] => true
  | (x, u) :: a', (y, v) :: b' => Nat.eqb x y && str_eqb u v && named_eqb a' b' | _, _ => false end.
Fixpoint keyed_eqb (a b : list (nat * list str)) : bool :=
  match a, b with [], [] => true
  | (x, u) :: a', (y, v) :: b' => Nat.eqb x y && strs_eqb u v && keyed_eqb a' b' | _, _ => false end.
Fixpoint insert_nat (x : nat) (l : list nat) : list nat :=
  match l with [] => [x] | y :: r => if Nat.leb x y then x :: l else y :: insert_nat x r end.
Definition sort_nat (l : list nat) : list nat := fold_right insert_nat [] l.
Fixpoint find_elt (u : nat) (es : list ielt) : option ielt :=
  match es with [] => None | e :: r => if Nat.eqb u (ie_uid e) then Some e else find_elt u r end.
(* observed: element order (uids), running ids, per-type ids, names, fit identifiers *)
Record obsv := mkOb { ob_order : list nat; ob_typed : list (nat * nat); ob_names : list (nat * str); ob_fit : list (nat * list str) }.
Definition model_obs (c : iconn) : obsv :=
  let es := elems F c in mkOb (map ie_uid es) (typed_ids es) (names es) (fit_ids es).
(* the traversal as the code performs it (first-in first-out work list, Circuit/IdentQueue.v); the iteration bound grows with the
   cube of the number of element objects, far above what the generated circuits need; a bound that is too small yields None *)
Definition worklist_order (c : iconn) : option (list nat) :=
  let n := length (all_uids_conn F c) in
  option_map (map ie_uid) (qelems F (100 + n * n * n + 20 * n * n)%nat c).
Definition order_is (o : option (list nat)) (l : list nat) : bool := match o with Some x => nat_list_eqb x l | None => false end.
Definition obs_eqb_worklist (c : iconn) (b : obsv) : bool := order_is (worklist_order c) (ob_order b).
Definition obs_eqb (a b : obsv) : bool :=
  nat_list_eqb (ob_order a) (ob_order b) && pairs_eqb (ob_typed a) (ob_typed b) && named_eqb (ob_names a) (ob_names b)
  && keyed_eqb (ob_fit a) (ob_fit b).
(* the property on observed data: every element exactly once; per-type counts 1..k, names and fit identifiers derived
   from the OBSERVED order are the observed ones *)
Definition ident_holds (c : iconn) (o : obsv) : bool :=
  let all := items_conn F c in
  (* the hypotheses of C16_names_injective on the state the implementation reached: no stored label is all digits, no symbol
     contains an underscore (what set_label and the registry enforce) *)
  forallb (fun e => match ie_label e with [] => true | l => negb (forallb is_dchar l) end && nounder (ie_sym e)) (elems F c) &&
  nat_list_eqb (sort_nat (ob_order o)) (sort_nat (all_uids_conn F c)) &&
  let es := flat_map (fun u => match find_elt u (elems F c) with Some e => [e] | None => [] end) (ob_order o) in
  Nat.eqb (length es) (length (ob_order o)) &&
  pairs_eqb (typed_ids es) (ob_typed o) && named_eqb (names es) (ob_names o) && keyed_eqb (fit_ids es) (ob_fit o).
"""


def build_lit(con, uids, ctx):
    from pyimpspec.circuit.base import Connection, Container
    from pyimpspec.circuit.series import Series
    items = []
    for x in con._elements:
        if isinstance(x, Connection):
            items.append("(IC %s)" % build_lit(x, uids, ctx))
        else:
            uid = len(uids)
            uids[id(x)] = (uid, x)
            subs = []
            if isinstance(x, Container):
                for k, c in x.get_subcircuits().items():
                    subs.append("None" if c is None else "(Some %s)" % build_lit(c, uids, ctx))
            items.append("(IE %d %s %s [%s] [%s])" % (uid, lib.codepoints(x.get_symbol()), lib.codepoints(x.get_label()),
                                                      ";".join(lib.codepoints(k) for k in x.get_values().keys()), ";".join(subs)))
    return "(%s [%s])" % ("ISer" if isinstance(con, Series) else "IPar", ";".join(items))


def observe(circuit, uids):
    from pyimpspec.analysis.fitting import generate_fit_identifiers
    run = circuit.generate_element_identifiers(running=True)
    typ = circuit.generate_element_identifiers(running=False)
    order = [uids[id(el)][0] for el in run.keys()]
    problems = []
    if list(run.values()) != list(range(len(run))):
        problems.append("running identifiers are not 0..N-1 in order")
    typed = [(uids[id(el)][0], i) for el, i in typ.items()]
    names = [(uids[id(el)][0], circuit.get_element_name(el)) for el in run.keys()]
    fit = generate_fit_identifiers(circuit)
    fits = [(uids[id(el)][0], [fi[k] for k in el.get_values().keys()]) for el, fi in fit.items()]
    # symbolic variables: f plus one per parameter, named key_label or key_<running id>
    try:
        syms = sorted(str(s) for s in circuit.to_sympy().free_symbols)
        expect = {"f"}
        for el, i in run.items():
            for k in el.get_values().keys():
                expect.add("%s_%s" % (k, el.get_label() if el.get_label() else i))
        # a parameter may cancel out of an expression (e.g. a shorted/open configuration); names that do occur must be expected ones
        if not set(syms) <= expect:
            problems.append("symbolic expression has variables %s outside the expected names" % sorted(set(syms) - expect))
    except Exception as e:  # noqa
        # C16 is about names: a circuit that the library refuses to evaluate at all (inadmissible transmission-line configurations
        # raise NotANumberImpedance numerically and fail symbolically as well) has no expression whose names could be wrong;
        # that the exports exist for circuits that can be evaluated is C20's obligation
        refused = False
        try:
            import numpy as _np
            with _np.errstate(all="ignore"):
                circuit.get_impedances(_np.array([1.0, 100.0]))
        except Exception:  # noqa
            refused = True
        if type(e).__name__ not in ("NotImplementedError",) and not refused:
            problems.append("to_sympy raised %s" % type(e).__name__)
    return {"order": order, "typed": typed, "names": names, "fit": fits}, problems


def obs_lit(o):
    return "(mkOb [%s] [%s] [%s] [%s])" % (
        ";".join("%d%%nat" % u for u in o["order"]), ";".join("(%d%%nat, %d%%nat)" % p for p in o["typed"]),
        ";".join("(%d%%nat, %s)" % (u, lib.codepoints(s)) for u, s in o["names"]),
        ";".join("(%d%%nat, [%s])" % (u, ";".join(lib.codepoints(s) for s in l)) for u, l in o["fit"]))


def shard_text(cases):
    items = ["(%d%%Z, %s, %s)" % (i, t, obs_lit(o)) for i, t, o in cases]
    return ("Definition cases : list (Z * iconn * obsv) := [\n" + ";\n".join(items) + "].\n"
            "Definition mism := flat_map (fun c : Z * iconn * obsv => let '(i, t, o) := c in if obs_eqb (model_obs t) o && obs_eqb_worklist t o then [] else [i]) cases.\n"
            "Definition viol := flat_map (fun c : Z * iconn * obsv => let '(i, t, o) := c in if ident_holds t o then [] else [(- (i + 1))%Z]) cases.\n"
            "Definition result : list Z := mism ++ viol.\n")


def run(rep, tier, seed, tr_errors):
    rng = random.Random(seed)
    ctx = cdc.Ctx()
    rep.rule = ("random circuits through the public API: all topologies up to depth 3, repeated element types, labelled/unlabelled "
                "mixes, containers with nested sub-circuits (incl. containers inside sub-circuits); non-trivial = >= 2 elements of the "
                "same type or a container; distinct by structure")
    rep.trusted += ["Coq 8.16.1 kernel, vm_compute", "hand-written models coq/Circuit/Ident.v (traversal order as a recursive function, identifier and naming rules) and "
                    "coq/Circuit/IdentQueue.v (the traversal as the code performs it: first-in first-out work list with recursive calls on popped sub-circuits); "
                    "tie 2 = correspondence of BOTH with the observed element order on every run; theorem: the work list computes the recursive order",
                    "the clause 'every element exactly once' is decided per case on observed data (sorted id lists), not as a theorem about the traversal"]
    thm_ok, names, out = lib.check_props_file(rep, PROPS_FILE, expect=["C16_typed_counts", "C16_running_ids", "C16_names_injective", "C16_builtin_symbols_have_no_underscore", "C16_names_are_assigned", "C16_traversal_no_duplicates", "C16_traversal_exactly_the_elements", "C16_worklist_returns_the_recursive_order", "C16_worklist_terminates_with_the_recursive_order", "C16_worklist_semantics_total_and_deterministic"])
    n = 400 if tier == "quick" else 2500      # 6000 cases with both traversal models took more than 50 minutes under load
    cases, direct = [], []
    from pyimpspec import Circuit
    for i in range(n):
        c = cdc.rand_circuit(ctx, rng, depth=rng.randint(0, 3))
        if rng.random() < 0.5:
            # duplicate-free labels: strip random labels from some elements so that auto-names matter
            for el in c.get_elements(recursive=True):
                if rng.random() < 0.6:
                    el.set_label("")
        if rng.random() < 0.5:
            # labels that would imitate an automatic name (digits, also padded with white space): set_label must refuse them
            # or the names must stay distinct all the same; whatever label the element then reports goes into the model
            for el in c.get_elements(recursive=True):
                # a label that turns one parameter's variable name into another's (Y + "_B" = the key Y_B)
                keys = list(el.get_values().keys())
                sfx = [k2[len(k1) + 1:] for k1 in keys for k2 in keys if k2.startswith(k1 + "_")]
                if sfx and rng.random() < 0.5:
                    el.set_label(rng.choice(sfx))
                    continue
                if rng.random() < 0.4:
                    k = str(rng.randint(0, 6))
                    try:
                        el.set_label(rng.choice([k, " " + k, k + " ", "\t" + k + "\n", "0" + k, k + "a"]))
                    except ValueError:
                        pass
        if rng.random() < 0.4:
            # identifiers are asked for once, then the circuit is edited IN PLACE (an element appended to, or removed from, one of its
            # connections); what is observed below must describe the circuit as it is now
            from pyimpspec import Resistor, Capacitor
            from pyimpspec.circuit.base import Connection
            try:
                c.generate_element_identifiers(running=True)
                c.generate_element_identifiers(running=False)
                c.to_string(3)
            except Exception:  # noqa
                pass
            conns, todo = [], [c._elements]
            while todo:
                x = todo.pop()
                conns.append(x)
                todo += [y for y in x._elements if isinstance(y, Connection)]
            con = rng.choice(conns)
            direct_children = [y for y in con._elements if not isinstance(y, Connection)]
            if len(con._elements) > 2 and direct_children and rng.random() < 0.5:
                con.remove(rng.choice(direct_children))
            else:
                con.append(rng.choice([Resistor, Capacitor])())
        uids = {}
        t = build_lit(c._elements, uids, ctx)
        try:
            o, pr = observe(c, uids)
        except Exception as e:  # noqa
            direct.append((c.to_string(), ["identifier API raised %s: %s" % (type(e).__name__, str(e)[:100])]))
            continue
        if pr:
            direct.append((c.to_string(), pr))
        cases.append((i, t, o))
        rep.evaluations += 1
        syms = [x.get_symbol() for _, x in uids.values()]
        if len(syms) != len(set(syms)) or "Tlm" in syms:
            rep.distinct.add(t)
    rep.samples = [{"circuit": c[1][:300], "observed_order": c[2]["order"], "names": [n_ for _, n_ in c[2]["names"]]} for c in cases[:2]]
    shards = [cases[j:j + 100] for j in range(0, len(cases), 100)]
    outs = lib.run_shards(PROP, HEADER, [shard_text(sh) for sh in shards])
    mism, viol, broken = [], [], []
    for si, (rc, parsed, raw) in enumerate(outs):
        if rc != 0 or parsed is None:
            broken.append((si, raw[-800:]))
            continue
        for j in parsed:
            (viol if j < 0 else mism).append(-j - 1 if j < 0 else j)
    rep.oblige("correspondence:Ident.v-vs-identifier-API", not mism and not broken, "%d cases, %d mismatches, %d shards failed" % (len(cases), len(mism), len(broken)))
    rep.oblige("property-on-observed-identifiers", not viol, "%d cases" % len(viol))
    rep.oblige("symbolic-variable-names-and-running-ids", not direct, "%d failures" % len(direct))
    rep.extra["traces_validated_against_impl"] = len(cases)
    by = {c[0]: c for c in cases}
    for j in sorted(set(viol))[:3]:
        rep.violation("counterexample_%d" % j, {"kind": "counterexample", "obligation": "identifiers unique and consistent", "input": {"circuit": by[j][1][:2000], "observed": by[j][2]}})
    for what, pr in direct[:3]:
        rep.violation("direct_%d" % (abs(hash(what)) % 100000), {"kind": "counterexample", "obligation": "names/identifiers", "input": {"circuit": what, "problems": pr}})
    if not viol and not direct:
        for j in sorted(set(mism))[:3]:
            rep.violation("correspondence_%d" % j, {"kind": "broken-obligation", "obligation": "correspondence:Ident.v", "input": {"circuit": by[j][1][:2000], "observed": by[j][2]}}, no_input=True)
        for si, raw in broken[:2]:
            rep.violation("shard_%d" % si, {"kind": "broken-obligation", "obligation": "cases shard did not evaluate", "log": raw}, no_input=True)
    if not thm_ok and not rep.violations:
        rep.violation("theorems", {"kind": "broken-obligation", "obligation": PROPS_FILE, "detail": [o for o in rep.obligations if not o[1]]}, no_input=True)


def replay(path):
    print(open(path).read()[:3000])
    return 0

"""C15 — the element registry and class defaults can always be restored.
Tie 2: coq/Circuit/Registry.v vs registry.py on histories of register/remove/reset/set_default operations with
harness-defined user classes (valid, inconsistent, duplicate symbol, invalid symbol, private)."""
import itertools
import json
import random

from tools import lib, tr_classes

PROP = "C15"
PROPS_FILE = "Props/C15.v"
HEADER = """From Coq Require Import ZArith List Bool.
From PV Require Import Base.Outcome Circuit.Tree Circuit.Registry.
Import ListNotations.
Open Scope N_scope.
"""

N_USER = 3
SYMS = ["Ud", "Ue", "U_1", "R", "Ra", "Q", "u1", "", " Ux ", "U-", "Ls", "K", "Zz9", "\u03a9", "R\u00e4", "U\u00b2"]   # the last three: letters and digits outside ASCII
CANDIDATES = ["R", "C", "L", "La", "Ls", "K", "Ky", "Q", "Tlm", "Ud", "Ue", "U_1", "Ra", "Ux", "Zz9"]


def make_user_classes():
    from pyimpspec.circuit.base import Element
    classes = []
    for i in range(N_USER):
        def _impedance(self, f, R):
            return R + 0j * f
        classes.append(type("User%d" % i, (Element,), {"_impedance": _impedance}))
    return classes


def definition(cls, sym, consistent, value):
    from pyimpspec.circuit.registry import ElementDefinition, ParameterDefinition
    return ElementDefinition(Class=cls, symbol=sym, name="user", description="user element", equation="R" if consistent else "2*R",
                             parameters=[ParameterDefinition(symbol="R", unit="ohm", description="R", value=float(value),
                                                             lower_limit=0.0, upper_limit=float("inf"), fixed=False)])


def res_lit(exc):
    if exc is None:
        return "RK_ok"
    n = type(exc).__name__
    return {"ValueError": "(RK_err EValue)", "KeyError": "(RK_err EKey)", "TypeError": "(RK_err EType)"}.get(n, "(RK_crash (COtherCrash 0))")


class World:
    def __init__(self):
        import pyimpspec
        from pyimpspec.circuit import registry
        self.reg = registry
        self.pyimpspec = pyimpspec
        self.rows = tr_classes.class_rows()
        self.builtin = [r["cls"] for r in self.rows]
        self.users = make_user_classes()
        self.classes = self.builtin + self.users
        self.first_key = [list(c.get_default_values().keys())[0] if i < len(self.builtin) else "R" for i, c in enumerate(self.classes)]
        self.snap = (dict(registry._ELEMENTS), dict(registry._PRIVATE_ELEMENTS), {c: c.get_default_values() for c in self.builtin})

    def restore(self):
        r = self.reg
        r._ELEMENTS.clear(); r._ELEMENTS.update(self.snap[0])
        r._PRIVATE_ELEMENTS.clear(); r._PRIVATE_ELEMENTS.update(self.snap[1])
        for c, d in self.snap[2].items():
            c.set_default_values(**d)
        self.users = make_user_classes()
        self.classes = self.builtin + self.users

    def cid(self, cls):
        return self.classes.index(cls)

    def apply(self, op):
        r = self.reg
        try:
            t = op[0]
            if t == "register":
                _, c, sym, val, cons, priv = op
                kw = {"private": True} if priv else {}
                self.pyimpspec.register_element(definition(self.classes[c], sym, cons, val), **kw)
            elif t == "remove":
                self.pyimpspec.circuit.registry.remove_elements([self.classes[c] for c in op[1]])
            elif t == "reset":
                self.pyimpspec.circuit.registry.reset(elements=op[1], default_parameters=op[2])
            elif t == "set_default":
                c = self.classes[op[1]]
                c.set_default_values(**{self.first_key[op[1]]: float(op[2])})
            elif t == "reset_defaults":
                if op[1] is None:
                    self.pyimpspec.circuit.registry.reset_default_parameter_values()
                else:
                    self.pyimpspec.circuit.registry.reset_default_parameter_values([self.classes[c] for c in op[1]])
            return None
        except Exception as e:  # noqa
            return e

    def observe(self, exc):
        def ge(d, p):
            try:
                return list(self.pyimpspec.get_elements(default_only=d, private=p).keys())
            except KeyError:
                return None
        defaults = []
        for i, c in enumerate(self.classes):
            try:
                v = c.get_default_values()
                defaults.append(v[self.first_key[i]] if self.first_key[i] in v else None)
            except Exception:
                defaults.append(None)
        parses = []
        for s in CANDIDATES:
            try:
                self.pyimpspec.parse_cdc(s)
                parses.append(True)
            except Exception:
                parses.append(False)
        return {"res": res_lit(exc), "ap": ge(False, True), "au": ge(False, False), "dp": ge(True, True), "du": ge(True, False),
                "defaults": defaults, "parses": parses}


def zval(x):
    # default values are compared as integers: value * 1000 rounded (built-in defaults such as 1e-6 are below resolution and
    # therefore compared through a fixed table of scaled integers)
    if x is None:
        return "None"
    return "(Some (%d)%%Z)" % int(round(float(x) * 1e12))


def op_lit(op):
    t = op[0]
    if t == "register":
        return "(Register %d%%nat %s (%d)%%Z %s %s)" % (op[1], lib.codepoints(op[2]), int(round(op[3] * 1e12)), lib.coqbool(op[4]), lib.coqbool(op[5]))
    if t == "remove":
        return "(Remove [%s])" % ";".join("%d%%nat" % c for c in op[1])
    if t == "reset":
        return "(Reset %s %s)" % (lib.coqbool(op[1]), lib.coqbool(op[2]))
    if t == "set_default":
        return "(SetDefault %d%%nat (%d)%%Z)" % (op[1], int(round(op[2] * 1e12)))
    if t == "reset_defaults":
        return "(ResetDefaults %s)" % ("None" if op[1] is None else "(Some [%s])" % ";".join("%d%%nat" % c for c in op[1]))


def strs(l):
    return "None" if l is None else "(Some [%s])" % ";".join(lib.codepoints(s) for s in l)


def obs_lit(o):
    return "(mkRO %s %s %s %s %s [%s] [%s])" % (o["res"], strs(o["ap"]), strs(o["au"]), strs(o["dp"]), strs(o["du"]),
                                             ";".join(zval(v) for v in o["defaults"]), ";".join(lib.coqbool(b) for b in o["parses"]))


def builtins_lit(w):
    el = "[" + ";".join("(%s, %d%%nat)" % (lib.codepoints(k), w.cid(c)) for k, c in w.snap[0].items()) + "]"
    pr = "[" + ";".join("(%s, %d%%nat)" % (lib.codepoints(k), w.cid(c)) for k, c in w.snap[1].items()) + "]"
    pa = "[" + ";".join("(%d%%nat, (%d)%%Z)" % (w.cid(c), int(round(d[w.first_key[w.cid(c)]] * 1e12))) for c, d in w.snap[2].items()) + "]"
    return "(mkB %s %s %s)" % (el, pr, pa)


def gen_op(w, rng):
    nb = len(w.builtin)
    r = rng.random()
    if r < 0.40:
        c = rng.choice(list(range(nb, nb + N_USER)))      # definitions are written for user classes only (see DESIGN.md, C15 scope)
        return ("register", c, rng.choice(SYMS), rng.choice([1.0, 2.0, 5.0]), rng.random() < 0.85, rng.random() < 0.3)
    if r < 0.55:
        k = rng.choice([1, 1, 2])
        private_builtin = [w.cid(c) for c in w.snap[1].values()]
        cs = [rng.choice(list(range(nb, nb + N_USER)) + ([rng.randrange(nb)] if rng.random() < 0.1 else []) + (private_builtin if rng.random() < 0.15 else [])) for _ in range(k)]
        return ("remove", cs)
    if r < 0.72:
        return ("reset", rng.random() < 0.8, rng.random() < 0.7)
    if r < 0.90:
        return ("set_default", rng.choice([0, 0, 1, 2, nb, nb + 1]) % (nb + N_USER), rng.choice([3.0, 7.0, 11.0]))
    return ("reset_defaults", None if rng.random() < 0.5 else [rng.randrange(nb + N_USER) for _ in range(rng.choice([1, 2]))])


def shard_text(w, cases):
    items = []
    for i, ops, obs in cases:
        items.append("(%d%%Z, [%s], [%s])" % (i, ";".join(op_lit(o) for o in ops), ";".join(obs_lit(o) for o in obs)))
    nb = len(w.builtin)
    return ("Definition B : builtins := %s.\n" % builtins_lit(w) +
            "Definition classes : list cid := seq 0 %d.\n" % (nb + N_USER) +
            "Definition builtin_cls : list cid := seq 0 %d.\n" % nb +
            "Definition cands : list str := [%s].\n" % ";".join(lib.codepoints(s) for s in CANDIDATES) +
            "Definition cases : list (Z * list rop * list robs) := [\n" + ";\n".join(items) + "].\n"
            "Definition mism := flat_map (fun c : Z * list rop * list robs => let '(i, ops, o) := c in\n"
            "  if list_all2 robs_eqb (rrun B classes cands (init B) ops) o then [] else [i]) cases.\n"
            "(* property on observed data: after every reset(True, True) the built-in view equals the fresh one; built-in symbols always\n"
            "   map to themselves (never removed or shadowed); an inconsistent or invalid definition is refused *)\n"
            "Definition fresh := observe_r B builtin_cls cands RK_ok (init B).\n"
            "Definition same_view (a b : robs) : bool := ostrs_eqb (ro_all_priv a) (ro_all_priv b) && ostrs_eqb (ro_all_pub a) (ro_all_pub b)\n"
            "  && ostrs_eqb (ro_def_priv a) (ro_def_priv b) && ostrs_eqb (ro_def_pub a) (ro_def_pub b)\n"
            "  && list_all2 oz_eqb (firstn %d (ro_defaults a)) (ro_defaults b) && list_all2 Bool.eqb (ro_parses a) (ro_parses b).\n" % nb +
            "Definition cmp_res (op : rop) : bool := match op with SetDefault _ _ => false | _ => true end.\n"
            "Definition suffix_fresh (ops : list rop) (o : list robs) : bool :=\n"
            "  list_all2 (fun a b => same_view b a && (res_kind_eqb (ro_res a) (ro_res b)))\n"
            "    (map (fun ob => ob) (rrun B builtin_cls cands (init B) ops)) (map (fun ob => ob) o)\n"
            "  || negb (forallb cmp_res ops).\n"
            "Fixpoint check (ops : list rop) (o : list robs) : bool := match ops, o with\n"
            "  | op :: ops', ob :: o' =>\n"
            "      (match op with\n"
            "       | Reset true true => same_view ob fresh && suffix_fresh ops' o'     (* behaves as freshly imported from here on *)\n"
            "       | Register _ sym _ consistent _ => if negb consistent || negb (valid_symbol (Circuit.ElemState.strip sym)) then negb (res_kind_eqb (ro_res ob) RK_ok) else true\n"
            "       | _ => true end)\n"
            "      && ostrs_eqb (ro_def_priv ob) (ro_def_priv fresh) && ostrs_eqb (ro_def_pub ob) (ro_def_pub fresh)\n"
            "      && check ops' o'\n"
            "  | _, _ => true end.\n"
            "Definition viol := flat_map (fun c : Z * list rop * list robs => let '(i, ops, o) := c in if check ops o then [] else [(- (i + 1))%Z]) cases.\n"
            "Definition result : list Z := (if wf_builtins B then [] else [(-1000000)%Z]) ++ mism ++ viol.\n")


def describe(ops, obs):
    return {"ops": [list(map(str, o)) for o in ops], "observed": [{k: (v if k != "defaults" else None) for k, v in ob.items() if k in ("res", "au", "ap")} for ob in obs]}


def shadow_probes(w, rng, tier):
    """built-ins cannot be shadowed — also not by a user-defined class that DERIVES from a built-in class (a user's variant of the
    resistor, say) and asks for the symbol of its parent or of another built-in: registration is refused, every symbol still maps
    to its built-in class, parse_cdc still builds the built-in, and after remove_elements(variant) / reset nothing is missing"""
    import pyimpspec
    from pyimpspec.circuit.registry import ElementDefinition, ParameterDefinition
    bad = []
    rows = [r for r in w.rows if not r["container"]]
    picks = rows if tier != "quick" else rng.sample(rows, min(6, len(rows)))
    for row in picks:
        parent = row["cls"]
        psym = row["symbol"]
        keys = row["keys"]
        variant = type("Variant" + parent.__name__, (parent,), {})
        other = rng.choice([r for r in w.rows if r["cls"] is not parent])["symbol"]
        for sym in (psym, other):
            w.restore()
            before = dict(pyimpspec.get_elements(default_only=False, private=True))
            d = ElementDefinition(Class=variant, symbol=sym, name="variant", description="a user's variant of a built-in element",
                                  equation=getattr(parent, "_equation", "R"),
                                  parameters=[ParameterDefinition(symbol=k, unit="", description=k, value=float(parent.get_default_values()[k]),
                                                                  lower_limit=float(parent.get_default_lower_limits()[k]),
                                                                  upper_limit=float(parent.get_default_upper_limits()[k]),
                                                                  fixed=bool(parent.are_fixed_by_default()[k])) for k in keys])
            try:
                pyimpspec.register_element(d)
                refused = False
            except Exception:  # noqa
                refused = True
            after = dict(pyimpspec.get_elements(default_only=False, private=True))
            desc = dict(parent=parent.__name__, requested_symbol=sym)
            if not refused:
                bad.append((desc, "register_element accepted a user-defined class derived from a built-in under the symbol of a built-in"))
            elif any(after.get(k) is not v for k, v in before.items()) or len(after) != len(before):
                bad.append((desc, "the refused registration changed the registry"))
            else:
                try:
                    el = pyimpspec.parse_cdc(sym).get_elements()[0]
                    if type(el) is not before[sym]:
                        bad.append((desc, "parse_cdc('%s') builds %s" % (sym, type(el).__name__)))
                except Exception as e:  # noqa
                    bad.append((desc, "parse_cdc('%s') raised %s" % (sym, type(e).__name__)))
            try:
                pyimpspec.circuit.registry.remove_elements(variant)
            except Exception:  # noqa
                pass
            final = dict(pyimpspec.get_elements(default_only=False, private=True))
            if any(final.get(k) is not v for k, v in before.items()) and refused:
                bad.append((desc, "a built-in symbol is missing after remove_elements(variant)"))
    w.restore()
    return bad, len(picks) * 2


def run(rep, tier, seed, tr_errors):
    rng = random.Random(seed)
    w = World()
    rep.rule = ("histories over {register_element(valid | inconsistent | duplicate-symbol | invalid-symbol definitions, private flag), remove_elements, "
                "reset(elements, default_parameters), Class.set_default_values, reset_default_parameter_values}, observed after every step through "
                "get_elements (4 variants), class defaults and parse_cdc of candidate symbols; non-trivial = >= 2 successful registrations and a reset; distinct by op list")
    rep.trusted += ["Coq 8.16.1 kernel, vm_compute", "hand-written model coq/Circuit/Registry.v of registry.py (tie 2); _validate_impedances is an oracle boolean (consistent / inconsistent equation chosen by the harness)",
                    "module dictionaries are restored from a snapshot between cases by the harness (not by the library's own reset)"]
    thm_ok, names, out = lib.check_props_file(rep, PROPS_FILE, expect=["C15_reset_is_fresh", "C15_builtins_preserved", "C15_bad_definitions_refused", "C15_builtin_symbols_tokenize_uniquely", "C15_valid_symbols_tokenize_uniquely", "C15_builtin_symbols_are_valid"])
    cases = []
    # short exhaustive histories around the private/reset interaction
    tmpl = [("register", len(w.builtin), "Ud", 2.0, True, True), ("register", len(w.builtin), "Ud", 2.0, True, False),
            ("register", len(w.builtin) + 1, "Ud", 5.0, True, False), ("register", len(w.builtin), "R", 2.0, True, False),
            ("register", len(w.builtin), "Ue", 2.0, False, False), ("remove", [len(w.builtin)]), ("remove", [0]),
            ("remove", [w.cid(w.snap[1]["K"])]), ("remove", [len(w.builtin), w.cid(w.snap[1]["Ky"])]),
            ("reset", True, True), ("reset", True, False), ("reset", False, True), ("set_default", 0, 3.0), ("reset_defaults", None)]
    L = 3 if tier == "quick" else 4
    seqs = [list(s) for n in range(1, L + 1) for s in itertools.product(tmpl, repeat=n)]
    if len(seqs) > (1500 if tier == "quick" else 20000):
        seqs = rng.sample(seqs, 1500 if tier == "quick" else 20000)
    n_rand = 400 if tier == "quick" else 6000
    seqs += [[gen_op(w, rng) for _ in range(rng.randint(1, 12 if tier == "quick" else 25))] for _ in range(n_rand)]
    for i, ops in enumerate(seqs):
        w.restore()
        obs = []
        for op in ops:
            exc = w.apply(op)
            obs.append(w.observe(exc))
        cases.append((i, ops, obs))
        rep.evaluations += 1
        if sum(1 for o, ob in zip(ops, obs) if o[0] == "register" and ob["res"] == "RK_ok") >= 2 and any(o[0] == "reset" for o in ops):
            rep.distinct.add(json.dumps([list(map(str, o)) for o in ops]))
    w.restore()
    rep.samples = [describe(c[1], c[2]) for c in cases[-2:]]
    shards = [cases[j:j + 150] for j in range(0, len(cases), 150)]
    outs = lib.run_shards(PROP, HEADER, [shard_text(w, sh) for sh in shards])
    mism, viol, broken = [], [], []
    for si, (rc, parsed, raw) in enumerate(outs):
        if rc != 0 or parsed is None:
            broken.append((si, raw[-800:]))
            continue
        for j in parsed:
            (viol if j < 0 else mism).append(-j - 1 if j < 0 else j)
    wf_bad = [j for j in viol if j == 999999]
    viol = [j for j in viol if j != 999999]
    rep.oblige("theorem-hypotheses-hold-for-the-live-built-in-table (wf_builtins B = true by vm_compute)", not wf_bad and not broken, "")
    rep.oblige("correspondence:Registry.v-vs-registry.py", not mism and not broken, "%d histories, %d mismatches, %d shards failed" % (len(cases), len(mism), len(broken)))
    rep.oblige("property-on-observed-histories", not viol, "%d histories" % len(viol))
    rep.extra["traces_validated_against_impl"] = len(cases)
    try:
        sbad, sn = shadow_probes(w, rng, tier)
    except Exception as e:  # noqa
        sbad, sn = [(dict(probe="shadow_probes"), "harness error %s: %s" % (type(e).__name__, str(e)[:200]))], 0
    rep.evaluations += sn
    rep.oblige("built-ins-cannot-be-shadowed-by-classes-derived-from-built-ins", not sbad, "%d attempts, %d problems" % (sn, len(sbad)))
    for n_, (desc, why) in enumerate(sbad[:3]):
        desc = dict(desc)
        desc["observed"] = why
        rep.violation("shadow_%d" % n_, {"kind": "counterexample", "obligation": "built-ins cannot be removed or shadowed", "input": desc})
    by = {c[0]: c for c in cases}
    for j in sorted(set(viol), key=lambda k: len(by[k][1]))[:3]:
        rep.violation("counterexample_%d" % j, {"kind": "counterexample", "obligation": "registry restorable / built-ins preserved / bad definitions refused", "input": describe(by[j][1], by[j][2])})
    if not viol:
        for j in sorted(set(mism), key=lambda k: len(by[k][1]))[:3]:
            rep.violation("correspondence_%d" % j, {"kind": "broken-obligation", "obligation": "correspondence:Registry.v", "input": describe(by[j][1], by[j][2])}, no_input=True)
        for si, raw in broken[:2]:
            rep.violation("shard_%d" % si, {"kind": "broken-obligation", "obligation": "cases shard did not evaluate", "log": raw}, no_input=True)
    if not thm_ok and not rep.violations:
        rep.violation("theorems", {"kind": "broken-obligation", "obligation": PROPS_FILE, "detail": [o for o in rep.obligations if not o[1]]}, no_input=True)


def replay(path):
    print(open(path).read()[:3000])
    return 0

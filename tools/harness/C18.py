"""C18 — every documented option combination completes or is refused up front; progress fractions in [0,1].
Proof part: An/Progress.v + Props/C18.v (fraction in [0,1] for every state/operation; increment raises iff counter passes the
total; Z-HIT step accounting from the translated num_steps arithmetic).  Tie 2: Progress model vs the real class on generated
operation sequences.  The option cross products are exercised on the implementation with Progress wrapped (observed totals,
increments, fractions, messages); any exception after the analysis has started that is not one of the library's own errors
is a violation with the option tuple as replay."""
import itertools
import json
import random
import traceback

from tools import lib

PROP = "C18"
PROPS_FILE = "Props/C18.v"
HEADER = """From Coq Require Import ZArith QArith Qabs List Bool.
From PV Require Import Base.Num Base.Outcome An.Progress.
Import ListNotations.
Definition qclose (a b : Q) : bool := Qle_bool (Qabs (a - b)) (1 # 1000000000).
Definition oq_eqb (a b : outcome (option Q)) : bool :=
  match a, b with
  | Ok None, Ok None => true
  | Ok (Some x), Ok (Some y) => qclose x y
  | Err e, Err e' => errkind_eqb e e'
  | Crash c, Crash c' => crashkind_eqb c c'
  | _, _ => false end.
Fixpoint all2 (a b : list (outcome (option Q))) : bool :=
  match a, b with [], [] => true | x :: a', y :: b' => oq_eqb x y && all2 a' b' | _, _ => false end.
"""

LIB_ERRORS = ("KramersKronigError", "FittingError", "DRTError", "ZHITError", "InfiniteImpedance", "NotANumberImpedance")


# ---- Progress correspondence ---------------------------------------------------------------------------
def run_progress(total, ops):
    from pyimpspec import progress as P
    emitted = []

    def cb(*args, **kwargs):
        emitted.append((kwargs.get("progress"), kwargs.get("message")))
    h = P.register(cb)
    P._RECENT_PROGRESS = -1.0
    out = []
    try:
        prog = P.Progress("msg", total=total)
        for op in ops:
            n0 = len(emitted)
            try:
                if op[0] == "enter":
                    prog.__enter__()
                elif op[0] == "inc":
                    prog.increment(step=op[1], force=op[2])
                elif op[0] == "set":
                    prog.set(op[1])
                elif op[0] == "msg":
                    prog.set_message("m2", i=op[1], total=op[2], force=op[3])
                elif op[0] == "exit":
                    prog.__exit__(None, None, None)
                out.append(("ok", emitted[n0][0] if len(emitted) > n0 else None, len(emitted) - n0))
            except ValueError:
                out.append(("err", "EValue", 0))
                break
            except ZeroDivisionError:
                out.append(("crash", "CZeroDiv", 0))
                break
    finally:
        P.unregister(h)
        P._RECENT_PROGRESS = -1.0
    bad_messages = [m for _, m in emitted if not isinstance(m, str) or m == ""]
    return out, bad_messages


def op_lit(op):
    if op[0] == "enter":
        return "PEnter"
    if op[0] == "inc":
        return "(PIncrement (%d)%%Z %s)" % (op[1], lib.coqbool(op[2]))
    if op[0] == "set":
        return "(PSet (%d)%%Z)" % op[1]
    if op[0] == "msg":
        return "(PSetMessage (%d)%%Z (%d)%%Z %s)" % (op[1], op[2], lib.coqbool(op[3]))
    return "PExit"


def out_lit(o):
    if o[0] == "ok":
        return "(Ok None)" if o[1] is None else "(Ok (Some %s))" % lib.qlit(o[1])
    if o[0] == "err":
        return "(Err EValue)"
    return "(Crash CZeroDiv)"


def progress_cases(rng, n):
    cases = []
    for i in range(n):
        total = rng.choice([3, 7, 11, 13, 17, 23, 37, 41, 97, 101, 211, 1, 0 if rng.random() < 0.03 else 7])
        ops = [("enter",)]
        for _ in range(rng.randint(1, 40)):
            r = rng.random()
            if r < 0.7:
                ops.append(("inc", rng.choice([1, 1, 1, 2, 3, 0]), rng.random() < 0.3))
            elif r < 0.8:
                ops.append(("set", rng.randint(0, max(total, 1) + 1)))
            elif r < 0.9:
                ops.append(("msg", rng.choice([-1, -1, 0]), rng.choice([-1, -1, 29, 53]), rng.random() < 0.7))
            else:
                ops.append(("exit",))
        cases.append((i, total, ops))
    return cases


def shard_text(cases):
    items = []
    for i, total, ops, out in cases:
        items.append("(%d%%Z, (%d)%%Z, [%s], [%s])" % (i, total, ";".join(op_lit(o) for o in ops), ";".join(out_lit(o) for o in out)))
    return ("Definition cases : list (Z * Z * list pop * list (outcome (option Q))) := [\n" + ";\n".join(items) + "].\n"
            "Definition mism := flat_map (fun c : Z * Z * list pop * list (outcome (option Q)) => let '(i, t, ops, o) := c in\n"
            "  if all2 (prun (mkPr 0 t None) ops) o then [] else [i]) cases.\n"
            "Definition viol := flat_map (fun c : Z * Z * list pop * list (outcome (option Q)) => let '(i, t, ops, o) := c in\n"
            "  if forallb (fun x => match x with Ok (Some q) => Qle_bool 0 q && Qle_bool q 1 | _ => true end) o then [] else [(- (i + 1))%Z]) cases.\n"
            "Definition result : list Z := mism ++ viol.\n")


# ---- option sweeps on the implementation -------------------------------------------------------------------
class Watch:
    """wraps Progress to observe totals, counters and emitted fractions of one call"""

    def __enter__(self):
        from pyimpspec import progress as P
        self.P = P
        self.started = 0
        self.over = []
        self.fractions = []
        self.messages_bad = 0
        self.blocks = []          # [announced total, increments received (the one of __exit__ included)] per Progress object
        w = self
        self._init = P.Progress.__init__
        self._inc = P.Progress.increment

        def init(prog, message, total=1, *a, **k):
            w.started += 1
            prog._w_idx = len(w.blocks)
            w.blocks.append([total, 0])
            w._init(prog, message, total, *a, **k)

        def inc(prog, step=1, force=False):
            if prog._i + step > prog._total:
                w.over.append((prog._i + step, prog._total))
            if hasattr(prog, "_w_idx"):
                w.blocks[prog._w_idx][1] += step
            return w._inc(prog, step=step, force=force)
        P.Progress.__init__ = init
        P.Progress.increment = inc

        def cb(*args, **kwargs):
            w.fractions.append(kwargs.get("progress"))
            if not isinstance(kwargs.get("message"), str):
                w.messages_bad += 1
        self.h = P.register(cb)
        return self

    def __exit__(self, *a):
        self.P.Progress.__init__ = self._init
        self.P.Progress.increment = self._inc
        self.P.unregister(self.h)
        self.P._RECENT_PROGRESS = -1.0


def classify(fn, kwargs):
    """returns (status, detail): status in ok | refused | library-error | VIOLATION"""
    with Watch() as w:
        try:
            fn(**kwargs)
            status, detail = "ok", ""
        except Exception as e:  # noqa
            name = type(e).__name__
            tb = traceback.extract_tb(e.__traceback__)
            where = "%s:%d" % (tb[-1].filename.split("/")[-1], tb[-1].lineno) if tb else ""
            if name in LIB_ERRORS:
                status, detail = "library-error", name
            elif w.started == 0 and name in ("TypeError", "ValueError", "NotImplementedError"):
                status, detail = "refused", name
            else:
                status, detail = "VIOLATION", "%s after the analysis started (%s): %s" % (name, where, str(e)[:120])
        if w.over and status != "VIOLATION":
            status, detail = "VIOLATION", "progress counter passed the total: %r" % w.over[:2]
        bad = [x for x in w.fractions if not (isinstance(x, float) and 0.0 <= x <= 1.0)]
        if (bad or w.messages_bad) and status != "VIOLATION":
            status, detail = "VIOLATION", "progress notification outside [0,1] or without message: %r" % bad[:3]
    return status, detail


def sweeps(tier, rng):
    import numpy as np
    import pyimpspec
    from pyimpspec import DataSet, parse_cdc
    from pyimpspec.analysis.kramers_kronig import evaluate_log_F_ext
    f = np.logspace(4, -1, 26)
    circuit = parse_cdc("R{R=100}(R{R=200}C{C=1e-4})(R{R=300}C{C=1e-2})")
    Z = circuit.get_impedances(f)
    data = DataSet(f, Z, label="sweep")
    small = DataSet(f[:6], Z[:6], label="small")
    combos = []
    tests = ["complex", "real", "imaginary", "complex-inv", "real-inv", "imaginary-inv", "cnls"]
    kk = list(itertools.product(tests, [None, False, True], [False, True], [False, True], [0, 1, 2, 5], [-1, 0, 3], [True, False]))
    rng.shuffle(kk)
    # the smallest numbers of RC elements are always tried (the edge of "fixed number" vs "automatic")
    edge = [("complex", None, True, True, 1, 0, True), ("real", False, True, False, 1, 0, False), ("complex-inv", True, False, True, 1, 0, True),
            ("complex", None, True, True, 2, 0, True), ("imaginary", False, False, False, 2, 0, False)]
    for t, adm, C, L, nrc, nfe, rapid in edge + kk[: (25 if tier == "quick" else 400)]:
        if t == "cnls" and (nrc == 0 or nfe != 0) and tier == "quick":
            continue
        combos.append(("perform_kramers_kronig_test", pyimpspec.perform_kramers_kronig_test,
                       dict(data=data, test=t, admittance=adm, add_capacitance=C, add_inductance=L, num_RC=nrc,
                            num_F_ext_evaluations=nfe, rapid_F_ext_evaluations=rapid, num_procs=1, timeout=5, max_nfev=30)))
    zh = list(itertools.product(["none", "lowess", "savgol", "modsinc", "whithend", "auto"], ["akima", "makima", "cubic", "pchip", "auto"],
                                [False, True], ["auto", "hann", None], [(3, 2), (5, 2), (5, 3), (7, 4), (5, 1)]))
    rng.shuffle(zh)
    # the corners where every choice is left to the library are always run, the rest is sampled
    corners = [("auto", "auto", False, "auto", (5, 2)), ("auto", "auto", True, None, (5, 2)), ("auto", "makima", False, "hann", (5, 2)), ("savgol", "auto", True, "auto", (5, 2))]
    for sm, ip, adm, win, (npts, order) in corners + zh[: (40 if tier == "quick" else 600)]:
        kw = dict(data=data, smoothing=sm, interpolation=ip, admittance=adm, num_points=npts, polynomial_order=order, num_procs=1)
        if win is None:
            kw["weights"] = np.linspace(0.0, 1.0, len(f))
        else:
            kw["window"] = win
        combos.append(("perform_zhit", pyimpspec.perform_zhit, kw))
    for mode, lam in itertools.product(["real", "imaginary"], [-1.0, 1e-3]):
        combos.append(("calculate_drt[tr-nnls]", pyimpspec.calculate_drt, dict(data=data, method="tr-nnls", mode=mode, lambda_value=lam)))
    for mo, mm in itertools.product([0, 3], ["matrix_rank", "pseudo_chisqr"]):
        combos.append(("calculate_drt[lm]", pyimpspec.calculate_drt, dict(data=data, method="lm", model_order=mo, model_order_method=mm, num_procs=1)))
    combos.append(("calculate_drt[mrq-fit]", pyimpspec.calculate_drt, dict(data=data, method="mrq-fit", circuit=parse_cdc("R(RQ)(RQ)"), max_nfev=50, num_procs=1)))
    if tier != "quick":
        combos.append(("calculate_drt[bht]", pyimpspec.calculate_drt, dict(data=data, method="bht", num_samples=200, num_attempts=2, num_procs=1)))
    methods = ["leastsq", "least_squares", "nelder", "lbfgsb", "powell", "cg", "bfgs", "tnc", "slsqp"]
    weights = ["unity", "modulus", "proportional", "boukamp"]
    fits = list(itertools.product(methods + ["auto"], weights + ["auto"]))
    rng.shuffle(fits)
    for m, wt in [("auto", "auto")] + fits[: (8 if tier == "quick" else 50)]:
        if tier == "quick" and "auto" in (m, wt) and (m, wt) != ("auto", "auto"):
            continue
        combos.append(("fit_circuit", pyimpspec.fit_circuit, dict(circuit=parse_cdc("R(RC)(RC)"), data=data, method=m, weight=wt, max_nfev=40, num_procs=1)))
    combos.append(("fit_circuit", pyimpspec.fit_circuit, dict(circuit=parse_cdc("R(RC)"), data=small, method=["leastsq", "nelder"], weight=["unity", "boukamp"], max_nfev=30, num_procs=1)))
    # lists of different lengths (the step total is len(method) * len(weight))
    for ms, ws_ in ((["leastsq"], ["unity", "modulus", "boukamp"]), (["leastsq", "nelder"], ["unity", "modulus", "boukamp"]),
                    (["leastsq", "nelder", "powell"], ["boukamp"]), (["leastsq"], "auto"), ("auto", ["unity", "proportional"])):
        combos.append(("fit_circuit", pyimpspec.fit_circuit, dict(circuit=parse_cdc("R(RC)"), data=small, method=ms, weight=ws_, max_nfev=30, num_procs=1)))
    # undocumented option values, alone and inside lists: outside the property's quantifier (documented values), but an unknown name must
    # not surface part-way as an unhandled lookup error either; kept for the entry points that refuse them up front on the unchanged tree
    # (perform_kramers_kronig_test(test=<unknown>) is refused only after its progress has started, with a descriptive ValueError: not included)
    bogus = [("fit_circuit", pyimpspec.fit_circuit, dict(circuit=parse_cdc("R(RC)"), data=small, method="leastsq", weight=["modulus", "bogus"], max_nfev=30, num_procs=1)),
             ("fit_circuit", pyimpspec.fit_circuit, dict(circuit=parse_cdc("R(RC)"), data=small, method=["leastsq", "bogus"], weight="boukamp", max_nfev=30, num_procs=1)),
             ("fit_circuit", pyimpspec.fit_circuit, dict(circuit=parse_cdc("R(RC)"), data=small, method="bogus", weight="bogus", max_nfev=30, num_procs=1)),
             ("fit_circuit", pyimpspec.fit_circuit, dict(circuit=parse_cdc("R(RC)"), data=small, method=[], weight=["boukamp"], max_nfev=30, num_procs=1)),
             ("perform_zhit", pyimpspec.perform_zhit, dict(data=data, smoothing="bogus", num_procs=1)),
             ("perform_zhit", pyimpspec.perform_zhit, dict(data=data, interpolation="bogus", num_procs=1)),
             ("perform_zhit", pyimpspec.perform_zhit, dict(data=data, window="bogus", num_procs=1)),
             ("calculate_drt[bogus]", pyimpspec.calculate_drt, dict(data=data, method="bogus")),
             ("calculate_drt[tr-nnls]", pyimpspec.calculate_drt, dict(data=data, method="tr-nnls", mode="bogus")),
             ("calculate_drt[lm]", pyimpspec.calculate_drt, dict(data=data, method="lm", model_order_method="bogus", num_procs=1))]
    combos += bogus
    combos.append(("perform_zhit", pyimpspec.perform_zhit, dict(data=small, num_procs=1)))
    combos.append(("perform_kramers_kronig_test", pyimpspec.perform_kramers_kronig_test, dict(data=small, num_procs=1)))
    return combos


def kk_step_cases(tier, rng):
    """evaluate_log_F_ext on its three routes: (route, size, observed total, observed increments without the one of __exit__)"""
    import numpy as np
    from pyimpspec import DataSet, parse_cdc
    from pyimpspec.analysis.kramers_kronig import evaluate_log_F_ext
    f = np.logspace(4, -1, 21)
    Z = parse_cdc("R{R=100}(R{R=200}C{C=1e-4})(R{R=300}C{C=1e-2})").get_impedances(f)
    data = DataSet(f, Z, label="kksteps")
    jobs = []
    for t in ["complex", "real-inv", "cnls"] if tier == "quick" else ["complex", "real", "imaginary", "complex-inv", "real-inv", "imaginary-inv", "cnls"]:
        for rcs in ([], [2], [3, 7, 5], list(range(2, 12))):
            if t == "cnls" and len(rcs) != 1 and tier == "quick":
                continue
            jobs.append(("fixed", t, dict(num_RCs=rcs, num_F_ext_evaluations=0)))
    ns = [10, 11, 14, 20, -10, -13] if tier == "quick" else [10, 11, 12, 13, 14, 17, 20, 25, 33, -10, -11, -13, -20]
    for n in ns:
        for t in (["complex", "imaginary-inv"] if tier == "quick" else ["complex", "real", "imaginary-inv", "complex-inv"]):
            for rapid in ((True,) if (tier == "quick" and n % 2) else (True, False)):
                jobs.append(("search", t, dict(num_RCs=[], num_F_ext_evaluations=n, rapid_F_ext_evaluations=rapid,
                                               min_log_F_ext=rng.choice([-1.0, -0.5, 0.0]), max_log_F_ext=rng.choice([1.0, 0.3]))))
    out = []
    for route, t, kw in jobs:
        with Watch() as w:
            try:
                evaluate_log_F_ext(data=data, test=t, num_procs=1, timeout=5, max_nfev=20, **kw)
                err = ""
            except Exception as e:  # noqa
                err = type(e).__name__
        size = kw["num_F_ext_evaluations"] if route == "search" else (len(kw["num_RCs"]) if kw["num_RCs"] else None)
        out.append(dict(route=route, test=t, options={k: v for k, v in kw.items()}, error=err, blocks=[list(b) for b in w.blocks], size=size, over=list(w.over)))
    return out


def describe_kwargs(kw):
    out = {}
    for k, v in kw.items():
        if k in ("data",):
            out[k] = "DataSet(%d points)" % v.get_num_points()
        elif k == "circuit":
            out[k] = v.to_string()
        elif hasattr(v, "shape"):
            out[k] = "array(%d)" % len(v)
        else:
            out[k] = v
    return out


def known_match(kf, name, kw, detail):
    for f in kf.get("findings", []):
        if f.get("property") != PROP:
            continue
        m = f.get("match", {})
        if m.get("entry") == name and all(kw.get(k) == v for k, v in m.get("options", {}).items()) and m.get("exception", "") in detail:
            return f
    return None


def run(rep, tier, seed, tr_errors):
    rng = random.Random(seed)
    rep.rule = ("(a) operation sequences on Progress (enter, increment with steps 0..3 and force, set, set_message with/without new "
                "total, exit) for totals coprime to 100; (b) sampled cross products of documented options for KK (7 tests x admittance x C x L x "
                "num_RC x num_F_ext_evaluations x rapid), Z-HIT (6 smoothing x 5 interpolation x Z/Y x window/weights x (num_points, order)), "
                "DRT (tr-nnls, lm, mrq-fit, bht in thorough), fit (methods x weights, lists) on a 26-point and a 6-point spectrum; (c) evaluate_log_F_ext on its three routes (fixed extension with several num_RCs lists, two-stage search with 10..33 evaluations, lmfit search with -10..-20) with observed totals and increment counts checked against gen/KKSteps_gen.v inside Coq; non-trivial = "
                "distinct option tuple that ran to completion or was refused; distinct by tuple")
    rep.trusted += ["Coq 8.16.1 kernel, vm_compute", "model coq/An/Progress.v of progress.py (tie 2: correspondence on sequences); gen/Steps_gen.v translated from zhit/__init__.py and fitting.py, gen/ProgressBlocks_gen.v from every `with Progress(total=<literal>)` block under analysis/ (tie 1; the path-sensitive increment count of tools/tr_progress.py is trusted)",
                    "gen/KKSteps_gen.v translated from kramers_kronig/exploratory.py (totals of the three routes of evaluate_log_F_ext, stage sizes of the two-stage search; the places where the progress object is incremented are checked structurally by tools/tr_kksteps.py) and compared with the totals and increment counts observed on runs of every route; lmfit calls the residual function at most max_nfev times (hypothesis of the lmfit-route theorem)",
                    "the step counts of the DRT searches (_test_lambda_values, _perform_attempts, tr_rbf) are observed (Progress wrapped), not proved; numeric libraries are exercised only"]
    if "tr_steps" in tr_errors:
        rep.oblige("translator:tr_steps", False, tr_errors["tr_steps"][-400:])
    else:
        rep.oblige("translator:tr_steps", True, "gen/Steps_gen.v regenerated")
    rep.oblige("translator:tr_progress", "tr_progress" not in tr_errors, tr_errors.get("tr_progress", "gen/ProgressBlocks_gen.v regenerated (literal-total Progress blocks, largest increment count on any path)")[-400:])
    thm_ok, names, out = lib.check_props_file(rep, PROPS_FILE, expect=["C18_fraction_in_unit", "C18_increment_raises_iff", "C18_zhit_steps_ok", "C18_fit_steps_ok", "C18_constant_blocks_run_to_the_end", "C18_kk_fixed_extension_runs_to_the_end", "C18_kk_two_stage_search_runs_to_the_end", "C18_kk_lmfit_search_runs_to_the_end"])
    pcs = progress_cases(rng, 400 if tier == "quick" else 5000)
    cases = []
    bad_msgs = 0
    for i, total, ops in pcs:
        out_, bm = run_progress(total, ops)
        bad_msgs += len(bm)
        cases.append((i, total, ops[:len(out_)], out_))
        rep.evaluations += 1
    shards = [cases[j:j + 200] for j in range(0, len(cases), 200)]
    outs = lib.run_shards(PROP, HEADER, [shard_text(sh) for sh in shards])
    mism, viol, broken = [], [], []
    for si, (rc, parsed, raw) in enumerate(outs):
        if rc != 0 or parsed is None:
            broken.append((si, raw[-800:]))
            continue
        for j in parsed:
            (viol if j < 0 else mism).append(-j - 1 if j < 0 else j)
    rep.oblige("correspondence:Progress.v-vs-progress.py", not mism and not broken, "%d sequences, %d mismatches, %d shards failed" % (len(cases), len(mism), len(broken)))
    rep.oblige("observed-fractions-in-unit-interval-with-message", not viol and bad_msgs == 0, "%d sequences, %d notifications without message" % (len(viol), bad_msgs))
    # option sweeps
    kf = lib.load_known_findings()
    combos = sweeps(tier, rng)
    stats = {}
    found = []
    known_seen = set()
    for name, fn, kw in combos:
        status, detail = classify(fn, kw)
        stats.setdefault(name, {}).setdefault(status, 0)
        stats[name][status] += 1
        rep.evaluations += 1
        rep.distinct.add(json.dumps([name, describe_kwargs(kw)], default=str, sort_keys=True))
        if status == "VIOLATION":
            f = known_match(kf, name, kw, detail)
            if f is not None:
                if f["id"] not in known_seen:
                    known_seen.add(f["id"])
                    rep.known_finding("%s: %s" % (f["id"], f["what"]))
            else:
                found.append((name, describe_kwargs(kw), detail))
    rep.extra["option_sweep"] = stats
    # evaluate_log_F_ext: observed totals and increment counts against the translated step arithmetic (gen/KKSteps_gen.v)
    rep.oblige("translator:tr_kksteps", "tr_kksteps" not in tr_errors, tr_errors.get("tr_kksteps", "gen/KKSteps_gen.v regenerated (totals, stage sizes; increment sites checked structurally)")[-400:])
    kk_obs = kk_step_cases(tier, rng)
    kk_bad = []
    items = []
    for j, o in enumerate(kk_obs):
        rep.evaluations += 1
        rep.distinct.add(json.dumps(["evaluate_log_F_ext", o["route"], o["test"], o["options"]], default=str, sort_keys=True))
        if o["error"] or o["over"] or len(o["blocks"]) != 1:
            if o["error"] not in LIB_ERRORS or o["over"]:
                kk_bad.append((j, "error=%s over=%r blocks=%r" % (o["error"], o["over"], o["blocks"])))
            continue
        total, incs = o["blocks"][0]
        n = o["size"] if o["size"] is not None else (2 * 21 - 5 - 1 if not o["test"].endswith("-inv") else min(21 + 10, 2 * 21 - 5) - 1)
        items.append("(%d, %s, %s, %d, %d, %d)" % (j, "true" if o["route"] == "search" else "false", "true" if o["test"] == "cnls" else "false", n, total, incs - 1))
    kk_header = "From Coq Require Import ZArith Bool List.\nFrom PV Require Import An.Progress_kk gen.KKSteps_gen.\nImport ListNotations.\nOpen Scope Z_scope.\n"
    kk_body = ("Definition cases : list (Z * bool * bool * Z * Z * Z) := [\n" + ";\n".join(items) + "].\n"
               "(* search: total as announced, increments within the bound of the route; fixed: total as announced, increments exactly\n"
               "   1 + 1 + n for the linear implementations, at most that for the non-linear one *)\n"
               "Definition result : list Z := flat_map (fun c : Z * bool * bool * Z * Z * Z => let '(i, search, cnls, n, total, incs) := c in\n"
               "  if (if search then (total =? kk_total_search n) && (incs + 1 <=? total) && (2 <=? incs)\n"
               "      else (total =? kk_total_fixed n) && (if cnls then incs <=? kk_incs_fixed n else incs =? kk_incs_fixed n)) then [] else [i]) cases.\n")
    kk_out = lib.run_shards(PROP + "_kk", kk_header, [kk_body]) if items else []
    kk_mism = []
    for rc, parsed, raw in kk_out:
        if rc != 0 or parsed is None:
            kk_bad.append((-1, "cases shard did not evaluate: " + raw[-300:]))
        else:
            kk_mism += parsed
    for j in kk_mism:
        kk_bad.append((j, "observed (total, increments) = %r differ from the translated step arithmetic" % (kk_obs[j]["blocks"],)))
    rep.extra["kk_steps"] = {"runs": len(kk_obs), "compared": len(items), "library_errors": sum(1 for o in kk_obs if o["error"] in LIB_ERRORS and o["error"])}
    rep.oblige("evaluate_log_F_ext:observed-steps-match-translated-arithmetic", not kk_bad and len(items) >= 10, "%d runs, %d compared, %d disagreements" % (len(kk_obs), len(items), len(kk_bad)))
    for j, why in kk_bad[:3]:
        o = kk_obs[j] if j >= 0 else {}
        found.append(("evaluate_log_F_ext", {"test": o.get("test"), **{k: v for k, v in o.get("options", {}).items()}}, why))
    rep.samples = [{"entry": n, "options": describe_kwargs(k)} for n, _, k in combos[:3]]
    rep.oblige("option-sweep:completes-or-refused-up-front", not found, "%d option tuples aborted part-way or broke the progress contract" % len(found))
    by = {c[0]: c for c in cases}
    for j in sorted(set(viol))[:2]:
        rep.violation("fraction_%d" % j, {"kind": "counterexample", "obligation": "progress fraction in [0,1]", "input": {"total": by[j][1], "ops": by[j][2]}})
    for n, (name, kwd, detail) in enumerate(found[:5]):
        rep.violation("sweep_%d" % n, {"kind": "counterexample", "obligation": "completes or refused up front", "input": {"entry": name, "options": kwd, "observed": detail}})
    if not viol and not found:
        for j in sorted(set(mism))[:3]:
            rep.violation("correspondence_%d" % j, {"kind": "broken-obligation", "obligation": "correspondence:Progress.v", "input": {"total": by[j][1], "ops": by[j][2], "observed": by[j][3]}}, no_input=True)
        for si, raw in broken[:2]:
            rep.violation("shard_%d" % si, {"kind": "broken-obligation", "obligation": "cases shard did not evaluate", "log": raw}, no_input=True)
    if not thm_ok and not rep.violations:
        rep.violation("theorems", {"kind": "broken-obligation", "obligation": PROPS_FILE, "detail": [o for o in rep.obligations if not o[1]]}, no_input=True)


def replay(path):
    print(open(path).read()[:3000])
    return 0

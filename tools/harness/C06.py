"""C06 — writing a spectrum to a supported file layout and parsing it returns it.
Tie 1: gen/Aliases_gen.v (alias table, CLI headers) regenerated from data_set.py.  Tie 2: Data/Columns.v (_detect_columns,
cartesian/polar choice and signs of _extract_data, _split_sweeps) evaluated in Coq against the implementation.  End to end:
real files in every documented convention and the six instrument layouts written to a scratch directory, parsed with
parse_data and compared with the written spectrum; the CLI's printed table is parsed back."""
import io
import json
import math
import os
import random
import shutil
import sys
import tempfile
import warnings
from contextlib import redirect_stdout

from tools import lib
from tools import fileio as F

PROP = "C06"
PROPS_FILE = "Props/C06.v"
EXPECT = ["C06_detect_sound", "C06_alias_table_ok", "C06_cli_table_is_such_a_file", "C06_sweeps_partition", "C06_consecutive_sweeps_split",
          "C06_single_point", "C06_sign_round_trip"]
HEADER = """From Coq Require Import ZArith NArith QArith List Bool.
From PV Require Import Base.Num Base.Outcome Circuit.Tree Data.ColBase gen.Aliases_gen Data.Columns.
Import ListNotations.
Definition kidx (k : kind) : nat := match k with KFreq => 0 | KImag => 1 | KReal => 2 | KMag => 3 | KPhase => 4 end.
Definition obs := outcome (list (nat * nat * bool)).
Definition found_obs (f : found) : list (nat * nat * bool) := map (fun e => (kidx (fst e), fst (snd e), snd (snd e))) f.
Fixpoint triples_eqb (a b : list (nat * nat * bool)) : bool :=
  match a, b with
  | [], [] => true
  | (k, i, n) :: a', (k', i', n') :: b' => Nat.eqb k k' && Nat.eqb i i' && Bool.eqb n n' && triples_eqb a' b'
  | _, _ => false
  end.
Definition obs_eqb (a b : obs) : bool :=
  match a, b with Ok x, Ok y => triples_eqb x y | Err e, Err f => errkind_eqb e f | Crash c, Crash d => crashkind_eqb c d | _, _ => false end.
Definition detect_obs (cols : list str) : obs := match detect_columns cols with Ok f => Ok (found_obs f) | Err e => Err e | Crash c => Crash c end.
Fixpoint mism_d (cases : list (Z * list str * obs)) : list Z :=
  match cases with [] => [] | (i, c, o) :: r => if obs_eqb (detect_obs c) o then mism_d r else i :: mism_d r end.
(* extraction + sweeps *)
Definition nat_list_eqb (a b : list nat) : bool := (fix go a b := match a, b with [], [] => true | x :: a', y :: b' => Nat.eqb x y && go a' b' | _, _ => false end) a b.
Definition sw_eqb (a b : outcome (list nat)) : bool :=
  match a, b with Ok x, Ok y => nat_list_eqb x y | Err e, Err f => errkind_eqb e f | Crash c, Crash d => crashkind_eqb c d | _, _ => false end.
Fixpoint mism_s (cases : list (Z * list Q * outcome (list nat))) : list Z :=
  match cases with [] => [] | (i, c, o) :: r => if sw_eqb (split_sweeps c) o then mism_s r else i :: mism_s r end.
Fixpoint rows_eqb (a b : list (Q * Q * Q)) : bool :=
  match a, b with [], [] => true | (x, y, z) :: a', (x', y', z') :: b' => Qeq_bool x x' && Qeq_bool y y' && Qeq_bool z z' && rows_eqb a' b' | _, _ => false end.
Definition ex_eqb (a b : outcome extracted) : bool :=
  match a, b with
  | Ok (Cart x), Ok (Cart y) => rows_eqb x y
  | Ok (Polar x), Ok (Polar y) => rows_eqb x y
  | Err e, Err f => errkind_eqb e f | Crash c, Crash d => crashkind_eqb c d | _, _ => false end.
Definition mk_found (l : list (nat * nat * bool)) : found :=
  map (fun t => let '(k, i, n) := t in ((match k with 0 => KFreq | 1 => KImag | 2 => KReal | 3 => KMag | _ => KPhase end)%nat, (i, n))) l.
Fixpoint mism_e (cases : list (Z * (list (nat * nat * bool) * list (list Q)) * outcome extracted)) : list Z :=
  match cases with [] => [] | (i, (f, rows), o) :: r => if ex_eqb (extract_data (mk_found f) rows) o then mism_e r else i :: mism_e r end.
"""
KIDX = {"frequency": 0, "imaginary": 1, "real": 2, "magnitude": 3, "phase": 4}


def spectrum(rng, n, descending=True):
    hi = rng.uniform(2, 6)
    lo = hi - rng.uniform(1, 6)
    f = [10 ** (hi - (hi - lo) * i / max(1, n - 1)) for i in range(n)] if n > 1 else [10 ** hi]
    if not descending:
        f = f[::-1]
    Z = [complex(rng.choice([-1, 1]) * 10 ** rng.uniform(-6, 6), rng.choice([-1, 1]) * 10 ** rng.uniform(-6, 6)) for _ in f]
    return f, Z


def check_file(path, expected):
    import numpy as np
    from pyimpspec import parse_data
    try:
        with warnings.catch_warnings():
            warnings.simplefilter("ignore")
            ds = parse_data(path)
    except Exception as e:  # noqa
        return "raised %s: %s" % (type(e).__name__, str(e)[:120])
    if len(ds) != len(expected):
        return "%d data sets instead of %d" % (len(ds), len(expected))
    for d, (ef, eZ) in zip(ds, expected):
        f, Z = d.get_frequencies(), d.get_impedances()
        order = sorted(range(len(ef)), key=lambda i: -ef[i])
        ef2 = np.array([ef[i] for i in order])
        eZ2 = np.array([eZ[i] for i in order])
        if len(f) != len(ef2):
            return "%d points instead of %d" % (len(f), len(ef2))
        if not np.allclose(f, ef2, rtol=1e-12, atol=0):
            return "frequencies differ"
        if not np.allclose(Z.real, eZ2.real, rtol=1e-11, atol=0) or not np.allclose(Z.imag, eZ2.imag, rtol=1e-11, atol=0):
            return "impedances differ (max relative difference %.3g)" % float(np.max(abs(Z - eZ2) / abs(eZ2)))
    return None


def random_convention(rng):
    polar = rng.random() < 0.4
    ka, kb = ("magnitude", "phase") if polar else ("real", "imaginary")
    conv = dict(alias_f=rng.choice(F.ALIASES["frequency"]), alias_a=rng.choice(F.ALIASES[ka]), alias_b=rng.choice(F.ALIASES[kb]), case=rng.choice(["lower", "upper", "title"]),
                suffix=rng.choice(F.SUFFIXES), neg_a=(not polar) and rng.random() < 0.3, neg_b=rng.random() < 0.4, polar=polar, sep=rng.choice(F.SEPARATORS),
                decimal=rng.choice([".", ","]), marker=rng.choice(["-", "−"]), column_order=rng.choice([[0, 1, 2], [0, 2, 1], [1, 2, 0], [2, 0, 1], [1, 0, 2], [2, 1, 0]]))
    if conv["sep"] == "," and conv["decimal"] == ",":
        conv["decimal"] = "."
    if conv["sep"] in (" ", ";") and " " in conv["alias_a"] + conv["alias_b"]:
        conv["sep"] = "\t"
    return conv


def file_cases(rng, n_tables, tier):
    """yield (name, text, encoding, expected, description)"""
    for it in range(n_tables):
        conv = random_convention(rng)
        nsw = rng.choice([1, 1, 2, 3])
        desc = rng.random() < 0.6
        npts = rng.choice([1, 2, 3, 10, 30])
        if nsw > 1 and npts < 2:
            npts = 2
        s0 = spectrum(rng, npts, desc)
        sweeps = [s0] + [(s0[0], spectrum(rng, npts, desc)[1]) for _ in range(nsw - 1)]
        text, exp = F.table_text(sweeps, conv)
        ext = rng.choice([".csv", ".txt"])
        d = dict(conv)
        d.update(layout="table" + ext, sweeps=nsw, points=npts, descending=desc)
        yield "t%d%s" % (it, ext), text, "utf-8", exp, d
    for ext, fn in F.LAYOUTS.items():
        for npts in (1, 2, 15) if tier == "quick" else (1, 2, 3, 15, 60):
            for nsw in ((1, 2, 3) if ext == ".mpt" else (1,)):
                if nsw > 1 and npts < 2:
                    continue
                s0 = spectrum(rng, npts)
                sweeps = [s0] + [(s0[0], spectrum(rng, npts)[1]) for _ in range(nsw - 1)]
                text, exp = fn(sweeps)
                yield "l%d_%d%s" % (npts, nsw, ext), text, "latin1", exp, dict(layout=ext, sweeps=nsw, points=npts)


def cli_cases(rng, tmp, n):
    """run the CLI's parse command on a written file and parse the printed csv table back"""
    import pyimpspec.cli as cli
    out = []
    for i in range(n):
        npts = rng.choice([1, 2, 12])
        f, Z = spectrum(rng, npts)
        text, exp = F.table_text([(f, Z)], dict(alias_f="f", alias_a="z'", alias_b="z''", case="lower", suffix="", neg_a=False, neg_b=False, polar=False, sep=",", decimal="."))
        src = os.path.join(tmp, "cli_in_%d.csv" % i)
        open(src, "w").write(text)
        argv = ["pyimpspec", "parse", src, "--output-format", "csv"] + (["--output-indices"] if i % 2 else [])
        old = sys.argv
        buf = io.StringIO()
        try:
            sys.argv = argv
            with redirect_stdout(buf), warnings.catch_warnings():
                warnings.simplefilter("ignore")
                cli.main()
        except SystemExit:
            pass
        except Exception as e:  # noqa
            out.append((dict(layout="cli parse", argv=argv[1:], points=npts), "CLI raised %s: %s" % (type(e).__name__, str(e)[:100])))
            continue
        finally:
            sys.argv = old
        dst = os.path.join(tmp, "cli_out_%d.csv" % i)
        open(dst, "w").write(buf.getvalue())
        r = check_file(dst, exp)
        out.append((dict(layout="cli parse", argv=argv[1:], points=npts, printed=buf.getvalue()[:300]), r))
    return out


# ---- tie 2 cases ------------------------------------------------------------------------------------------------------------
def random_header(rng):
    r = rng.random()
    if r < 0.6:
        kind = rng.choice(list(F.ALIASES))
        a = rng.choice(F.ALIASES[kind])
        h = rng.choice(["", "", "-", "−"]) + F.recase(a, rng.choice(["lower", "upper", "title"])) + rng.choice(F.SUFFIXES + ["'", "x", " im", "_re", "2"])
        return rng.choice(["", " ", "\t"]) + h + rng.choice(["", " "])
    if r < 0.8:
        return "".join(rng.choice("fzrim'\"|_- (/eapqh−ZFRE") for _ in range(rng.randint(0, 6)))
    return rng.choice(["time/s", "Unnamed: 0", "E/V", "I (A)", "cycle", "", "-", "phase angle", "Zmod", "Zphz", "Zreal", "Zimag", "freq/Hz", "-Im(Z)/Ohm", "|Z|/Ohm"])


def detect_case(headers):
    from pandas import DataFrame
    from pyimpspec.data.data_set import _detect_columns
    try:
        ci, neg = _detect_columns(DataFrame(columns=headers))
        obs = "Ok [%s]" % ";".join("(%d%%nat, %d%%nat, %s)" % (KIDX[k], ci[k], lib.coqbool(neg[k])) for k in ci)
        kind = "ok"
    except ValueError:
        obs, kind = "Err EValue", "ValueError"
    except KeyError:
        obs, kind = "Err EKey", "KeyError"
    except Exception as e:  # noqa
        obs, kind = "Crash (COtherCrash 0)", type(e).__name__
    return "[" + ";".join(lib.codepoints(h) for h in headers) + "]", obs, kind


def sweeps_case(rng):
    from pyimpspec.data.data_set import _split_sweeps
    n = rng.choice([1, 2, 3, 5, 9])
    k = rng.choice([1, 1, 2, 3])
    base = sorted({float(rng.randint(1, 60)) for _ in range(n)}, reverse=rng.random() < 0.6)
    fs = []
    for _ in range(k):
        fs += base
    r = rng.random()
    if r < 0.15 and len(fs) > 1:
        i = rng.randrange(len(fs) - 1)
        fs[i + 1] = fs[i]
    elif r < 0.3:
        fs = [float(rng.randint(1, 9)) for _ in range(rng.randint(1, 7))]
    try:
        with warnings.catch_warnings():
            warnings.simplefilter("ignore")
            ds = _split_sweeps(list(fs), [1.0] * len(fs), [2.0] * len(fs), "p", "l")
        obs = "Ok [%s]" % ";".join("%d%%nat" % d.get_num_points(masked=None) for d in ds)
        kind = "ok"
    except ValueError:
        obs, kind = "Err EValue", "ValueError"
    except IndexError:
        obs, kind = "Crash CIndex", "IndexError"
    except Exception as e:  # noqa
        obs, kind = "Crash (COtherCrash 0)", type(e).__name__
    return "[" + ";".join(lib.qlit(x) for x in fs) + "]", obs, kind, fs


def extract_case(rng):
    from pandas import DataFrame
    from pyimpspec.data.data_set import _extract_data
    kinds = rng.choice([["frequency", "real", "imaginary"], ["frequency", "magnitude", "phase"], ["frequency", "real", "imaginary", "magnitude", "phase"],
                        ["frequency", "real", "phase"], ["frequency", "magnitude", "imaginary", "real"]])
    ncol = len(kinds) + rng.randint(0, 2)
    pos = rng.sample(range(ncol), len(kinds))
    ci = {k: p for k, p in zip(kinds, pos)}
    neg = {k: rng.random() < 0.4 for k in kinds}
    nrow = rng.randint(1, 5)
    rows = [[float(rng.randint(-50, 50)) / 4 for _ in range(ncol)] for _ in range(nrow)]
    df = DataFrame(rows, columns=["c%d" % i for i in range(ncol)])
    found = "[%s]" % ";".join("(%d%%nat, %d%%nat, %s)" % (KIDX[k], ci[k], lib.coqbool(neg[k])) for k in kinds)
    rl = "[" + ";".join("[" + ";".join(lib.qlit(x) for x in r) + "]" for r in rows) + "]"
    try:
        f, re_, im = _extract_data(df, ci, neg, "p", degrees=True)
        if "real" in ci and "imaginary" in ci:
            obs = "Ok (Cart [%s])" % ";".join("(%s, %s, %s)" % (lib.qlit(a), lib.qlit(b), lib.qlit(c)) for a, b, c in zip(f, re_, im))
            ok = True
        else:
            # the model stops before cmath.rect: compare with magnitude and signed phase recomputed from the rows
            mags = [r[ci["magnitude"]] for r in rows]
            phs = [(-1 if neg["phase"] else 1) * r[ci["phase"]] for r in rows]
            ok = all(abs(complex(a, b) - complex(m * math.cos(math.radians(p)), m * math.sin(math.radians(p)))) <= 1e-12 * max(1, abs(m)) for a, b, m, p in zip(re_, im, mags, phs))
            obs = "Ok (Polar [%s])" % ";".join("(%s, %s, %s)" % (lib.qlit(a), lib.qlit(m), lib.qlit(p)) for a, m, p in zip(f, mags, phs))
        kind = "ok"
    except Exception as e:  # noqa
        n = type(e).__name__
        obs = {"UnsupportedFileFormat": "Err EUnsupported", "ValueError": "Err EValue", "KeyError": "Crash CKeyMissing"}.get(n, "Crash (COtherCrash 0)")
        kind, ok = n, True
    return "(%s, %s)" % (found, rl), obs, kind, ok


def run(rep, tier, seed, tr_errors):
    rng = random.Random(seed)
    rep.rule = ("(1) _detect_columns on generated header lists (every alias x case x marker x suffix, near misses, garbage, extra columns, too few "
                "columns) vs the Coq model; (2) _extract_data (cartesian/polar choice, signs) and _split_sweeps (runs, equal neighbours, single "
                "point) vs the model; (3) real files: delimited tables over {alias} x {case} x {marker - or U+2212} x {cartesian|polar degrees} x "
                "{, tab ; space} x {. ,} x column orders x {ascending|descending} x {1..3 sweeps} x {1,2,3,10,30 points} and the layouts .mpt .i2b "
                ".P00 .dfr .dta .z, values over 12 decades with both signs, parsed with parse_data and compared at 1e-11; (4) the CLI's printed "
                "csv table parsed back; non-trivial = file parsed to the written spectrum; distinct by convention")
    rep.trusted += ["Coq 8.16.1 kernel, vm_compute", "tools/tr_columns.py (alias table and default headers)",
                    "text -> cells (pandas.read_csv, separator sniffing, decimal comma, encodings, float()) is not modelled: exercised end to end only",
                    "header spellings are restricted to ASCII letters plus U+2212 and ASCII white space (Python's str.lower/strip on other code points is not modelled)"]
    rep.oblige("translator:tr_columns", "tr_columns" not in tr_errors, tr_errors.get("tr_columns", "gen/Aliases_gen.v regenerated")[-300:])
    thm_ok, names, out = lib.check_props_file(rep, PROPS_FILE, expect=EXPECT)
    # tie 2
    n_d = 400 if tier == "quick" else 6000
    dcases, dk = [], {}
    for i in range(n_d):
        ncols = rng.choice([2, 3, 3, 3, 4, 5, 6])
        if rng.random() < 0.5:
            conv = random_convention(rng)
            ka, kb = ("magnitude", "phase") if conv["polar"] else ("real", "imaginary")
            hs = [F.recase(conv["alias_f"], conv["case"]) + conv["suffix"], ("-" if conv["neg_a"] else "") + F.recase(conv["alias_a"], conv["case"]) + conv["suffix"],
                  (conv["marker"] if conv["neg_b"] else "") + F.recase(conv["alias_b"], conv["case"]) + conv["suffix"]]
            hs = [hs[j] for j in conv["column_order"]]
            for _ in range(rng.randint(0, 2)):
                hs.insert(rng.randint(0, len(hs)), random_header(rng))
        else:
            hs = [random_header(rng) for _ in range(ncols)]
        lit, obs, kind = detect_case(hs)
        dk[kind] = dk.get(kind, 0) + 1
        dcases.append((i, lit, obs, hs))
    scases, sk = [], {}
    for i in range(n_d // 2):
        lit, obs, kind, fs = sweeps_case(rng)
        sk[kind] = sk.get(kind, 0) + 1
        scases.append((i, lit, obs, fs))
    ecases, ek, polar_bad = [], {}, []
    for i in range(n_d // 2):
        lit, obs, kind, ok = extract_case(rng)
        ek[kind] = ek.get(kind, 0) + 1
        ecases.append((i, lit, obs))
        if not ok:
            polar_bad.append(lit)
    rep.evaluations += len(dcases) + len(scases) + len(ecases)
    shards = []
    for j in range(0, len(dcases), 400):
        shards.append("Definition result : list Z := mism_d [%s]." % ";\n".join("(%d%%Z, %s, %s)" % (i, l, o) for i, l, o, _ in dcases[j:j + 400]))
    n_det = len(shards)
    for j in range(0, len(scases), 400):
        shards.append("Definition result : list Z := mism_s [%s]." % ";\n".join("(%d%%Z, %s, %s)" % (i, l, o) for i, l, o, _ in scases[j:j + 400]))
    n_sw = len(shards)
    for j in range(0, len(ecases), 400):
        shards.append("Definition result : list Z := mism_e [%s]." % ";\n".join("(%d%%Z, %s, %s)" % (i, l, o) for i, l, o in ecases[j:j + 400]))
    outs = lib.run_shards(PROP, HEADER, shards)
    mism = {"detect": [], "sweeps": [], "extract": []}
    broken = []
    for si, (rc, parsed, raw) in enumerate(outs):
        if rc != 0 or parsed is None:
            broken.append((si, raw[-800:]))
            continue
        mism["detect" if si < n_det else ("sweeps" if si < n_sw else "extract")] += parsed
    rep.oblige("correspondence:Columns.v-vs-_detect_columns", not mism["detect"] and not broken, "%d header lists (%s), %d mismatches" % (len(dcases), dk, len(mism["detect"])))
    rep.oblige("correspondence:Columns.v-vs-_split_sweeps", not mism["sweeps"] and not broken, "%d frequency lists (%s), %d mismatches" % (len(scases), sk, len(mism["sweeps"])))
    rep.oblige("correspondence:Columns.v-vs-_extract_data", not mism["extract"] and not broken and not polar_bad, "%d tables (%s), %d mismatches, %d polar conversions off" % (len(ecases), ek, len(mism["extract"]), len(polar_bad)))
    # end to end
    tmp = tempfile.mkdtemp(prefix="verif_C06_")
    bad, nfiles, layouts = [], 0, {}
    try:
        for name, text, enc, exp, desc in file_cases(rng, 600 if tier == "quick" else 6000, tier):
            p = os.path.join(tmp, name)
            with open(p, "w", encoding=enc) as fp:
                fp.write(text)
            r = check_file(p, exp)
            os.remove(p)
            nfiles += 1
            rep.evaluations += 1
            layouts[desc["layout"]] = layouts.get(desc["layout"], 0) + 1
            if r:
                desc = dict(desc)
                desc["observed"] = r
                desc["file_text"] = text[:600]
                bad.append(desc)
            else:
                rep.distinct.add(json.dumps({k: v for k, v in desc.items() if k not in ("points",)}, sort_keys=True))
        for desc, r in cli_cases(rng, tmp, 4 if tier == "quick" else 20):
            nfiles += 1
            rep.evaluations += 1
            layouts["cli parse"] = layouts.get("cli parse", 0) + 1
            if r:
                desc = dict(desc)
                desc["observed"] = r
                bad.append(desc)
    finally:
        shutil.rmtree(tmp, ignore_errors=True)
    rep.extra["files"] = {"written_and_parsed": nfiles, "by_layout": layouts}
    rep.samples = [{"headers": dcases[0][3]}, {"frequencies": scases[0][3][:8]}]
    rep.oblige("files: written spectrum = parsed spectrum, one data set per sweep", not bad, "%d files, %d failures" % (nfiles, len(bad)))
    for n_, desc in enumerate(bad[:5]):
        rep.violation("file_%d" % n_, {"kind": "counterexample", "obligation": "write then parse returns the spectrum", "input": desc})
    if not bad:
        for j in mism["detect"][:3]:
            c = dcases[j]
            rep.violation("detect_%d" % j, {"kind": "counterexample", "obligation": "correspondence:_detect_columns (model and implementation differ on these headers)", "input": {"headers": c[3], "observed": c[2]}})
        for j in mism["sweeps"][:3]:
            c = scases[j]
            rep.violation("sweeps_%d" % j, {"kind": "counterexample", "obligation": "correspondence:_split_sweeps", "input": {"frequencies": c[3], "observed": c[2]}})
        for j in mism["extract"][:3]:
            rep.violation("extract_%d" % j, {"kind": "counterexample", "obligation": "correspondence:_extract_data", "input": {"case": ecases[j][1][:800], "observed": ecases[j][2][:400]}})
        for si, raw in broken[:2]:
            rep.violation("shard_%d" % si, {"kind": "broken-obligation", "obligation": "cases shard did not evaluate", "log": raw}, no_input=True)
    if (not thm_ok or "tr_columns" in tr_errors) and not rep.violations:
        rep.violation("theorems", {"kind": "broken-obligation", "obligation": PROPS_FILE, "detail": [o_ for o_ in rep.obligations if not o_[1]]}, no_input=True)


def replay(path):
    d = json.load(open(path))
    print(json.dumps(d, indent=1)[:3000])
    inp = d.get("input", {})
    if "file_text" in inp and inp.get("layout"):
        ext = inp["layout"].replace("table", "")
        tmp = tempfile.mkdtemp(prefix="verif_C06_")
        try:
            p = os.path.join(tmp, "replay" + ext)
            open(p, "w", encoding="utf-8" if ext in (".csv", ".txt") else "latin1").write(inp["file_text"])
            from pyimpspec import parse_data
            try:
                ds = parse_data(p)
                print("parsed %d data sets; first: %s" % (len(ds), list(zip(ds[0].get_frequencies()[:3], ds[0].get_impedances()[:3]))))
            except Exception as e:  # noqa
                print("raised", type(e).__name__, e)
                return 1
        finally:
            shutil.rmtree(tmp, ignore_errors=True)
    return 1

"""C13 — DRT results carry the physics: area = resistance, peaks at RC.
Proof: Props/C13.v over gen/DRT_gen.v (tie 1).  Exercised on the implementation: RC/RQ ladders within the property's separation
conditions x methods {tr-nnls real/imaginary with fixed and automatic lambda, lm, mrq-fit} x impedance and frequency scalings."""
import json
import math
import random
import warnings

from tools import lib

PROP = "C13"
PROPS_FILE = "Props/C13.v"
EXPECT = ["C13_trnnls_kernel_is_unit_RC", "C13_trnnls_model_is_kernel", "C13_trnnls_zscale", "C13_trnnls_fscale", "C13_trnnls_gamma_nonneg",
          "C13_rc_real_part_decreasing", "C13_lm_peak_formulas", "C13_rc_partial_fraction", "C13_mrq_peaks_at_tau0", "C13_mrq_tau0_rc"]


def ladder(rng, n, kind, R0=True, scale=1.0, mixed_start_rq=True):
    """1..4 elements, time constants >= 1.5 decades inside the window 1e6..1e-3 Hz (tau between 5e-6 and 5 s) and >= 1.5 decades
    apart, resistances within a decade"""
    lt = rng.uniform(-5.2, -5.0)
    s = ("R{R=%r}" % (scale * rng.uniform(5, 50))) if R0 else ""
    Rs, taus = [], []
    for _ in range(n):
        R = scale * rng.uniform(100, 300)
        tau = 10 ** lt
        Rs.append(R)
        taus.append(tau)
        k_ = kind if kind != "mixed" else ("RQ" if (len(Rs) % 2 == 1) == bool(mixed_start_rq) else "RC")
        if k_ == "RC":
            s += "(R{R=%r}C{C=%r})" % (R, tau / R)
        else:
            s += "(R{R=%r}Q{Y=%r,n=0.85})" % (R, tau ** 0.85 / R)
        lt += rng.uniform(1.5, 1.7)
    return s, Rs, taus


def window_area(circuit, tmin, tmax):
    """sum over the parallel (RQ)/(RC) units of the part of R that the analytic distribution puts between tmin and tmax"""
    from pyimpspec.circuit.parallel import Parallel
    tot = 0.0
    for con in circuit.get_connections():
        if not isinstance(con, Parallel):
            continue
        pars = {}
        for el in con.get_elements(recursive=True):
            pars.update(el.get_values())
        R, n = pars["R"], pars.get("n", 1.0)
        Y = pars.get("Y", pars.get("C"))
        if abs(n - 1.0) < 1e-2:
            tot += R          # a narrow Gaussian at R*C, well inside the window by construction of the ladders
            continue
        t0 = (R * Y) ** (1.0 / n)
        F = lambda t: math.atan(math.tan(n * math.pi / 2) * math.tanh(n * math.log(t / t0) / 2))  # noqa: E731
        tot += R / (math.pi * n) * (F(tmax) - F(tmin))
    return tot


def area(tau, gamma):
    import numpy as np
    lt = np.log(tau)
    o = np.argsort(lt)
    return float(np.trapezoid(gamma[o], lt[o]))


def run(rep, tier, seed, tr_errors):
    import numpy as np
    import pyimpspec
    from pyimpspec import DataSet, parse_cdc
    rng = random.Random(seed)
    rep.rule = ("ladders of 1..4 (RC) or (RQ, n=0.85) elements with a series resistance (tr-nnls, mrq-fit) or without (lm), time constants >= 1.5 decades "
                "inside 1e6..1e-3 Hz and >= 1.5 decades apart, resistances within one decade, overall scale over 4 decades, 5/10/20 points per decade; "
                "tr-nnls (real|imaginary; lambda 1e-3, automatic -1, L-curve -2): gamma >= 0, area within 6 % of R_pol, a peak within max(0.3 decade, 1.5 grid "
                "steps) of every R*C; lm: every (tau_k, R_k) to 1e-3 (observed up to 2e-5 on 9-decade windows); mrq-fit: area within 0.5 % of what the analytic (RQ) distributions carry on the reported window; Z x k scales gamma and keeps tau, f x c "
                "scales tau by 1/c and keeps gamma (1e-6); non-trivial = completed run; distinct by (ladder, method, options)")
    rep.trusted += ["Coq 8.16.1 kernel; real-number axioms of the standard library (Print Assumptions)", "tools/tr_drt.py",
                    "scipy.optimize.nnls, the regularisation-parameter searches, the Loewner pencil's SVD/eigenproblem and lmfit are oracles: exercised, not modelled",
                    "integrals of the analytic (RQ) distribution and 'area = R_pol' / 'peaks at R*C' for the regularised TR-NNLS solution are checked numerically only"]
    rep.oblige("translator:tr_drt", "tr_drt" not in tr_errors, tr_errors.get("tr_drt", "gen/DRT_gen.v regenerated")[-300:])
    thm_ok, names, out = lib.check_props_file(rep, PROPS_FILE, expect=EXPECT)
    kf = lib.load_known_findings()
    bad = []
    stats = {"tr-nnls": 0, "lm": 0, "mrq-fit": 0, "scalings": 0, "worst_area_dev": 0.0, "worst_peak_dev_decades": 0.0, "worst_lm_error": 0.0}

    def drt(f, Z, **kw):
        with warnings.catch_warnings():
            warnings.simplefilter("ignore")
            return pyimpspec.calculate_drt(DataSet(f, Z), **kw)

    for f_ in kf.get("findings", []):          # recorded reproducers run first
        if f_.get("property") == PROP and "reproducer" in f_:
            r_ = f_["reproducer"]
            fr = np.logspace(r_["log_f_max"], r_["log_f_min"], (r_["log_f_max"] - r_["log_f_min"]) * r_["points_per_decade"] + 1)
            try:
                drt(fr, parse_cdc(r_["cdc"]).get_impedances(fr), method="tr-nnls", mode=r_["mode"], lambda_value=r_["lambda_value"])
            except RuntimeError as e:
                if "iterations" in str(e):
                    rep.known.append("%s: %s" % (f_["id"], f_["what"]))
            except Exception:  # noqa
                pass
            rep.evaluations += 1
    reps = 1 if tier == "quick" else 6
    for n in (1, 2, 3, 4):
        for kind in ("RC", "RQ") + (("mixed",) if n >= 2 else ()):
            for rep_i in range(reps):
                scale = 10 ** rng.uniform(-2, 2)
                # mixed ladders alternate (RQ) and (RC) elements, starting with either kind
                cdc, Rs, taus = ladder(rng, n, kind, True, scale, mixed_start_rq=((n + rep_i) % 2 == 0))
                ppd = rng.choice([5, 10] if tier == "quick" else [5, 10, 20])
                f = np.logspace(6, -3, 9 * ppd + 1)
                # the point density need not be the same everywhere: every ladder with two elements (and a random third of the others)
                # is measured on a grid that changes from 10 to 5 points per decade (or back) at a random decade
                if n == 2 or rng.random() < 0.33:
                    split = rng.choice([2, 1, 0])
                    hi, lo = rng.choice([(10, 5), (5, 10)])
                    f = np.concatenate([np.logspace(6, split, (6 - split) * hi + 1), np.logspace(split, -3, (split + 3) * lo + 1)[1:]])
                    ppd = 5
                Z = parse_cdc(cdc).get_impedances(f)
                modes = [("real", 1e-3), ("imaginary", 1e-3), (rng.choice(["real", "imaginary"]), -1.0), (rng.choice(["real", "imaginary"]), -2.0)]
                for mode, lam in (modes if tier != "quick" else rng.sample(modes, 2)):
                    desc = dict(cdc=cdc, points_per_decade=ppd, method="tr-nnls", mode=mode, lambda_value=lam, frequencies=[float(x) for x in f])
                    try:
                        r = drt(f, Z, method="tr-nnls", mode=mode, lambda_value=lam)
                    except Exception as e:  # noqa
                        ident = "C13-nnls-max-iterations" if (type(e).__name__ == "RuntimeError" and "iterations" in str(e) and lam < 0) else None
                        f_ = next((x for x in kf.get("findings", []) if x["id"] == ident), None) if ident else None
                        if f_:
                            msg = "%s: %s" % (f_["id"], f_["what"])
                            if msg not in rep.known:
                                rep.known.append(msg)
                        else:
                            bad.append((desc, "raised %s: %s" % (type(e).__name__, str(e)[:120])))
                        continue
                    rep.evaluations += 1
                    stats["tr-nnls"] += 1
                    rep.distinct.add(json.dumps([cdc, mode, lam]))
                    tau, g = r.get_drt_data()
                    if float(g.min()) < 0:
                        bad.append((desc, "gamma has negative values (min %.3g)" % float(g.min())))
                    a = area(tau, g) / sum(Rs)
                    stats["worst_area_dev"] = max(stats["worst_area_dev"], abs(a - 1))
                    if abs(a - 1) > 0.06:
                        bad.append((desc, "area under gamma over ln(tau) is %.4f x the polarisation resistance" % a))
                    pk_t, pk_g = r.get_peaks()
                    lim = max(0.3, 1.5 / ppd)
                    dev = max((min(abs(math.log10(pt / t)) for pt in pk_t) if len(pk_t) else 9.0) for t in taus)
                    stats["worst_peak_dev_decades"] = max(stats["worst_peak_dev_decades"], dev if dev < 9 else 0)
                    if dev > lim:
                        bad.append((desc, "no peak within %.2f decades of a generating time constant (nearest %.2f decades away)" % (lim, dev)))
                    if not np.allclose(tau, 1 / (2 * np.pi * f), rtol=1e-12):
                        bad.append((desc, "time constants are not 1/(2 pi f)"))
                # scalings (fixed lambda so that the regularisation search does not interfere)
                k, c = 10 ** rng.uniform(-2, 2), 2.0 ** rng.randint(-5, 5)
                try:
                    r0 = drt(f, Z, method="tr-nnls", mode="real", lambda_value=1e-3)
                    r1 = drt(f, k * Z, method="tr-nnls", mode="real", lambda_value=1e-3)
                    r2 = drt(c * f, Z, method="tr-nnls", mode="real", lambda_value=1e-3)
                    t0, g0 = r0.get_drt_data()
                    t1, g1 = r1.get_drt_data()
                    t2, g2 = r2.get_drt_data()
                    stats["scalings"] += 2
                    rep.evaluations += 3
                    gm = float(np.max(abs(g0)))
                    if not (np.allclose(t1, t0, rtol=1e-12) and float(np.max(abs(g1 - k * g0))) <= 1e-6 * k * gm):
                        bad.append((dict(cdc=cdc, points_per_decade=ppd, method="tr-nnls", scale=k), "Z x %.4g: gamma is not multiplied by the factor / tau changed" % k))
                    if not (np.allclose(t2, t0 / c, rtol=1e-12) and float(np.max(abs(g2 - g0))) <= 1e-6 * gm):
                        bad.append((dict(cdc=cdc, points_per_decade=ppd, method="tr-nnls", f_scale=c), "f x %.4g: tau is not divided by the factor / gamma changed" % c))
                    # the reported peaks (with a non-default relative threshold) follow the same scalings, also for milliohm systems
                    r3 = drt(f, 1e-4 * Z, method="tr-nnls", mode="real", lambda_value=1e-3)
                    rep.evaluations += 1
                    for thr in (0.1, 0.5):
                        p0t, p0g = r0.get_peaks(threshold=thr)
                        for (rv, kv, what) in ((r1, k, "Z x %.4g" % k), (r3, 1e-4, "Z x 1e-4")):
                            pt_, pg_ = rv.get_peaks(threshold=thr)
                            if len(pt_) != len(p0t) or not (np.allclose(pt_, p0t, rtol=1e-9) and np.allclose(pg_, kv * np.asarray(p0g), rtol=1e-5)):
                                bad.append((dict(cdc=cdc, points_per_decade=ppd, method="tr-nnls", scale=kv, threshold=thr),
                                            "%s: get_peaks(threshold=%g) reports %d peaks at %s instead of %d at %s with scaled heights" % (
                                                what, thr, len(pt_), np.round(np.log10(pt_), 2).tolist() if len(pt_) else [], len(p0t), np.round(np.log10(p0t), 2).tolist())))
                except Exception as e:  # noqa
                    bad.append((dict(cdc=cdc), "scaling run raised %s: %s" % (type(e).__name__, str(e)[:100])))
                # m(RQ)fit
                if tier != "quick" or n <= 2 or kind == "mixed":
                    desc = dict(cdc=cdc, points_per_decade=ppd, method="mrq-fit")
                    try:
                        r = drt(f, Z, method="mrq-fit", circuit=parse_cdc(cdc), num_procs=1)
                        tau, g = r.get_drt_data()
                        stats["mrq-fit"] += 1
                        rep.evaluations += 1
                        # the distribution is reported on the window of time constants of the data; the tails of a (RQ)
                        # element (n < 1) reach beyond it, so the reference is the analytic (RQ) distribution integrated over that
                        # window: R/(pi n) [atan(tan(n pi/2) tanh(n ln(tau/tau0)/2))], which tends to R on an unbounded window
                        a = area(tau, g) / window_area(parse_cdc(cdc), float(np.min(tau)), float(np.max(tau)))
                        if abs(a - 1) > 0.005:
                            bad.append((desc, "area under the m(RQ)fit distribution is %.4f x the resistance the analytic (RQ) distributions carry on the reported window" % a))
                        pk_t, pk_g = r.get_peaks()
                        for t, R_ in zip(taus, Rs):
                            dev = min(abs(math.log10(pt / t)) for pt in pk_t) if len(pk_t) else 9.0
                            if dev > 0.15:
                                bad.append((desc, "the m(RQ)fit distribution has no peak within 0.15 decades of tau = %.3g (nearest %.2f decades away; %d peaks)" % (t, dev, len(pk_t))))
                    except Exception as e:  # noqa
                        bad.append((desc, "raised %s: %s" % (type(e).__name__, str(e)[:120])))
        # Loewner method: ladder without series resistance
        for _ in range(reps):
            scale = 10 ** rng.uniform(-2, 2)
            cdc, Rs, taus = ladder(rng, n, "RC", False, scale)
            ppd = rng.choice([5, 10] if tier == "quick" else [5, 10, 20])
            f = np.logspace(6, -3, 9 * ppd + 1)
            Z = parse_cdc(cdc).get_impedances(f)
            for mo, mm in ((0, "matrix_rank"), (0, "pseudo_chisqr"), (n, "matrix_rank")):
                desc = dict(cdc=cdc, points_per_decade=ppd, method="lm", model_order=mo, model_order_method=mm)
                try:
                    r = drt(f, Z, method="lm", model_order=mo, model_order_method=mm, num_procs=1)
                except Exception as e:  # noqa
                    bad.append((desc, "raised %s: %s" % (type(e).__name__, str(e)[:120])))
                    continue
                stats["lm"] += 1
                rep.evaluations += 1
                rep.distinct.add(json.dumps([cdc, "lm", mo, mm]))
                tcs, gs = np.asarray(r.time_constants), np.asarray(r.gammas)
                err = 0.0
                for R, t in zip(Rs, taus):
                    j = int(np.argmin(abs(np.log(tcs / t))))
                    err = max(err, abs(tcs[j] / t - 1), abs(gs[j] / R - 1))
                stats["worst_lm_error"] = max(stats["worst_lm_error"], err)
                if err > 1e-3:
                    bad.append((desc, "Loewner method: (tau_k, R_k) recovered only to %.3g" % err))
                if mo == 0 and mm == "matrix_rank":
                    # scalings: Z x k multiplies the gammas and keeps the time constants; f x c divides the time constants
                    k, c = 10 ** rng.uniform(-2, 2), 2.0 ** rng.randint(-5, 5)
                    try:
                        r1 = drt(f, k * Z, method="lm", model_order=mo, model_order_method=mm, num_procs=1)
                        r2 = drt(c * f, Z, method="lm", model_order=mo, model_order_method=mm, num_procs=1)
                        stats["scalings"] += 2
                        rep.evaluations += 2

                        def sorted_pairs(r_):
                            # the automatic model order may add terms whose weight is rounding noise (|R_k| ~ 1e-14 ohm) when the
                            # input is perturbed in the last bit: only terms that carry resistance are compared, and to 1e-4
                            # (the method itself recovers exact ladders to about 2e-5 on these windows)
                            t_, g_ = np.asarray(r_.time_constants), np.asarray(r_.gammas)
                            keep = abs(g_) > 1e-6 * float(np.max(abs(g_)))
                            t_, g_ = t_[keep], g_[keep]
                            o_ = np.argsort(t_)
                            return t_[o_], g_[o_]
                        t0, g0 = sorted_pairs(r)
                        t1, g1 = sorted_pairs(r1)
                        t2, g2 = sorted_pairs(r2)
                        if len(t1) != len(t0) or not (np.allclose(t1, t0, rtol=1e-4) and np.allclose(g1, k * g0, rtol=1e-4, atol=1e-6 * k * float(np.max(abs(g0))))):
                            bad.append((dict(desc, scale=k), "Loewner method: Z x %.4g does not multiply the gammas by the factor / changes the time constants" % k))
                        if len(t2) != len(t0) or not (np.allclose(t2, t0 / c, rtol=1e-4) and np.allclose(g2, g0, rtol=1e-4, atol=1e-6 * float(np.max(abs(g0))))):
                            bad.append((dict(desc, f_scale=c), "Loewner method: f x %.4g does not divide the time constants by the factor / changes the gammas" % c))
                    except Exception as e:  # noqa
                        bad.append((desc, "Loewner scaling run raised %s: %s" % (type(e).__name__, str(e)[:100])))
    rep.extra["runs"] = stats
    rep.samples = [{"ladder": ladder(random.Random(1), 2, "RC")[0]}]
    rep.oblige("drt-runs: non-negative, area = R_pol, peaks at R*C, exact Loewner recovery, m(RQ)fit area, scalings", not bad, "%s; %d failures" % (stats, len(bad)))
    for n_, (desc, why) in enumerate(bad[:5]):
        d = dict(desc)
        d["observed"] = why
        rep.violation("drt_%d" % n_, {"kind": "counterexample", "obligation": "DRT physics", "input": d})
    if (not thm_ok or "tr_drt" in tr_errors) and not rep.violations:
        rep.violation("theorems", {"kind": "broken-obligation", "obligation": PROPS_FILE, "detail": [o_ for o_ in rep.obligations if not o_[1]]}, no_input=True)


def replay(path):
    d = json.load(open(path))
    print(json.dumps(d, indent=1)[:3000])
    return 1

"""C04 — parse_cdc is total: a circuit or a parsing error, never a crash.
Tie 2: models coq/Circuit/Token.v + Parser.v vs parse_cdc on enumerated atom sequences, grammar-derived codes and
their mutations; outcome classes (and parsed trees) compared; forbidden outcomes are violations."""
import itertools
import json
import random

from tools import lib, cdc, circuit_lit

PROP = "C04"
PROPS_FILE = "Props/C04.v"

ATOMS = ["R", "C", "L", "La", "Ls", "Tlm", "K", "(", ")", "[", "]", "{", "}", "=", "/", "%", ",", ":", "!",
         "1", "-1", "1e3", "1.5F", "inf", "short", "X_1", "lbl", "-", " ", "V"]


def shard_text(ctx, cases):
    items = []
    for i, s, obs in cases:
        items.append("(%d%%Z, %s, %s)" % (i, lib.codepoints(s), cdc.outcome_lit(ctx, obs)))
    return ("Definition cases : list (Z * str * outcome conn) := [\n" + ";\n".join(items) + "].\n"
            "Definition allowed (o : outcome conn) : bool := match o with\n"
            "  | Ok _ => true | Err (EParse _) => true | Err ETokenizing => true | Err EValue => true | _ => false end.\n"
            "Definition mism := flat_map (fun c => let '(i, s, o) := c in\n"
            "  if outcome_close 400 (parse builtin_registry s) o then [] else [i]) cases.\n"
            "Definition viol := flat_map (fun c => let '(i, s, o) := c in\n"
            "  if allowed o then [] else [(- (i + 1))%Z]) cases.\n"
            "Definition result : list Z := mism ++ viol.\n")


def mutations(s, rng, k):
    out = []
    alphabet = "RCLKQW()[]{}=/%,:! 01e.-+Fainfshortopen_XZ"
    for _ in range(k):
        r = rng.random()
        if not s:
            break
        i = rng.randrange(len(s))
        if r < 0.3:
            out.append(s[:i] + s[i + 1:])
        elif r < 0.6:
            out.append(s[:i] + rng.choice(alphabet) + s[i:])
        elif r < 0.85:
            out.append(s[:i] + rng.choice(alphabet) + s[i + 1:])
        else:
            out.append(s[:i])
    return out


def follow_up(s, circuit):
    """every accepted string denotes a well-formed circuit: simulate or impedance error; re-serialisation accepted"""
    import numpy as np
    from pyimpspec import parse_cdc
    from pyimpspec.exceptions import ImpedanceError, InfiniteLimit
    problems = []
    try:
        with np.errstate(all="ignore"):
            circuit.get_impedances(np.array([1.0, 1000.0]))
    except (ImpedanceError, InfiniteLimit, NotImplementedError):
        pass
    except Exception as e:  # noqa
        problems.append("simulate: %s: %s" % (type(e).__name__, str(e)[:120]))
    try:
        text = circuit.serialize()
    except Exception as e:  # noqa
        problems.append("serialize: %s" % type(e).__name__)
        return problems
    within = True
    # every element, those inside containers' sub-circuits included (get_elements(recursive=True) stops at containers)
    for el in circuit.generate_element_identifiers(running=True).keys():
        v, lo, hi = el.get_values(), el.get_lower_limits(), el.get_upper_limits()
        for k in v:
            if not (lo[k] <= v[k] <= hi[k]) or v[k] in (float("inf"), float("-inf")):
                within = False
            # limits must stay distinguishable at 12 decimals
            if ("%.12E" % lo[k]) == ("%.12E" % hi[k]):
                within = False
    if within:
        try:
            parse_cdc(text)
        except Exception as e:  # noqa
            problems.append("re-parse of own serialisation: %s: %s" % (type(e).__name__, str(e)[:120]))
    return problems


def build_strings(ctx, tier, seed):
    rng = random.Random(seed)
    strings = []
    n_ex = 2 if tier == "quick" else 3
    for L in range(0, n_ex + 1):
        for seq in itertools.product(ATOMS, repeat=L):
            strings.append("".join(seq))
    n_exh = len(strings)
    n_sample = 3000 if tier == "quick" else 60000
    for _ in range(n_sample):
        L = rng.randint(n_ex + 1, 7)
        strings.append("".join(rng.choice(ATOMS) for _ in range(L)))
    # grammar-derived valid codes and their mutations
    n_valid = 150 if tier == "quick" else 3000
    for _ in range(n_valid):
        c = cdc.rand_circuit(ctx, rng, depth=rng.randint(0, 2))
        d = rng.choice([1, 3, 6, 12])
        pcts = cdc.apply_percent_limits(ctx, c, rng)
        spelled = cdc.spell_circuit(ctx, c, rng, pcts)          # alternative spelling: bare-list sub-circuits, omitted fields, white space
        for text in (c.to_string(), c.to_string(d), c.serialize(d), spelled):
            strings.append(text)
            strings += mutations(text, rng, 4 if tier == "quick" else 8)
            # truncation at every prefix of a short code, at sampled positions of a long one
            if len(text) < 80:
                strings += [text[:i] for i in range(len(text))]
            else:
                strings += [text[:i] for i in rng.sample(range(len(text)), 25 if tier == "quick" else 60)]
    strings += ["(" * 2000, "[" * 1500 + "R", "Tlm{X_1=" * 400, "R-", "-", "!V=1e999!R", "!V=0.5!R", "!V=1.5!R", "!V=1F!R",
                "!v=1!R", "!V=1!", "!", "!!", "![]", "!x![]", " [] ", "[ ]", "R{R=1e400}", "R{R=1e-400}", "R{R=1/1e400}",
                "R{R=1:a}", "R{:a}", "R{R=1::}", "Tlm{X_1=R(RC)}", "R{R=10}Tlm{X_1=R{R=2}}", "(R{R=10}Tlm{X_1=R{R=2}C})",
                "Tlm{X_1=[(RC)]}", "Tlm{X_1=short,X_2=open}", "Tlm{X_1=zero,X_2=inf}", "Tlm{X_1=R,X_1=C}", "Tlm{L=1,L=2}",
                "R{R=1,}", "R{R=1,R=2}", "Q{Y=1,n=0.5,}", "R{R=5/10%/200%}", "R{R=5//200%}", "R{R=5/inf/inf}", "R{R=5/x}",
                "C{C=1e5/1e4/1e6}", "C{C=1e5/1e4}", "Tlm{X_1=R", "Tlm{X_1=RC", "[R(RC)Tlm{X_1=RC", "Tlm{X_1=R{R=1}", "Tlm{X_1=[R", "Tlm{X_1=short",
                "Tlm{X_1=", "Tlm{", "Tlm{X_1", "Tlm{X_1=R,", "Tlm{X_1=R:", "Tlm{X_1=R}", "Tlm{X_1=R,X_2=C", "Tlm{L=1", "Tlm{L=1,X_1=R", "R{R=1F/0/2}", "R{R=1f}", "R{R=1e}", "R{R=1.e5}", "R{R=1e+}", "R 1", "1", "R{R=1:a{b}c}",
                # minimised from the thorough tier (model corrections): leading zeros in an exponent; number tokens beyond the double
                # range (read as inf) as value and as percentage
                "R{R=1.00e0000000000E-2}", "R{R=5/1.0e0000000000}", "R{R=1e0000000001}", "R{R=1e999/25%/150%}", "Q{n=0.75e709/10%/110%}",
                "R{R=5/1e999%}", "R{R=-1e999/25%}", "R{R=1e999/0%}", "R{R=5//1e999%}"]
    return strings, n_exh


def run(rep, tier, seed, tr_errors):
    ctx = cdc.Ctx()
    rep.rule = ("strings = exhaustive sequences of lexical atoms up to a bound + sampled longer sequences + grammar-derived "
                "valid codes (basic, extended, with header) with their single-character mutations and all prefixes + a corpus of "
                "edge cases; non-trivial = the string is accepted and has >= 2 elements, or is rejected by a parsing error other "
                "than InvalidElementSymbol/UnexpectedCharacter; distinct by string")
    rep.trusted += [
        "Coq 8.16.1 kernel, vm_compute for case evaluation",
        "hand-written models coq/Circuit/Token.v (tokenizer.py) and Parser.v (parser.py, parse_cdc) incl. element construction through ElemState.v; registry table regenerated (tools/tr_classes.py)",
        "float(str) modelled as the exact decimal value, compared with the double at relative 2^-48; Python's recursion limit modelled by a depth budget (the generator avoids nesting depths between 100 and 1000)",
        "str.strip()/whitespace restricted to ASCII in the model; generated strings are ASCII",
    ]
    thm_ok, names, out = lib.check_props_file(rep, PROPS_FILE, expect=["C04_tokenize_total", "C04_parse_total", "C04_builtin_registry_wf", "C04_stack_discipline"])
    strings, n_exh = build_strings(ctx, tier, seed)
    seen = set()
    uniq = []
    for s in strings:
        if s not in seen:
            seen.add(s)
            uniq.append(s)
    cases = []
    kinds = {}
    follow = []
    for i, s in enumerate(uniq):
        obs = cdc.parse_observe(s)
        cases.append((i, s, obs))
        rep.evaluations += 1
        key = "ok" if obs[0] == "ok" else obs[1]
        kinds[key] = kinds.get(key, 0) + 1
        if obs[0] == "ok":
            if len(obs[1].get_elements()) >= 2:
                rep.distinct.add(s)
            pr = follow_up(s, obs[1])
            if pr:
                follow.append((s, pr))
        elif obs[1] not in ("InvalidElementSymbol", "UnexpectedCharacter"):
            rep.distinct.add(s)
    rep.extra["input_distribution"] = {"exhaustive_atom_sequences": n_exh, "total_distinct_strings": len(uniq), "outcomes": kinds}
    rep.extra["exhaustive"] = False
    rep.samples = [{"string": s[:120], "outcome": ("ok: " + o[1].to_string()) if o[0] == "ok" else o[1]} for _, s, o in cases[n_exh + 5:n_exh + 9]]
    per = 400
    shards = [cases[i:i + per] for i in range(0, len(cases), per)]
    outs = lib.run_shards(PROP, cdc.HEADER, [shard_text(ctx, sh) for sh in shards], timeout=900)
    mism, viol, broken = [], [], []
    for si, (rc, parsed, raw) in enumerate(outs):
        if rc != 0 or parsed is None:
            broken.append((si, raw[-800:]))
            continue
        for i in parsed:
            if i < 0:
                viol.append(-i - 1)
            else:
                mism.append(i)
    rep.oblige("correspondence:Token.v+Parser.v-vs-parse_cdc", not mism and not broken,
               "%d strings, %d mismatches, %d shards failed" % (len(cases), len(mism), len(broken)))
    rep.oblige("no-forbidden-outcome-observed", not viol, "%d strings gave an exception outside the allowed classes" % len(viol))
    rep.oblige("accepted-strings-are-well-formed", not follow, "%d accepted strings failed simulate/re-serialise" % len(follow))
    rep.extra["traces_validated_against_impl"] = len(cases)
    kf = lib.load_known_findings()
    by = {i: (s, o) for i, s, o in cases}
    n = 0
    for i in sorted(set(viol)):
        s, o = by[i]
        if n < 5:
            rep.violation("forbidden_%d" % i, {"kind": "counterexample", "obligation": "parse_cdc raises only parsing errors / ValueError",
                                               "input": {"string": s if len(s) < 300 else s[:100] + "...(%d chars)" % len(s), "exception": o[1]}})
            n += 1
    for s, pr in follow[:3]:
        rep.violation("follow_%d" % (abs(hash(s)) % 100000), {"kind": "counterexample", "obligation": "accepted strings are well-formed circuits",
                                                               "input": {"string": s, "problems": pr}})
    if not viol and not follow:
        for i in sorted(set(mism))[:4]:
            s, o = by[i]
            rep.violation("correspondence_%d" % i, {"kind": "broken-obligation", "obligation": "correspondence:Token.v+Parser.v-vs-parse_cdc",
                                                   "input": {"string": s, "observed": ("ok: " + o[1].to_string(3)) if o[0] == "ok" else o[1]}}, no_input=True)
        for si, raw in broken[:2]:
            rep.violation("shard_%d" % si, {"kind": "broken-obligation", "obligation": "cases shard did not evaluate", "log": raw}, no_input=True)
    if not thm_ok and not rep.violations:
        rep.violation("theorems", {"kind": "broken-obligation", "obligation": PROPS_FILE,
                                   "detail": [o for o in rep.obligations if not o[1]]}, no_input=True)


def replay(path):
    with open(path) as fp:
        r = json.load(fp)
    s = r["input"]["string"]
    obs = cdc.parse_observe(s)
    print(json.dumps({"string": s[:200], "outcome": obs[1] if obs[0] == "err" else "ok"}))
    return 0 if (obs[0] == "ok" or cdc.allowed_exc(obs[1])) else 1

"""C05 — a data set keeps frequency, impedance and mask of each point together.
Tie 2: model coq/Data/DataSet.v vs the real DataSet on enumerated/generated histories; the property is the
reference model of triples (coq/Data/DataSpec.v), evaluated on the implementation's observed traces."""
import itertools
import json
import os
import random

from tools import lib

PROP = "C05"
PROPS_FILE = "Props/C05.v"
HEADER = """From Coq Require Import ZArith QArith List Bool.
From PV Require Import Base.Num Base.Outcome Data.DataSet Data.DataSpec.
Import ListNotations.
Open Scope Z_scope.
"""


def q(x):
    return lib.qlit(x)


def cq(z):
    z = complex(z)
    return "(%s, %s)" % (q(z.real), q(z.imag))


def dict_lit(d):
    return "[" + ";".join("(%d, %s)" % (int(k), lib.coqbool(v)) for k, v in d.items()) + "]"


def op_lit(op):
    t = op[0]
    if t == "set_mask":
        return "(SetMask %s)" % dict_lit(op[1])
    if t == "low_pass":
        return "(LowPass %s)" % q(op[1])
    if t == "high_pass":
        return "(HighPass %s)" % q(op[1])
    if t == "sub_scalar":
        return "(Subtract (SubScalar %s))" % cq(op[1])
    if t == "sub_vector":
        return "(Subtract (SubVector [%s]))" % ";".join(cq(z) for z in op[1])
    if t == "roundtrip":
        return "(RoundTrip %s %s)" % (lib.coqbool(op[1]), lib.coqbool(op[2]))
    if t == "duplicate":
        return "Duplicate"
    raise ValueError(t)


def case_lit(case):
    fs, zs, mask, ops = case
    return "(mkCase [%s] [%s] %s [%s])" % (
        ";".join(q(f) for f in fs), ";".join(cq(z) for z in zs),
        "None" if mask is None else "(Some %s)" % dict_lit(mask), ";".join(op_lit(o) for o in ops))


def obs_lit(o):
    if o is None:
        return "None"
    return "(mkDO %s [%s] [%s] [%s] [%s] [%s] [%s] %s %s)" % (
        lib.coqbool(o["ok"]), ";".join(q(f) for f in o["all_f"]), ";".join(cq(z) for z in o["all_z"]),
        ";".join(q(f) for f in o["un_f"]), ";".join(cq(z) for z in o["un_z"]),
        ";".join(q(f) for f in o["ma_f"]), ";".join(cq(z) for z in o["ma_z"]),
        dict_lit(o["mask"]), lib.coqbool(o["second"]))


def trace_lit(t):
    return "(mkTr %s %s %s [%s])" % (
        lib.coqbool(t["ok"]), "None" if t["caller_mask"] is None else "(Some %s)" % dict_lit(t["caller_mask"]),
        "None" if t["first"] is None else "(Some %s)" % obs_lit(t["first"]),
        ";".join(obs_lit(o) for o in t["steps"]))


# ---- implementation side --------------------------------------------------------------------------
DERIVED = []        # (description, problem): derived accessors that disagree with the frequency/impedance views
EXPORTS = []        # (case, problem): a dictionary export that did not behave as a value (aliasing with the data set it came from)


def derived_views(d):
    """get_magnitudes / get_phases / get_num_points / get_nyquist_data / get_bode_data / to_dataframe and DataSet.average are
    functions of the (f, Z) views for the same `masked` argument; checked here against numpy on those views"""
    import numpy as np
    from pyimpspec import DataSet
    for m in (None, False, True):
        f, Z = d.get_frequencies(masked=m), d.get_impedances(masked=m)
        pr = None
        if d.get_num_points(masked=m) != len(Z):
            pr = "get_num_points"
        elif not np.array_equal(d.get_magnitudes(masked=m), abs(Z)):
            pr = "get_magnitudes"
        elif not np.array_equal(d.get_phases(masked=m), np.angle(Z, deg=True)):
            pr = "get_phases"
        else:
            re_, im_ = d.get_nyquist_data(masked=m)
            fb, mag, ph = d.get_bode_data(masked=m)
            if not (np.array_equal(re_, Z.real) and np.array_equal(im_, -Z.imag)):
                pr = "get_nyquist_data"
            elif not (np.array_equal(fb, f) and np.array_equal(mag, abs(Z)) and np.array_equal(ph, -np.angle(Z, deg=True))):
                pr = "get_bode_data"
            else:
                df = d.to_dataframe(masked=m)
                cols = list(df.columns)
                if len(df) != len(Z) or not (np.array_equal(df[cols[0]].to_numpy(), f) and np.array_equal(df[cols[1]].to_numpy(), Z.real)
                                             and np.array_equal(df[cols[2]].to_numpy(), Z.imag)):
                    pr = "to_dataframe"
        if pr:
            DERIVED.append(("masked=%r" % m, "%s disagrees with the frequency/impedance views" % pr))
            return
    before = json.dumps(d.to_dict(), sort_keys=True, default=str)
    avg = DataSet.average([d, d])
    if not (np.array_equal(avg.get_frequencies(masked=None), d.get_frequencies(masked=None))
            and np.array_equal(avg.get_impedances(masked=None), d.get_impedances(masked=None))):
        DERIVED.append(("average([d, d])", "the average of a data set with itself is not that data set's full spectrum"))
    elif json.dumps(d.to_dict(), sort_keys=True, default=str) != before:
        DERIVED.append(("average([d, d])", "average modified its input"))


def observe(d, ok=True, second=True):
    import numpy as np
    if len(DERIVED) < 5:
        try:
            derived_views(d)
        except Exception as e:  # noqa
            DERIVED.append(("derived accessors", "raised %s: %s" % (type(e).__name__, str(e)[:100])))
    # the masked= argument is a numpy boolean for data sets with an odd number of points (accepted; must mean the same)
    T, F_ = (np.True_, np.False_) if d.get_num_points(masked=None) % 2 == 1 else (True, False)
    return {"ok": ok,
            "all_f": [float(x) for x in d.get_frequencies(masked=None)],
            "all_z": [complex(x) for x in d.get_impedances(masked=None)],
            "un_f": [float(x) for x in d.get_frequencies(masked=F_)],
            "un_z": [complex(x) for x in d.get_impedances(masked=F_)],
            "ma_f": [float(x) for x in d.get_frequencies(masked=T)],
            "ma_z": [complex(x) for x in d.get_impedances(masked=T)],
            "mask": dict(d.get_mask()), "second": second}


def light_views(d):
    return ([float(x) for x in d.get_frequencies(masked=None)], [complex(x) for x in d.get_impedances(masked=None)],
            [float(x) for x in d.get_frequencies(masked=False)], [complex(x) for x in d.get_impedances(masked=True)],
            sorted((int(k), bool(v)) for k, v in d.get_mask().items()))


def freeze(e):
    return json.dumps(e, sort_keys=True, default=str)


def check_kept(kept, what, case):
    """a dictionary export is a value: operations applied to the data set afterwards must not change it"""
    for e, frozen, _ in kept:
        if freeze(e) != frozen and len(EXPORTS) < 5:
            EXPORTS.append((case, "an export taken earlier with to_dict() changed when %s was applied to the data set" % what))
            return


def finish_kept(kept, d, case):
    """each kept export still imports as the data set it was taken from; writing into an export does not reach any data set"""
    from pyimpspec import DataSet
    for e, frozen, views in kept:
        if len(EXPORTS) >= 5:
            return
        try:
            back = light_views(DataSet.from_dict(e))
        except Exception as ex:  # noqa
            EXPORTS.append((case, "a kept export could not be imported after later operations: %s" % type(ex).__name__))
            return
        if back != views:
            EXPORTS.append((case, "a kept export imports as a different data set after later operations on its source"))
            return
    now = light_views(d)
    for e, _, _ in kept:
        if isinstance(e.get("mask"), dict):
            for k in list(e["mask"]):
                e["mask"][k] = not e["mask"][k]
            e["mask"].clear()
        for k in ("frequencies", "real_impedances", "imaginary_impedances"):
            if isinstance(e.get(k), list) and e[k]:
                e[k][0] = -1.0
    if light_views(d) != now and len(EXPORTS) < 5:
        EXPORTS.append((case, "writing into a dictionary returned by to_dict() changed the data set"))


def same_views(a, b):
    oa, ob = observe(a), observe(b)
    return all(oa[k] == ob[k] for k in ("all_f", "all_z", "un_f", "un_z", "ma_f", "ma_z", "mask"))


def run_impl(case):
    import numpy as np
    from pyimpspec import DataSet
    fs, zs, mask, ops = case
    # every other history passes its mask flags as numpy.bool_ (what a mask built by an array comparison holds); DataSet accepts
    # them and must treat them exactly like Python bools
    np_flags = (len(fs) + len(ops)) % 2 == 1

    np_keys = (len(fs) + 2 * len(ops)) % 3 == 0

    def dress(m):
        return {(np.int64(k) if np_keys else k): (np.bool_(v) if np_flags else v) for k, v in m.items()}
    caller = None if mask is None else dress(mask)
    f_arr, z_arr = np.array(fs, dtype=float), np.array(zs, dtype=complex)
    try:
        d = DataSet(f_arr, z_arr, mask=caller)
    except Exception as e:
        return {"ok": False, "caller_mask": caller, "first": None, "steps": [], "exc": type(e).__name__}
    # a dictionary returned by get_mask() is a copy: writing into it does not reach the data set  (whether the data set shares the
    # ARRAYS it was constructed from with its caller is not part of the property: the unchanged library does share them)
    if len(EXPORTS) < 5:
        v0 = light_views(d)
        m_ = d.get_mask()
        for k_ in list(m_):
            m_[k_] = not m_[k_]
        m_[10 ** 6] = True
        if light_views(d) != v0:
            EXPORTS.append((case, "writing into the dictionary returned by get_mask() changed the data set"))
    tr = {"ok": True, "caller_mask": caller, "first": observe(d), "steps": [], "exc": None, "step_exc": []}
    kept = []
    for op in ops:
        t = op[0]
        exc = None
        if len(kept) < 3 and len(EXPORTS) < 5:
            try:
                e_ = d.to_dict()
                kept.append((e_, freeze(e_), light_views(d)))
            except Exception:  # noqa
                pass
        try:
            if t == "set_mask":
                arg = dress(dict(op[1]))
                d.set_mask(arg)
                tr["steps"].append(observe(d))
            elif t == "low_pass":
                d.low_pass(op[1])
                tr["steps"].append(observe(d))
            elif t == "high_pass":
                d.high_pass(op[1])
                tr["steps"].append(observe(d))
            elif t == "sub_scalar":
                d.subtract_impedances(np.array([op[1]], dtype=complex))
                tr["steps"].append(observe(d))
            elif t == "sub_vector":
                sub_arr = np.array(op[1], dtype=complex)
                d.subtract_impedances(sub_arr)
                tr["steps"].append(observe(d))
                if len(EXPORTS) < 5:
                    v1 = light_views(d)
                    sub_arr[:] = 1e9
                    if light_views(d) != v1:
                        EXPORTS.append((case, "changing the array handed to subtract_impedances afterwards changed the data set"))
            elif t == "roundtrip":
                j = json.loads(json.dumps(d.to_dict()))
                if op[1]:
                    del j["version"]
                if op[2]:
                    for k in ("mask", "path", "label", "uuid"):
                        del j[k]
                j_before = freeze(j)
                d1 = DataSet.from_dict(j)
                try:
                    d2 = DataSet.from_dict(j)
                    second = same_views(d1, d2)
                except Exception as e2:
                    second = False
                    exc = "second import: " + type(e2).__name__
                if freeze(j) != j_before and len(EXPORTS) < 5:
                    EXPORTS.append((case, "from_dict altered the dictionary it was given"))
                # the same export in the version-1 layout (keys frequency / real / imaginary), imported twice from the same dictionary
                if len(EXPORTS) < 5:
                    j1 = {k: v for k, v in j.items() if k not in ("version", "frequencies", "real_impedances", "imaginary_impedances")}
                    j1.update(version=1, frequency=list(j["frequencies"]), real=list(j["real_impedances"]), imaginary=list(j["imaginary_impedances"]))
                    j1_before = freeze(j1)
                    try:
                        v1a = DataSet.from_dict(j1)
                        v1b = DataSet.from_dict(j1)
                        if light_views(v1a) != light_views(d1) or light_views(v1b) != light_views(d1):
                            EXPORTS.append((case, "the version-1 layout of an export imports as a different data set"))
                        elif freeze(j1) != j1_before:
                            EXPORTS.append((case, "from_dict altered the version-1 dictionary it was given"))
                    except Exception as e3:  # noqa
                        EXPORTS.append((case, "the version-1 layout of an export cannot be imported (twice): %s" % type(e3).__name__))
                d = d1
                tr["steps"].append(observe(d, True, second))
            elif t == "duplicate":
                d_old = d
                d = DataSet.duplicate(d)
                tr["steps"].append(observe(d))
                if len(EXPORTS) < 5:
                    v_old, v_new = light_views(d_old), light_views(d)
                    d_old.set_mask({0: not d_old.get_mask().get(0, False)})
                    d_old.subtract_impedances(np.array([1.0 + 1.0j]))
                    if light_views(d) != v_new:
                        EXPORTS.append((case, "a duplicate changed when its original was masked / shifted afterwards"))
        except Exception as e:
            exc = type(e).__name__
            tr["steps"].append(observe(d, False, t != "roundtrip"))
        tr["step_exc"].append(exc)
        check_kept(kept, t, case)
    if kept and len(EXPORTS) < 5:
        finish_kept(kept, d, case)
    return tr


# ---- generation --------------------------------------------------------------------------------------
def spectrum(n, rng=None, asc=False):
    fs = [float(2 ** (n - i)) for i in range(n)]         # descending, exact in binary
    zs = [complex(10 * (i + 1), -(i + 1) * 3) for i in range(n)]
    if rng is not None:
        zs = [complex(rng.randint(-50, 50), rng.randint(-50, 50)) for _ in range(n)]
        fs = sorted(rng.sample([float(x) / 4 for x in range(1, 400)], n), reverse=True)
    if asc:
        fs, zs = fs[::-1], zs[::-1]
    return fs, zs


def op_alphabet(n, fs):
    mid = sorted(fs)[len(fs) // 2]
    ops = [("set_mask", {}), ("set_mask", {0: True}), ("set_mask", {n - 1: True, 0: False}),
           ("set_mask", {n: True, -1: True}), ("low_pass", mid), ("high_pass", mid),
           ("sub_scalar", complex(1, -2)), ("sub_vector", [complex(i, 1) for i in range(n)]),
           ("roundtrip", False, False), ("roundtrip", True, True), ("duplicate",)]
    if n > 1:
        ops.append(("sub_vector", [complex(1, 1)] * (n + 1)))   # wrong length
    return ops


def exhaustive_cases(max_n, max_len):
    cases = []
    for n in range(1, max_n + 1):
        for asc in (False, True):
            fs, zs = spectrum(n, asc=asc)
            masks = [None]
            for bits in itertools.product([False, True], repeat=n):
                m = {i: b for i, b in enumerate(bits) if b}
                masks.append(m)
            masks.append({n - 1: True, n + 2: True, -1: True})
            masks.append({0: False, n - 1: True})
            alpha = op_alphabet(n, fs)
            for m in masks:
                for L in range(0, max_len + 1):
                    for seq in itertools.product(alpha, repeat=L):
                        cases.append((fs, zs, None if m is None else dict(m), list(seq)))
    return cases


def random_case(rng, max_n, max_len):
    n = rng.randint(1, max_n)
    fs, zs = spectrum(n, rng=rng, asc=rng.random() < 0.5)
    r = rng.random()
    if r < 0.15:
        mask = None
    else:
        keys = rng.sample(range(-2, n + 3), rng.randint(0, min(n + 2, 6)))
        mask = {k: rng.random() < 0.7 for k in keys}
    ops = []
    for _ in range(rng.randint(0, max_len)):
        t = rng.random()
        if t < 0.25:
            keys = rng.sample(range(-1, n + 2), rng.randint(0, min(n + 1, 5)))
            ops.append(("set_mask", {k: rng.random() < 0.6 for k in keys}))
        elif t < 0.40:
            ops.append(("low_pass", rng.choice(fs) + rng.choice([0.0, 0.125, -0.125])))
        elif t < 0.55:
            ops.append(("high_pass", rng.choice(fs) + rng.choice([0.0, 0.125, -0.125])))
        elif t < 0.65:
            ops.append(("sub_scalar", complex(rng.randint(-9, 9), rng.randint(-9, 9))))
        elif t < 0.75:
            ops.append(("sub_vector", [complex(rng.randint(-9, 9), rng.randint(-9, 9)) for _ in range(n)]))
        elif t < 0.90:
            ops.append(("roundtrip", rng.random() < 0.4, rng.random() < 0.4))
        else:
            ops.append(("duplicate",))
    return (fs, zs, mask, ops)


def invalid_cases():
    return [([], [], None, []), ([1.0, 2.0], [1 + 0j], None, []), ([1.0, 1.0], [1j, 2j], None, []),
            ([3.0, 1.0, 3.0], [1j, 2j, 3j], {0: True}, [])]


def shard_text(cases):
    items = ["(%d%%Z, %s, %s)" % (i, case_lit(c), trace_lit(t)) for i, c, t in cases]
    return ("Definition cases : list (Z * dcase * dtrace) := [\n" + ";\n".join(items) + "].\n"
            "Definition mism := flat_map (fun c => let '(i, cs, t) := c in\n"
            "  if trace_eqb (model_trace cs) t then [] else [i]) cases.\n"
            "Definition viol := flat_map (fun c => let '(i, cs, t) := c in\n"
            "  if holds_on_data cs t then [] else [(- (i + 1))%Z]) cases.\n"
            "Definition result : list Z := mism ++ viol.\n")


def describe(case, tr):
    fs, zs, mask, ops = case
    return {"frequencies": fs, "impedances": [str(z) for z in zs], "mask": None if mask is None else {str(k): v for k, v in mask.items()},
            "ops": [list(map(lambda x: x if not isinstance(x, (complex, dict, list)) else str(x), o)) for o in ops],
            "observed": {"constructed": tr["ok"], "exception": tr.get("exc"), "caller_mask_after": None if tr["caller_mask"] is None else {str(k): v for k, v in tr["caller_mask"].items()},
                         "first_unmasked_f": None if tr["first"] is None else tr["first"]["un_f"],
                         "step_exceptions": tr.get("step_exc"),
                         "steps_unmasked_f": [o["un_f"] for o in tr["steps"]]}}


def evaluate(indexed):
    per = 200
    shards = [indexed[i:i + per] for i in range(0, len(indexed), per)]
    outs = lib.run_shards(PROP, HEADER, [shard_text(s) for s in shards])
    mism, viol, broken = [], [], []
    for si, (rc, parsed, raw) in enumerate(outs):
        if rc != 0 or parsed is None:
            broken.append((si, raw[-800:]))
            continue
        for i in parsed:
            if i < 0:
                viol.append(-i - 1)
            else:
                mism.append(i)
    return mism, viol, broken


def minimise(case):
    """drop ops (from the end first), then shrink the spectrum is not attempted"""
    fs, zs, mask, ops = case
    best = case
    for L in range(0, len(ops) + 1):
        cand = (fs, zs, None if mask is None else dict(mask), ops[:L])
        tr = run_impl(cand)
        m, v, b = evaluate([(0, cand, tr)])
        if v:
            return cand, tr
    return best, run_impl(best)


def run(rep, tier, seed, tr_errors):
    rng = random.Random(seed)
    rep.rule = ("histories = constructor(asc|desc order, mask dict incl. out-of-range keys) followed by operations from "
                "{set_mask, low_pass, high_pass, subtract (scalar|vector), to_dict->JSON->from_dict twice (optional keys dropped), "
                "duplicate}; exhaustive over small sizes/all mask subsets/short sequences + seeded random longer ones; all views "
                "observed after every step; non-trivial = at least one masked and one unmasked point at some step; distinct by full case")
    rep.trusted += [
        "Coq 8.16.1 kernel, vm_compute for case evaluation",
        "hand-written model coq/Data/DataSet.v of data_set.py (constructor, set_mask, views, low/high_pass, subtract, to_dict/_parse/from_dict, duplicate); tie 2 = correspondence on every run",
        "reference model coq/Data/DataSpec.v (list of triples) = the property; theorem: model trace = reference trace for every valid input",
        "tools/harness/C05.py: integer/dyadic data so that float subtraction is exact; JSON round trip through the json module",
        "dictionary exports are kept across later operations on the implementation side and must stay values (unchanged, importing as the data set they were taken from, not aliasing it) — in the model an export is a value by construction",
        "not modelled: numpy array aliasing of caller arrays, average(), path/label/uuid fields, type validation errors",
    ]
    thm_ok, names, out = lib.check_props_file(rep, PROPS_FILE, expect=[
        "C05_model_refines_reference", "C05_construct_order_irrelevant", "C05_views_partition",
        "C05_descending_preserved", "C05_caller_mask_untouched", "C05_roundtrip_identity"])
    if tier == "quick":
        cases = exhaustive_cases(3, 1) + [c for c in exhaustive_cases(2, 2)]
        n_rand, max_n, max_len = 600, 8, 8
    else:
        cases = exhaustive_cases(4, 2)
        n_rand, max_n, max_len = 6000, 40, 25
    n_ex = len(cases)
    cases += invalid_cases()
    cases += [random_case(rng, max_n, max_len) for _ in range(n_rand)]
    indexed = []
    opk = {}
    for i, c in enumerate(cases):
        tr = run_impl((c[0], c[1], None if c[2] is None else dict(c[2]), c[3]))
        indexed.append((i, c, tr))
        rep.evaluations += 1
        for o in c[3]:
            opk[o[0]] = opk.get(o[0], 0) + 1
        obs = ([tr["first"]] if tr["first"] else []) + tr["steps"]
        if any(o["un_f"] and o["ma_f"] for o in obs):
            rep.distinct.add(json.dumps(describe(c, tr)["ops"]) + str(c[0]) + str(c[2]))
    rep.extra["input_distribution"] = {"exhaustive_cases": n_ex, "random_cases": n_rand, "op_kinds": opk,
                                       "sizes": sorted({len(c[0]) for c in cases})}
    rep.extra["exhaustive"] = False
    rep.samples = [describe(c, t) for _, c, t in indexed[n_ex + 4:n_ex + 6]]
    mism, viol, broken = evaluate(indexed)
    rep.oblige("correspondence:DataSet.v-vs-data_set.py", not mism and not broken,
               "%d cases, %d mismatches, %d shards failed" % (len(indexed), len(mism), len(broken)))
    rep.oblige("property-on-observed-traces", not viol and not broken, "%d traces differ from the reference model" % len(viol))
    rep.oblige("derived-accessors-and-average-agree-with-the-views", not DERIVED, "%d problems" % len(DERIVED))
    rep.oblige("dictionary-exports-are-values", not EXPORTS, "%d problems (a kept export changed, imported differently later, or writing into it reached a data set)" % len(EXPORTS))
    for n_, (cs, prb) in enumerate(EXPORTS[:3]):
        rep.violation("export_%d" % n_, {"kind": "counterexample", "obligation": "a dictionary export can be imported again any number of times, whatever happens to its source meanwhile",
                                         "input": {"frequencies": cs[0], "impedances": [str(z) for z in cs[1]], "mask": None if cs[2] is None else {str(k): v for k, v in cs[2].items()},
                                                   "ops": [list(map(lambda x: x if not isinstance(x, (complex, dict, list)) else str(x), o)) for o in cs[3]], "problem": prb}})
    for n_, (what, prb) in enumerate(DERIVED[:3]):
        rep.violation("derived_%d" % n_, {"kind": "counterexample", "obligation": "derived accessors are functions of the (f, Z) views", "input": {"accessor": what, "problem": prb}})
    rep.extra["traces_validated_against_impl"] = len(indexed)
    by = {i: (c, t) for i, c, t in indexed}
    for i in sorted(set(viol))[:4]:
        c, t = by[i]
        c2, t2 = minimise(c)
        rep.violation("counterexample_%d" % i, {"kind": "counterexample", "obligation": "holds_on_data (observed trace = reference trace)",
                                               "input": describe(c2, t2), "shrunk_from_ops": len(c[3])})
    if not viol:
        for i in sorted(set(mism))[:3]:
            c, t = by[i]
            rep.violation("correspondence_%d" % i, {"kind": "broken-obligation", "obligation": "correspondence:DataSet.v-vs-data_set.py",
                                                   "input": describe(c, t)}, no_input=True)
        for si, raw in broken[:2]:
            rep.violation("shard_%d" % si, {"kind": "broken-obligation", "obligation": "cases shard did not evaluate", "log": raw}, no_input=True)
    if not thm_ok and not rep.violations:
        rep.violation("theorems", {"kind": "broken-obligation", "obligation": PROPS_FILE,
                                   "detail": [o for o in rep.obligations if not o[1]]}, no_input=True)


def replay(path):
    print("replay: re-run ./check C05; the replay file records the exact history (frequencies, impedances, mask, ops)")
    with open(path) as fp:
        print(fp.read()[:3000])
    return 0

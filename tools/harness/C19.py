"""C19 — the command-line interface reports what the API computes.
Tie 2: coq/Cli/Identity.v (the mock-data specifier parser _parse_identity) evaluated in Coq against the implementation.  The
remaining glue (argument plumbing, filters, formatting) is compared end to end: the CLI is run in-process with a patched argv and
its printed tables are compared with the tables the corresponding API calls return for the same inputs."""
import io
import json
import math
import os
import random
import shutil
import sys
import tempfile
import warnings
from contextlib import redirect_stdout

from tools import lib
from tools import fileio as F

PROP = "C19"
PROPS_FILE = "Props/C19.v"
EXPECT = ["C19_no_colon_is_identity", "C19_specifier_round_trip", "C19_parse_identity_total"]
HEADER = """From Coq Require Import ZArith NArith List Bool.
From PV Require Import Base.Outcome Circuit.Tree Cli.Identity.
Import ListNotations.
Definition obs := outcome (str * list (nat * str)).
Fixpoint kvs_eqb (a b : list (nat * str)) : bool :=
  match a, b with [], [] => true | (k, v) :: a', (k', v') :: b' => Nat.eqb k k' && str_eqb v v' && kvs_eqb a' b' | _, _ => false end.
Definition obs_eqb (a b : obs) : bool :=
  match a, b with Ok (i, k), Ok (i', k') => str_eqb i i' && kvs_eqb k k' | Err e, Err f => errkind_eqb e f | Crash c, Crash d => crashkind_eqb c d | _, _ => false end.
Fixpoint mism (cases : list (Z * str * obs)) : list Z :=
  match cases with [] => [] | (i, s, o) :: r => if obs_eqb (parse_identity s) o then mism r else i :: mism r end.
"""
KEYS = ["noise", "num_per_decade", "log_max_f", "log_min_f", "seed", "drift"]
TYPES = {"noise": float, "num_per_decade": int, "log_max_f": float, "log_min_f": float, "seed": int, "drift": float}


def run_cli(argv):
    import matplotlib
    matplotlib.use("Agg")
    import matplotlib.pyplot as plt
    import pyimpspec.cli as cli
    old = sys.argv
    buf = io.StringIO()
    err = None
    try:
        sys.argv = ["pyimpspec"] + argv + ["--suppress-progress"]
        with redirect_stdout(buf), warnings.catch_warnings():
            warnings.simplefilter("ignore")
            cli.main()
    except SystemExit as e:
        if e.code not in (0, None):
            err = "SystemExit(%s)" % e.code
    except Exception as e:  # noqa
        err = "%s: %s" % (type(e).__name__, str(e)[:200])
    finally:
        sys.argv = old
        plt.close("all")
    return buf.getvalue(), err


def fragments(text):
    return [b.strip("\n") for b in text.replace("\r", "").split("\n\n") if b.strip()]


def md_numbers(text):
    out = []
    for line in text.splitlines():
        if line.startswith("|") and not set(line) <= set("|-: "):
            for cell in line.strip("|").split("|"):
                try:
                    out.append(float(cell.strip()))
                except ValueError:
                    pass
    return out


def compare_df(printed, df, fmt, digits=6):
    """is the printed fragment the table df in the given format?"""
    import pandas as pd
    if fmt == "csv":
        want = df.to_csv(index=False).strip("\n")
        if printed.strip() == want.strip():
            return None
        try:
            got = pd.read_csv(io.StringIO(printed))
        except Exception as e:  # noqa
            return "printed text is not a csv table (%s)" % type(e).__name__
        if list(got.columns) != list(df.columns) or got.shape != df.shape:
            return "table shape/headers differ: %s vs %s" % (list(got.columns), list(df.columns))
        for c in df.columns:
            for a, b in zip(got[c].tolist(), df[c].tolist()):
                if isinstance(b, (int, float)) and not isinstance(b, bool):
                    if not (a == b or (isinstance(a, float) and math.isnan(a) and math.isnan(b)) or abs(a - b) <= 1e-15 * abs(b)):
                        return "column %r: printed %r, API %r" % (c, a, b)
                elif str(a) != str(b) and not (isinstance(a, float) and math.isnan(a) and (b is None or b == "")):
                    return "column %r: printed %r, API %r" % (c, a, b)
        return None
    if fmt == "json":
        try:
            got = json.loads(printed)
        except Exception:  # noqa
            return "printed text is not JSON"
        want = json.loads(df.to_json())
        return None if got == want else "JSON differs"
    if fmt == "md":
        got = md_numbers(printed)
        want = []
        for row in df.itertuples(index=False):
            for v in row:
                if isinstance(v, (int, float)) and not isinstance(v, bool):
                    want.append(float(v))
        if len(got) != len(want):
            return "markdown table has %d numbers, API table %d" % (len(got), len(want))
        for a, b in zip(got, want):
            if not (a == b or abs(a - b) <= 10.0 ** (1 - digits) * abs(b) or (math.isnan(a) and math.isnan(b))):
                return "markdown number %r vs API %r" % (a, b)
        return None
    return "unknown format"


# ---- scenarios -------------------------------------------------------------------------------------------------------------
def filters(rng, data):
    """random filter options and the same filters applied through the API"""
    f = data.get_frequencies(masked=None)
    opts, applied = [], {}
    if rng.random() < 0.5:
        c = float("%.3g" % (10 ** rng.uniform(math.log10(min(f)), math.log10(max(f)))))
        opts += ["--low-pass-filter", repr(c)]
        applied["low_pass"] = c
    if rng.random() < 0.5:
        c = float("%.3g" % (10 ** rng.uniform(math.log10(min(f)), math.log10(max(f)))))
        if "low_pass" not in applied or c < applied["low_pass"] / 3:
            opts += ["--high-pass-filter", repr(c)]
            applied["high_pass"] = c
    if rng.random() < 0.5:
        idx = sorted(rng.sample(range(len(f)), rng.randint(1, 3)))
        opts += ["--exclude-indices"] + [str(i) for i in idx]
        applied["exclude"] = idx
    return opts, applied


def apply_api(data, applied):
    if "low_pass" in applied:
        data.low_pass(applied["low_pass"])
    if "high_pass" in applied:
        data.high_pass(applied["high_pass"])
    if "exclude" in applied:
        data.set_mask({i: True for i in applied["exclude"]})
    return data


def mock_spec(rng):
    ident = rng.choice(["CIRCUIT_1", "CIRCUIT_2", "CIRCUIT_5", "R{R=100}(R{R=200}C{C=1e-5})", "R(RC)(RQ)"])
    kw = {}
    if rng.random() < 0.8:
        for k in rng.sample(KEYS[:5], rng.randint(1, 4)):
            kw[k] = {"noise": rng.choice(["0.5", "0", "2e-1"]), "num_per_decade": rng.choice(["3", "5", "7"]), "log_max_f": rng.choice(["4", "3.5"]),
                     "log_min_f": rng.choice(["0", "-1", "0.5"]), "seed": str(rng.randint(0, 999))}[k]
    if kw.get("noise", "0") != "0" and "seed" not in kw:
        kw["seed"] = str(rng.randint(0, 999))       # without a seed the noise is drawn afresh on every call: nothing to compare
    spec = ident + (":" + ",".join("%s=%s" % kv for kv in kw.items()) if kw else "")
    return spec, ident, {k: TYPES[k](v) for k, v in kw.items()}


def scenario_parse(rng, tmp, i):
    from pyimpspec import parse_data, generate_mock_data
    fmt = rng.choice(["csv", "csv", "json", "md"])
    digits = rng.choice([4, 6, 9])
    if rng.random() < 0.5:
        spec, ident, kw = mock_spec(rng)
        src = "<%s>" % spec
        data = generate_mock_data(ident, **kw)[0]
        many = len(generate_mock_data(ident, **kw)) > 1
    else:
        n = rng.choice([5, 12, 30])
        hi = rng.uniform(3, 5)
        f = [10 ** (hi - 4 * j / (n - 1)) for j in range(n)]
        Z = [complex(10 ** rng.uniform(0, 3), -10 ** rng.uniform(0, 3)) for _ in f]
        text, _ = F.table_text([(f, Z)], dict(alias_f="f", alias_a="z'", alias_b="z''", case="lower", suffix="", neg_a=False, neg_b=False, polar=False, sep=",", decimal="."))
        src = os.path.join(tmp, "in_%d.csv" % i)
        open(src, "w").write(text)
        data = parse_data(src)[0]
        many = False
    opts, applied = filters(rng, data)
    argv = ["parse", src, "--output-format", fmt, "--output-significant-digits", str(digits)] + opts
    out, err = run_cli(argv)
    desc = dict(command=argv)
    if err:
        # filters and exclusions that leave no point at all are refused by the CLI with an explanation; that is consistent with the API
        # exactly when the same filters mask every point there too
        if "All data points have been masked" in err and apply_api(data, applied).get_num_points(masked=False) == 0:
            return desc, None
        return desc, "CLI raised " + err
    data = apply_api(data, applied)
    frs = [fr for fr in fragments(out)]
    body = out.strip("\n")
    if many:
        return desc, None
    return desc, compare_df(body, data.to_dataframe(), fmt, digits)


def scenario_parse_many(rng, tmp, i):
    """one `parse` invocation with several inputs (mock specifiers that share an identifier or not, and a file): one table per data
    set the API returns for each input, none dropped, none printed twice"""
    from pyimpspec import parse_data, generate_mock_data
    digits = 9
    srcs, expected = [], []
    ident = rng.choice(["CIRCUIT_1", "CIRCUIT_2", "R{R=100}(R{R=200}C{C=1e-5})"])
    k = rng.choice([2, 2, 3])
    for j in range(k):
        same = j == 0 or rng.random() < 0.7        # the same identifier again, with other settings
        idj = ident if same else rng.choice(["CIRCUIT_3", "CIRCUIT_5", "R(RC)(RQ)"])
        kw = {"num_per_decade": str(2 + j), "log_max_f": str(3 - j), "log_min_f": "0"}
        if rng.random() < 0.4:
            kw.update(noise="0.5", seed=str(rng.randint(0, 999)))
        srcs.append("<%s:%s>" % (idj, ",".join("%s=%s" % kv for kv in kw.items())))
        expected += list(generate_mock_data(idj, **{q: TYPES[q](v) for q, v in kw.items()}))
    if rng.random() < 0.5:
        f = [10 ** (4 - j / 2) for j in range(7)]
        Z = [complex(10 ** rng.uniform(0, 3), -10 ** rng.uniform(0, 3)) for _ in f]
        text, _ = F.table_text([(f, Z)], dict(alias_f="f", alias_a="z'", alias_b="z''", case="lower", suffix="", neg_a=False, neg_b=False, polar=False, sep=",", decimal="."))
        src = os.path.join(tmp, "many_%d.csv" % i)
        open(src, "w").write(text)
        srcs.insert(rng.randint(0, len(srcs)), src)
        expected += list(parse_data(src))
    argv = ["parse"] + srcs + ["--output-format", "csv", "--output-significant-digits", str(digits)]
    out, err = run_cli(argv)
    desc = dict(command=argv)
    if err:
        return desc, "CLI raised " + err
    tables = []
    for fr in fragments(out):
        lines = fr.splitlines()
        while lines and not lines[0].startswith("f (Hz)"):
            lines = lines[1:]                      # the heading that names the data set
        if lines:
            tables.append("\n".join(lines))
    if len(tables) != len(expected):
        return desc, "%d inputs denote %d data sets through the API, the CLI printed %d tables" % (len(srcs), len(expected), len(tables))
    left = list(tables)
    for d in expected:
        hit = next((t for t in left if compare_df(t, d.to_dataframe(), "csv", digits) is None), None)
        if hit is None:
            return desc, "no printed table equals the data set '%s' (%d points) that the API returns for one of the inputs" % (d.get_label(), d.get_num_points())
        left.remove(hit)
    return desc, None


def scenario_circuit(rng, tmp, i):
    from pyimpspec import parse_cdc, simulate_spectrum
    from pyimpspec.analysis.utility import _interpolate
    cdc = rng.choice(["R{R=100}(R{R=200}C{C=1e-5})", "R{R=10}(R{R=50}Q{Y=1e-4,n=0.8})W{Y=0.01}", "(RC)L", "R(C[RW])"])
    fmin, fmax, npd = rng.choice([0.1, 1.0, 2.5]), rng.choice([1e3, 1e4, 3e5]), rng.choice([1, 3, 7])
    fmt = rng.choice(["csv", "json"])
    argv = ["circuit", cdc, "--simulate", "--min-frequency", repr(fmin), "--max-frequency", repr(fmax), "--num-per-decade", str(npd), "--output-format", fmt]
    out, err = run_cli(argv)
    desc = dict(command=argv)
    if err:
        return desc, "CLI raised " + err
    circuit = parse_cdc(cdc)
    data = simulate_spectrum(circuit, _interpolate([fmax, fmin], npd), label=circuit.to_string())
    body = out.strip("\n")
    # the label line precedes the table
    lines = body.split("\n")
    if lines and lines[0].strip() == data.get_label():
        body = "\n".join(lines[1:])
    return desc, compare_df(body.strip("\n"), data.to_dataframe(), fmt)


def scenario_fit(rng, tmp, i):
    from pyimpspec import generate_mock_data, fit_circuit, parse_cdc
    spec, ident, kw = "CIRCUIT_1:noise=0.1,seed=%d" % rng.randint(1, 50), "CIRCUIT_1", None
    seed = int(spec.split("seed=")[1])
    cdc = "R{R=100}(R{R=200}C{C=1e-6})(R{R=500}W{Y=1e-3})" if rng.random() < 0.5 else "R(RC)(RW)"
    method, weight = rng.choice(["leastsq", "least_squares"]), rng.choice(["boukamp", "modulus", "proportional"])
    running = rng.random() < 0.5
    # --num-refinements N re-fits N times, each time starting from the previously fitted circuit; a small --max-nfev leaves the first
    # fit unconverged so that the refinements matter (every other scenario)
    nref, nfev = ((1 + i % 2, 15) if i % 2 == 0 else (rng.choice([0, 1]), 200))
    argv = (["fit", cdc, "<%s>" % spec, "--method", method, "--weight", weight, "--max-nfev", str(nfev), "--num-procs", "1", "--output-format", "csv"]
            + (["--running-count"] if running else []) + (["--num-refinements", str(nref)] if nref else []))
    out, err = run_cli(argv)
    desc = dict(command=argv)
    if err:
        return desc, "CLI raised " + err
    data = generate_mock_data("CIRCUIT_1", noise=0.1, seed=seed)[0]
    fit = fit_circuit(parse_cdc(cdc), data=data, method=method, weight=weight, max_nfev=nfev, num_procs=1)
    for _ in range(nref):
        fit = fit_circuit(fit.circuit, data=data, method=method, weight=weight, max_nfev=nfev, num_procs=1)
    frs = fragments(out)
    if len(frs) < 3:
        return desc, "expected CDC line, parameter table and statistics table, found %d fragments" % len(frs)
    if frs[0].strip() != "CDC: " + parse_cdc(cdc).to_string():
        return desc, "CDC line differs: %r" % frs[0][:80]
    r = compare_df(frs[1], fit.to_parameters_dataframe(running=running), "csv")
    if r:
        return desc, "parameters: " + r
    r = compare_df(frs[2], fit.to_statistics_dataframe(), "csv")
    return desc, ("statistics: " + r) if r else None


def scenario_drt(rng, tmp, i):
    """the `drt` command against calculate_drt with the same settings: the three deterministic methods in turn, each with the options
    that belong to it away from their defaults, optionally with the table of peaks (--threshold)"""
    from pyimpspec import generate_mock_data, calculate_drt, parse_cdc
    seed = rng.randint(1, 50)
    which = ("tr-nnls", "lm", "mrq-fit")[i % 3]
    if which == "tr-nnls":
        mode, lam = rng.choice(["real", "imaginary"]), rng.choice([1e-3, 1e-2])
        opts, kw = ["--mode", mode, "--lambda-value", repr(lam)], dict(mode=mode, lambda_value=lam)
    elif which == "lm":
        mo, mm = rng.choice([0, 3, 5]), rng.choice(["matrix_rank", "pseudo_chisqr"])
        opts, kw = ["--model-order", str(mo), "--model-order-method", mm], dict(model_order=mo, model_order_method=mm)
    else:
        cdc_, gw, npd = "R{R=100}(R{R=200}C{C=8e-7})(R{R=500}Q{Y=4e-4,n=0.6})", rng.choice([0.1, 0.25]), rng.choice([20, 50])
        opts = ["--circuit", cdc_, "--gaussian-width", repr(gw), "--num-per-decade", str(npd), "--max-nfev", "100"]
        kw = dict(circuit=parse_cdc(cdc_), gaussian_width=gw, num_per_decade=npd, max_nfev=100)
    thr = rng.choice([None, 0.0, 0.3])
    argv = (["drt", "<CIRCUIT_1:noise=0.1,seed=%d>" % seed, "--method", which] + opts + ["--output-format", "csv", "--num-procs", "1"]
            + (["--threshold", repr(thr)] if thr is not None else []))
    out, err = run_cli(argv)
    desc = dict(command=argv)
    if err:
        return desc, "CLI raised " + err
    data = generate_mock_data("CIRCUIT_1", noise=0.1, seed=seed)[0]
    drt = calculate_drt(data, method=which, num_procs=1, **kw)
    frs = fragments(out)
    if not any(compare_df(fr, drt.to_statistics_dataframe(), "csv") is None for fr in frs):
        return desc, "statistics table of calculate_drt not found in the CLI output"
    if thr is not None:
        peaks = drt.to_peaks_dataframe(threshold=thr)
        if len(peaks) and not any(compare_df(fr, peaks, "csv") is None for fr in frs):
            return desc, "table of peaks (threshold %r) of calculate_drt not found in the CLI output" % thr
    return desc, None


# ---- tie 2: _parse_identity ----------------------------------------------------------------------------------------------------
def identity_case(rng):
    from pyimpspec.cli.utility import _parse_identity
    r = rng.random()
    raw = {}
    if r < 0.55:
        ident = rng.choice(["CIRCUIT_1", "R{R=1}(RC)", "R{R=1:x}C", "[R(RC)]", "a:b", "", "R{R=2}:q", "(RC):"])
        ks = [rng.choice(KEYS + ["bogus", "Noise", "noise "]) for _ in range(rng.randint(0, 3))]
        parts = []
        for k in ks:
            v = rng.choice(["1", "0.5", "-2", "1e3", "+7", "3.", "x", "", "1.5", "12", "1=2"])
            raw_k = k
            parts.append(rng.choice(["", " "]) + "%s=%s" % (k, v) + rng.choice(["", " "]))
            raw[k] = v
        s = ident + ((":" + ",".join(parts)) if parts or rng.random() < 0.2 else "")
    else:
        s = "".join(rng.choice("R{}[]():,= 1.5enoisedft_") for _ in range(rng.randint(0, 14)))
    try:
        ident_o, kw = _parse_identity(s)
        kvs = []
        ok = True
        for k, v in kw.items():
            # recover the raw text: the last value written for this key in the specifier
            seg = s[s.rfind(":") + 1:]
            rv = None
            for arg in [a.strip() for a in seg.split(",")]:
                if arg.split("=")[0] == k and len(arg.split("=")) == 2:
                    rv = arg.split("=")[1]
            if rv is None or TYPES[k](rv) != v:
                ok = False
                rv = rv or "?"
            kvs.append("(%d%%nat, %s)" % (KEYS.index(k), lib.codepoints(rv)))
        obs = "Ok (%s, [%s])" % (lib.codepoints(ident_o), ";".join(kvs))
        kind = "ok" if ok else "value-mismatch"
    except ValueError:
        obs, kind = "Err EValue", "ValueError"
    except KeyError:
        obs, kind = "Err EKey", "KeyError"
    except Exception as e:  # noqa
        obs, kind = "Crash (COtherCrash 0)", type(e).__name__
    return s, obs, kind


def run(rep, tier, seed, tr_errors):
    rng = random.Random(seed)
    rep.rule = ("(1) _parse_identity on generated specifiers (valid key=value lists, unknown keys, malformed pairs, colons inside brackets, garbage) vs "
                "the Coq model; (2) CLI in-process vs API on the same inputs: parse (files and mock specifiers x low/high-pass filters x excluded "
                "indices x csv/json/md), circuit --simulate (4 codes x frequency ranges x points per decade x csv/json), fit (mock data x 2 codes x "
                "methods x weights x running count: CDC line, parameter table, statistics table), drt (tr-nnls x mode x lambda: statistics table); "
                "non-trivial = CLI ran and printed a table; distinct by argv")
    rep.trusted += ["Coq 8.16.1 kernel, vm_compute", "model coq/Cli/Identity.v of _parse_identity; float()/int() acceptance is modelled for plain decimal literals only",
                    "argparse, pandas formatting (to_csv/to_json/to_markdown) and matplotlib are outside the model: compared end to end"]
    thm_ok, names, out = lib.check_props_file(rep, PROPS_FILE, expect=EXPECT)
    n_id = 300 if tier == "quick" else 4000
    cases, kinds = [], {}
    for i in range(n_id):
        s, obs, kind = identity_case(rng)
        kinds[kind] = kinds.get(kind, 0) + 1
        cases.append((i, s, obs))
    rep.evaluations += len(cases)
    shards = ["Definition result : list Z := mism [%s]." % ";\n".join("(%d%%Z, %s, %s)" % (i, lib.codepoints(s), o) for i, s, o in cases[j:j + 500]) for j in range(0, len(cases), 500)]
    outs = lib.run_shards(PROP, HEADER, shards)
    mism, broken = [], []
    for si, (rc, parsed, raw) in enumerate(outs):
        if rc != 0 or parsed is None:
            broken.append((si, raw[-800:]))
        else:
            mism += parsed
    rep.oblige("correspondence:Identity.v-vs-_parse_identity", not mism and not broken and not kinds.get("value-mismatch"), "%d specifiers (%s), %d mismatches" % (len(cases), kinds, len(mism)))
    tmp = tempfile.mkdtemp(prefix="verif_C19_")
    bad, counts = [], {}
    cwd = os.getcwd()
    try:
        os.chdir(tmp)
        plan = [(scenario_parse, 24 if tier == "quick" else 120), (scenario_parse_many, 8 if tier == "quick" else 40), (scenario_circuit, 10 if tier == "quick" else 60), (scenario_fit, 4 if tier == "quick" else 16), (scenario_drt, 6 if tier == "quick" else 18)]
        for fn, n in plan:
            for i in range(n):
                try:
                    desc, r = fn(rng, tmp, i)
                except Exception as e:  # noqa
                    desc, r = dict(command=[fn.__name__]), "harness/API raised %s: %s" % (type(e).__name__, str(e)[:200])
                rep.evaluations += 1
                counts[fn.__name__] = counts.get(fn.__name__, 0) + 1
                if r:
                    desc["observed"] = r
                    bad.append(desc)
                else:
                    rep.distinct.add(json.dumps(desc["command"]))
    finally:
        os.chdir(cwd)
        shutil.rmtree(tmp, ignore_errors=True)
    rep.extra["cli_runs"] = counts
    rep.samples = [{"specifier": cases[0][1]}, {"specifier": cases[1][1]}]
    rep.oblige("cli-output-equals-api (parse, circuit --simulate, fit, drt)", not bad, "%s runs, %d differences" % (counts, len(bad)))
    for n_, desc in enumerate(bad[:5]):
        rep.violation("cli_%d" % n_, {"kind": "counterexample", "obligation": "CLI output equals API result", "input": desc})
    if not bad:
        for j in mism[:3]:
            rep.violation("identity_%d" % j, {"kind": "counterexample", "obligation": "correspondence:_parse_identity (model and implementation differ)", "input": {"specifier": cases[j][1], "observed": cases[j][2][:300]}})
        for si, raw in broken[:2]:
            rep.violation("shard_%d" % si, {"kind": "broken-obligation", "obligation": "cases shard did not evaluate", "log": raw}, no_input=True)
    if not thm_ok and not rep.violations:
        rep.violation("theorems", {"kind": "broken-obligation", "obligation": PROPS_FILE, "detail": [o_ for o_ in rep.obligations if not o_[1]]}, no_input=True)


def replay(path):
    d = json.load(open(path))
    print(json.dumps(d, indent=1)[:3000])
    cmd = d.get("input", {}).get("command")
    if cmd and not any(os.sep in c and not os.path.exists(c) for c in cmd):
        out, err = run_cli(cmd)
        print(out[:2000], err)
    return 1

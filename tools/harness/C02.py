"""C02 — numeric impedance of every element equals its documented equation.
Tie 1: tools/tr_elements.py regenerates gen/El_<sym>.v from the source on every run; the lemma
<sym>_impl_eq_eqn is re-proved by the `ceq` tactic (ring + unification of opaque applications).
After a broken obligation: numeric search (get_impedances vs. the sympy expression)."""
import cmath
import json
import math
import os
import random

from tools import lib, tr_classes, tr_elements

PROP = "C02"
PROPS_FILE = "Props/C02.v"


def sample_params(row, rng):
    vals = {}
    for k in row["keys"]:
        lo, hi, v = row["lo"][k], row["hi"][k], row["vals"][k]
        r = rng.random()
        if math.isfinite(lo) and math.isfinite(hi) and hi - lo <= 10:
            # bounded (exponents, fractions): uniform, with corners
            if r < 0.1:
                x = hi
            elif r < 0.15 and lo > 0:
                x = lo
            else:
                x = lo + (hi - lo) * (0.02 + 0.98 * rng.random())
        else:
            base = abs(v) if v not in (0.0,) else 1.0
            x = base * 10 ** rng.uniform(-2, 2)
            if math.isfinite(hi):
                x = min(x, hi)
            if math.isfinite(lo):
                x = max(x, lo if lo > 0 else x)
        vals[k] = float(x)
    return vals


def numeric_compare(row, rng, n_points, tol=1e-7):
    """returns (evaluated, skipped, first_failure or None)"""
    import numpy as np
    import sympy
    cls = row["cls"]
    done = skipped = 0
    for _ in range(n_points):
        vals = sample_params(row, rng)
        f = 10 ** rng.uniform(-3, 5)
        try:
            el = cls(**vals)
            with np.errstate(all="ignore"):
                z_num = complex(el.get_impedances(np.array([f]))[0])
        except Exception as e:  # InfiniteImpedance etc.: not a statement about the equation
            skipped += 1
            continue
        try:
            expr = el.to_sympy(substitute=True)
            fs = list(expr.free_symbols)
            z_sym = complex(sympy.N(expr.subs({s: f for s in fs}), 30))
        except Exception as e:
            return done, skipped, {"params": vals, "f": f, "numeric": repr(z_num), "symbolic_error": repr(e)}
        if not (cmath.isfinite(z_num) and cmath.isfinite(z_sym)) or abs(z_sym) > 1e100 or abs(z_sym) < 1e-100:
            skipped += 1
            continue
        done += 1
        if abs(z_num - z_sym) > tol * abs(z_sym):
            return done, skipped, {"params": vals, "f": f, "numeric": repr(z_num), "equation": repr(z_sym),
                                   "relative_difference": abs(z_num - z_sym) / abs(z_sym)}
    return done, skipped, None


class _Timeout(Exception):
    pass


TLM_ABANDONED = []


def limit_check(row, rng, samples, budget_s=25.0):
    """where a finite value is reported at 0 Hz or at infinite frequency it is the continuous extension of the finite-frequency
    values: the values at 1e-6, 1e-9, 1e-12 Hz (1e9, 1e12, 1e15 Hz) approach it — the last one to within 1 % of the scale, or the
    distances shrink by a factor of 3 or more per step.  Exponent-like parameters (limits within [0, 1]) are kept >= 0.5 so that the
    approach is fast enough to be seen.  Returns (checked, skipped, first failure or None)."""
    import signal
    import numpy as np

    def on_alarm(*a):
        raise _Timeout()
    import time
    cls = row["cls"]
    checked = skipped = 0
    t_start = time.time()
    old = signal.signal(signal.SIGALRM, on_alarm)
    try:
        for trial in range(samples):
            if time.time() - t_start > budget_s:      # sympy's limit() can take minutes for the transmission lines: bounded per class
                skipped += 1
                continue
            vals = {}
            if trial:
                vals = sample_params(row, rng)
                for k in vals:
                    if row["lo"][k] >= 0.0 and row["hi"][k] <= 1.0:
                        vals[k] = min(max(vals[k], 0.5), row["hi"][k])
            try:
                el = cls(**vals)
            except Exception:  # noqa
                skipped += 1
                continue
            for name, f0, seq in (("0 Hz", 0.0, [1e-6, 1e-9, 1e-12]), ("infinite frequency", float("inf"), [1e9, 1e12, 1e15])):
                try:
                    signal.alarm(8)
                    with np.errstate(all="ignore"):
                        z0 = complex(el.get_impedances(np.array([f0]))[0])
                        zs = [complex(el.get_impedances(np.array([f]))[0]) for f in seq]
                    signal.alarm(0)
                except _Timeout:
                    skipped += 1
                    continue
                except Exception:  # noqa: no finite limit reported (InfiniteLimit, NotImplementedError, ...): nothing is claimed
                    signal.alarm(0)
                    skipped += 1
                    continue
                if not (cmath.isfinite(z0) and all(cmath.isfinite(z) for z in zs)):
                    skipped += 1
                    continue
                checked += 1
                dev = [abs(z - z0) for z in zs]
                scale = max(abs(z0), abs(zs[0]), 1e-300)
                close = dev[-1] <= 1e-2 * scale
                shrinking = dev[0] > 0 and all(dev[i + 1] <= dev[i] / 3 for i in range(2))
                if not (close or shrinking):
                    return checked, skipped, {"params": vals, "limit": name, "reported": repr(z0), "frequencies": seq, "values": [repr(z) for z in zs],
                                              "distances": dev}
    finally:
        signal.alarm(0)
        signal.signal(signal.SIGALRM, old)
    return checked, skipped, None


def tlm_sweep(rng, n_per_config, budget_s=None):
    """the general transmission line: all 27 admissible configurations (X_1/X_2 finite or short but not both short, Zeta
    finite, Z_A/Z_B finite|short|open) x random finite sub-circuits, plus a sample of inadmissible ones (which both sides
    must refuse): get_impedances vs the substituted symbolic expression.  Returns (configs, compared, first failure)."""
    import itertools
    import numpy as np
    import sympy
    from pyimpspec import parse_cdc
    finite_subs = ["R{R=%g}", "[R{R=%g}C{C=1e-3}]", "(R{R=%g}C{C=2e-4})", "Q{Y=%g,n=0.7}", "[R{R=%g}W{Y=0.5}]"]
    keys = ["X_1", "X_2", "Z_A", "Z_B", "Zeta"]
    all_cfgs = list(itertools.product(["fin", "short", "open"], repeat=5))

    def admissible(c):
        return c[0] != "open" and c[1] != "open" and not (c[0] == "short" and c[1] == "short") and c[4] == "fin"
    good = [c for c in all_cfgs if admissible(c)]
    bad = rng.sample([c for c in all_cfgs if not admissible(c)], 12)
    import signal
    import time

    def on_alarm(*a):
        raise _Timeout()
    configs = compared = 0
    t_start = time.time()
    old_handler = signal.signal(signal.SIGALRM, on_alarm)
    # sympy needs from milliseconds to minutes for the substituted expression, depending on the sub-circuits drawn: every configuration
    # gets 12 s (abandoned configurations are counted in TLM_ABANDONED, not judged) and the quick tier stops after its time budget
    for cfg in good * n_per_config + bad:
        if budget_s is not None and time.time() - t_start > budget_s and configs >= len(good):
            break
        configs += 1
        parts = []
        for k, c in zip(keys, cfg):
            if c == "fin":
                parts.append("%s=%s" % (k, rng.choice(finite_subs) % rng.choice([0.5, 1.0, 2.0, 5.0, 13.0])))
            else:
                parts.append("%s=%s" % (k, c))
        text = "Tlm{%s,L=%g}" % (",".join(parts), rng.choice([0.3, 1.0, 2.5]))
        try:
            circuit = parse_cdc(text)
        except Exception as e:  # noqa
            return configs, compared, {"cdc": text, "error": "parse: " + type(e).__name__}
        f = 10 ** rng.uniform(-2, 3)
        try:
            with np.errstate(all="ignore"):
                num = complex(circuit.get_impedances(np.array([f]))[0])
        except Exception as e:  # noqa
            num = type(e).__name__
        try:
            signal.alarm(12)
            expr = circuit.to_sympy(substitute=True)
            fs = list(expr.free_symbols)
            sym = complex(sympy.lambdify(fs, expr, "mpmath")(*[f for _ in fs])) if fs else complex(expr)
            signal.alarm(0)
        except _Timeout:
            TLM_ABANDONED.append(text)
            continue
        except Exception as e:  # noqa
            signal.alarm(0)
            sym = type(e).__name__
        if isinstance(num, str) or isinstance(sym, str):
            # refused by both sides (e.g. a shorted boundary next to a shorted rail divides by zero in both) is consistent;
            # refused by exactly one side is a disagreement
            if isinstance(num, str) != isinstance(sym, str) and num != "InfiniteImpedance":
                return configs, compared, {"cdc": text, "f": f, "numeric": str(num), "symbolic": str(sym)}
            continue
        if not (cmath.isfinite(num) and cmath.isfinite(sym)):
            continue
        compared += 1
        if abs(num - sym) > 1e-7 * abs(sym):
            signal.signal(signal.SIGALRM, old_handler)
            return configs, compared, {"cdc": text, "f": f, "numeric": repr(num), "equation": repr(sym),
                                       "relative_difference": abs(num - sym) / abs(sym)}
    signal.alarm(0)
    signal.signal(signal.SIGALRM, old_handler)
    return configs, compared, None


def known_match(kf, sym, failure):
    for f in kf.get("findings", []):
        if f.get("property") == PROP and f.get("match", {}).get("element") == sym:
            return f
    return None


def run(rep, tier, seed, tr_errors):
    rng = random.Random(seed)
    rep.rule = ("one obligation per registered non-container class: the translated `_impedance` body equals the translated "
                "`_equation` for ALL parameter values and frequencies (lemma over C, re-proved each run); plus a numeric "
                "sweep get_impedances vs sympy on random parameter boxes (support / violation search); a sweep point is "
                "non-trivial if both values are finite and non-zero; distinct by (class, parameters, frequency)")
    rep.trusted += [
        "Coq 8.16.1 kernel; Coquelicot C with its ring structure; axioms as printed by Print Assumptions (real-number axioms of the standard library)",
        "tools/tr_elements.py: my reading of Python/numpy expression semantics (operator precedence, ** right-assoc, pointwise arrays, `.astype` dropped, x**-1 as inverse, x**2 as product, sqrt as power 1/2)",
        "function symbols cpow, tanh, coth, cosh, sinh are uninterpreted and shared by both sides; the only law assumed is cpow z (-a) = / cpow z a (section hypothesis, stated in each theorem)",
        "not covered by proof: IEEE rounding, sympy's limit() at f=0/inf (exercised numerically only); the Tlm container is covered by its own translator (tools/tr_tlm.py) and theorems, with the sub-circuit values as abstract complex numbers (their own impedances are C01/C02 obligations)",
    ]
    status = tr_elements.generate.status or tr_elements.generate()
    if "tr_elements" in tr_errors:
        rep.oblige("translator:tr_elements", False, tr_errors["tr_elements"][-500:])
    rows = [r for r in tr_classes.class_rows() if not r["container"]]
    broken = {}
    for r in rows:
        sym = r["symbol"]
        err = status.get(sym, "class missing from translator output")
        rep.oblige("translate:%s" % sym, err is None, err or "")
        ok = lib.vo_ok("gen/El_%s.v" % sym) and err is None
        rep.oblige("lemma:%s_impl_eq_eqn" % sym, ok, "" if ok else "gen/El_%s.v does not compile (ceq did not close the identity)" % sym)
        if not ok:
            broken[sym] = err or "lemma not proved"
    rep.oblige("translator:tr_tlm", "tr_tlm" not in tr_errors, tr_errors.get("tr_tlm", "gen/Tlm_gen.v regenerated")[-400:])
    thm_ok, names, out = lib.check_props_file(rep, PROPS_FILE)
    thm_ok2, names2, out2 = lib.check_props_file(rep, "Props/C02_Tlm.v", expect=["C02_Tlm_numeric_eq_symbolic", "C02_Tlm_documented_equation", "C02_Tlm_refused_iff"])
    thm_ok = thm_ok and thm_ok2
    # numeric sweep (support; and the violation search for broken classes)
    n_quick, n_thorough = 25, 100     # thorough: 100 points per class (sympy.N at 30 digits costs ~0.2 s per point)
    n = n_quick if tier == "quick" else n_thorough
    kf = lib.load_known_findings()
    sweep = {}
    for r in rows:
        sym = r["symbol"]
        pts = n * (8 if sym in broken else 1)
        done, skipped, fail = numeric_compare(r, rng, pts)
        sweep[sym] = {"compared": done, "skipped": skipped, "failed": fail is not None}
        rep.evaluations += done
        for i in range(done):
            rep.distinct.add((sym, i))
        if fail is not None:
            f = known_match(kf, sym, fail)
            if f is not None:
                rep.known_finding("%s: %s" % (f["id"], f["what"]))
                # a known finding accounts for the broken obligation of that class only
                continue
            rep.violation("numeric_%s" % sym, {"kind": "counterexample", "obligation": "lemma:%s_impl_eq_eqn" % sym,
                                               "input": {"class": sym, **fail}})
        elif sym in broken:
            rep.violation("lemma_%s" % sym, {"kind": "broken-obligation", "obligation": "lemma:%s_impl_eq_eqn" % sym,
                                             "detail": broken[sym], "numeric_points_tried": done}, no_input=True)
    # the reported limits at 0 Hz and at infinite frequency
    lim = {}
    lim_fail = []
    for r in rows:
        chk, skp, fail = limit_check(r, rng, 2 if tier == "quick" else 5)
        lim[r["symbol"]] = {"checked": chk, "no_finite_limit_or_timeout": skp, "failed": fail is not None}
        rep.evaluations += chk
        if fail is not None:
            lim_fail.append((r["symbol"], fail))
    rep.extra["limits_at_0_and_inf"] = lim
    rep.oblige("reported-limits-are-the-continuous-extension (0 Hz and infinite frequency, every class that reports a finite limit)", not lim_fail and sum(v["checked"] for v in lim.values()) >= 10,
               "%d limits checked, %d failures" % (sum(v["checked"] for v in lim.values()), len(lim_fail)))
    for sym, fail in lim_fail[:3]:
        rep.violation("limit_%s" % sym, {"kind": "counterexample", "obligation": "a reported finite limit is the continuous extension of the finite-frequency values", "input": {"class": sym, **fail}})
    cfgs, ncmp, tfail = tlm_sweep(rng, 2 if tier == "quick" else 6, budget_s=150.0 if tier == "quick" else None)
    sweep["Tlm"] = {"configurations": cfgs, "compared": ncmp, "failed": tfail is not None, "abandoned_after_12_s_of_sympy": len(TLM_ABANDONED)}
    rep.evaluations += ncmp
    rep.oblige("tlm-numeric-vs-symbolic on the implementation (27 admissible configurations + sampled inadmissible ones; the search behind C02_Tlm_numeric_eq_symbolic)", tfail is None,
               "" if tfail is None else json.dumps(tfail)[:300])
    if tfail is not None:
        rep.violation("numeric_Tlm", {"kind": "counterexample", "obligation": "Tlm: get_impedances = substituted symbolic expression", "input": tfail})
    rep.extra["numeric_sweep"] = sweep
    rep.samples = [{"class": s, **v} for s, v in list(sweep.items())[:4]]
    if not thm_ok and not rep.violations and not rep.known:
        rep.violation("theorems", {"kind": "broken-obligation", "obligation": PROPS_FILE,
                                   "detail": [o for o in rep.obligations if not o[1]]}, no_input=True)


def replay(path):
    with open(path) as fp:
        r = json.load(fp)
    inp = r["input"]
    rows = {x["symbol"]: x for x in tr_classes.class_rows()}
    row = rows[inp["class"]]
    import numpy as np
    import sympy
    el = row["cls"](**inp["params"])
    z_num = complex(el.get_impedances(np.array([inp["f"]]))[0])
    expr = el.to_sympy(substitute=True)
    z_sym = complex(sympy.N(expr.subs({s: inp["f"] for s in expr.free_symbols}), 30))
    bad = abs(z_num - z_sym) > 1e-7 * abs(z_sym)
    print(json.dumps({"numeric": repr(z_num), "equation": repr(z_sym), "violates_property": bad}))
    return 1 if bad else 0

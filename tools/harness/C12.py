"""C12 — circuit fitting: bounds, fixed parameters, constraints, table = returned circuit, input untouched (invariants);
recovery of generating parameters (exercised).  Tie 2: coq/An/Fit.v (extract / from_lmfit) vs fitting.py with the real
MinimizerResult captured; invariants are checked on the implementation's results bit for bit."""
import copy
import json
import math
import random

from tools import lib

PROP = "C12"
PROPS_FILE = "Props/C12.v"
HEADER = """From Coq Require Import ZArith QArith List Bool.
From PV Require Import Base.Num Base.Outcome Circuit.Tree Circuit.Printer Circuit.Ident An.Fit.
Import ListNotations.
Open Scope N_scope.
Definition row_eqb (a b : trow) : bool := str_eqb (tr_key a) (tr_key b) && xsame (tr_value a) (tr_value b) && Bool.eqb (tr_fixed a) (tr_fixed b).
Fixpoint insert_row (x : trow) (l : list trow) : list trow :=
  match l with [] => [x] | y :: r => if str_ltb (tr_key x) (tr_key y) then x :: l else y :: insert_row x r end.
Definition sort_rows (l : list trow) : list trow := fold_right insert_row [] l.
Fixpoint rows_eqb (a b : list trow) : bool :=
  match a, b with [], [] => true | x :: a', y :: b' => row_eqb x y && rows_eqb a' b' | _, _ => false end.
Fixpoint tables_eqb (a b : list (list trow)) : bool :=
  match a, b with [], [] => true | x :: a', y :: b' => rows_eqb (sort_rows x) (sort_rows y) && tables_eqb a' b' | _, _ => false end.
"""

FAMILIES = ["R{R=100}(R{R=200}C{C=1e-4})", "R{R=50}(R{R=300}Q{Y=1e-4,n=0.85})", "R{R=100}(R{R=200}C{C=1e-5})(R{R=400}C{C=1e-3})",
            "R{R=20}(R{R=100}C{C=1e-5})(R{R=250}Q{Y=2e-3,n=0.9})", "R{R=10}(C{C=1e-5}[R{R=100}W{Y=1e-2}])", "R{R=5}L{L=1e-6}(R{R=100}Q{Y=1e-4,n=0.8})"]


def ladder(n):
    return "R{R=10}" + "".join("(R{R=%g}C{C=%g})" % (50 * (k + 1), 10 ** (-6 + 0.5 * k)) for k in range(n))


def fparam_lit(k, v, lo, hi, fx):
    return "(mkFP %s %s %s %s %s)" % (lib.codepoints(k), lib.xlit(v), lib.xlit(lo), lib.xlit(hi), lib.coqbool(fx))


def circuit_lit(circuit):
    els = list(circuit.generate_element_identifiers(running=True).keys())
    out = []
    for el in els:
        v, lo, hi, fx = el.get_values(), el.get_lower_limits(), el.get_upper_limits(), el.are_fixed()
        out.append("[" + ";".join(fparam_lit(k, v[k], lo[k], hi[k], fx[k]) for k in v) + "]")
    return "[" + ";".join(out) + "]", els


def run_case(rng, cdc_text, method, weight, fix_frac, constraints=False):
    import numpy as np
    import pyimpspec
    from pyimpspec import parse_cdc, DataSet
    true = parse_cdc(cdc_text)
    f = np.logspace(5, -2, 36)
    data = DataSet(f, true.get_impedances(f))
    start = parse_cdc(cdc_text)
    for el in start.get_elements(recursive=True):
        for k, v in el.get_values().items():
            if k in ("n",):
                continue
            fac = 10 ** rng.uniform(-0.45, 0.45)
            lo, hi = v / 10, v * 10
            try:
                el._set_limits({k: lo}, {k: hi})
                el.set_values(**{k: v * fac})
                if rng.random() < fix_frac:
                    el.set_fixed(**{k: True})
                    el.set_values(**{k: v})
            except Exception:
                pass
    before = start.serialize(17)
    kwargs = dict(method=method, weight=weight, max_nfev=200, num_procs=1)
    cexpr = {}
    if constraints:
        from pyimpspec.analysis.fitting import generate_fit_identifiers
        ids = generate_fit_identifiers(start)
        els = list(ids.keys())
        rs = [e for e in els if e.get_symbol() == "R" and not e.is_fixed("R")]
        if len(rs) >= 2:
            a, b = ids[rs[0]]["R"], ids[rs[1]]["R"]
            cexpr = {b: "%s * 2" % a}
            kwargs["constraint_expressions"] = cexpr
    try:
        fit = pyimpspec.fit_circuit(start, data, **kwargs)
    except Exception as e:  # noqa
        return {"error": type(e).__name__, "input_untouched": start.serialize(17) == before}
    res = {"error": None, "input_untouched": start.serialize(17) == before, "problems": []}
    fc = fit.circuit
    els = list(fc.generate_element_identifiers(running=True).keys())
    start_els = list(start.generate_element_identifiers(running=True).keys())
    for el, s_el in zip(els, start_els):
        v, lo, hi, fx = el.get_values(), el.get_lower_limits(), el.get_upper_limits(), el.are_fixed()
        for k in v:
            if not (lo[k] <= v[k] <= hi[k]):
                res["problems"].append("%s.%s = %r outside [%r, %r]" % (fc.get_element_name(el), k, v[k], lo[k], hi[k]))
            if fx[k] and v[k] != s_el.get_value(k):
                res["problems"].append("fixed %s.%s changed from %r to %r" % (fc.get_element_name(el), k, s_el.get_value(k), v[k]))
        name = fc.get_element_name(el)
        if name not in fit.parameters:
            res["problems"].append("table has no entry for %s" % name)
            continue
        for k in v:
            if k not in fit.parameters[name] or float(fit.parameters[name][k].value).hex() != float(v[k]).hex():
                res["problems"].append("table reports %s.%s = %r but the returned circuit has %r" % (
                    name, k, fit.parameters[name][k].value if k in fit.parameters[name] else None, v[k]))
    if cexpr:
        # the constraint must hold for the values of the RETURNED circuit (and for lmfit's own parameters)
        from pyimpspec.analysis.fitting import generate_fit_identifiers as gfi
        cvals = {}
        for el_, names in gfi(fc).items():
            for k_, nm in names.items():
                cvals[nm] = el_.get_value(k_)
        vals = fit.minimizer_result.params.valuesdict()
        for b, ex in cexpr.items():
            a = ex.split(" * ")[0]
            if abs(vals[b] - 2 * vals[a]) > 1e-9 * abs(vals[b]):
                res["problems"].append("constraint %s = %s violated by lmfit's parameters: %r vs %r" % (b, ex, vals[b], vals[a]))
            if a not in cvals or b not in cvals or abs(cvals[b] - 2 * cvals[a]) > 1e-9 * abs(cvals[b]):
                res["problems"].append("constraint %s = %s violated in the returned circuit: %r vs %r" % (b, ex, cvals.get(b), cvals.get(a)))
        res["constrained"] = True
    # for the Coq correspondence: the circuit as written back, variable names, parameter values, the observed table
    clit, _ = circuit_lit(fc)
    mr = fit.minimizer_result
    res["coq"] = (clit, list(mr.var_names), {k: float(v) for k, v in mr.params.valuesdict().items()},
                  [[(k, fit.parameters[fc.get_element_name(el)][k].value, fit.parameters[fc.get_element_name(el)][k].fixed)
                    for k in fit.parameters.get(fc.get_element_name(el), {})] for el in els])
    res["pseudo_chisqr"] = fit.pseudo_chisqr
    res["recovered"] = all(abs(a.get_value(k) - b.get_value(k)) <= 1e-3 * abs(b.get_value(k))
                           for a, b in zip(fc.get_elements(recursive=True), true.get_elements(recursive=True)) for k in a.get_values())
    return res


def active_bound_case(method, weight):
    import numpy as np
    import pyimpspec
    from pyimpspec import parse_cdc, DataSet
    f = np.logspace(5, -1, 31)
    w = 2 * np.pi * f
    Z = -25.0 + 100.0 / (1 + 1j * w * 100.0 * 1e-5)
    start = parse_cdc("R{R=50}(R{R=100}C{C=1e-5})")
    try:
        fit = pyimpspec.fit_circuit(start, DataSet(f, Z), method=method, weight=weight, max_nfev=200, num_procs=1)
    except Exception as e:  # noqa
        return [] if type(e).__name__ == "FittingError" else ["fit_circuit raised %s" % type(e).__name__]
    out = []
    for el in fit.circuit.get_elements(recursive=True):
        v, lo, hi = el.get_values(), el.get_lower_limits(), el.get_upper_limits()
        for k in v:
            if not (lo[k] <= v[k] <= hi[k]):
                out.append("%s.%s = %r outside [%r, %r]" % (fit.circuit.get_element_name(el), k, v[k], lo[k], hi[k]))
    return out


def fixed_outside_case(method, weight, above):
    """a parameter marked fixed whose value lies OUTSIDE its own limits (reachable: set_values does not look at the limits): the fit
    is refused (FittingError / ValueError) or it keeps the fixed value exactly — it is never moved onto a bound"""
    import numpy as np
    import pyimpspec
    from pyimpspec import parse_cdc, DataSet
    f = np.logspace(5, -1, 31)
    Z = parse_cdc("R{R=100}(R{R=200}C{C=1e-5})").get_impedances(f)
    start = parse_cdc("R{R=100}(R{R=150}C{C=2e-5})")
    r0 = start.get_elements(recursive=True)[0]
    if above:
        r0.set_upper_limits(R=50.0)
        r0.set_values(R=100.0)
    else:
        r0.set_lower_limits(R=150.0)
        r0.set_values(R=100.0)
    r0.set_fixed(R=True)
    try:
        fit = pyimpspec.fit_circuit(start, DataSet(f, Z), method=method, weight=weight, max_nfev=200, num_procs=1)
    except Exception as e:  # noqa
        return [] if type(e).__name__ in ("FittingError", "ValueError") else ["fit_circuit raised %s" % type(e).__name__]
    el = fit.circuit.get_elements(recursive=True)[0]
    out = []
    if el.get_value("R") != 100.0:
        out.append("fixed R_0.R (value 100 outside its limits [%r, %r]) changed to %r" % (el.get_lower_limit("R"), el.get_upper_limit("R"), el.get_value("R")))
    name = fit.circuit.get_element_name(el)
    if name in fit.parameters and fit.parameters[name]["R"].value != el.get_value("R"):
        out.append("table reports %r for the fixed parameter, the circuit holds %r" % (fit.parameters[name]["R"].value, el.get_value("R")))
    return out


def shard_text(cases):
    items = []
    for i, (clit, var_names, params, table) in cases:
        items.append("(%d%%Z, %s, [%s], [%s], [%s])" % (
            i, clit, ";".join(lib.codepoints(n) for n in var_names),
            ";".join("(%s, %s)" % (lib.codepoints(k), lib.xlit(v)) for k, v in params.items()),
            ";".join("[" + ";".join("(mkRow %s %s %s)" % (lib.codepoints(k), lib.xlit(v), lib.coqbool(fx)) for k, v, fx in rows) + "]" for rows in table)))
    return ("Definition cases : list (Z * fcircuit * list str * lmresult * list (list trow)) := [\n" + ";\n".join(items) + "].\n"
            "Definition mism := flat_map (fun c : Z * fcircuit * list str * lmresult * list (list trow) => let '(i, fc, vn, r, t) := c in\n"
            "  if tables_eqb (extract fc vn r) t then [] else [i]) cases.\n"
            "Definition result : list Z := mism.\n")


def run(rep, tier, seed, tr_errors):
    rng = random.Random(seed)
    rep.rule = ("fits of identifiable families (R(RC), R(RQ), R(RC)(RC), R(RC)(RQ), R(C[RW]), RL(RQ), RC ladders with up to 13 elements) to "
                "their own noise-free spectra from starts perturbed by up to x2.8, random subsets of fixed parameters, limit boxes "
                "[v/10, 10v], 9 methods x 4 weights (sampled), a constraint expression between two resistances; invariants checked on "
                "every fit; recovery checked for the default 'auto' choice; non-trivial = fit completed with >= 1 free and >= 1 fixed "
                "parameter; distinct by (family, method, weight, fixed set)")
    rep.trusted += ["Coq 8.16.1 kernel, vm_compute", "model coq/An/Fit.v of fitting.py's bookkeeping (_to_lmfit, _from_lmfit, _extract_parameters); lmfit.minimize is an oracle",
                    "recovery of the generating parameters, bounds and fixed parameters are properties of lmfit/SciPy: checked on every run, not proved"]
    thm_ok, names, out = lib.check_props_file(rep, PROPS_FILE, expect=["C12_suffix_unambiguous", "C12_table_reports_circuit", "C12_writeback_per_element"])
    methods = ["leastsq", "least_squares", "nelder", "lbfgsb", "powell", "cg", "bfgs", "tnc", "slsqp"]
    weights = ["unity", "modulus", "proportional", "boukamp"]
    plan = []
    n = 30 if tier == "quick" else 150
    for i in range(n):
        fam = rng.choice(FAMILIES + [ladder(rng.choice([5, 6]))])
        plan.append((fam, rng.choice(methods), rng.choice(weights), rng.choice([0.0, 0.3, 0.5]), rng.random() < 0.25))
    plan.append((ladder(6), "leastsq", "boukamp", 0.2, False))          # 13 elements: running identifiers 0..12
    # constraint expressions are always exercised (several methods), not left to chance
    for m_, w_ in (("least_squares", "boukamp"), ("leastsq", "modulus"), ("powell", "proportional")) if tier == "quick" else [(m__, w__) for m__ in methods for w__ in weights[:2]]:
        plan.append((FAMILIES[2], m_, w_, 0.0, True))
    # constrained fits whose generating values satisfy the constraint (R_1 = 2 R_0 in families 0 and 2) while the tied parameter
    # starts elsewhere: the default method/weight must recover the generating values here too
    for fam_ in (FAMILIES[0], FAMILIES[2]) * (1 if tier == "quick" else 4):
        plan.append((fam_, "auto", "auto", 0.0, True))
    n_auto = 2 if tier == "quick" else 12
    for i in range(n_auto):
        plan.append((FAMILIES[i % len(FAMILIES)], "auto", "auto", 0.0, False))
    cases, problems, untouched_bad = [], [], []
    recovered = attempted = 0
    # active bounds at the DEFAULT limits (a lower limit of exactly zero): data with a negative series resistance, which the fit
    # may not follow below zero
    for m_, w_ in (("least_squares", "boukamp"), ("leastsq", "modulus")) + ((("nelder", "unity"), ("powell", "proportional")) if tier != "quick" else ()):
        pr_ = active_bound_case(m_, w_)
        rep.evaluations += 1
        if pr_:
            problems.append(("R(RC) with default limits on data with a negative series resistance", m_, w_, pr_[:4]))
    for m_, w_, ab_ in (("least_squares", "boukamp", True), ("leastsq", "modulus", False), ("auto", "auto", True)) + ((("nelder", "unity", False), ("powell", "proportional", True)) if tier != "quick" else ()):
        pr_ = fixed_outside_case(m_, w_, ab_)
        rep.evaluations += 1
        if pr_:
            problems.append(("R(RC) with a fixed series resistance outside its own limits", m_, w_, pr_[:4]))
    for i, (fam, m, w, ff, con) in enumerate(plan):
        res = run_case(rng, fam, m, w, ff, con)
        rep.evaluations += 1
        if not res["input_untouched"]:
            untouched_bad.append((fam, m, w))
        if res["error"]:
            if res["error"] not in ("FittingError",):
                problems.append((fam, m, w, ["fit_circuit raised %s" % res["error"]]))
            continue
        if res["problems"]:
            problems.append((fam, m, w, res["problems"][:4]))
        cases.append((i, res["coq"]))
        if m == "auto":
            attempted += 1
            recovered += 1 if (res["recovered"] and res["pseudo_chisqr"] < 1e-6) else 0
        rep.distinct.add(json.dumps([fam, m, w, ff, con]))
    rep.samples = [{"family": p[0], "method": p[1], "weight": p[2], "fixed_fraction": p[3], "constraint": p[4]} for p in plan[:3]]
    outs = lib.run_shards(PROP, HEADER, [shard_text(cases[j:j + 40]) for j in range(0, len(cases), 40)])
    mism, broken = [], []
    for si, (rc, parsed, raw) in enumerate(outs):
        if rc != 0 or parsed is None:
            broken.append((si, raw[-800:]))
            continue
        mism += parsed
    rep.oblige("correspondence:Fit.v-extract-vs-_extract_parameters", not mism and not broken, "%d fits, %d mismatches, %d shards failed" % (len(cases), len(mism), len(broken)))
    rep.oblige("invariants-on-every-fit (bounds, fixed exact, constraints, table = circuit)", not problems, "%d fits with problems" % len(problems))
    rep.oblige("input-circuit-untouched", not untouched_bad, "%d" % len(untouched_bad))
    rep.extra["support_runs"] = {"auto_recovery": {"attempted": attempted, "recovered_to_1e-3_with_chisqr_below_1e-6": recovered}}
    rep.oblige("recovery-with-default-auto (exercised, not proved)", recovered == attempted, "%d of %d" % (recovered, attempted))
    for fam, m, w, pr in problems[:4]:
        rep.violation("fit_%d" % (abs(hash((fam, m, w))) % 100000), {"kind": "counterexample", "obligation": "fit invariants", "input": {"circuit": fam, "method": m, "weight": w, "problems": pr}})
    for fam, m, w in untouched_bad[:2]:
        rep.violation("untouched_%d" % (abs(hash((fam, m, w))) % 100000), {"kind": "counterexample", "obligation": "input circuit untouched", "input": {"circuit": fam, "method": m, "weight": w}})
    if recovered != attempted and not problems:
        rep.violation("recovery", {"kind": "counterexample", "obligation": "recovery with method='auto', weight='auto'", "input": {"recovered": recovered, "attempted": attempted}})
    if not problems and not untouched_bad:
        for j in mism[:3]:
            rep.violation("correspondence_%d" % j, {"kind": "broken-obligation", "obligation": "correspondence:Fit.v", "input": {"plan": list(map(str, plan[j]))}}, no_input=True)
        for si, raw in broken[:2]:
            rep.violation("shard_%d" % si, {"kind": "broken-obligation", "obligation": "cases shard did not evaluate", "log": raw}, no_input=True)
    if not thm_ok and not rep.violations:
        rep.violation("theorems", {"kind": "broken-obligation", "obligation": PROPS_FILE, "detail": [o for o in rep.obligations if not o[1]]}, no_input=True)


def replay(path):
    print(open(path).read()[:3000])
    return 0

"""C03 — circuit description codes mean one circuit, however they are spelled.
Tie 2: models Printer.v / Token.v / Parser.v vs to_string/serialize/parse_cdc; the property (round trip up to the
parser's normal form and the printed precision; every spelling parses to the intended tree) is evaluated in Coq
on the implementation's observed results; text fixpoint and copies are checked on the implementation directly."""
import copy as pycopy
import json
import random

from tools import lib, cdc, circuit_lit

PROP = "C03"
PROPS_FILE = "Props/C03.v"


def limits_distinct(c, d):
    # every element, those inside containers' sub-circuits included (get_elements(recursive=True) stops at containers)
    for el in c.generate_element_identifiers(running=True).keys():
        lo, hi = el.get_lower_limits(), el.get_upper_limits()
        for k in lo:
            if ("%.*E" % (d, lo[k])) == ("%.*E" % (d, hi[k])) and lo[k] != float("-inf"):
                return False
    return True


def rt_case(ctx, rng, tier):
    # hypothesis of the round-trip statement: lower and upper limit stay distinct at the printed precision
    while True:
        c = cdc.rand_circuit(ctx, rng, depth=rng.randint(0, 3), digits=rng.choice([3, 6, 10]))
        d = rng.choice([1, 2, 3, 6, 12, 14, 16, 17])
        if limits_distinct(c, d):
            return c, d


def shard_text(ctx, cases):
    items = []
    for i, kind, d, tlit, text, obs, exp_text in cases:
        items.append("(%d%%Z, %s, %d%%nat, %s, %s, %s, %s)" % (
            i, "true" if kind == "rt" else "false", d, tlit, lib.codepoints(text), cdc.outcome_lit(ctx, obs), lib.codepoints(exp_text)))
    return ("Definition cases : list (Z * bool * nat * conn * str * outcome conn * str) := [\n" + ";\n".join(items) + "].\n"
            "Definition F := 400%nat.\n"
            "Definition mism := flat_map (fun c : Z * bool * nat * conn * str * outcome conn * str => let '(i, rt, d, t, text, o, _) := c in\n"
            "  if (if rt then str_eqb (serialize builtin_registry d t F) text else true)\n"
            "     && outcome_close F (parse builtin_registry text) o then [] else [i]) cases.\n"
            "Definition viol := flat_map (fun c : Z * bool * nat * conn * str * outcome conn * str => let '(i, rt, d, t, text, o, exp) := c in\n"
            "  match o with\n"
            "  | Ok t' => if conn_close F (if rt then norm_conn F (round_conn F d t) else norm_conn F t) (norm_conn F t')\n"
            "                && (if rt then str_eqb (serialize builtin_registry d (norm_conn F (round_conn F d t)) F) exp else true)\n"
            "             then [] else [(- (i + 1))%Z]\n"
            "  | _ => [(- (i + 1))%Z] end) cases.\n"
            "Definition result : list Z := mism ++ viol.\n")


BASIC_HEADER = cdc.HEADER + "From PV Require Import Circuit.Registry Circuit.Token_decode Circuit.Printer_lex Circuit.Parser_basic.\n"


def basic_shard_text(ctx, cases):
    """basic syntax (to_string(), decimals=-1): the printer model, the parser model and the SPECIFICATIONS used by the theorems
    C03_basic_round_trip / _whitespace_insensitive (pconn) and C03_basic_implicit_outer_series, all against what the implementation
    printed and parsed.  kind 0 = the printed text, 1 = with white space inserted, 2 = without the outer brackets"""
    items = []
    for i, tlit, text, obs, kind in cases:
        items.append("(%d%%Z, %s, %s, %s, %d%%nat)" % (i, tlit, lib.codepoints(text), cdc.outcome_lit(ctx, obs), kind))
    return ("Definition cases : list (Z * conn * str * outcome conn * nat) := [\n" + ";\n".join(items) + "].\n"
            "Definition F := 280%nat.\n"
            "Definition is_err (o : outcome conn) : bool := match o with Err _ => true | _ => false end.\n"
            "Definition implicit_expected (t : conn) : option conn :=\n"
            "  match t with\n"
            "  | Ser l => match (fix go (l : list node) : option (list node) := match l with [] => Some [] | x :: r =>\n"
            "                      match pnode builtin_registry F x, go r with Some a, Some b => Some (a :: b) | _, _ => None end end) l with\n"
            "             | Some [] => None | Some [x'] => Some (top x') | Some l' => Some (Ser l') | None => None end\n"
            "  | _ => None end.\n"
            "Definition result : list Z := flat_map (fun c : Z * conn * str * outcome conn * nat => let '(i, t, text, o, kind) := c in\n"
            "  if (match kind with O => str_eqb (to_string builtin_registry None t F) text | _ => true end)\n"
            "     && outcome_close F (parse builtin_registry text) o\n"
            "     && (match kind with\n"
            "         | 2%nat => match implicit_expected t with Some e => outcome_close F (Ok e) o | None => is_err o end\n"
            "         | _ => match pconn builtin_registry F t with Some n => outcome_close F (Ok (top n)) o | None => is_err o end end)\n"
            "  then [] else [i]) cases.\n")


EXT_HEADER = cdc.HEADER + "From PV Require Import Circuit.Registry Circuit.Token_decode Circuit.Token_ext Circuit.Printer_num Circuit.Printer_lex Circuit.Parser_basic Circuit.ElemProp Circuit.Parser_ext Circuit.Lex_ext.\n"


def ext_shard_text(ctx, cases):
    """extended syntax, circuits without container elements: (a) the scanner model turns the text of the printer model into exactly
    the tokens the theorem C03_extended_round_trip_tokens is about, for the tree with every number replaced by the value the scanner
    reads from its printed form; (b) the theorem's specification xpconn of that tree is what the implementation parsed.
    A tree that does not meet the theorem's hypotheses (xpconn = None) is reported as 1000000 + index (counted, not a mismatch)."""
    items = ["(%d%%Z, %d%%nat, %s, %s)" % (i, d, tlit, cdc.outcome_lit(ctx, obs)) for i, d, tlit, obs in cases]
    return ("Definition cases : list (Z * nat * conn * outcome conn) := [\n" + ";\n".join(items) + "].\n"
            "Definition F := 400%nat.\n"
            "Definition tok_eqb (a b : tok) : bool := tkind_eqb (tk a) (tk b) && str_eqb (tstr a) (tstr b) && xsame (tnum a) (tnum b).\n"
            "Fixpoint toks_eqb (a b : list tok) : bool :=\n"
            "  match a, b with [], [] => true | x :: a', y :: b' => tok_eqb x y && toks_eqb a' b' | _, _ => false end.\n"
            "(* hypotheses of C03_extended_round_trip: lex_conn_ok (lexical half) and xpconn of the read-back tree = Some (syntactic half);\n"
            "   when they hold the conclusion is re-evaluated on the models (tokens of the printed text) and compared with the implementation *)\n"
            "Definition result : list Z := flat_map (fun c : Z * nat * conn * outcome conn => let '(i, d, t, o) := c in\n"
            "  let t' := rd_conn d F t in\n"
            "  if lex_conn_ok builtin_registry d F t then\n"
            "    match tokenize (to_string builtin_registry (Some d) t F) with\n"
            "    | Ok ts => if toks_eqb ts (xctoks builtin_registry F t') then\n"
            "                 match xpconn builtin_registry F t' with\n"
            "                 | Some n => if outcome_close F (Ok (top n)) o then [] else [i]\n"
            "                 | None => [(1000000 + i)%Z]\n"
            "                 end\n"
            "               else [i]\n"
            "    | _ => [i]\n"
            "    end\n"
            "  else [(2000000 + i)%Z]) cases.\n")


def finding_probes(ctx):
    """specific inputs of recorded findings; each returns (id, still_fails)"""
    from pyimpspec import parse_cdc, Resistor, Circuit, Series
    out = []
    r = Resistor().set_label("1a")
    try:
        parse_cdc(Circuit(Series([r])).serialize())
        out.append(("C03-label-first-char", False))
    except Exception:
        out.append(("C03-label-first-char", True))
    r = Resistor().set_label("a}b")
    try:
        ok = parse_cdc(Circuit(Series([r])).serialize()).get_elements()[0].get_label() == "a}b"
        out.append(("C03-label-unbalanced-brace", not ok))
    except Exception:
        out.append(("C03-label-unbalanced-brace", True))
    r = Resistor(R=float("inf"))
    try:
        parse_cdc(Circuit(Series([r])).serialize())
        out.append(("C03-infinite-value", False))
    except Exception:
        out.append(("C03-infinite-value", True))
    return out


def run(rep, tier, seed, tr_errors):
    rng = random.Random(seed)
    ctx = cdc.Ctx()
    rep.rule = ("round-trip cases: random circuits built through the public API (all classes incl. Tlm with sub-circuits, labels "
                "the syntax can carry, limits moved by setters incl. +-inf and beyond class defaults, fixed flags) x decimals in "
                "{1,2,3,6,12,14,16,17}; spelling cases: the same kind of circuit written by a grammar-directed printer with a random "
                "choice vector (implicit outer series, omitted parameters/limits, percentage limits, F/f, short/zero/open/inf, "
                "bare-list sub-circuits, white space, header variants); non-trivial = >= 2 elements and >= 1 non-default field; "
                "distinct by text")
    rep.trusted += [
        "Coq 8.16.1 kernel, vm_compute for case evaluation",
        "hand-written models coq/Circuit/Printer.v (to_string/serialize incl. %.dE on exact rationals), Token.v, Parser.v; Canon.v defines the parser's normal form and rounding to the printed precision",
        "decimal<->double conversion is compared at relative 2^-48 (not proved); text fixpoint not claimed for decimals=15 (16 significant digits do not identify a double)",
        "tools/cdc.py: circuit generator and the spelling printer (the oracle for alternative spellings)",
    ]
    thm_ok, names, out = lib.check_props_file(rep, PROPS_FILE, expect=["C03_container_scope", "C03_one_node_per_step", "C03_basic_text_lexes_exactly", "C03_builtin_registry_symbols_valid",
                                                                    "C03_basic_round_trip", "C03_basic_round_trip_parse", "C03_basic_whitespace_insensitive", "C03_basic_implicit_outer_series", "C03_basic_round_trip_applies",
                                                                    "C03_extended_round_trip_tokens", "C03_constructor_rebuilds_the_element", "C03_extended_round_trip", "C03_extended_round_trip_parse", "C03_printed_number_shape", "C03_extended_round_trip_applies"])
    thm_ok2, _, _ = lib.check_props_file(rep, "Props/C03_Sem.v", expect=["C03_basic_round_trip_same_impedance", "C03_implicit_series_same_impedance", "C03_parse_results_well_formed"])
    thm_ok = thm_ok and thm_ok2
    n_rt = 250 if tier == "quick" else 5000
    n_sp = 400 if tier == "quick" else 8000
    cases = []
    direct = []     # python-side property failures
    from pyimpspec import parse_cdc
    from pyimpspec.circuit.base import Container
    ecases = []
    i = 0
    for _ in range(n_rt):
        c, d = rt_case(ctx, rng, tier)
        tlit = circuit_lit.circuit_lit(c, ctx.rows, ctx.idx)
        text = c.serialize(d)
        obs = cdc.parse_observe(text)
        exp_text = text
        if obs[0] == "ok":
            text2 = obs[1].serialize(d)
            exp_text = text2
            o3 = cdc.parse_observe(text2)
            if o3[0] != "ok" or o3[1].serialize(d) != text2:
                direct.append(("re-serialisation is not a fixpoint", text))
        for how, cp in (("copy", pycopy.copy), ("deepcopy", pycopy.deepcopy)):
            try:
                if cp(c).serialize(d) != text:
                    direct.append((how + " serialises differently", text))
            except Exception as e:  # noqa
                direct.append((how + " failed: " + type(e).__name__, text))
        cases.append((i, "rt", d, tlit, text, obs, exp_text))
        if not any(isinstance(el, Container) for el in c.get_elements(recursive=True)):
            ecases.append((i, d, tlit, obs))
        rep.evaluations += 1
        if len(c.get_elements(recursive=True)) >= 2 and any(ch.isdigit() and ch != "0" for ch in text):
            rep.distinct.add(text)
        i += 1
    for _ in range(n_sp):
        c = cdc.rand_circuit(ctx, rng, depth=rng.randint(0, 2), digits=6)
        pcts = cdc.apply_percent_limits(ctx, c, rng)
        tlit = circuit_lit.circuit_lit(c, ctx.rows, ctx.idx)
        text = cdc.spell_circuit(ctx, c, rng, pcts)
        obs = cdc.parse_observe(text)
        cases.append((i, "sp", 0, tlit, text, obs, ""))
        rep.evaluations += 1
        if len(c.get_elements(recursive=True)) >= 2:
            rep.distinct.add(text)
        i += 1
    # basic syntax: to_string() of random circuits (also degenerate ones: one-item parallels are refused by the parser)
    bcases = []
    for _ in range(150 if tier == "quick" else 3000):
        c = cdc.rand_circuit(ctx, rng, depth=rng.randint(0, 4), digits=3)
        text = c.to_string()
        bcases.append((i, circuit_lit.circuit_lit(c, ctx.rows, ctx.idx), text, cdc.parse_observe(text), 0))
        rep.evaluations += 1
        i += 1
        if rng.random() < 0.4 and text.startswith("[") and text.endswith("]") and len(text) > 2:
            # the implicit outer series: the same text without its outer brackets (C03_basic_implicit_outer_series)
            bcases.append((i, circuit_lit.circuit_lit(c, ctx.rows, ctx.idx), text[1:-1], cdc.parse_observe(text[1:-1]), 2))
            rep.evaluations += 1
            i += 1
        if rng.random() < 0.4:
            # the same text with white space before brackets and symbols and at both ends (C03_basic_whitespace_insensitive)
            sp = "".join((rng.choice(["", " ", "  ", "\t", "\n"]) if (ch in "[]()" or ch.isupper()) else "") + ch for ch in text)
            sp = rng.choice(["", " ", "\n"]) + sp + rng.choice(["", " ", " \t"])
            bcases.append((i, circuit_lit.circuit_lit(c, ctx.rows, ctx.idx), sp, cdc.parse_observe(sp), 1))
            rep.evaluations += 1
            i += 1
    rep.samples = [{"kind": k, "decimals": d, "text": t[:200], "parsed": (o[1].to_string() if o[0] == "ok" else o[1])}
                   for _, k, d, _, t, o, _ in (cases[3:5] + cases[n_rt + 3:n_rt + 5])]
    rep.extra["input_distribution"] = {"round_trip_cases": n_rt, "spelling_cases": n_sp,
                                       "outcomes": {"ok": sum(1 for c in cases if c[5][0] == "ok"),
                                                    "errors": sum(1 for c in cases if c[5][0] != "ok")}}
    per = 60
    shards = [cases[j:j + per] for j in range(0, len(cases), per)]
    outs = lib.run_shards(PROP, cdc.HEADER, [shard_text(ctx, sh) for sh in shards], timeout=900)
    bouts = lib.run_shards(PROP + "b", BASIC_HEADER, [basic_shard_text(ctx, bcases[j:j + 75]) for j in range(0, len(bcases), 75)], timeout=900)
    eouts = lib.run_shards(PROP + "e", EXT_HEADER, [ext_shard_text(ctx, ecases[j:j + 40]) for j in range(0, len(ecases), 40)], timeout=900)
    eall = [j for rc, parsed, raw in eouts if rc == 0 and parsed is not None for j in parsed]
    emism = [j for j in eall if j < 1000000]
    ena = [j - 1000000 for j in eall if 1000000 <= j < 2000000]
    elex = [j - 2000000 for j in eall if j >= 2000000]
    ebroken = [(si, raw[-800:]) for si, (rc, parsed, raw) in enumerate(eouts) if rc != 0 or parsed is None]
    rep.extra["extended_token_cases"] = {"circuits_without_containers": len(ecases), "outside_the_syntactic_hypotheses": len(ena),
                                         "outside_the_lexical_hypotheses (labels not starting with a letter or with unbalanced braces, printed numbers beyond the double range)": len(elex)}
    rep.oblige("correspondence:extended-syntax tokens of the printed text and the theorem's specification xpconn vs to_string(d)/parse_cdc",
               not emism and not ebroken and len(ecases) - len(ena) - len(elex) >= 10,
               "%d circuits without containers, %d + %d outside the hypotheses, %d mismatches, %d shards failed" % (len(ecases), len(ena), len(elex), len(emism), len(ebroken)))
    bmism = [j for rc, parsed, raw in bouts if rc == 0 and parsed is not None for j in parsed]
    bbroken = [(si, raw[-800:]) for si, (rc, parsed, raw) in enumerate(bouts) if rc != 0 or parsed is None]
    rep.oblige("correspondence:basic-syntax printer, parser and the theorem's specification pconn vs to_string()/parse_cdc",
               not bmism and not bbroken, "%d cases, %d mismatches, %d shards failed" % (len(bcases), len(bmism), len(bbroken)))
    mism, viol, broken = [], [], []
    for si, (rc, parsed, raw) in enumerate(outs):
        if rc != 0 or parsed is None:
            broken.append((si, raw[-800:]))
            continue
        for j in parsed:
            if j < 0:
                viol.append(-j - 1)
            else:
                mism.append(j)
    rep.oblige("correspondence:Printer.v+Parser.v-vs-serialize/parse_cdc", not mism and not broken,
               "%d cases, %d mismatches, %d shards failed" % (len(cases), len(mism), len(broken)))
    rep.oblige("property-on-observed-results", not viol, "%d cases: parsed circuit differs from the intended one" % len(viol))
    rep.oblige("text-fixpoint-and-copies", not direct, "%d failures" % len(direct))
    rep.extra["traces_validated_against_impl"] = len(cases)
    kf = lib.load_known_findings()
    known = {f["id"]: f for f in kf.get("findings", []) if f.get("property") == PROP}
    for fid, fails in finding_probes(ctx):
        if fails:
            if fid in known:
                rep.known_finding("%s: %s" % (fid, known[fid]["what"]))
            else:
                rep.violation("probe_" + fid, {"kind": "counterexample", "obligation": "round trip", "input": {"probe": fid}})
    by = {c[0]: c for c in cases}
    for j in sorted(set(viol))[:4]:
        c = by[j]
        rep.violation("counterexample_%d" % j, {"kind": "counterexample", "obligation": "parse(text) = intended circuit (normal form, printed precision)",
                                               "input": {"kind": c[1], "decimals": c[2], "text": c[4],
                                                         "parsed": (c[5][1].to_string(6) if c[5][0] == "ok" else c[5][1])}})
    for what, text in direct[:3]:
        rep.violation("direct_%d" % (abs(hash(text)) % 100000), {"kind": "counterexample", "obligation": what, "input": {"text": text}})
    if not viol and not direct:
        for j in sorted(set(mism))[:3]:
            c = by[j]
            rep.violation("correspondence_%d" % j, {"kind": "broken-obligation", "obligation": "correspondence:Printer.v+Parser.v",
                                                   "input": {"kind": c[1], "decimals": c[2], "text": c[4]}}, no_input=True)
        bby = {c[0]: c for c in bcases}
        for j in sorted(set(bmism))[:3]:
            rep.violation("basic_%d" % j, {"kind": "broken-obligation", "obligation": "correspondence:basic syntax (Printer.v, Parser.v, pconn)",
                                           "input": {"text": bby[j][2], "parsed": (bby[j][3][1].to_string() if bby[j][3][0] == "ok" else bby[j][3][1])}}, no_input=True)
        for j in sorted(set(emism))[:3]:
            rep.violation("extended_%d" % j, {"kind": "broken-obligation", "obligation": "correspondence:extended syntax (tokens of the printed text, xpconn)",
                                              "input": {"decimals": by[j][2], "text": by[j][4], "parsed": (by[j][5][1].to_string(6) if by[j][5][0] == "ok" else by[j][5][1])}}, no_input=True)
        for si, raw in (broken + bbroken + ebroken)[:2]:
            rep.violation("shard_%d" % si, {"kind": "broken-obligation", "obligation": "cases shard did not evaluate", "log": raw}, no_input=True)
    if not thm_ok and not rep.violations:
        rep.violation("theorems", {"kind": "broken-obligation", "obligation": PROPS_FILE,
                                   "detail": [o for o in rep.obligations if not o[1]]}, no_input=True)


def replay(path):
    with open(path) as fp:
        r = json.load(fp)
    text = r["input"].get("text")
    if text is None:
        print(json.dumps(r["input"]))
        return 1
    obs = cdc.parse_observe(text)
    print(json.dumps({"text": text[:300], "parsed": obs[1].to_string(6) if obs[0] == "ok" else obs[1]}))
    return 0

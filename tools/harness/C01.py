"""C01 — circuit impedance obeys the series/parallel composition laws.
Tie 2: coq/Circuit/Imp.v (vector-level model of Series/Parallel._impedance) vs the real connection classes on
generated topologies; measured leaf impedances are injected exactly; the pointwise law (spec) is evaluated on the
observed results.  Construction routes and scalar/array evaluation are compared on the implementation."""
import itertools
import json
import math
import random

from tools import lib, cdc

PROP = "C01"
PROPS_FILE = "Props/C01.v"
HEADER = """From Coq Require Import ZArith QArith List Bool.
From PV Require Import Base.Outcome Cx.CQ Circuit.Imp.
Import ListNotations.
Definition E := ez cq2.
Definition tol : Z := 9.
Definition vclose (a b : list E) : bool :=
  (fix go a b := match a, b with
     | [], [] => true
     | Zf x :: a', Zf y :: b' => cq_close tol x y && go a' b'
     | Inf :: a', Inf :: b' => go a' b'
     | _, _ => false end) a b.
Definition oclose (a b : outcome (list E)) : bool :=
  match a, b with
  | Ok x, Ok y => vclose x y
  | Err e, Err e' => errkind_eqb e e'
  | _, _ => false end.
Definition run_impl (t : ctree) (lv : list (list E)) (n : nat) : outcome (list E) :=
  get_impedances cq2 cq0 cq_add cq_inv cq_is0 (fun id => nth id lv []) n t.
Definition run_spec (t : ctree) (lv : list (list E)) (n : nat) : list E :=
  map (fun i => spec cq2 cq0 cq_add cq_inv cq_is0 t (fun id => nth i (nth id lv []) Inf)) (seq 0 n).
(* the property on an observed outcome: the values are the pointwise law; an InfiniteImpedance error is
   legitimate exactly when the law gives an infinite value somewhere *)
Definition law_holds (t : ctree) (lv : list (list E)) (n : nat) (o : outcome (list E)) : bool :=
  let s := run_spec t lv n in
  match o with
  | Ok v => vclose s v
  | Err EInfiniteImpedance => existsb (fun x => match x with Inf => true | _ => false end) s
  | _ => false end.
"""


def snap(x, bits=36):
    """nearest dyadic with a [bits]-bit mantissa (keeps exact rational arithmetic in Coq cheap; relative change 2^-36,
    far below the 1e-9 comparison tolerance for the well-conditioned sums that are generated)"""
    if x == 0 or not math.isfinite(x):
        return x
    m, e = math.frexp(x)
    return math.ldexp(round(m * (1 << bits)), e - bits)


def cqlit(z):
    z = complex(z)
    if math.isinf(z.real) or math.isinf(z.imag) or math.isnan(z.real) or math.isnan(z.imag):
        return "Inf"
    return "(Zf (%s, %s))" % (lib.qlit(snap(z.real)), lib.qlit(snap(z.imag)))


def tree_lit(con, leaves):
    from pyimpspec.circuit.base import Connection
    from pyimpspec.circuit.series import Series
    items = []
    for x in con._elements:
        if isinstance(x, Connection):
            items.append(tree_lit(x, leaves))
        else:
            leaves.append(x)
            items.append("(Leaf %d)" % (len(leaves) - 1))
    return "(%s [%s])" % ("CSer" if isinstance(con, Series) else "CPar", ";".join(items))


def leaf_vector(el, f):
    import numpy as np
    from pyimpspec.circuit.base import Container
    with np.errstate(all="ignore"):
        if isinstance(el, Container):
            z = el._impedance(f, **el.get_values(), **el.get_subcircuits())
        else:
            z = el._impedance(f, **el.get_values())
    return [complex(v) for v in np.asarray(z, dtype=complex)]


def topologies(n_leaves):
    """all series/parallel nestings with n leaves (ordered), as nested tuples"""
    if n_leaves == 1:
        return ["L"]
    out = []
    # compositions of n into k>=2 parts, each part a sub-topology; for both kinds
    def comps(n, k):
        if k == 1:
            yield (n,)
            return
        for first in range(1, n - k + 2):
            for rest in comps(n - first, k - 1):
                yield (first,) + rest
    for k in range(2, n_leaves + 1):
        for parts in comps(n_leaves, k):
            subs = [topologies(p) for p in parts]
            for combo in itertools.product(*subs):
                out.append(("s",) + combo)
                out.append(("p",) + combo)
    return out


def build(top, kinds, rng):
    """instantiate a topology with leaf kinds; returns an Element or Connection"""
    from pyimpspec import Resistor, Capacitor
    from pyimpspec.circuit.series import Series
    from pyimpspec.circuit.parallel import Parallel
    if top == "L":
        k = next(kinds)
        if k == "fin":
            return rng.choice([Resistor(R=float(rng.choice([1, 2, 5, 10]))), Capacitor(C=rng.choice([1e-3, 1e-6]))])
        if k == "short":
            return Resistor(R=0.0)
        if k == "trap":
            # a branch that is a short at ONE frequency of the vector only: a series LC at its resonance (w = 1 rad/s gives exactly 0)
            from pyimpspec import Inductor
            return Series([Inductor(L=1.0), Capacitor(C=1.0)])
        return Resistor(R=float("inf"))
    items = [build(t, kinds, rng) for t in top[1:]]
    return Series(items) if top[0] == "s" else Parallel(items)


REPEAT = []


def observe(circuit_con, f):
    import numpy as np
    from pyimpspec.exceptions import InfiniteImpedance, NotANumberImpedance
    try:
        with np.errstate(all="ignore"):
            f_in = np.array(f, dtype=float, copy=True)
            z = circuit_con.get_impedances(f_in)
            # evaluating is a pure function of the circuit and the frequencies: a second evaluation gives the same numbers and the
            # caller's frequency array is left alone (an accumulator that aliases a child's array would show here)
            if len(REPEAT) < 5:
                z2 = circuit_con.get_impedances(np.array(f, dtype=float, copy=True))
                if not np.array_equal(f_in, np.asarray(f, dtype=float)):
                    REPEAT.append("get_impedances modified the frequency array it was given")
                elif not (np.asarray(z).shape == np.asarray(z2).shape and np.array_equal(np.asarray(z), np.asarray(z2), equal_nan=True)):
                    REPEAT.append("two evaluations of the same circuit at the same frequencies differ")
        return ("ok", [complex(v) for v in z])
    except InfiniteImpedance:
        return ("err", "InfiniteImpedance")
    except NotANumberImpedance:
        return ("err", "NotANumberImpedance")
    except Exception as e:  # noqa
        return ("err", type(e).__name__)


def obs_lit(o):
    if o[0] == "ok":
        return "(Ok [%s])" % ";".join(cqlit(z) for z in o[1])
    m = {"InfiniteImpedance": "Err EInfiniteImpedance", "NotANumberImpedance": "Err ENotANumber", "ValueError": "Err EValue",
         "NotImplementedError": "Err ENotImplemented"}
    return "(%s)" % m.get(o[1], "Crash (COtherCrash 0)")


def shard_text(cases):
    items = []
    for i, tlit, lvs, n, obs in cases:
        lv = "[" + ";".join("[" + ";".join(cqlit(z) for z in v) + "]" for v in lvs) + "]"
        items.append("(%d%%Z, %s, %s, %d%%nat, %s)" % (i, tlit, lv, n, obs_lit(obs)))
    return ("Definition cases : list (Z * ctree * list (list E) * nat * outcome (list E)) := [\n" + ";\n".join(items) + "].\n"
            "Definition mism := flat_map (fun c : Z * ctree * list (list E) * nat * outcome (list E) => let '(i, t, lv, n, o) := c in\n"
            "  if oclose (run_impl t lv n) o then [] else [i]) cases.\n"
            "Definition viol := flat_map (fun c : Z * ctree * list (list E) * nat * outcome (list E) => let '(i, t, lv, n, o) := c in\n"
            "  if law_holds t lv n o then [] else [(- (i + 1))%Z]) cases.\n"
            "Definition result : list Z := mism ++ viol.\n")


def routes_agree(ctx, con, f, rng):
    """parsed / builder-free object route / one-at-a-time vs array: compared on the implementation"""
    import numpy as np
    from pyimpspec import Circuit, parse_cdc
    problems = []
    from pyimpspec.circuit.series import Series
    top = con if isinstance(con, Series) else Series([con])
    c_obj = Circuit(top)
    a = observe(c_obj, f)
    try:
        text = c_obj.serialize(17)
        b = observe(parse_cdc(text), f)
    except Exception as e:  # noqa
        b = None
    # the builder route: CircuitBuilder re-creates the circuit from the strings of its parts
    try:
        from pyimpspec import CircuitBuilder
        from pyimpspec.circuit.base import Connection
        from pyimpspec.circuit.parallel import Parallel

        def fill(b, con_):
            for item in con_._elements:
                if isinstance(item, Connection):
                    with (b.parallel() if isinstance(item, Parallel) else b.series()) as sub:
                        fill(sub, item)
                else:
                    b.add(item)
        with CircuitBuilder() as builder:
            fill(builder, top)
        bc = observe(builder.to_circuit(), f)
        if a[0] == "ok" and (bc[0] != "ok" or any(abs(u - v) > 1e-9 * max(abs(u), 1e-300) for u, v in zip(a[1], bc[1]))):
            problems.append("CircuitBuilder circuit differs from object-built circuit")
    except Exception as e:  # noqa
        pass
    ones = []
    for x in f:
        ones.append(observe(c_obj, np.array([x])))
    if a[0] == "ok":
        if b is not None:
            if b[0] != "ok" or any(abs(u - v) > 1e-9 * max(abs(u), 1e-300) for u, v in zip(a[1], b[1])):
                problems.append("parsed circuit differs from object-built circuit")
        for i, o in enumerate(ones):
            if o[0] != "ok" or abs(o[1][0] - a[1][i]) > 1e-9 * max(abs(a[1][i]), 1e-300):
                problems.append("one-at-a-time differs from array evaluation at index %d" % i)
                break
    else:
        if b is not None and b[0] == "ok":
            problems.append("object-built circuit raises %s but its parsed serialisation evaluates" % a[1])
    return problems


def run(rep, tier, seed, tr_errors):
    import numpy as np
    rng = random.Random(seed)
    ctx = cdc.Ctx()
    rep.rule = ("all series/parallel topologies with <= N leaves x leaf kinds {finite, short (R=0), open (R=inf)} (exhaustive over "
                "kinds for small N) + random circuits over all registered classes incl. Tlm, frequency vectors of length 1..12 in "
                "arbitrary order over 1e-6..1e9 Hz; leaf impedances measured from the implementation and injected exactly; "
                "non-trivial = >= 1 parallel connection with >= 2 finite branches; distinct by (topology, leaf values)")
    rep.trusted += [
        "Coq 8.16.1 kernel, vm_compute for case evaluation on exact complex rationals (Cx/CQ.v)",
        "hand-written model coq/Circuit/Imp.v of Series/Parallel._impedance and the inf check of _calculate_impedances (tie 2)",
        "leaf impedances are taken from the implementation (element formulas are C02's concern); comparison tolerance 1e-9 relative",
        "not modelled: f = 0 / inf limits (sympy), NaN results, float rounding of the sums",
    ]
    thm_ok, names, out = lib.check_props_file(rep, PROPS_FILE, expect=["C01_impl_sound", "C01_single_frequency_total_correct", "C01_array_total_correct_when_open_branches_are_uniform", "C01_vector_eq_pointwise", "C01_series_law", "C01_parallel_law", "C01_open_branch_contributes_nothing", "C01_shorted_branch_shorts", "C01_series_flatten", "C01_parallel_flatten"])
    cases = []
    direct = []
    idx = 0
    maxn = 4 if tier == "quick" else 5
    f_small = np.array([1000.0, 1.0, 0.001])
    f_trap = np.array([1000.0, 1.0 / (2 * np.pi), 0.001])       # 2 pi f = 1.0 exactly at the middle point
    nontriv = 0
    for nl in range(1, maxn + 1):
        for top in topologies(nl):
            kind_sets = list(itertools.product(["fin", "short", "open"], repeat=nl))
            if len(kind_sets) > 30:
                kind_sets = rng.sample(kind_sets, 30 if tier == "quick" else 81)
            # plus assignments with a branch that is shorted at one frequency only
            trap_sets = [ks_ for ks_ in itertools.product(["fin", "short", "open", "trap"], repeat=nl) if "trap" in ks_]
            kind_sets = kind_sets + rng.sample(trap_sets, min(len(trap_sets), 4 if tier == "quick" else 40))
            for ks in kind_sets:
                f_small = f_trap if "trap" in ks else np.array([1000.0, 1.0, 0.001])
                obj = build(top, iter(ks), rng)
                from pyimpspec.circuit.base import Connection
                from pyimpspec.circuit.series import Series
                con = obj if isinstance(obj, Connection) else Series([obj])
                leaves = []
                tl = tree_lit(con, leaves)
                lvs = [leaf_vector(el, f_small) for el in leaves]
                obs = observe(con, f_small)
                cases.append((idx, tl, lvs, len(f_small), obs))
                idx += 1
                if ks.count("fin") >= 2 and "p" in str(top):
                    rep.distinct.add((str(top), ks))
                if rng.random() < (0.08 if tier == "quick" else 0.3):
                    pr = routes_agree(ctx, con, f_small, rng)
                    if pr:
                        direct.append((str(top) + str(ks), pr))
    n_ex = idx
    n_rand = 150 if tier == "quick" else 3000
    for _ in range(n_rand):
        con = cdc.rand_conn(ctx, rng, depth=rng.randint(0, 3), digits=6)
        n = rng.randint(1, 6 if tier == "quick" else 12)
        f = np.array([10 ** rng.uniform(-6, 9) for _ in range(n)])
        leaves = []
        tl = tree_lit(con, leaves)
        try:
            lvs = [leaf_vector(el, f) for el in leaves]
        except Exception:
            continue     # a leaf (e.g. an inadmissible Tlm configuration) refuses by itself
        if any(any(math.isnan(z.real) or math.isnan(z.imag) for z in v) for v in lvs):
            continue
        obs = observe(con, f)
        if obs[0] == "ok" and any(math.isnan(z.real) or math.isnan(z.imag) for z in obs[1]):
            continue
        cases.append((idx, tl, lvs, n, obs))
        idx += 1
        rep.distinct.add(tl + str(lvs[0][:1]))
        if True:
            pr = routes_agree(ctx, con, f, rng)
            if pr:
                direct.append((tl, pr))
    rep.evaluations = len(cases)
    rep.extra["input_distribution"] = {"enumerated_topology_cases": n_ex, "random_circuits": len(cases) - n_ex,
                                       "outcomes": {"ok": sum(1 for c in cases if c[4][0] == "ok"), "errors": sum(1 for c in cases if c[4][0] != "ok")}}
    rep.samples = [{"tree": c[1], "n_frequencies": c[3], "outcome": c[4][0] if c[4][0] == "ok" else c[4][1]} for c in cases[n_ex:n_ex + 3]]
    # enumerated cases use small exact values (cheap); random ones carry 53-bit mantissas over many decades and are
    # expensive in exact rational arithmetic, so they go into small shards that run in parallel
    shards = [cases[j:j + 200] for j in range(0, n_ex, 200)] + [cases[j:j + 6] for j in range(n_ex, len(cases), 6)]
    outs = lib.run_shards(PROP, HEADER, [shard_text(sh) for sh in shards], timeout=900)
    mism, viol, broken = [], [], []
    for si, (rc, parsed, raw) in enumerate(outs):
        if rc != 0 or parsed is None:
            broken.append((si, raw[-800:]))
            continue
        for j in parsed:
            if j < 0:
                viol.append(-j - 1)
            else:
                mism.append(j)
    rep.oblige("correspondence:Imp.v-vs-series.py/parallel.py", not mism and not broken,
               "%d cases, %d mismatches, %d shards failed" % (len(cases), len(mism), len(broken)))
    rep.oblige("law-holds-on-observed-results", not viol, "%d cases violate the pointwise law" % len(viol))
    rep.oblige("construction-routes-and-scalar-vs-array-agree", not direct, "%d failures" % len(direct))
    rep.oblige("evaluation-is-repeatable-and-leaves-its-argument-alone", not REPEAT, "%d problems" % len(REPEAT))
    for n_, why in enumerate(REPEAT[:2]):
        rep.violation("repeat_%d" % n_, {"kind": "counterexample", "obligation": "the impedance is a function of the circuit and the frequencies", "input": {"observed": why}})
    rep.extra["traces_validated_against_impl"] = len(cases)
    by = {c[0]: c for c in cases}
    for j in sorted(set(viol))[:4]:
        c = by[j]
        rep.violation("counterexample_%d" % j, {"kind": "counterexample", "obligation": "pointwise series/parallel law",
                                               "input": {"tree": c[1], "leaf_values": [[str(z) for z in v] for v in c[2]],
                                                         "observed": c[4][1] if c[4][0] != "ok" else [str(z) for z in c[4][1]]}})
    for what, pr in direct[:3]:
        rep.violation("direct_%d" % (abs(hash(what)) % 100000), {"kind": "counterexample", "obligation": "construction route / evaluation mode independence",
                                                                 "input": {"circuit": what, "problems": pr}})
    if not viol and not direct:
        for j in sorted(set(mism))[:3]:
            c = by[j]
            rep.violation("correspondence_%d" % j, {"kind": "broken-obligation", "obligation": "correspondence:Imp.v",
                                                   "input": {"tree": c[1], "leaf_values": [[str(z) for z in v] for v in c[2]],
                                                             "observed": c[4][1] if c[4][0] != "ok" else [str(z) for z in c[4][1]]}}, no_input=True)
        for si, raw in broken[:2]:
            rep.violation("shard_%d" % si, {"kind": "broken-obligation", "obligation": "cases shard did not evaluate", "log": raw}, no_input=True)
    if not thm_ok and not rep.violations:
        rep.violation("theorems", {"kind": "broken-obligation", "obligation": PROPS_FILE,
                                   "detail": [o for o in rep.obligations if not o[1]]}, no_input=True)


def replay(path):
    with open(path) as fp:
        print(fp.read()[:3000])
    return 0

"""C14 — element parameter API as a state machine.
Tie 2: hand model Circuit/ElemState.v vs the real Element classes on generated call sequences;
property predicate Circuit/ElemProp.v evaluated on the implementation's observed traces."""
import copy as pycopy
import itertools
import json
import math
import os
import random

from tools import lib
from tools import tr_classes

PROP = "C14"
PROPS_FILE = "Props/C14.v"
HEADER = """From Coq Require Import ZArith QArith List Bool.
From PV Require Import Base.Num Base.Outcome Circuit.ElemState Circuit.ElemProp.
Import ListNotations.
Open Scope N_scope.
"""

ERR = {"ValueError": "RErr EValue", "KeyError": "RErr EKey", "TypeError": "RErr EType",
       "InvalidParameterKey": "RErr (EOther 1)"}
CRASHES = {"IndexError": "CIndex", "AttributeError": "CAttr", "RecursionError": "CRecursion",
           "OverflowError": "COverflow", "ZeroDivisionError": "CZeroDiv"}


def res_of_exc(e):
    if e is None:
        return "ROk"
    n = type(e).__name__
    if n in ERR:
        return ERR[n]
    return "RCrash %s" % CRASHES.get(n, "(COtherCrash 0)")


# ---- values -----------------------------------------------------------------------------------
def val_lit(v):
    if v is None:
        return "VNone"
    if isinstance(v, bool):
        return "(VBool %s)" % lib.coqbool(v)
    if isinstance(v, str):
        return "(VStr %s)" % lib.codepoints(v)
    return "(VNum %s)" % lib.xlit(v)


def key_id(row, k):
    if k in row["keys"]:
        return row["keys"].index(k)
    return 100 + (sum(map(ord, str(k))) % 50)


def args_lit(row, a):
    kw = "[" + ";".join("(%d, %s)" % (key_id(row, k), val_lit(v)) for k, v in a["kw"]) + "]"
    pos = "[" + ";".join("(%d, %s)" % (key_id(row, k), val_lit(v)) for k, v in a["pos"]) + "]"
    return "(mkA %s %s %s)" % (kw, pos, lib.coqbool(a["dangling"]))


def op_lit(row, op):
    t = op["op"]
    if t in ("set_values", "set_lower_limits", "set_upper_limits", "set_fixed"):
        c = {"set_values": "SetValues", "set_lower_limits": "SetLower", "set_upper_limits": "SetUpper",
             "set_fixed": "SetFixed"}[t]
        return "(%s %s)" % (c, args_lit(row, op))
    if t == "set_label":
        return "(SetLabel %s)" % val_lit(op["v"])
    if t == "reset_parameters":
        return "(ResetAll [%s])" % ";".join(str(key_id(row, k)) for k in op["order"])
    if t == "reset_parameter":
        return "(ResetOne %d)" % key_id(row, op["k"])
    if t == "copy":
        return "Copy"
    if t == "deepcopy":
        return "DeepCopy"
    raise ValueError(t)


def state_lit(row, st):
    ps = []
    for k in st["keys"]:
        ps.append("(%d, mkP %s %s %s %s)" % (key_id(row, k), lib.xlit(st["v"][k]), lib.xlit(st["lo"][k]),
                                             lib.xlit(st["hi"][k]), lib.coqbool(st["fx"][k])))
    return "(mkE %s [%s])" % (lib.codepoints(st["label"]), ";".join(ps))


def defs_lit(row, d):
    ps = []
    for k in d["keys"]:
        ps.append("(%d, mkP %s %s %s %s)" % (key_id(row, k), lib.xlit(d["v"][k]), lib.xlit(d["lo"][k]),
                                             lib.xlit(d["hi"][k]), lib.coqbool(d["fx"][k])))
    return "[" + ";".join(ps) + "]"


# ---- implementation side ------------------------------------------------------------------------
def snap(el):
    v = el.get_values()
    return {"keys": list(v.keys()), "v": v, "lo": el.get_lower_limits(), "hi": el.get_upper_limits(),
            "fx": el.are_fixed(), "label": el.get_label()}


def snap_defaults(cls):
    v = cls.get_default_values()
    return {"keys": list(v.keys()), "v": v, "lo": cls.get_default_lower_limits(),
            "hi": cls.get_default_upper_limits(), "fx": cls.are_fixed_by_default()}


def apply_op(el, op):
    """returns (exception or None, copy or None)"""
    t = op["op"]
    try:
        if t in ("set_values", "set_lower_limits", "set_upper_limits", "set_fixed"):
            pos = []
            for k, v in op["pos"]:
                pos += [k, v]
            if op["dangling"]:
                pos.append("R")
            getattr(el, t)(*pos, **dict(op["kw"]))
        elif t == "set_label":
            el.set_label(op["v"])
        elif t == "reset_parameters":
            el.reset_parameters(*op["args"], **{k: True for k in op.get("kwkeys", [])})
        elif t == "reset_parameter":
            el.reset_parameter(op["k"])
        elif t == "copy":
            return None, pycopy.copy(el)
        elif t == "deepcopy":
            return None, pycopy.deepcopy(el)
        return None, None
    except Exception as e:  # noqa
        return e, None


def run_impl(row, ops):
    cls = row["cls"]
    a = cls()
    b = cls()
    trace = []
    for op in ops:
        if op["op"] == "reset_parameters":
            # iteration order of `set(list(args))` in this very process
            op["order"] = list(set(list(op["args"]) + list(op.get("kwkeys", []))))
        exc, cp = apply_op(a, op)
        trace.append({"res": res_of_exc(exc), "exc": (type(exc).__name__ if exc else None),
                      "state": snap(a), "copy": (snap(cp) if cp is not None else None),
                      "other": snap(b), "defs": snap_defaults(cls)})
    # what the getters return are values: writing into a returned dictionary reaches neither the element nor its class
    if len(GETTER_ALIAS) < 5:
        before = (snap(a), snap_defaults(cls))
        try:
            for g in (a.get_values, a.get_lower_limits, a.get_upper_limits, a.are_fixed, cls.get_default_values,
                      cls.get_default_lower_limits, cls.get_default_upper_limits, cls.are_fixed_by_default):
                d = g()
                for k in list(d):
                    d[k] = True if isinstance(d[k], bool) and not d[k] else (False if isinstance(d[k], bool) else 12345.678)
                d["no_such_key"] = 1.0
            if (snap(a), snap_defaults(cls)) != before:
                GETTER_ALIAS.append((row["symbol"], "writing into a dictionary returned by a getter changed the element or its class defaults"))
        except Exception as e:  # noqa
            GETTER_ALIAS.append((row["symbol"], "a getter or its result raised %s" % type(e).__name__))
    return trace


GETTER_ALIAS = []


def trace_lit(row, ops, trace):
    items = []
    for op, t in zip(ops, trace):
        cp = "None" if t["copy"] is None else "(Some %s)" % state_lit(row, t["copy"])
        items.append("(%s, mkW (mkO (%s) %s %s) %s %s)" % (
            op_lit(row, op), t["res"], state_lit(row, t["state"]), cp,
            state_lit(row, t["other"]), defs_lit(row, t["defs"])))
    return "[" + ";\n   ".join(items) + "]"


# ---- generation ------------------------------------------------------------------------------------
LABELS = ["", "a", " a ", "1", "12", "1a", "a1", "x y", "\tq\n", "é", "a{b", "A:B", "  ", "0x", "−1", "R_1", " 1", "2 ", "\t12\n", " 0 "]


def lattice(row, k, rng, nan_ok=False):
    lo, hi, v = row["lo"][k], row["hi"][k], row["vals"][k]
    cands = [v, lo, hi, 0.0, 1.0, -1.0, 2.0, 0.5, 1e-3, 1e3, -5.0, -10.0, 5.0, 10.0, 2000.0, 1e6,
             float("inf"), float("-inf"), v * 2, v / 2]
    if math.isfinite(lo):
        cands += [lo * 2 if lo else 1e-30, lo / 2, -abs(lo) - 1]
    if math.isfinite(hi):
        cands += [hi * 2, hi / 2, hi + 1]
    x = rng.choice(cands)
    r = rng.random()
    if r < 0.04:
        return "abc"
    if r < 0.07:
        return None
    if r < 0.10:
        return True
    if r < 0.13:
        return int(x) if math.isfinite(x) else 3
    if nan_ok and r < 0.16:
        return float("nan")
    return float(x)


def gen_args(row, rng, boolean=False, nan_ok=False):
    keys = row["keys"]
    n = rng.choice([1, 1, 1, 2, 2, 3]) if len(keys) > 1 else rng.choice([1, 1, 1, 2])
    pairs = []
    for _ in range(n):
        r = rng.random()
        if r < 0.08:
            k = rng.choice(["nokey", "Q", "zz"])
        else:
            k = rng.choice(keys)
        if boolean:
            v = rng.choice([True, False, True, False, True, 1.0, None, "abc"])
        else:
            v = lattice(row, k if k in keys else keys[0], rng, nan_ok)
        pairs.append((k, v))
    kw, pos = [], []
    for k, v in pairs:
        if rng.random() < 0.5 and k not in [x[0] for x in kw]:
            kw.append((k, v))
        else:
            pos.append((k, v))
    return {"kw": kw, "pos": pos, "dangling": rng.random() < 0.04}


def gen_op(row, rng, nan_ok=False):
    r = rng.random()
    keys = row["keys"]
    if r < 0.18:
        return dict(op="set_values", **gen_args(row, rng, nan_ok=nan_ok))
    if r < 0.40:
        return dict(op="set_lower_limits", **gen_args(row, rng, nan_ok=nan_ok))
    if r < 0.62:
        return dict(op="set_upper_limits", **gen_args(row, rng, nan_ok=nan_ok))
    if r < 0.70:
        return dict(op="set_fixed", **gen_args(row, rng, boolean=True))
    if r < 0.78:
        v = rng.choice(LABELS + [None, 5.0]) if rng.random() < 0.9 else "".join(
            rng.choice("ab1 {}:,=/_\t9") for _ in range(rng.randint(1, 6)))
        return dict(op="set_label", v=v)
    if r < 0.86:
        n = rng.choice([0, 0, 1, 2])
        args = [rng.choice(keys + (["nokey"] if rng.random() < 0.1 else [])) for _ in range(n)]
        # keyword form: reset_parameters(Y=True) names the key, the value is ignored
        kwkeys = sorted(set(rng.choice(keys) for _ in range(rng.choice([0, 0, 1, 1, 2]))))
        return dict(op="reset_parameters", args=args, kwkeys=kwkeys)
    if r < 0.90:
        return dict(op="reset_parameter", k=rng.choice(keys + ["nokey"]))
    if r < 0.95:
        return dict(op="copy")
    return dict(op="deepcopy")


def exhaustive_small(row):
    """all sequences of length <= 2 over a fixed template set on the first parameter"""
    k = row["keys"][0]
    lo, hi, v = row["lo"][k], row["hi"][k], row["vals"][k]
    nums = [v, float("inf"), float("-inf")]
    if math.isfinite(hi):
        nums += [hi, hi * 2 if hi else 1.0]
    else:
        nums += [v * 4 if v else 4.0]
    if math.isfinite(lo):
        nums += [lo, -abs(lo) - 1.0]
    else:
        nums += [-abs(v) * 4 - 1]
    nums = sorted(set(nums))
    tmpl = []
    for t in ("set_values", "set_lower_limits", "set_upper_limits"):
        for x in nums:
            tmpl.append(dict(op=t, kw=[(k, x)], pos=[], dangling=False))
    tmpl += [dict(op="reset_parameters", args=[]), dict(op="reset_parameters", args=[], kwkeys=[k]),
             dict(op="reset_parameters", args=[row["keys"][-1]], kwkeys=[k]), dict(op="copy"), dict(op="reset_parameter", k=k),
             dict(op="set_fixed", kw=[], pos=[(k, True)], dangling=False)]
    seqs = []
    for a in tmpl:
        for b in tmpl:
            for c in (dict(op="copy"), dict(op="reset_parameters", args=[])):
                seqs.append([dict(a), dict(b), dict(c)])
    # both kinds of copy after every single change, and after a fixed flag moved away from its class default (either direction)
    flip = dict(op="set_fixed", kw=[(k, not row["fx"][k])], pos=[], dangling=False)
    for a in tmpl + [flip]:
        for c in (dict(op="copy"), dict(op="deepcopy")):
            seqs.append([dict(a), dict(c)])
            seqs.append([dict(flip), dict(a), dict(c)])
    return seqs


def shard_text(cases):
    """cases: list of (idx, row, ops, trace)"""
    items = []
    for idx, row, ops, trace in cases:
        items.append("(%d%%Z, %s, %s)" % (idx, tr_classes.cls_literal(row), trace_lit(row, ops, trace)))
    return ("Definition cases : list (Z * cls * list (eop * wobs)) := [\n" + ";\n".join(items) + "].\n"
            "Definition mism := flat_map (fun c => let '(i, cl, t) := c in\n"
            "  if trace_same (wrun cl (fresh cl) (fresh cl) (map fst t)) t then [] else [i]) cases.\n"
            "Definition viol := flat_map (fun c => let '(i, cl, t) := c in\n"
            "  if holds_on cl (fresh cl) (fresh cl) t then [] else [(- (i + 1))%Z]) cases.\n"
            "Definition result : list Z := mism ++ viol.\n")


def jsonable(ops):
    return json.loads(json.dumps(ops, default=str))


def copy_cases(row):
    """for EVERY class (containers included) and every key: a fixed flag moved away from its class default, or a value moved inside
    its limits, followed by each kind of copy — the copy holds the state of the original"""
    seqs = []
    for k in row["keys"]:
        flip = dict(op="set_fixed", kw=[(k, not row["fx"][k])], pos=[], dangling=False)
        lo, hi, v = row["lo"][k], row["hi"][k], row["vals"][k]
        inside = v * 1.5 if (math.isfinite(v) and lo <= v * 1.5 <= hi) else v
        move = dict(op="set_values", kw=[(k, inside)], pos=[], dangling=False)
        for c in (dict(op="copy"), dict(op="deepcopy")):
            seqs.append([dict(flip), dict(c)])
            seqs.append([dict(move), dict(flip), dict(c)])
    return seqs


def build_cases(tier, seed):
    rng = random.Random(seed)
    rows = tr_classes.class_rows()
    cases = []
    n_random = 1200 if tier == "quick" else 20000
    maxlen = 14 if tier == "quick" else 30
    # corpus first
    cdir = os.path.join(lib.ROOT, "corpus", PROP)
    if os.path.isdir(cdir):
        for f in sorted(os.listdir(cdir)):
            with open(os.path.join(cdir, f)) as fp:
                c = json.load(fp)
            row = next(r for r in rows if r["symbol"] == c["symbol"])
            ops = c["ops"]
            for op in ops:
                for fld in ("kw", "pos"):
                    if fld in op:
                        op[fld] = [(k, decode_val(v)) for k, v in op[fld]]
                if op["op"] == "set_label":
                    op["v"] = decode_val(op["v"])
            cases.append((row, ops))
    # exhaustive short sequences on a single-parameter and a multi-parameter class
    ex_rows = [r for r in rows if r["symbol"] in (("R", "Q") if tier == "quick" else ("R", "C", "Q", "W", "Tlm"))]
    n_ex = 0
    for r in ex_rows:
        for ops in exhaustive_small(r):
            cases.append((r, ops))
            n_ex += 1
    for r in rows:
        for ops in copy_cases(r):
            cases.append((r, ops))
            n_ex += 1
    for i in range(n_random):
        row = rows[i % len(rows)]
        n = rng.randint(1, maxlen)
        nan_ok = False
        ops = [gen_op(row, rng, nan_ok) for _ in range(n)]
        cases.append((row, ops))
    return rows, cases, n_ex


def decode_val(v):
    if isinstance(v, str) and v in ("inf", "-inf", "nan"):
        return float(v)
    return v


def encode_ops(ops):
    out = []
    for op in ops:
        o = dict(op)
        for fld in ("kw", "pos"):
            if fld in o:
                o[fld] = [[k, (repr(v) if isinstance(v, float) and not math.isfinite(v) else v)] for k, v in o[fld]]
        out.append(o)
    return out


def describe_failure(row, ops, trace):
    return {"class": row["symbol"], "ops": encode_ops(ops),
            "observed": [{"res": t["res"], "exc": t["exc"], "state": t["state"], "copy": t["copy"]} for t in trace]}


def known_match(kf, row, ops, trace):
    """match a property failure against known_findings.json entries for C14 (by failing history shape)"""
    for f in kf.get("findings", []):
        if f.get("property") != PROP:
            continue
        m = f.get("match", {})
        if m.get("kind") == "copy_or_reset_fails_after_limits_moved_past_defaults":
            last = trace[-1]
            if ops[-1]["op"] in ("copy", "deepcopy", "reset_parameters", "reset_parameter") and last["exc"] == "ValueError":
                return f
    return None


def shrink(row, ops, pred):
    """greedy removal of ops while pred(ops) stays true"""
    cur = list(ops)
    changed = True
    while changed and len(cur) > 1:
        changed = False
        for i in range(len(cur)):
            cand = cur[:i] + cur[i + 1:]
            if cand and pred(cand):
                cur = cand
                changed = True
                break
    return cur


def eval_cases(cases_chunk):
    return shard_text(cases_chunk)


def run(rep, tier, seed, tr_errors):
    rep.rule = ("call sequences on real element instances (all registered classes, incl. Tlm): exhaustive 3-step "
                "sequences over a value lattice around the limits on selected classes + seeded random sequences; "
                "a case is non-trivial if it contains >= 2 successful state-changing calls; distinct by (class, op list)")
    rep.trusted += [
        "Coq 8.16.1 kernel, coqc; vm_compute for evaluating the model on cases (no native_compute)",
        "hand-written model coq/Circuit/ElemState.v of base.py's Element/Container parameter API (tie 2: correspondence on every run)",
        "tools/tr_classes.py (class table regenerated from the live registry)",
        "tools/harness/C14.py (generator, canonicalisation: floats sent as exact rationals, exceptions mapped to classes)",
        "not modelled: sub-circuit objects of containers, numpy scalar types as arguments, numeric strings, NaN limits (excluded by hypothesis op_nanfree)",
    ]
    rep.assumptions += ["float(x) of a Python int/float/bool is exact for the generated values",
                        "set iteration order for reset_parameters(*keys) is observed in-process and given to the model"]
    # obligations 1: theorems
    if "tr_classes" in tr_errors:
        rep.oblige("translator:tr_classes", False, tr_errors["tr_classes"][-500:])
    else:
        rep.oblige("translator:tr_classes", True, "gen/Classes_gen.v regenerated")
    thm_ok, names, out = lib.check_props_file(rep, PROPS_FILE, expect=[
        "C14_model_satisfies_property", "C14_builtin_classes_wf", "C14_invariant_reachable",
        "C14_reset_restores_defaults", "C14_copy_equal", "C14_refused_changes_nothing_single"])

    # obligations 2: correspondence
    del GETTER_ALIAS[:]
    rows, cases, n_ex = build_cases(tier, seed)
    done = []
    kinds = {}
    lens = {}
    results = {}
    for idx, (row, ops) in enumerate(cases):
        trace = run_impl(row, ops)
        done.append((idx, row, ops, trace))
        for op, t in zip(ops, trace):
            kinds[op["op"]] = kinds.get(op["op"], 0) + 1
            results[t["res"]] = results.get(t["res"], 0) + 1
        lens[len(ops)] = lens.get(len(ops), 0) + 1
        rep.evaluations += 1
        nontrivial = sum(1 for op, t in zip(ops, trace) if t["res"] == "ROk" and op["op"] not in ("copy", "deepcopy")) >= 2
        if nontrivial:
            rep.distinct.add((row["symbol"], json.dumps(encode_ops(ops), default=str, sort_keys=True)))
    rep.samples = [{"class": r["symbol"], "ops": encode_ops(o), "results": [t["res"] for t in tr]}
                   for _, r, o, tr in done[n_ex:n_ex + 3]]
    rep.extra["input_distribution"] = {"op_kinds": kinds, "lengths": lens, "results": results,
                                       "exhaustive_short_sequences": n_ex, "random_sequences": len(cases) - n_ex}
    per = 150
    shards = [done[i:i + per] for i in range(0, len(done), per)]
    outs = lib.run_shards(PROP, HEADER, [shard_text(s) for s in shards])
    mism, viol, broken = [], [], []
    for si, (rc, parsed, raw) in enumerate(outs):
        if rc != 0 or parsed is None:
            broken.append((si, raw[-800:]))
            continue
        for i in parsed:
            if i < 0:
                viol.append(-i - 1)
            else:
                mism.append(i)
    rep.oblige("correspondence:ElemState-vs-base.py", not mism and not broken,
               "%d cases, %d mismatches, %d shards failed to evaluate" % (len(done), len(mism), len(broken)))
    rep.oblige("property-on-observed-traces", not viol and not broken, "%d traces violate holds_on" % len(viol))
    rep.oblige("getters-return-values (writing into a returned dictionary reaches neither the element nor its class)", not GETTER_ALIAS, "%d problems" % len(GETTER_ALIAS))
    for n_, (sym, why) in enumerate(GETTER_ALIAS[:3]):
        rep.violation("getter_%d" % n_, {"kind": "counterexample", "obligation": "read-back values are values, not views of the element's state", "input": {"class": sym, "observed": why}})
    rep.extra["traces_validated_against_impl"] = len(done)

    kf = lib.load_known_findings()
    by_idx = {d[0]: d for d in done}
    reported = 0
    known_seen = set()
    for i in sorted(set(viol))[:6]:
        _, row, ops, trace = by_idx[i]
        # find the first failing prefix = the shortest prefix whose last step breaks the predicate:
        # re-evaluated in Coq per prefix would be costly; shrink by re-running impl and Coq on candidates
        f = None
        small_ops, small_trace = minimise_violation(row, ops)
        f = known_match(kf, row, small_ops, small_trace)
        if f is not None:
            if f["id"] not in known_seen:
                known_seen.add(f["id"])
                rep.known_finding("%s: %s" % (f["id"], f["what"]))
            continue
        if reported < 5:
            rep.violation("counterexample_%d" % i, {"kind": "counterexample", "obligation": "holds_on (observed trace)",
                                                   "input": describe_failure(row, small_ops, small_trace),
                                                   "shrunk_from": len(ops)})
            reported += 1
    if not viol:
        # correspondence broke but the property predicate holds on everything observed
        for i in sorted(set(mism))[:3]:
            _, row, ops, trace = by_idx[i]
            rep.violation("correspondence_%d" % i, {"kind": "broken-obligation",
                                                   "obligation": "correspondence:ElemState-vs-base.py",
                                                   "input": describe_failure(row, ops, trace)}, no_input=True)
        for si, raw in broken[:2]:
            rep.violation("shard_%d" % si, {"kind": "broken-obligation", "obligation": "cases shard did not evaluate",
                                            "log": raw}, no_input=True)
    if not thm_ok and not rep.violations:
        rep.violation("theorems", {"kind": "broken-obligation", "obligation": PROPS_FILE,
                                   "detail": [o for o in rep.obligations if not o[1]]}, no_input=True)


def violates(row, ops):
    trace = run_impl(row, [dict(o) for o in ops])
    outs = lib.run_shards(PROP + "_min", HEADER, [shard_text([(0, row, ops, trace)])])
    rc, parsed, raw = outs[0]
    return (rc == 0 and parsed is not None and any(i < 0 for i in parsed)), trace


def minimise_violation(row, ops):
    # shortest violating prefix by bisection on prefixes, then greedy op removal (bounded effort)
    lo, hi = 1, len(ops)
    best = ops
    ok, tr = violates(row, ops)
    best_trace = tr
    if not ok:
        return ops, tr
    while lo < hi:
        mid = (lo + hi) // 2
        v, t = violates(row, ops[:mid])
        if v:
            hi = mid
            best, best_trace = ops[:mid], t
        else:
            lo = mid + 1
    cur = list(best)
    i = 0
    budget = 12
    while i < len(cur) - 1 and budget > 0:
        cand = cur[:i] + cur[i + 1:]
        v, t = violates(row, cand)
        budget -= 1
        if v:
            cur, best_trace = cand, t
        else:
            i += 1
    return cur, best_trace


def replay(path):
    with open(path) as fp:
        r = json.load(fp)
    rows = tr_classes.class_rows()
    inp = r["input"]
    row = next(x for x in rows if x["symbol"] == inp["class"])
    ops = inp["ops"]
    for op in ops:
        for fld in ("kw", "pos"):
            if fld in op:
                op[fld] = [(k, decode_val(v)) for k, v in op[fld]]
    v, trace = violates(row, ops)
    print(json.dumps({"violates_property": v, "results": [t["res"] for t in trace]}, indent=1))
    return 1 if v else 0

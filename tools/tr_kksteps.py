"""gen/KKSteps_gen.v: the progress-step accounting of evaluate_log_F_ext (kramers_kronig/exploratory.py) and of the functions it
hands its Progress object to.

Translated (arithmetic, by a whitelisted expression walker): the announced total on each of the three routes (fixed extension /
extension search with a positive / with a non-positive number of evaluations), the least number of evaluations accepted, the number
of stage-1 and of stage-2 extensions tried by `_evaluate_log_F_ext_using_custom_approach`.

Checked structurally (fail-closed `need` snippets on the unparsed AST, with the exact number of `prog.increment()` call sites per
function): where each function increments — once before its loop and once per collected result in the three `_use_*` functions (the
drain loop of `_use_cnls` once per argument tuple that was never submitted), once per residual evaluation in `_log_F_ext_residual`,
once after the baseline test and once per collected result of either stage in the custom approach, never through the wrapper when an
extension search runs (`prog=prog if not estimate_log_F_ext else None`)."""
import ast
import os

from tools import lib

OUTPUTS = ["KKSteps_gen.v"]


class Reject(Exception):
    pass


def expr(node, env):
    """integer expressions over names in env (python name -> Coq text)"""
    if isinstance(node, ast.Name) and node.id in env:
        return env[node.id]
    if isinstance(node, ast.Constant) and isinstance(node.value, int) and not isinstance(node.value, bool):
        return "%d" % node.value
    if isinstance(node, ast.BinOp) and isinstance(node.op, (ast.Add, ast.Sub, ast.Mult)):
        op = {ast.Add: "+", ast.Sub: "-", ast.Mult: "*"}[type(node.op)]
        return "(%s %s %s)" % (expr(node.left, env), op, expr(node.right, env))
    if isinstance(node, ast.Call) and isinstance(node.func, ast.Name) and not node.keywords:
        f, a = node.func.id, node.args
        if f == "abs" and len(a) == 1:
            return "(Z.abs %s)" % expr(a[0], env)
        if f == "len" and len(a) == 1 and isinstance(a[0], ast.Name) and ("len(%s)" % a[0].id) in env:
            return env["len(%s)" % a[0].id]
        if f == "max" and len(a) == 1 and isinstance(a[0], ast.Tuple) and len(a[0].elts) == 2:
            return "(Z.max %s %s)" % (expr(a[0].elts[0], env), expr(a[0].elts[1], env))
        # int(ceil(x / k)) for a positive literal k: ceiling division
        if (f == "int" and len(a) == 1 and isinstance(a[0], ast.Call) and getattr(a[0].func, "id", "") == "ceil"
                and len(a[0].args) == 1 and isinstance(a[0].args[0], ast.BinOp) and isinstance(a[0].args[0].op, ast.Div)
                and isinstance(a[0].args[0].right, ast.Constant) and isinstance(a[0].args[0].right.value, int)
                and a[0].args[0].right.value > 0):
            k = a[0].args[0].right.value
            return "(- ((- %s) / %d))" % (expr(a[0].args[0].left, env), k)
    raise Reject("unsupported expression in step arithmetic: " + ast.unparse(node)[:120])


def fn_of(tree, name):
    fs = [n for n in tree.body if isinstance(n, ast.FunctionDef) and n.name == name]
    if len(fs) != 1:
        raise Reject("function %s not found exactly once" % name)
    return fs[0]


def need(src, snippets, where):
    for s in snippets:
        if s not in src:
            raise Reject("%s: expected `%s`" % (where, s.replace("\n", " / ")[:160]))


def count(src, text, n, where):
    if src.count(text) != n:
        raise Reject("%s: expected %d occurrence(s) of `%s`, found %d" % (where, n, text, src.count(text)))


def generate():
    path = os.path.join(lib.SRC, "pyimpspec", "analysis", "kramers_kronig", "exploratory.py")
    tree = ast.parse(open(path).read())

    # ---- evaluate_log_F_ext: the announced total -------------------------------------------------------------------
    fn = fn_of(tree, "evaluate_log_F_ext")
    src = ast.unparse(fn)
    count(src, "num_steps", 5, "evaluate_log_F_ext")
    count(src, "prog.increment()", 1, "evaluate_log_F_ext")
    need(src, ["estimate_log_F_ext: bool = num_F_ext_evaluations != 0",
               "prog=prog if not estimate_log_F_ext else None",
               "if not estimate_log_F_ext:\n            fits: _KKFits = _perform_tests(log_F_ext=log_F_ext, **wrapper_kwargs)",
               "num_F_ext_evaluations=abs(num_F_ext_evaluations), rapid_F_ext_evaluations=rapid_F_ext_evaluations, wrapper_kwargs=wrapper_kwargs, prog=prog)",
               "if num_F_ext_evaluations <= 0:\n                evaluations = _evaluate_log_F_ext_using_lmfit(**evaluation_kwargs)",
               "weight: NDArray[float64] = _boukamp_weight(Z_exp, admittance=admittance)\n        prog.increment()\n"],
         "evaluate_log_F_ext")
    count(src, "_evaluate_log_F_ext_using_custom_approach(", 2, "evaluate_log_F_ext")
    start = neg = pos = fixed = total = least = None
    env = {"num_F_ext_evaluations": "N", "len(num_RCs)": "n", "num_steps": "num_steps"}
    for st in fn.body:
        if isinstance(st, ast.AnnAssign) and getattr(st.target, "id", "") == "num_steps":
            start = expr(st.value, {})
        elif isinstance(st, ast.If) and ast.unparse(st.test) == "estimate_log_F_ext":
            if start is None:
                raise Reject("num_steps updated before it is initialised")
            if not (len(st.orelse) == 1 and isinstance(st.orelse[0], ast.AugAssign) and isinstance(st.orelse[0].op, ast.Add)
                    and getattr(st.orelse[0].target, "id", "") == "num_steps"):
                raise Reject("evaluate_log_F_ext: unexpected else branch of `if estimate_log_F_ext`")
            fixed = expr(st.orelse[0].value, env)
            if len(st.body) != 2:
                raise Reject("evaluate_log_F_ext: unexpected body of `if estimate_log_F_ext`")
            chk, upd = st.body
            # the refusals come before anything is counted
            if not (isinstance(chk, ast.If) and len(chk.orelse) == 1 and isinstance(chk.orelse[0], ast.If)
                    and all(isinstance(b, ast.Raise) for b in chk.body + chk.orelse[0].body) and not chk.orelse[0].orelse):
                raise Reject("evaluate_log_F_ext: unexpected validation of the number of evaluations")
            t = chk.orelse[0].test
            if not (isinstance(t, ast.Compare) and len(t.ops) == 1 and isinstance(t.ops[0], ast.Lt)
                    and ast.unparse(t.left) == "abs(num_F_ext_evaluations)"):
                raise Reject("evaluate_log_F_ext: unexpected lower bound on the number of evaluations")
            least = expr(t.comparators[0], {})
            if not (isinstance(upd, ast.If) and ast.unparse(upd.test) == "num_F_ext_evaluations < 0" and len(upd.body) == 1
                    and len(upd.orelse) == 1 and all(isinstance(b, ast.AugAssign) and isinstance(b.op, ast.Add)
                                                     and getattr(b.target, "id", "") == "num_steps" for b in upd.body + upd.orelse)):
                raise Reject("evaluate_log_F_ext: unexpected update of num_steps for the extension search")
            neg, pos = expr(upd.body[0].value, env), expr(upd.orelse[0].value, env)
        elif isinstance(st, ast.With):
            c = st.items[0].context_expr
            if not (isinstance(c, ast.Call) and getattr(c.func, "id", "") == "Progress"):
                raise Reject("evaluate_log_F_ext: unexpected with statement")
            kw = {k.arg: k.value for k in c.keywords}
            total = expr(kw["total"], env)
    if None in (start, neg, pos, fixed, total, least):
        raise Reject("evaluate_log_F_ext: step arithmetic not found")

    # ---- the three test loops ---------------------------------------------------------------------------------------
    for name, worker in (("_use_matrix_inversion", "_inversion_test"), ("_use_least_squares_fitting", "_leastsq_test")):
        s = ast.unparse(fn_of(tree, name))
        count(s, "prog.increment()", 2, name)
        count(s, "prog", 6, name)
        need(s, ["for num_RC in num_RCs)", "if prog:\n        prog.increment()\n        prog.set_message('Performing tests')",
                 "for res in map(%s, args):\n        fits.append(res)\n        if prog:\n            prog.increment()" % worker], name)
    s = ast.unparse(fn_of(tree, "_use_cnls"))
    count(s, "prog.increment()", 3, "_use_cnls")
    count(s, "prog", 8, "_use_cnls")
    need(s, ["for num_RC in num_RCs)", "if prog is not None:\n        prog.increment()\n        prog.set_message('Performing tests')",
             "iterator = pool.imap(_cnls_test, args, 1)",
             "fits.append(res)\n            if prog is not None:\n                prog.increment()",
             "while True:\n        try:\n            next(args)\n        except StopIteration:\n            break\n        if prog is not None:\n            prog.increment()"],
         "_use_cnls")
    s = ast.unparse(fn_of(tree, "_perform_tests"))
    count(s, "prog", 4, "_perform_tests")
    s = ast.unparse(fn_of(tree, "_wrapper"))
    count(s, "prog", 0, "_wrapper")
    need(s, ["fits: _KKFits = _perform_tests(**kwargs)"], "_wrapper")

    # ---- the extension searches -------------------------------------------------------------------------------------
    s = ast.unparse(fn_of(tree, "_log_F_ext_residual"))
    count(s, "prog.increment()", 1, "_log_F_ext_residual")
    count(s, "prog", 3, "_log_F_ext_residual")
    fl = fn_of(tree, "_evaluate_log_F_ext_using_lmfit")
    s = ast.unparse(fl)
    count(s, "prog.increment()", 4, "_evaluate_log_F_ext_using_lmfit")
    count(s, "if not max_nfev:\n        prog.increment()", 4, "_evaluate_log_F_ext_using_lmfit")
    count(s, "prog", 6, "_evaluate_log_F_ext_using_lmfit")
    need(s, ["max_nfev: Optional[int] = num_F_ext_evaluations if num_F_ext_evaluations > 0 else None",
             "args=(wrapper_kwargs, evaluations, prog if max_nfev else None), max_nfev=max_nfev)"], "_evaluate_log_F_ext_using_lmfit")
    fc = fn_of(tree, "_evaluate_log_F_ext_using_custom_approach")
    s = ast.unparse(fc)
    count(s, "prog.increment()", 3, "_evaluate_log_F_ext_using_custom_approach")
    count(s, "prog", 4, "_evaluate_log_F_ext_using_custom_approach")
    need(s, ["stage_1: NDArray[float64] = linspace(min_log_F_ext, max_log_F_ext, num=stage_1_num_F_ext_evaluations)",
             "for res in _map(_wrapper, ((log_F_ext, wrapper_kwargs) for log_F_ext in stage_1 if not isclose(log_F_ext, 0.0))):\n        stage_1_results.append(res)\n        prog.increment()",
             "stage_1_results.append(baseline_result)\n",
             "x.clear()\n    for log_F_ext in linspace(",
             ")[1:-1]:\n        if not isclose(log_F_ext, stage_1, atol=0.0001).any():\n            x.append(log_F_ext)\n    stage_2: NDArray[float64] = array(x)",
             "for res in _map(_wrapper, ((log_F_ext, wrapper_kwargs) for log_F_ext in stage_2)):\n        stage_2_results.append(res)\n        prog.increment()"],
         "_evaluate_log_F_ext_using_custom_approach")
    count(s, "stage_1_results.append(", 2, "_evaluate_log_F_ext_using_custom_approach")
    s1 = s2 = s2num = None
    envc = {"num_F_ext_evaluations": "N", "len(stage_1_results)": "len1"}
    for st in ast.walk(fc):
        if isinstance(st, ast.AnnAssign) and getattr(st.target, "id", "") == "stage_1_num_F_ext_evaluations":
            s1 = expr(st.value, envc)
        elif isinstance(st, ast.AnnAssign) and getattr(st.target, "id", "") == "stage_2_num_F_ext_evaluations":
            s2 = expr(st.value, envc)
        elif (isinstance(st, ast.For) and isinstance(st.iter, ast.Subscript) and isinstance(st.iter.value, ast.Call)
              and getattr(st.iter.value.func, "id", "") == "linspace"):
            kw = {k.arg: k.value for k in st.iter.value.keywords}
            s2num = expr(kw["num"], dict(envc, stage_2_num_F_ext_evaluations="s2"))
    if None in (s1, s2, s2num):
        raise Reject("_evaluate_log_F_ext_using_custom_approach: stage sizes not found")

    text = ("(* gen/KKSteps_gen.v — GENERATED by tools/tr_kksteps.py from src/pyimpspec/analysis/kramers_kronig/exploratory.py; do not edit. *)\n"
            "From Coq Require Import ZArith.\nOpen Scope Z_scope.\n\n"
            "(* announced total of the Progress block of evaluate_log_F_ext: n = len(num_RCs) on the fixed-extension route,\n"
            "   N = num_F_ext_evaluations on the two search routes *)\n"
            "Definition kk_total_fixed (n : Z) : Z := let num_steps := (%s + %s) in %s.\n" % (start, fixed, total) +
            "Definition kk_total_search (N : Z) : Z :=\n  let num_steps := (%s + (if N <? 0 then %s else %s)) in %s.\n" % (start, neg, pos, total) +
            "(* abs(num_F_ext_evaluations) below this is refused before the block is entered *)\n"
            "Definition kk_least_evaluations : Z := %s.\n" % least +
            "(* custom approach (called with N = abs(num_F_ext_evaluations)): points of the first grid; interior points of the second grid\n"
            "   when the first stage holds len1 results (its own and the baseline) *)\n"
            "Definition kk_stage1_points (N : Z) : Z := %s.\n" % s1 +
            "Definition kk_stage2_points (N len1 : Z) : Z := let s2 := %s in %s - 2.\n" % (s2, s2num))
    lib._write_if_changed(os.path.join(lib.COQ, "gen", "KKSteps_gen.v"), text)

"""gen/Tlm_gen.v: the general transmission-line model (container element Tlm) — the numeric evaluation
TransmissionLineModel._impedance (with _eq8 ... _eq20) and the symbolic construction TransmissionLineModel._sympy, translated from
/repo/src/pyimpspec/circuit/transmission_line_model.py into two Gallina functions of the five sub-circuit states (open, short, or a
value) and L, with the same function symbols as the plain elements (Cx/CFun.v).  A refused configuration (NotImplementedError) is
None.  Fail-closed."""
import ast
import os

from tools import lib
from tools import tr_elements as te

OUTPUTS = ["Tlm_gen.v"]
SUBS = ["x1", "x2", "za", "zb", "ze"]


class Reject(Exception):
    pass


def is_sub_expr(n, env):
    """a sub-circuit valued expression: a name bound to a sub, or `a if cond else b` of such"""
    if isinstance(n, ast.Name) and env.get(n.id, ("", ""))[0] == "sub":
        return True
    if isinstance(n, ast.IfExp):
        return is_sub_expr(n.body, env) and is_sub_expr(n.orelse, env)
    return False


def sub(n, env):
    if isinstance(n, ast.Name):
        return env[n.id][1]
    if isinstance(n, ast.IfExp):
        return "(if %s then %s else %s)" % (cond(n.test, env), sub(n.body, env), sub(n.orelse, env))
    raise Reject("unsupported sub-circuit expression " + ast.unparse(n))


def cond(n, env):
    if isinstance(n, ast.Attribute) and n.attr in ("is_open", "is_short") and is_sub_expr(n.value, env):
        return "(%s %s)" % (n.attr, sub(n.value, env))
    if isinstance(n, ast.BoolOp):
        op = "&&" if isinstance(n.op, ast.And) else "||"
        return "(" + (" %s " % op).join(cond(v, env) for v in n.values) + ")"
    if isinstance(n, ast.IfExp):
        return "(if %s then %s else %s)" % (cond(n.test, env), cond(n.body, env), cond(n.orelse, env))
    raise Reject("unsupported condition " + ast.unparse(n))


class Val(ast.NodeTransformer):
    """replace <sub>.impedances / <sub>.expr by a Name carrying the Coq term, so that tr_elements.expr can translate the rest"""

    def __init__(self, env):
        self.env = env
        self.extra = {}

    def visit_Attribute(self, n):
        if n.attr in ("impedances", "expr") and is_sub_expr(n.value, self.env):
            k = "__sub%d" % len(self.extra)
            self.extra[k] = "(sub_val %s)" % sub(n.value, self.env)
            return ast.copy_location(ast.Name(k, ast.Load()), n)
        return self.generic_visit(n)

    def visit_Call(self, n):
        # sympy_sqrt(...) etc. are the same functions as sqrt(...) on the numeric side
        if isinstance(n.func, ast.Name) and n.func.id.startswith("sympy_"):
            n = ast.Call(ast.Name(n.func.id[len("sympy_"):], ast.Load()), n.args, n.keywords)
        return self.generic_visit(n)


def cexpr(n, env):
    v = Val(env)
    n2 = v.visit(ast.parse(ast.unparse(n), mode="eval").body)
    e = {k: t for k, (ty, t) in env.items() if ty == "C"}
    e.update(v.extra)
    try:
        return te.expr(n2, e)
    except te.TranslatorReject as ex:
        raise Reject(str(ex))


def block(stmts, env, eqs):
    """the statements as one Gallina term of type option C"""
    if not stmts:
        raise Reject("control reaches the end of the function without a return")
    st, rest = stmts[0], stmts[1:]
    if isinstance(st, ast.Expr) and isinstance(st.value, ast.Constant):
        return block(rest, env, eqs)
    if isinstance(st, ast.AnnAssign) and st.value is None:
        return block(rest, env, eqs)
    if isinstance(st, ast.Raise):
        if "NotImplementedError" not in ast.unparse(st):
            raise Reject("unexpected raise " + ast.unparse(st))
        return "None"
    if isinstance(st, ast.Return):
        v = st.value
        if isinstance(v, ast.Call) and isinstance(v.func, ast.Attribute) and ast.unparse(v.func.value) == "self" and v.func.attr in eqs:
            params, _ = eqs[v.func.attr]
            if len(v.args) != len(params) or v.keywords:
                raise Reject("call of %s with unexpected arguments" % v.func.attr)
            return "Some (tlm%s S %s)" % (v.func.attr, " ".join(cexpr(a, env) for a in v.args))
        return "Some %s" % cexpr(v, env)
    if isinstance(st, (ast.Assign, ast.AnnAssign)):
        tgt = st.targets[0] if isinstance(st, ast.Assign) else st.target
        if not isinstance(tgt, ast.Name):
            raise Reject("unsupported assignment target")
        name = tgt.id
        if is_sub_expr(st.value, env):
            env2 = dict(env)
            env2[name] = ("sub", "s_" + name)
            return "(let s_%s := %s in\n   %s)" % (name, sub(st.value, env), block(rest, env2, eqs))
        env2 = dict(env)
        env2[name] = ("C", "l_" + name)
        return "(let l_%s := %s in\n   %s)" % (name, cexpr(st.value, env), block(rest, env2, eqs))
    if isinstance(st, ast.If):
        return "(if %s then %s\n   else %s)" % (cond(st.test, env), block(list(st.body) + rest, env, eqs), block(list(st.orelse) + rest, env, eqs))
    raise Reject("unsupported statement " + ast.unparse(st)[:100])


def strip_prelude(fn, allowed):
    """drop the leading statements that only evaluate the sub-circuits (matched literally), return the rest"""
    body = list(fn.body)
    out = []
    for i, st in enumerate(body):
        src = ast.unparse(st)
        if any(src.startswith(a) for a in allowed):
            continue
        out = body[i:]
        break
    for st in out:
        src = ast.unparse(st)
        if any(src.startswith(a) for a in ("x1.update_expr", "x2.update_expr", "za.update_expr", "zb.update_expr", "ze.update_expr")):
            continue
    return [st for st in out if not ast.unparse(st).startswith(("x1.update_expr", "x2.update_expr", "za.update_expr", "zb.update_expr", "ze.update_expr"))]


def generate():
    path = os.path.join(lib.SRC, "pyimpspec", "circuit", "transmission_line_model.py")
    tree = ast.parse(open(path).read())
    cls = next((n for n in tree.body if isinstance(n, ast.ClassDef) and n.name == "TransmissionLineModel"), None)
    if cls is None:
        raise Reject("class TransmissionLineModel not found")
    fns = {n.name: n for n in cls.body if isinstance(n, ast.FunctionDef)}
    out = ["(* GENERATED by tools/tr_tlm.py from /repo/src/pyimpspec/circuit/transmission_line_model.py — do not edit *)",
           "From Coq Require Import Reals ZArith Bool.", "From Coquelicot Require Import Coquelicot.", "From PV Require Import Cx.CFun Circuit.TlmBase.", "Open Scope C_scope.", "Open Scope bool_scope.", ""]
    eqs = {}
    for name, fn in fns.items():
        if not name.startswith("_eq"):
            continue
        params = [a.arg for a in fn.args.args][1:]
        rets = [s for s in fn.body if isinstance(s, ast.Return)]
        if len(rets) != 1 or any(not isinstance(s, (ast.Return, ast.Expr)) for s in fn.body):
            raise Reject("%s: expected a single return" % name)
        env = {p: "v_" + p for p in params}
        try:
            body = te.expr(rets[0].value, env)
        except te.TranslatorReject as ex:
            raise Reject("%s: %s" % (name, ex))
        eqs[name] = (params, body)
        out.append("Definition tlm%s (S : syms) (%s : C) : C :=\n  %s." % (name, " ".join("v_" + p for p in params), body))
    env0 = {s: ("sub", s) for s in SUBS}
    env0["L"] = ("C", "v_L")
    # numeric side
    fn = fns["_impedance"]
    if [a.arg for a in fn.args.args] != ["self", "f", "X_1", "X_2", "Z_A", "Z_B", "Zeta", "L"]:
        raise Reject("_impedance: unexpected signature")
    src = ast.unparse(fn)
    for need in ("x1: Subcircuit = _evaluate_subcircuit(X_1, f, open_connection)", "x2: Subcircuit = _evaluate_subcircuit(X_2, f, open_connection)",
                 "za: Subcircuit = _evaluate_subcircuit(Z_A, f, open_connection)", "zb: Subcircuit = _evaluate_subcircuit(Z_B, f, open_connection)",
                 "ze: Subcircuit = _evaluate_subcircuit(Zeta, f, open_connection)"):
        if need not in src:
            raise Reject("_impedance: expected `%s`" % need)
    rest = strip_prelude(fn, ("open_connection", "if any(map(lambda _: _ is None", "x1: Subcircuit", "x2: Subcircuit", "za: Subcircuit", "zb: Subcircuit", "ze: Subcircuit"))
    out.append("Definition tlm_impl (S : syms) (x1 x2 za zb ze : sub) (v_L : C) : option C :=\n  %s." % block(rest, env0, eqs))
    # symbolic side
    fn = fns["_sympy"]
    src = ast.unparse(fn)
    for need in ("X_1: Optional[Connection] = subcircuits['X_1']", "X_2: Optional[Connection] = subcircuits['X_2']", "Z_A: Optional[Connection] = subcircuits['Z_A']",
                 "Z_B: Optional[Connection] = subcircuits['Z_B']", "Zeta: Optional[Connection] = subcircuits['Zeta']", "L = sympify('L')",
                 "x1.update_expr(connection=X_1, substitute=substitute, identifiers=identifiers)", "x2.update_expr(connection=X_2, substitute=substitute, identifiers=identifiers)",
                 "za.update_expr(connection=Z_A, substitute=substitute, identifiers=identifiers)", "zb.update_expr(connection=Z_B, substitute=substitute, identifiers=identifiers)",
                 "ze.update_expr(connection=Zeta, substitute=substitute, identifiers=identifiers)",
                 "x1: Subcircuit = _evaluate_subcircuit(X_1, f, open_connection)", "ze: Subcircuit = _evaluate_subcircuit(Zeta, f, open_connection)"):
        if need not in src:
            raise Reject("_sympy: expected `%s`" % need)
    rest = strip_prelude(fn, ("L = sympify", "if substitute:", "X_1: Optional", "X_2: Optional", "Z_A: Optional", "Z_B: Optional", "Zeta: Optional", "f: Frequencies",
                              "open_connection", "x1: Subcircuit", "x2: Subcircuit", "za: Subcircuit", "zb: Subcircuit", "ze: Subcircuit"))
    out.append("Definition tlm_sym (S : syms) (x1 x2 za zb ze : sub) (v_L : C) : option C :=\n  %s." % block(rest, env0, eqs))
    # the documented equation of the element (general case: all five sub-circuits present), as registered
    import pyimpspec  # noqa
    from pyimpspec.circuit.transmission_line_model import TransmissionLineModel
    eq = TransmissionLineModel._equation
    names = ["X_1", "X_2", "Z_A", "Z_B", "Zeta", "L"]
    try:
        body, used = te.translate_equation(eq, names)
    except te.TranslatorReject as ex:
        raise Reject("Tlm equation: %s" % ex)
    if not set(used) <= set(names) | {"sinh", "cosh", "sqrt", "coth", "tanh"}:
        raise Reject("Tlm equation uses unexpected names %s" % sorted(set(used) - set(names)))
    out.append("(* _equation = %s *)" % eq.replace("(*", "( *").replace("*)", "* )"))
    out.append("Definition tlm_eqn (S : syms) (%s : C) : C :=\n  %s." % (" ".join("v_" + n for n in names), body))
    # Subcircuit.update_expr: a short sub-circuit has the expression 0
    sc = next((n for n in tree.body if isinstance(n, ast.ClassDef) and n.name == "Subcircuit"), None)
    if sc is None or "self.expr = 0" not in ast.unparse(sc):
        raise Reject("Subcircuit.update_expr: a short sub-circuit is not given the expression 0")
    lib._write_if_changed(os.path.join(lib.COQ, "gen", "Tlm_gen.v"), "\n".join(out) + "\n")

(* Circuit/Parser_implicit.v — the implicit outer series: the items of a series written WITHOUT the outer brackets ("R(RC)" for
   "[R(RC)]") are parsed one after the other and assembled into a series of the parsed items. *)
From Coq Require Import ZArith NArith QArith Bool List Lia.
From PV Require Import Base.Num Base.Outcome Circuit.ElemState Circuit.Tree Circuit.Token Circuit.Registry Circuit.Parser Circuit.Printer
  Circuit.Parser_facts Circuit.Token_decode Circuit.Printer_lex Circuit.Parser_basic.
Import ListNotations.
Local Open Scope nat_scope.

Section Implicit.
Variable reg : registry.
Hypothesis Hsyms : forall ci r, nth_error reg ci = Some r -> find_sym (r_sym r) reg 0 = Some (ci, r).

Fixpoint top_loop (F : nat) (n : nat) (q : pst) : outcome pst :=
  match ptoks q with
  | [] => Ok q
  | _ :: _ => match n with
              | O => Crash COutOfFuel
              | S m => let* q' := main_loop F depth_budget reg q in top_loop F m q'
              end
  end.

Lemma parse_tokens_eq ts :
  parse_tokens reg ts =
  let fuel := 4 * length ts + 10 in
  let* p0 := migrate (mkPS ts []) in
  let* p1 := top_loop fuel fuel p0 in
  assemble p1.
Proof.
  unfold parse_tokens. cbv zeta. destruct (migrate (mkPS ts [])) as [p0| |]; cbn [bind]; auto.
  set (F := 4 * length ts + 10).
  assert (HL : forall n q, (fix loop (n0 : nat) (q0 : pst) {struct n0} : outcome pst :=
                 match ptoks q0 with
                 | [] => Ok q0
                 | _ :: _ => match n0 with
                             | 0 => Crash COutOfFuel
                             | S m => let* q' := main_loop F depth_budget reg q0 in loop m q'
                             end
                 end) n q = top_loop F n q).
  { induction n as [|m IH]; intro q; simpl; destruct (ptoks q); auto.
    destruct (main_loop F depth_budget reg q); simpl; auto. }
  rewrite HL. reflexivity.
Qed.

Lemma top_loop_children pf F : 2 * pf <= depth_budget ->
  forall l l', Forall2 (fun x x' => pnode reg pf x = Some x') l l' ->
  (forall x, In x l -> 2 * length (ntoks reg pf x) + 1 <= F) ->
  forall n st, length l <= n ->
  top_loop F n (mkPS (flat_map (ntoks reg pf) l) st) = Ok (mkPS [] (map SkNode (rev l') ++ st)).
Proof.
  intros Hd l l' HF. induction HF as [|x x' l l' Hx HF IH]; intros Hb n st Hn.
  - destruct n; reflexivity.
  - destruct n as [|m]; [simpl in Hn; lia|].
    cbn [flat_map]. destruct (proj1 (toks_head reg pf) x x' (flat_map (ntoks reg pf) l) Hx) as (t & r & E & _).
    cbn [top_loop ptoks]. rewrite E. rewrite <- E.
    assert (Hrest : head_not_lcur (flat_map (ntoks reg pf) l)).
    { destruct HF as [|y y' l0 l0' Hy _]; [exact I|]. cbn [flat_map]. apply opens_not_lcur.
      apply (proj1 (toks_head reg pf) y y' _ Hy). }
    rewrite (proj1 (step_all reg Hsyms pf) x x' F depth_budget st _ Hx); [|apply Hb; left; reflexivity|exact Hd|exact Hrest].
    cbn [bind]. rewrite IH; [|intros y Hy; apply Hb; right; exact Hy|simpl in Hn; lia].
    cbn [rev]. rewrite map_app, <- app_assoc. reflexivity.
Qed.

Theorem implicit_outer_series pf l l' :
  Forall2 (fun x x' => pnode reg pf x = Some x') l l' -> l <> [] -> 2 * pf <= depth_budget ->
  parse_tokens reg (flat_map (ntoks reg pf) l) = Ok (match l' with [x'] => top x' | _ => Ser l' end).
Proof.
  intros HF Hne Hd. rewrite parse_tokens_eq. cbv zeta.
  set (ts := flat_map (ntoks reg pf) l).
  assert (Hm : migrate (mkPS ts []) = Ok (mkPS ts [])).
  { unfold ts. destruct HF as [|x x' l0 l0' Hx _]; [congruence|]. cbn [flat_map].
    destruct (proj1 (toks_head reg pf) x x' (flat_map (ntoks reg pf) l0) Hx) as (t & r & E & Hk).
    unfold migrate. rewrite E, accept_cons. destruct Hk as [-> | [-> | ->]]; reflexivity. }
  rewrite Hm. cbn [bind].
  rewrite (top_loop_children pf (4 * length ts + 10) Hd l l' HF).
  - cbn [bind]. rewrite app_nil_r. unfold assemble. cbn [pstack].
    destruct l' as [|a [|b r]].
    + inversion HF; subst. congruence.
    + cbn [rev app map]. destruct a as [ci st subs|[la|la]]; reflexivity.
    + assert (Hlen : 2 <= length (map SkNode (rev (a :: b :: r)))) by (rewrite map_length, rev_length; simpl; lia).
      destruct (map SkNode (rev (a :: b :: r))) as [|s1 [|s2 sr]] eqn:Em; try (simpl in Hlen; lia).
      assert (Ha : all_nodes (s1 :: s2 :: sr) = Some (rev (a :: b :: r))) by (rewrite <- Em; apply all_nodes_map).
      destruct s1 as [k|[ci0 st0 sb0|[lc|lc]]]; rewrite Ha, rev_involutive; reflexivity.
  - intros x Hx. pose proof (in_flat_len reg Hsyms pf l x Hx). unfold ts. lia.
  - pose proof (flat_len reg Hsyms pf l l' HF). unfold ts. lia.
Qed.

End Implicit.

Theorem implicit_series_round_trip (reg : registry) :
  syms_valid reg = true -> syms_unique reg = true ->
  forall pf l l', Forall2 (fun x x' => pnode reg pf x = Some x') l l' -> l <> [] -> 2 * pf <= depth_budget ->
  exists ts, tokenize (concat (map item_text (flat_map (node_items pf reg) l))) = Ok ts /\
             parse_tokens reg ts = Ok (match l' with [x'] => top x' | _ => Ser l' end).
Proof.
  intros Hv Hu pf l l' HF Hne Hd.
  assert (Hv' : forall r, In r reg -> valid_symbol (r_sym r) = true).
  { intros r Hr. unfold syms_valid in Hv. rewrite forallb_forall in Hv. auto. }
  exists (flat_map (ntoks reg pf) l). split.
  - rewrite <- map_flat_map_items. apply items_tokenize_exactly.
    clear -Hv'. induction l as [|x l IH]; simpl; [constructor|]. apply Forall_app. split; [|exact IH].
    apply (proj1 (items_ok pf reg Hv')).
  - apply implicit_outer_series; auto. apply syms_unique_sound; exact Hu.
Qed.

(* Circuit/Imp_uniform.v — when does the array version of Series/Parallel._impedance return?  The only refusal in the model is
   InfiniteImpedance for a branch of a parallel connection that is open at some of the evaluated frequencies but not at others.  If
   every branch of every parallel connection of the tree is open at all frequencies or at none (under the pointwise law), the model
   returns, and what it returns is the law at every frequency: total correctness on vectors under that hypothesis. *)
From Coq Require Import Arith Bool List Lia.
From PV Require Import Base.Outcome Circuit.Imp Circuit.Imp_facts.
Import ListNotations.

Section Uniform.
Variable K : Type.
Variable k0 : K.
Variable kadd : K -> K -> K.
Variable kinv : K -> K.
Variable kis0 : K -> bool.
Variable leafv : nat -> list (ez K).
Variable n : nat.
Hypothesis leaf_len : forall id, length (leafv id) = n.

Notation implv := (impl K k0 kadd kinv kis0 leafv n).
Notation specvv := (specv K k0 kadd kinv kis0 leafv n).
Notation all_infv := (all_inf K k0 kadd kinv kis0 leafv n).
Notation inf_freev := (inf_free K k0 kadd kinv kis0 leafv n).

(* every branch of every parallel connection is open at all of the frequencies or at none of them *)
Fixpoint uniform (t : ctree) : bool :=
  match t with
  | Leaf _ => true
  | CSer l => forallb uniform l
  | CPar l => forallb (fun c => uniform c && (all_infv c || inf_freev c)) l
  end.

Lemma ser_loop_returns l : Forall (fun c => exists v, implv c = Ok v) l ->
  forall acc, exists v, ser_loop K kadd implv l acc = Ok v.
Proof.
  induction 1 as [|c l [z Hz] _ IH]; intro acc; simpl; [eauto|]. rewrite Hz. cbn [bind]. apply IH.
Qed.

Lemma par_loop_returns l :
  Forall (fun c => (exists v, implv c = Ok v) /\ (all_infv c = true \/ inf_freev c = true)) l ->
  forall total sh paths no, exists v, par_loop K k0 kadd kinv kis0 n implv l total sh paths no = Ok v.
Proof.
  induction 1 as [|c l [[z Hz] Hcls] _ IH]; intros total sh paths no; cbn [par_loop].
  - destruct (forallb (fun b => b) sh); [eauto|]. destruct (Nat.eqb no total); eauto.
  - rewrite Hz. cbn [bind].
    pose proof (impl_sound K k0 kadd kinv kis0 leafv n leaf_len c z Hz) as Ez. subst z.
    assert (Hlen : length (specvv c) = n) by (unfold specv; rewrite map_length, seq_length; reflexivity).
    destruct Hcls as [Hinf | Hfree].
    + (* open at every frequency: counted as an open path *)
      assert (E : Nat.eqb (count K (ez_is_inf K) (specvv c)) n = true) by (apply (count_all K k0 kadd kinv kis0 n); assumption).
      rewrite E. apply IH.
    + (* open nowhere *)
      assert (E0 : Nat.ltb 0 (count K (ez_is_inf K) (specvv c)) = false) by (apply count_none; exact Hfree).
      destruct (Nat.eqb (count K (ez_is_inf K) (specvv c)) n); [apply IH|]. rewrite E0.
      destruct (Nat.eqb (count K (ez_is_zero K kis0) (specvv c)) n); [eauto|].
      match goal with |- context [if ?b then Ok _ else par_loop _ _ _ _ _ _ _ _ _ ?sh' _ _] => destruct b; [eauto|apply IH] end.
Qed.

Theorem uniform_returns : forall t, uniform t = true -> exists v, implv t = Ok v.
Proof.
  induction t as [id|l IHl|l IHl] using ctree_ind2; intro Hu.
  - simpl. eauto.
  - rewrite (impl_ser K k0 kadd kinv kis0 leafv n). apply ser_loop_returns.
    cbn [uniform] in Hu. rewrite forallb_forall in Hu. rewrite Forall_forall in *. intros c Hc. apply IHl; auto.
  - destruct l as [|c l]; [simpl; eauto|].
    rewrite (impl_par K k0 kadd kinv kis0 leafv n). apply par_loop_returns.
    cbn [uniform] in Hu. rewrite forallb_forall in Hu. rewrite Forall_forall in *. intros x Hx.
    specialize (Hu x Hx). apply andb_prop in Hu as [H1 H2]. split; [apply IHl; auto|]. apply orb_prop in H2. exact H2.
Qed.

(* total correctness on vectors: under the hypothesis the array version returns the law at every frequency *)
Theorem uniform_total_correct t : uniform t = true -> implv t = Ok (specvv t).
Proof.
  intro Hu. destruct (uniform_returns t Hu) as [v Hv]. rewrite Hv. f_equal.
  apply (impl_sound K k0 kadd kinv kis0 leafv n leaf_len). exact Hv.
Qed.

End Uniform.

(* Circuit/Parser_sem.v — "hence the same impedance": the tree the parser rebuilds from the basic syntax has, for every assignment
   of impedances to the element classes (finite, zero or open), the same value under the pointwise law as the printed tree —
   merging nested connections and unwrapping one-element series do not change the impedance (series_flatten, parallel_flatten). *)
From Coq Require Import Reals ZArith Bool List Lia.
From Coquelicot Require Import Coquelicot.
From PV Require Import Base.Num Base.Outcome Circuit.ElemState Circuit.Tree Circuit.Token Circuit.Registry Circuit.Parser
  Circuit.Imp Circuit.ImpC Circuit.Parser_basic.
Import ListNotations.
Local Open Scope nat_scope.

(* the connection structure with every element replaced by its class index *)
Fixpoint ct (n : node) : ctree :=
  match n with NE ci _ _ => Leaf ci | NC c => cct c end
with cct (c : conn) : ctree :=
  match c with Ser l => CSer (map ct l) | Par l => CPar (map ct l) end.

(* parse results are well formed: no empty parallel connection anywhere *)
Inductive wfr : node -> Prop :=
  | wfr_E ci e s : wfr (NE ci e s)
  | wfr_S l : List.Forall wfr l -> wfr (NC (Ser l))
  | wfr_P l : l <> [] -> List.Forall wfr l -> wfr (NC (Par l)).

Section Sem.
Variable reg : registry.
Variable leaf : nat -> ez C.

Lemma expand_wfr series x : wfr x -> List.Forall wfr (expand series x).
Proof.
  intro H. unfold expand, conn_kind_is. destruct x as [ci e s|[l|l]]; destruct series; try (constructor; [exact H|constructor]);
  inversion H; assumption.
Qed.

Lemma wrap_wfr series items n' : List.Forall wfr items -> wrap series items = Some n' -> wfr n'.
Proof.
  intros HF. unfold wrap. destruct series.
  - destruct items as [|a [|b r]]; intro H; inversion H; subst.
    + inversion HF; assumption.
    + constructor. exact HF.
  - destruct (length items <? 2) eqn:E; intro H; inversion H; subst. constructor; [|exact HF].
    intros ->. simpl in E. discriminate.
Qed.

Lemma results_wfr pf :
  (forall n n', pnode reg pf n = Some n' -> wfr n') /\ (forall c n', pconn reg pf c = Some n' -> wfr n').
Proof.
  induction pf as [|f [IHn IHc]]; [split; intros; discriminate|].
  assert (Hch : forall series l items, flat_children (pnode reg f) series l = Some items -> List.Forall wfr items).
  { intros series l items H. destruct (flat_children_inv _ _ _ _ H) as (l' & HF & ->). clear H.
    induction HF as [|x x' l0 l0' Hx _ IH]; simpl; [constructor|].
    apply Forall_app. split; [apply expand_wfr; eapply IHn; eauto|exact IH]. }
  split.
  - intros [ci st subs|c] n' H.
    + rewrite pnode_S_elem in H. destruct (nth_error reg ci) as [r|]; [|discriminate].
      destruct (build_element ci r empty_defs) as [nb| |] eqn:Eb; try discriminate. inversion H; subst.
      destruct (build_element_shape _ _ _ _ Eb) as (e & s0 & ->). constructor.
    + rewrite pnode_S_conn in H. eapply IHc; eauto.
  - intros [l|l] n' H; [rewrite pconn_S_ser in H|rewrite pconn_S_par in H];
      match type of H with match ?fc with _ => _ end = _ => destruct fc as [items|] eqn:Efc; [|discriminate] end;
      (eapply wrap_wfr; [eapply Hch; exact Efc|exact H]).
Qed.

(* the law depends on the children only through their values *)
Lemma ser_ext la lb : List.Forall2 (fun a b => cspec a leaf = cspec b leaf) la lb -> cspec (CSer la) leaf = cspec (CSer lb) leaf.
Proof.
  intro H. unfold cspec. cbn [spec]. generalize (Zf (RtoC 0) : ez C).
  induction H as [|a b la lb Hab _ IH]; intro acc; cbn [fold_left]; [reflexivity|].
  unfold cspec in Hab. rewrite Hab. apply IH.
Qed.

Lemma par_ext la lb : List.Forall2 (fun a b => cspec a leaf = cspec b leaf) la lb -> cspec (CPar la) leaf = cspec (CPar lb) leaf.
Proof.
  intro H. assert (Hm : map (fun c => cspec c leaf) la = map (fun c => cspec c leaf) lb).
  { induction H as [|a b la lb Hab _ IH]; simpl; [reflexivity|]. rewrite Hab, IH. reflexivity. }
  destruct H as [|a b la lb Hab H]; [reflexivity|].
  rewrite !spec_par_pval by discriminate. rewrite Hm. reflexivity.
Qed.

Lemma ser_single x : cspec (CSer [x]) leaf = cspec x leaf.
Proof. unfold cspec. cbn [spec fold_left]. apply cez_add_0_l. Qed.

Lemma ser_expand : forall l' a,
  cspec (CSer (a ++ map ct l')) leaf = cspec (CSer (a ++ map ct (flat_map (expand true) l'))) leaf.
Proof.
  induction l' as [|x l' IH]; intro a; [reflexivity|].
  cbn [map flat_map]. rewrite map_app.
  unfold expand at 1, conn_kind_is. destruct x as [ci e s|[lx|lx]].
  - cbn [map app]. change (a ++ ct (NE ci e s) :: map ct l') with (a ++ [ct (NE ci e s)] ++ map ct l').
    change (a ++ ct (NE ci e s) :: map ct (flat_map (expand true) l')) with (a ++ [ct (NE ci e s)] ++ map ct (flat_map (expand true) l')).
    rewrite !app_assoc. apply IH.
  - cbn [ct cct]. rewrite series_flatten. rewrite !app_assoc. apply IH.
  - cbn [map app]. change (a ++ ct (NC (Par lx)) :: map ct l') with (a ++ [ct (NC (Par lx))] ++ map ct l').
    change (a ++ ct (NC (Par lx)) :: map ct (flat_map (expand true) l')) with (a ++ [ct (NC (Par lx))] ++ map ct (flat_map (expand true) l')).
    rewrite !app_assoc. apply IH.
Qed.

Lemma par_expand : forall l' a, List.Forall wfr l' ->
  cspec (CPar (a ++ map ct l')) leaf = cspec (CPar (a ++ map ct (flat_map (expand false) l'))) leaf.
Proof.
  induction l' as [|x l' IH]; intros a HF; [reflexivity|].
  inversion HF as [|? ? Hx HF']; subst.
  cbn [map flat_map]. rewrite map_app.
  unfold expand at 1, conn_kind_is. destruct x as [ci e s|[lx|lx]].
  - cbn [map app]. change (a ++ ct (NE ci e s) :: map ct l') with (a ++ [ct (NE ci e s)] ++ map ct l').
    change (a ++ ct (NE ci e s) :: map ct (flat_map (expand false) l')) with (a ++ [ct (NE ci e s)] ++ map ct (flat_map (expand false) l')).
    rewrite !app_assoc. apply IH; exact HF'.
  - cbn [map app]. change (a ++ ct (NC (Ser lx)) :: map ct l') with (a ++ [ct (NC (Ser lx))] ++ map ct l').
    change (a ++ ct (NC (Ser lx)) :: map ct (flat_map (expand false) l')) with (a ++ [ct (NC (Ser lx))] ++ map ct (flat_map (expand false) l')).
    rewrite !app_assoc. apply IH; exact HF'.
  - cbn [ct cct]. rewrite parallel_flatten.
    + rewrite !app_assoc. apply IH; exact HF'.
    + inversion Hx as [| |? Hne _]; subst. intro E. apply map_eq_nil in E. contradiction.
Qed.

Lemma wrap_value series items n' : wrap series items = Some n' ->
  cspec (ct n') leaf = cspec (if series then CSer (map ct items) else CPar (map ct items)) leaf.
Proof.
  unfold wrap. destruct series.
  - destruct items as [|a [|b r]]; intro H; inversion H; subst; [|reflexivity].
    cbn [map]. symmetry. apply ser_single.
  - destruct (length items <? 2); intro H; inversion H; subst. reflexivity.
Qed.

Theorem same_value pf :
  (forall n n', pnode reg pf n = Some n' -> cspec (ct n') leaf = cspec (ct n) leaf) /\
  (forall c n', pconn reg pf c = Some n' -> cspec (ct n') leaf = cspec (cct c) leaf).
Proof.
  induction pf as [|f [IHn IHc]]; [split; intros; discriminate|]. split.
  - intros [ci st subs|c] n' H.
    + rewrite pnode_S_elem in H. destruct (nth_error reg ci) as [r|]; [|discriminate].
      destruct (build_element ci r empty_defs) as [nb| |] eqn:Eb; try discriminate. inversion H; subst.
      destruct (build_element_shape _ _ _ _ Eb) as (e & s0 & ->). reflexivity.
    + rewrite pnode_S_conn in H. apply IHc; exact H.
  - intros [l|l] n' H; [rewrite pconn_S_ser in H|rewrite pconn_S_par in H];
      match type of H with match ?fc with _ => _ end = _ => destruct fc as [items|] eqn:Efc; [|discriminate] end;
      destruct (flat_children_inv _ _ _ _ Efc) as (l' & HF & ->);
      rewrite (wrap_value _ _ _ H); cbn [cct].
    + pose proof (ser_expand l' []) as E. cbn [app] in E. rewrite <- E. symmetry. apply ser_ext.
      clear -HF IHn. induction HF as [|x x' l0 l0' Hx _ IH]; simpl; constructor; auto. symmetry. apply IHn; exact Hx.
    + assert (E : cspec (CPar (map ct l')) leaf = cspec (CPar (map ct (flat_map (expand false) l'))) leaf); [apply (par_expand l' [])|rewrite <- E].
      * clear -HF. pose proof (proj1 (results_wfr f)) as Hw.
        induction HF as [|x x' l0 l0' Hx _ IH]; constructor; eauto.
      * symmetry. apply par_ext.
        clear -HF IHn. induction HF as [|x x' l0 l0' Hx _ IH]; simpl; constructor; auto. symmetry. apply IHn; exact Hx.
Qed.

End Sem.

Lemma top_value (leaf : nat -> ez C) n' : cspec (cct (top n')) leaf = cspec (ct n') leaf.
Proof. destruct n' as [ci e s|[l|l]]; cbn [top cct map]; try apply ser_single. reflexivity. Qed.

Theorem round_trip_same_impedance (reg : registry) (leaf : nat -> ez C) pf c n' :
  pconn reg pf c = Some n' -> cspec (cct (top n')) leaf = cspec (cct c) leaf.
Proof. intro H. rewrite top_value. apply (proj2 (same_value reg leaf pf) c n' H). Qed.

(* the implicit outer series: what the parser assembles from the items written without the outer brackets has the impedance of the
   series of those items *)
Theorem implicit_series_same_impedance (reg : registry) (leaf : nat -> ez C) pf l l' :
  List.Forall2 (fun x x' => pnode reg pf x = Some x') l l' ->
  cspec (cct (match l' with [x'] => top x' | _ => Ser l' end)) leaf = cspec (CSer (map ct l)) leaf.
Proof.
  intro HF.
  assert (Hext : cspec (CSer (map ct l')) leaf = cspec (CSer (map ct l)) leaf).
  { apply ser_ext. clear -HF. induction HF as [|x x' l0 l0' Hx _ IH]; simpl; constructor; auto.
    apply (proj1 (same_value reg leaf pf) x x' Hx). }
  destruct l' as [|a [|b r]]; try exact Hext.
  rewrite top_value. rewrite <- Hext. cbn [map]. symmetry. apply ser_single.
Qed.

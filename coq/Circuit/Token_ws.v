(* Circuit/Token_ws.v — white space between the brackets and symbols of the basic syntax is ignored by the scanner: any amount of
   white space before each item and at the end leaves the token list unchanged. *)
From Coq Require Import ZArith NArith QArith Bool List Lia ZifyBool ZifyN.
From PV Require Import Base.Num Base.Outcome Circuit.Tree Circuit.Token Circuit.Registry Circuit.Token_decode.
Import ListNotations.
Local Open Scope nat_scope.

Definition all_ws (w : str) : bool := forallb is_ws w.

Lemma ws_not_special c : is_ws c = true -> special c = None /\ is_letter c = false /\ is_dig c = false /\ (c =? 45)%N = false.
Proof.
  unfold is_ws, special, is_letter, is_upper, is_lower, is_dig. intro H.
  repeat match goal with |- context [(c =? ?k)%N] => destruct (N.eqb_spec c k); try (exfalso; lia) end; repeat split; lia.
Qed.

(* the scanner steps over a run of white space: index and start advance, nothing else changes *)
Lemma scan_skip_ws : forall (w : str) (pre rest : str) (ts : list tok) (fuel : nat),
  all_ws w = true -> rest <> [] ->
  scan (length w + fuel) (mkTS (w ++ rest) ts [] (length pre) (length pre) (pre ++ w ++ rest))
  = scan fuel (mkTS rest ts [] (length (pre ++ w)) (length (pre ++ w)) ((pre ++ w) ++ rest)).
Proof.
  induction w as [|c w IH]; intros pre rest ts fuel Hw Hr.
  - cbn [app length Nat.add]. rewrite !app_nil_r. reflexivity.
  - cbn [all_ws forallb] in Hw. apply andb_prop in Hw as [Hc Hw].
    destruct (ws_not_special c Hc) as (H1 & H2 & H3 & H4).
    cbn [length Nat.add app]. rewrite scan_step by (cbn [chars]; discriminate).
    unfold main_loop. cbn [chars]. rewrite H1, H2, H3, H4, Hc. cbn [andb orb bind toks value index start orig].
    specialize (IH (pre ++ [c]) rest ts fuel Hw Hr).
    rewrite app_length in IH. cbn [length] in IH. replace (length pre + 1) with (S (length pre)) in IH by lia.
    rewrite <- !app_assoc in IH. cbn [app] in IH. rewrite IH.
    rewrite <- !app_assoc. cbn [app]. replace (pre ++ c :: w) with ((pre ++ [c]) ++ w) by (rewrite <- app_assoc; reflexivity).
    reflexivity.
Qed.

(* trailing white space: the scanner reaches the end with the tokens it has *)
Lemma scan_trailing_ws : forall (w : str) (pre : str) (ts : list tok) (fuel : nat),
  all_ws w = true -> length w < fuel ->
  scan fuel (mkTS w ts [] (length pre) (length pre) (pre ++ w)) = Ok (rev ts).
Proof.
  induction w as [|c w IH]; intros pre ts fuel Hw Hf.
  - destruct fuel; reflexivity.
  - cbn [all_ws forallb] in Hw. apply andb_prop in Hw as [Hc Hw].
    destruct (ws_not_special c Hc) as (H1 & H2 & H3 & H4).
    destruct fuel as [|f]; [simpl in Hf; lia|]. rewrite scan_step by (cbn [chars]; discriminate).
    unfold main_loop. cbn [chars]. rewrite H1, H2, H3, H4, Hc. cbn [andb orb bind toks value index start orig].
    specialize (IH (pre ++ [c]) ts f Hw). rewrite app_length in IH. cbn [length] in IH.
    replace (length pre + 1) with (S (length pre)) in IH by lia. rewrite <- app_assoc in IH. cbn [app] in IH.
    apply IH. simpl in Hf. lia.
Qed.

Definition spaced_text (wits : list (str * item)) (trail : str) : str :=
  concat (map (fun wi => fst wi ++ item_text (snd wi)) wits) ++ trail.

Lemma ws_not_tail c : is_ws c = true -> tailp c = false.
Proof. unfold is_ws, tailp, is_lower, is_dig. lia. Qed.

Lemma item_head_not_tail i r : item_ok i -> match item_text i ++ r with c :: _ => tailp c = false | [] => True end.
Proof.
  intro Hi. pose proof (items_head [i] (Forall_cons _ Hi (Forall_nil _))) as Hh. cbn [map concat] in Hh. rewrite app_nil_r in Hh.
  pose proof (item_text_nonempty i Hi). destruct (item_text i); [congruence|exact Hh].
Qed.

Lemma spaced_head wits trail :
  Forall (fun wi => all_ws (fst wi) = true /\ item_ok (snd wi)) wits -> all_ws trail = true ->
  match spaced_text wits trail with c :: _ => tailp c = false | [] => True end.
Proof.
  intros Hall Ht. unfold spaced_text. destruct Hall as [|[w i] wits [Hw Hi] _]; cbn [map concat app fst snd] in *.
  - destruct trail as [|c t]; auto. cbn [all_ws forallb] in Ht. apply andb_prop in Ht as [Hc _]. apply ws_not_tail; exact Hc.
  - rewrite <- !app_assoc. destruct w as [|c w'].
    + cbn [app]. apply item_head_not_tail; exact Hi.
    + cbn [app]. cbn [all_ws forallb] in Hw. apply andb_prop in Hw as [Hc _]. apply ws_not_tail; exact Hc.
Qed.

Lemma scan_spaced : forall (wits : list (str * item)) (trail pre : str) (ts : list tok) (fuel : nat),
  Forall (fun wi => all_ws (fst wi) = true /\ item_ok (snd wi)) wits -> all_ws trail = true -> plain_prev ts ->
  length (spaced_text wits trail) < fuel ->
  scan fuel (mkTS (spaced_text wits trail) ts [] (length pre) (length pre) (pre ++ spaced_text wits trail))
  = Ok (rev ts ++ map item_tok (map snd wits)).
Proof.
  induction wits as [|[w i] wits IH]; intros trail pre ts fuel Hall Ht Hprev Hfuel.
  - unfold spaced_text in *. cbn [map concat app] in *. rewrite app_nil_r. apply scan_trailing_ws; assumption.
  - inversion Hall as [|? ? [Hw Hi] Hall']; subst. cbn [fst snd] in *.
    unfold spaced_text in *. cbn [map concat fst snd] in *. rewrite <- !app_assoc in *.
    set (rest := concat (map (fun wi => fst wi ++ item_text (snd wi)) wits) ++ trail) in *.
    assert (Hne : item_text i ++ rest <> []).
    { pose proof (item_text_nonempty i Hi). destruct (item_text i); [congruence|discriminate]. }
    rewrite !app_length in Hfuel.
    replace fuel with (length w + (fuel - length w)) by lia.
    rewrite (scan_skip_ws w pre (item_text i ++ rest) ts (fuel - length w) Hw Hne).
    assert (Hrest_head : match rest with c :: _ => tailp c = false | [] => True end) by (apply spaced_head; assumption).
    destruct (fuel - length w) as [|f] eqn:Ef; [lia|].
    rewrite scan_step by (cbn [chars]; exact Hne).
    rewrite (main_loop_item (pre ++ w) rest ts i Hi Hprev Hrest_head). cbn [bind].
    replace ((pre ++ w) ++ item_text i ++ rest) with (((pre ++ w) ++ item_text i) ++ rest) by (rewrite <- !app_assoc; reflexivity).
    rewrite <- app_length.
    unfold rest. rewrite (IH trail ((pre ++ w) ++ item_text i) (item_tok i :: ts) f Hall' Ht (plain_prev_item i ts)).
    + cbn [rev map snd]. rewrite <- app_assoc. reflexivity.
    + assert (Hl : 1 <= length (item_text i)) by (pose proof (item_text_nonempty i Hi); destruct (item_text i); [congruence|simpl; lia]).
      unfold spaced_text. fold rest. lia.
Qed.

Theorem spaced_items_tokenize (wits : list (str * item)) (trail : str) :
  Forall (fun wi => all_ws (fst wi) = true /\ item_ok (snd wi)) wits -> all_ws trail = true ->
  tokenize (spaced_text wits trail) = Ok (map item_tok (map snd wits)).
Proof.
  intros H Ht. unfold tokenize.
  change (mkTS (spaced_text wits trail) [] [] 0 0 (spaced_text wits trail))
    with (mkTS (spaced_text wits trail) [] [] (length (@nil N)) (length (@nil N)) ([] ++ spaced_text wits trail)).
  rewrite scan_spaced; auto; simpl; auto.
Qed.

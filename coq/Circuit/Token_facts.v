(* Circuit/Token_facts.v — the tokenizer model terminates and never crashes. *)
From Coq Require Import ZArith QArith Bool List Lia.
From PV Require Import Base.Num Base.Outcome Circuit.Tree Circuit.Token.
Import ListNotations.
Local Open Scope nat_scope.

Lemma take1_chars s c r : chars s = c :: r -> chars (take1 s) = r.
Proof. unfold take1. intros ->. auto. Qed.

Lemma take1_len s : chars s <> [] -> S (length (chars (take1 s))) = length (chars s).
Proof. unfold take1. destruct (chars s); [congruence|]. simpl. auto. Qed.

Lemma take1_len_le s : length (chars (take1 s)) <= length (chars s).
Proof. unfold take1. destruct (chars s) eqn:E; simpl; rewrite ?E; simpl; lia. Qed.

Lemma take_while_len fuel p : forall s, length (chars (take_while fuel p s)) <= length (chars s).
Proof.
  induction fuel as [|f IH]; intro s; simpl; auto.
  destruct (chars s) as [|c r] eqn:E; [rewrite E; auto|]. destruct (p c); [|rewrite E; auto].
  etransitivity; [apply IH|]. rewrite <- E. apply take1_len_le.
Qed.

Lemma label_loop_len fuel : forall d s, length (chars (label_loop fuel d s)) <= length (chars s).
Proof.
  induction fuel as [|f IH]; intros d s; simpl; auto.
  destruct (chars s) as [|c r] eqn:E; [rewrite E; auto|].
  destruct (N.eqb c 123); [etransitivity; [apply IH|]; rewrite <- E; apply take1_len_le|].
  destruct (N.eqb c 125).
  - destruct d; [rewrite E; auto|]. etransitivity; [apply IH|]. rewrite <- E. apply take1_len_le.
  - etransitivity; [apply IH|]. rewrite <- E. apply take1_len_le.
Qed.

Lemma push_chars k s s' : push k s = Ok s' -> chars s' = chars s.
Proof.
  unfold push. destruct k; try (intro H; inversion H; reflexivity);
  destruct (float_of_str (value s)); intro H; inversion H; reflexivity.
Qed.

Lemma push_no_crash k s c : push k s <> Crash c.
Proof. unfold push. destruct k; try discriminate; destruct (float_of_str (value s)); discriminate. Qed.

Lemma identifier_or_label_len s s' : chars s <> [] -> identifier_or_label s = Ok s' -> length (chars s') < length (chars s).
Proof.
  intros Hne. unfold identifier_or_label. pose proof (take1_len s Hne) as H1.
  destruct (prev_kind (take1 s)) as [[]|]; intro H; apply push_chars in H; rewrite H;
  match goal with
  | |- length (chars (take_while ?n ?p ?x)) < _ => pose proof (take_while_len n p x)
  | |- length (chars (label_loop ?n ?d ?x)) < _ => pose proof (label_loop_len n d x)
  end; lia.
Qed.

Lemma num_sign_len s : length (chars (num_sign s)) <= length (chars s).
Proof.
  unfold num_sign. destruct (chars s) as [|c r] eqn:E; [rewrite E; auto|].
  destruct (N.eq_dec c 45) as [->|H45]; [rewrite <- E; apply take1_len_le|].
  destruct (N.eq_dec c 43) as [->|H43]; [rewrite <- E; apply take1_len_le|].
  assert (Hs : match c with 45%N | 43%N => take1 s | _ => s end = s).
  { destruct c as [|p]; auto. repeat (destruct p as [p|p|]; auto; try congruence). }
  replace (match c with 45%N | 43%N => take1 s | _ => s end) with s. rewrite E; auto.
Qed.

Lemma num_frac_len n s : length (chars (num_frac n s)) <= length (chars s).
Proof.
  unfold num_frac. destruct (chars s) as [|c r] eqn:E; [rewrite E; auto|].
  destruct (N.eq_dec c 46) as [->|H].
  - etransitivity; [apply take_while_len|]. rewrite <- E. apply take1_len_le.
  - assert (Hs : match c with 46%N => take_while n is_dig (take1 s) | _ => s end = s).
    { destruct c as [|p]; auto. repeat (destruct p as [p|p|]; auto; try congruence). }
    rewrite Hs, E. auto.
Qed.

Lemma num_exp_len n s : length (chars (num_exp n s)) <= length (chars s).
Proof.
  unfold num_exp. destruct (chars s) as [|c r] eqn:E; [rewrite E; auto|].
  destruct ((c =? 101) || (c =? 69))%N; [|rewrite E; auto].
  etransitivity; [apply take_while_len|]. etransitivity; [apply num_sign_len|]. rewrite <- E. apply take1_len_le.
Qed.

Lemma num_finish_len s s' : num_finish s = Ok s' -> length (chars s') <= length (chars s).
Proof.
  unfold num_finish. destruct (chars s) as [|c r] eqn:E.
  - intro H. apply push_chars in H. rewrite H, E. auto.
  - destruct ((c =? 102) || (c =? 70))%N; intro H; apply push_chars in H; rewrite H; simpl; rewrite ?E; simpl; lia.
Qed.

Lemma number_len s s' : chars s <> [] -> number s = Ok s' -> length (chars s') < length (chars s).
Proof.
  intros Hne H. unfold number in H. apply num_finish_len in H.
  pose proof (take1_len s Hne) as H1.
  pose proof (num_exp_len (length (chars s)) (num_frac (length (chars s)) (take_while (length (chars s)) is_dig (take1 s)))) as H2.
  pose proof (num_frac_len (length (chars s)) (take_while (length (chars s)) is_dig (take1 s))) as H3.
  pose proof (take_while_len (length (chars s)) is_dig (take1 s)) as H4.
  lia.
Qed.

Lemma main_loop_len s s' : chars s <> [] -> main_loop s = Ok s' -> length (chars s') < length (chars s).
Proof.
  intro Hne. unfold main_loop. destruct (chars s) as [|c r] eqn:E; [congruence|].
  destruct (special c).
  - intro H. apply push_chars in H. rewrite H. unfold take1. rewrite E. simpl. lia.
  - destruct (is_letter c).
    + intro H. apply identifier_or_label_len in H; [rewrite E in H; auto|congruence].
    + destruct (is_dig c || (c =? 45)%N && match r with d :: _ => is_dig d | [] => false end).
      * intro H. apply number_len in H; [rewrite E in H; auto|congruence].
      * destruct (is_ws c); [|discriminate]. intro H. inversion H. simpl. lia.
Qed.

Lemma main_loop_no_crash s c : main_loop s <> Crash c.
Proof.
  unfold main_loop. destruct (chars s) as [|ch r]; [discriminate|].
  destruct (special ch); [apply push_no_crash|].
  destruct (is_letter ch).
  - unfold identifier_or_label. destruct (prev_kind (take1 s)) as [[]|]; apply push_no_crash.
  - destruct (is_dig ch || (ch =? 45)%N && match r with d :: _ => is_dig d | [] => false end).
    + unfold number, num_finish. destruct (chars _) as [|c2 r2]; [apply push_no_crash|].
      destruct ((c2 =? 102) || (c2 =? 70))%N; apply push_no_crash.
    + destruct (is_ws ch); discriminate.
Qed.

Lemma scan_no_crash fuel : forall s c, length (chars s) < fuel -> scan fuel s <> Crash c.
Proof.
  induction fuel as [|f IH]; intros s c Hlt; [lia|].
  simpl. destruct (chars s) as [|ch r] eqn:E; [discriminate|].
  destruct (main_loop s) as [s'| |c'] eqn:Em; simpl; try discriminate.
  - apply IH. apply main_loop_len in Em; [|congruence]. rewrite E in Em. simpl in *. lia.
  - exfalso. apply (main_loop_no_crash s c'). auto.
Qed.

Theorem tokenize_total s : match tokenize s with Ok _ => True | Err e => e = ETokenizing \/ e = EValue | Crash _ => False end.
Proof.
  destruct (tokenize s) as [ts|e|c] eqn:E; auto.
  - (* errors are UnexpectedCharacter or the ValueError of float() *)
    unfold tokenize in E. revert E. generalize (S (length s)) (mkTS s [] [] 0 0 s). intros fuel.
    induction fuel as [|f IH]; intros st; simpl.
    + destruct (chars st); discriminate.
    + destruct (chars st) as [|ch r] eqn:Ec; [discriminate|].
      destruct (main_loop st) as [s'|e'|c'] eqn:Em; simpl; try discriminate; [apply IH|].
      intro H. inversion H; subst e'. clear H IH.
      unfold main_loop in Em. rewrite Ec in Em.
      assert (Hp : forall k s0, push k s0 = Err e -> e = EValue).
      { intros k s0. unfold push. destruct k; try discriminate; destruct (float_of_str (value s0)); try discriminate; intro H; inversion H; auto. }
      destruct (special ch); [right; eapply Hp; eauto|].
      destruct (is_letter ch).
      * unfold identifier_or_label in Em. destruct (prev_kind (take1 st)) as [[]|]; right; eapply Hp; eauto.
      * destruct (is_dig ch || (ch =? 45)%N && match r with d :: _ => is_dig d | [] => false end).
        -- unfold number, num_finish in Em. right. destruct (chars _) as [|c2 r2] in Em; [eapply Hp; eauto|].
           destruct ((c2 =? 102) || (c2 =? 70))%N in Em; eapply Hp; eauto.
        -- destruct (is_ws ch); [discriminate|]. inversion Em. auto.
  - exfalso. unfold tokenize in E. apply (scan_no_crash (S (length s)) (mkTS s [] [] 0 0 s) c); simpl; auto.
Qed.

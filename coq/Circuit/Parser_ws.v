(* Circuit/Parser_ws.v — the basic-syntax text with any amount of white space inserted before its brackets and symbols and at the end
   is scanned to the same tokens and parsed to the same tree as the text the printer wrote. *)
From Coq Require Import ZArith NArith QArith Bool List Lia.
From PV Require Import Base.Num Base.Outcome Circuit.ElemState Circuit.Tree Circuit.Token Circuit.Registry Circuit.Parser Circuit.Printer
  Circuit.Token_decode Circuit.Token_ws Circuit.Printer_lex Circuit.Parser_basic.
Import ListNotations.
Local Open Scope nat_scope.

Theorem basic_spaced_round_trip (reg : registry) :
  syms_valid reg = true -> syms_unique reg = true ->
  forall pf c n', pconn reg pf c = Some n' -> 2 * pf <= depth_budget ->
  forall (wits : list (str * item)) (trail : str),
  map snd wits = conn_items pf reg c -> forallb all_ws (map fst wits) = true -> all_ws trail = true ->
  exists ts, tokenize (spaced_text wits trail) = Ok ts /\ parse_tokens reg ts = Ok (top n').
Proof.
  intros Hv Hu pf c n' Hp Hd wits trail Hits Hws Ht.
  assert (Hv' : forall r, In r reg -> valid_symbol (r_sym r) = true).
  { intros r Hr. unfold syms_valid in Hv. rewrite forallb_forall in Hv. auto. }
  exists (ctoks reg pf c). split.
  - unfold ctoks. rewrite <- Hits. apply spaced_items_tokenize; [|exact Ht].
    pose proof (proj2 (items_ok pf reg Hv') c) as Hok. rewrite <- Hits in Hok.
    rewrite forallb_forall in Hws. clear -Hok Hws.
    revert Hok Hws. induction wits as [|[w i] wits IH]; intros Hok Hws; [constructor|]. cbn [map snd fst] in *.
    inversion Hok as [|? ? Hi Hok']; subst.
    constructor.
    + split; [apply Hws; left; reflexivity|exact Hi].
    + apply IH; [exact Hok'|]. intros x Hx. apply Hws. right. exact Hx.
  - apply basic_parse_tokens; [apply syms_unique_sound; exact Hu|exact Hp|exact Hd].
Qed.

(* Circuit/Imp_total.v — evaluated one frequency at a time the model of Series/Parallel._impedance ALWAYS returns (the only
   refusal of the array version, InfiniteImpedance for a vector that is open at some frequencies but not at others, cannot occur
   for a single frequency), and what it returns is the pointwise law: total correctness at one frequency. *)
From Coq Require Import Arith Bool List Lia.
From PV Require Import Base.Outcome Circuit.Imp Circuit.Imp_facts.
Import ListNotations.

Section Total.
Variable K : Type.
Variable k0 : K.
Variable kadd : K -> K -> K.
Variable kinv : K -> K.
Variable kis0 : K -> bool.
Variable leafv : nat -> list (ez K).
Hypothesis leaf_len : forall id, length (leafv id) = 1.

Notation impl1 := (impl K k0 kadd kinv kis0 leafv 1).

Lemma impl_len t v : impl1 t = Ok v -> length v = 1.
Proof.
  intro H. apply (impl_sound K k0 kadd kinv kis0 leafv 1 leaf_len) in H. subst v. unfold specv. rewrite map_length. reflexivity.
Qed.

Lemma ser_loop_total l : Forall (fun c => exists v, impl1 c = Ok v) l ->
  forall acc, exists v, ser_loop K kadd impl1 l acc = Ok v.
Proof.
  induction 1 as [|c l [z Hz] _ IH]; intro acc; simpl; [eauto|]. rewrite Hz. cbn [bind]. apply IH.
Qed.

Lemma par_loop_total l : Forall (fun c => exists v, impl1 c = Ok v) l ->
  forall total sh paths no, exists v, par_loop K k0 kadd kinv kis0 1 impl1 l total sh paths no = Ok v.
Proof.
  induction 1 as [|c l [z Hz] _ IH]; intros total sh paths no; cbn [par_loop].
  - destruct (forallb (fun b => b) sh); [eauto|]. destruct (Nat.eqb no total); eauto.
  - rewrite Hz. cbn [bind]. pose proof (impl_len c z Hz) as Hl.
    destruct z as [|z0 [|z1 zr]]; try discriminate Hl. unfold count. cbn [filter].
    destruct (ez_is_inf K z0); cbn [length Nat.eqb Nat.ltb Nat.leb]; [apply IH|].
    destruct (ez_is_zero K kis0 z0); cbn [length Nat.eqb Nat.ltb Nat.leb andb]; [eauto|]. apply IH.
Qed.

Theorem single_frequency_total : forall t, exists v, impl1 t = Ok v.
Proof.
  induction t as [id|l IHl|l IHl] using ctree_ind2.
  - simpl. eauto.
  - rewrite (impl_ser K k0 kadd kinv kis0 leafv 1). apply ser_loop_total. exact IHl.
  - destruct l as [|c l]; [simpl; eauto|].
    rewrite (impl_par K k0 kadd kinv kis0 leafv 1). apply par_loop_total. exact IHl.
Qed.

Theorem single_frequency_correct t :
  impl1 t = Ok [spec K k0 kadd kinv kis0 t (fun id => nth 0 (leafv id) Inf)].
Proof.
  destruct (single_frequency_total t) as [v Hv]. rewrite Hv.
  apply (impl_sound K k0 kadd kinv kis0 leafv 1 leaf_len) in Hv. subst v. reflexivity.
Qed.

End Total.

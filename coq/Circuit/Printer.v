(* Circuit/Printer.v — executable model of Element.to_string, Container.to_string, Series/Parallel.to_string,
   Circuit.to_string / serialize, including C's "%.<d>E" formatting on exact rationals (round-half-even on the
   exact value of the double, which is what glibc prints).  Model only. *)
From Coq Require Import ZArith QArith Qabs Bool List.
From PV Require Import Base.Num Base.Outcome Circuit.ElemState Circuit.Tree.
Import ListNotations.
Open Scope Z_scope.

Definition ch (c : Z) : N := Z.to_N c.

(* decimal digits of a non-negative integer, most significant first, at least [w] digits *)
Fixpoint digits_rev (fuel : nat) (z : Z) : list N :=
  match fuel with
  | O => []
  | S f => if z <? 10 then [ch (48 + z)] else ch (48 + z mod 10) :: digits_rev f (z / 10)
  end.
Definition dec_digits (z : Z) : list N := rev (digits_rev (S (Z.to_nat (Z.log2 (Z.max z 1)))) z).
Definition pad_left (w : nat) (l : list N) : list N := repeat 48%N (w - length l) ++ l.

Definition num_digits (z : Z) : Z := Z.of_nat (length (dec_digits z)).

Definition pow10 (e : Z) : Q := Qpower (10 # 1) e.

(* floor of a non-negative rational *)
Definition qfloor (q : Q) : Z := Qnum q / Z.pos (Qden q).

(* round to nearest integer, ties to even *)
Definition round_half_even (q : Q) : Z :=
  let n := qfloor q in
  let twice := ((2 # 1) * (q - inject_Z n))%Q in
  match Qcompare twice 1%Q with
  | Lt => n
  | Gt => n + 1
  | Eq => if Z.even n then n else n + 1
  end.

(* decimal exponent e with 10^e <= q < 10^(e+1), q > 0 *)
Definition dec_exponent (q : Q) : Z :=
  let est := num_digits (Qnum q) - num_digits (Z.pos (Qden q)) in
  if Qle_bool (pow10 (est + 1)) q then est + 1
  else if Qle_bool (pow10 est) q then est
  else if Qle_bool (pow10 (est - 1)) q then est - 1
  else est - 2.

Definition str_of (l : list Z) : str := map ch l.

(* "%.<d>E" % x *)
Definition fmtE (d : nat) (x : xnum) : str :=
  match x with
  | NaN => str_of [78; 65; 78]
  | PInf => str_of [73; 78; 70]
  | NInf => str_of [45; 73; 78; 70]
  | Fin q =>
      let neg := Qlt_le_dec q 0%Q in
      let a := Qabs q in
      let sign := if neg then [45%N] else [] in
      let dz := Z.of_nat d in
      let '(m, e) :=
        if Qeq_bool a 0%Q then (0, 0)
        else
          let e := dec_exponent a in
          let m := round_half_even (a * pow10 (dz - e))%Q in
          if Z.pow 10 (dz + 1) <=? m then (Z.pow 10 dz, e + 1) else (m, e) in
      let ds := pad_left (S d) (dec_digits m) in
      let mant := match ds with c :: r => c :: (match r with [] => [] | _ => 46%N :: r end) | [] => [] end in
      let es := pad_left 2 (dec_digits (Z.abs e)) in
      sign ++ mant ++ [69%N] ++ [if e <? 0 then 45%N else 43%N] ++ es
  end.

Definition str_inf' : str := str_of [105; 110; 102].

Definition param_string (d : nat) (name : str) (p : pstate) : str :=
  name ++ [61%N] ++ fmtE d (pv p) ++ (if pfx p then [70%N] else [])
  ++ [47%N] ++ (if is_inf (plo p) then str_inf' else fmtE d (plo p))
  ++ [47%N] ++ (if is_inf (phi p) then str_inf' else fmtE d (phi p)).

Fixpoint join (sep : str) (l : list str) : str :=
  match l with [] => [] | [x] => x | x :: r => x ++ sep ++ join sep r end.

(* lexicographic order on strings, for sorted(keys) *)
Fixpoint str_ltb (a b : str) : bool :=
  match a, b with
  | [], [] => false
  | [], _ => true
  | _, [] => false
  | x :: a', y :: b' => if (x <? y)%N then true else if (y <? x)%N then false else str_ltb a' b'
  end.
Fixpoint insert_sorted {A} (k : str) (v : A) (l : list (str * A)) : list (str * A) :=
  match l with
  | [] => [(k, v)]
  | (k', v') :: r => if str_ltb k k' then (k, v) :: l else (k', v') :: insert_sorted k v r
  end.
Definition sort_by_key {A} (l : list (str * A)) : list (str * A) :=
  fold_left (fun acc kv => insert_sorted (fst kv) (snd kv) acc) l [].

Definition nth_str (l : list str) (i : nat) : str := nth i l [].

(* decimals: None = -1 (basic syntax), Some d = d decimals *)
Fixpoint node_string (fuel : nat) (reg : registry) (dec : option nat) (n : node) : str :=
  match fuel with
  | O => []
  | S f =>
      match n with
      | NC c => conn_string f reg dec c
      | NE ci st subs =>
          match nth_error reg ci with
          | None => []
          | Some r =>
              match dec with
              | None => r_sym r
              | Some d =>
                  let params := join [44%N] (map (fun kp => param_string d (nth_str (r_keys r) (N.to_nat (fst kp))) (snd kp)) (epars st)) in
                  let label := match elabel st with [] => [] | l => 58%N :: l end in
                  let ending := params ++ label ++ [125%N] in
                  let subtxt :=
                    flat_map (fun ks =>
                      fst ks ++ [61%N] ++
                      (match snd ks with
                       | None => str_of [111; 112; 101; 110]
                       | Some c => if no_elements_conn f c then str_of [115; 104; 111; 114; 116]
                                   else conn_string f reg dec c
                       end) ++ [44%N; 32%N]) (sort_by_key (combine (r_subkeys r) subs)) in
                  let subtxt' := match ending with
                                 | c :: _ => if (N.eqb c 58 || N.eqb c 125) then removelast (removelast subtxt) else subtxt
                                 | [] => subtxt end in
                  r_sym r ++ [123%N] ++ (match r_subkeys r with [] => [] | _ => subtxt' end) ++ ending
              end
          end
      end
  end
with conn_string (fuel : nat) (reg : registry) (dec : option nat) (c : conn) : str :=
  match fuel with
  | O => []
  | S f =>
      match c with
      | Ser l => [91%N] ++ flat_map (node_string f reg dec) l ++ [93%N]
      | Par l => [40%N] ++ flat_map (node_string f reg dec) l ++ [41%N]
      end
  end.

(* a fuel that is enough for any tree: its size *)
Fixpoint node_size (fuel : nat) (n : node) : nat :=
  match fuel with
  | O => 1
  | S f =>
      match n with
      | NE _ _ subs => S (fold_right (fun oc acc => (match oc with Some c => conn_size f c | None => 0%nat end + acc)%nat) 0%nat subs)
      | NC c => S (conn_size f c)
      end
  end
with conn_size (fuel : nat) (c : conn) : nat :=
  match fuel with
  | O => 1
  | S f => match c with Ser l | Par l => S (fold_right (fun n acc => (node_size f n + acc)%nat) 0%nat l) end
  end.

Definition to_string (reg : registry) (dec : option nat) (c : conn) (fuel : nat) : str := conn_string fuel reg dec c.

(* Circuit.serialize(decimals): "!V=1!" ++ to_string *)
Definition serialize (reg : registry) (d : nat) (c : conn) (fuel : nat) : str :=
  str_of [33; 86; 61; 49; 33] ++ conn_string fuel reg (Some d) c.

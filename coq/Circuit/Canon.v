(* Circuit/Canon.v — comparison of circuit trees up to float rounding, the normal form the parser produces
   (merge directly nested connections of the same kind, unwrap one-element series), rounding of numbers to
   the printed precision.  Definitions only. *)
From Coq Require Import ZArith QArith Qabs Bool List.
From PV Require Import Base.Num Base.Outcome Circuit.ElemState Circuit.Tree Circuit.Printer.
Import ListNotations.

(* |a - b| <= 2^-48 * |b|  (decimal -> double conversion and one or two float operations) *)
Definition qclose (a b : Q) : bool :=
  Qle_bool (Qabs (a - b) * inject_Z (Z.pow 2 48)) (Qabs b) || Qeq_bool a b.
Definition xclose (a b : xnum) : bool :=
  match a, b with
  | Fin x, Fin y => qclose x y
  | PInf, PInf | NInf, NInf | NaN, NaN => true
  | _, _ => false
  end.
Definition pclose (p q : pstate) : bool :=
  xclose (pv p) (pv q) && xclose (plo p) (plo q) && xclose (phi p) (phi q) && Bool.eqb (pfx p) (pfx q).
Definition elt_close (a b : elt) : bool :=
  list_eqb N.eqb (elabel a) (elabel b) &&
  list_eqb (fun x y => N.eqb (fst x) (fst y) && pclose (snd x) (snd y)) (epars a) (epars b).

Fixpoint node_close (fuel : nat) (a b : node) : bool :=
  match fuel with
  | O => false
  | S f =>
      match a, b with
      | NE i s subs, NE j t subt =>
          Nat.eqb i j && elt_close s t &&
          list_eqb (fun x y => match x, y with
                               | None, None => true
                               | Some c, Some c' => conn_close f c c'
                               | _, _ => false end) subs subt
      | NC c, NC c' => conn_close f c c'
      | _, _ => false
      end
  end
with conn_close (fuel : nat) (a b : conn) : bool :=
  match fuel with
  | O => false
  | S f =>
      match a, b with
      | Ser l, Ser m => list_eqb (node_close f) l m
      | Par l, Par m => list_eqb (node_close f) l m
      | _, _ => false
      end
  end.

Definition outcome_close (fuel : nat) (a b : outcome conn) : bool :=
  match a, b with
  | Ok x, Ok y => conn_close fuel x y
  | Err e, Err e' => errkind_eqb e e'
  | Crash c, Crash c' => crashkind_eqb c c'
  | _, _ => false
  end.

(* ---- the parser's normal form --------------------------------------------------------------------- *)
Fixpoint norm_node (fuel : nat) (n : node) : node :=
  match fuel with
  | O => n
  | S f =>
      match n with
      | NE ci st subs => NE ci st (map (fun oc => match oc with
                                                  | Some c => Some (norm_sub f c)
                                                  | None => None end) subs)
      | NC c => NC (norm_conn f c)
      end
  end
with norm_conn (fuel : nat) (c : conn) : conn :=
  match fuel with
  | O => c
  | S f =>
      match c with
      | Ser l => Ser (flat_map (fun n => match norm_node f n with
                                         | NC (Ser l') => l'               (* merged; a one-element series unwraps *)
                                         | n' => [n'] end) l)
      | Par l => Par (flat_map (fun n => match norm_node f n with
                                         | NC (Par l') => l'
                                         | NC (Ser [NC (Par l')]) => l'     (* [(..)] inside a parallel *)
                                         | NC (Ser [x]) => [x]
                                         | n' => [n'] end) l)
      end
  end
with norm_sub (fuel : nat) (c : conn) : conn :=
  match fuel with
  | O => c
  | S f =>
      match norm_conn f c with
      | Ser [NC c'] => c'               (* X=[(RC)] is the parallel itself *)
      | c' => c'
      end
  end.

(* ---- rounding to d decimals of the mantissa (the value of the text "%.dE" prints) ---------------- *)
Definition round_dec (d : nat) (x : xnum) : xnum :=
  match x with
  | Fin q =>
      if Qeq_bool q 0 then Fin 0
      else
        let a := Qabs q in
        let dz := Z.of_nat d in
        let e := dec_exponent a in
        let m := round_half_even (a * pow10 (dz - e)) in
        let v := (inject_Z m * pow10 (e - dz))%Q in
        Fin (Qred (if Qlt_le_dec q 0 then - v else v))
  | _ => x
  end.

Definition round_pstate (d : nat) (p : pstate) : pstate :=
  mkP (round_dec d (pv p)) (round_dec d (plo p)) (round_dec d (phi p)) (pfx p).
Definition round_elt (d : nat) (e : elt) : elt :=
  mkE (elabel e) (map (fun kp => (fst kp, round_pstate d (snd kp))) (epars e)).

Fixpoint round_node (fuel : nat) (d : nat) (n : node) : node :=
  match fuel with
  | O => n
  | S f =>
      match n with
      | NE ci st subs => NE ci (round_elt d st) (map (fun oc => match oc with Some c => Some (round_conn f d c) | None => None end) subs)
      | NC c => NC (round_conn f d c)
      end
  end
with round_conn (fuel : nat) (d : nat) (c : conn) : conn :=
  match fuel with
  | O => c
  | S f => match c with Ser l => Ser (map (round_node f d) l) | Par l => Par (map (round_node f d) l) end
  end.

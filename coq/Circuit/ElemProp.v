(* Circuit/ElemProp.v — property C14 as a decidable predicate on *observed* traces.
   It mentions no model function of the setters: only what the property text says
   (read-back, refusal leaves the parameter alone, lo < hi, limit moves value, reset = defaults,
   copies equal, other instances and class defaults untouched).  The property theorem is
   [forall ops, holds_on c (model trace of ops) = true]; on a correspondence mismatch the
   implementation's trace is evaluated with the same predicate. *)
From Coq Require Import ZArith QArith Bool List.
From PV Require Import Base.Num Base.Outcome Circuit.ElemState.
Import ListNotations.

Inductive kind := Kvalue | Klower | Kupper | Kfixed.

(* the parameter that a successful update (k := v) establishes *)
Definition spec_upd (kd : kind) (p : pstate) (v : pyval) : option pstate :=
  match kd with
  | Kvalue => match to_float v with Ok x => Some (mkP x (plo p) (phi p) (pfx p)) | _ => None end
  | Klower => match to_float v with
              | Ok x => Some (mkP (if xltb (pv p) x then x else pv p) x (phi p) (pfx p))
              | _ => None end
  | Kupper => match to_float v with
              | Ok x => Some (mkP (if xltb x (pv p) then x else pv p) (plo p) x (pfx p))
              | _ => None end
  | Kfixed => match v with VBool b => Some (mkP (pv p) (plo p) (phi p) b) | _ => None end
  end.

Definition psame_opt (o : option pstate) (q : pstate) : bool :=
  match o with Some p => psame p q | None => false end.

Definition is_ok (r : res) : bool := match r with ROk => true | _ => false end.

(* lower limit strictly below upper limit, for every parameter *)
Definition inv_ps (ps : list (key * pstate)) : bool :=
  forallb (fun kp => xltb (plo (snd kp)) (phi (snd kp))) ps.

Definition same_keys (a b : list (key * pstate)) : bool :=
  list_eqb N.eqb (map fst a) (map fst b).

Definition setter_ok (kd : kind) (s : list (key * pstate)) (a : args) (r : res) (s' : list (key * pstate)) : bool :=
  same_keys s s' &&
  match merge a with
  | Ok pairs =>
      forallb (fun kp =>
        match lookup (fst kp) s' with
        | None => false
        | Some p' =>
            match lookup (fst kp) pairs with
            | None => psame (snd kp) p'                         (* not addressed: untouched *)
            | Some v =>
                if is_ok r then psame_opt (spec_upd kd (snd kp) v) p'      (* read-back *)
                else psame (snd kp) p' || psame_opt (spec_upd kd (snd kp) v) p'
            end
        end) s
      && (if is_ok r then forallb (fun kv => has_key (fst kv) s) pairs      (* nothing accepted for an unknown key *)
          else match pairs with [_] => pars_same s s' | _ => true end)      (* a refused single update changes nothing *)
  | _ => if is_ok r then true else pars_same s s'
  end.

Definition within_limits (ps : list (key * pstate)) : bool :=
  forallb (fun kp => xleb (plo (snd kp)) (pv (snd kp)) && xleb (pv (snd kp)) (phi (snd kp))) ps.

Definition all_known (ks : list key) (d : list (key * pstate)) : bool :=
  forallb (fun k => has_key k d) ks.

Definition reset_ok (d : list (key * pstate)) (ks : list key) (s : elt) (r : res) (s' : elt) : bool :=
  if all_known ks d then
    is_ok r && list_eqb N.eqb (elabel s) (elabel s') && same_keys (epars s) (epars s') &&
    forallb (fun kp =>
      match lookup (fst kp) (epars s'), lookup (fst kp) d with
      | Some p', Some dp =>
          if match ks with [] => true | _ => existsb (N.eqb (fst kp)) ks end
          then psame dp p' else psame (snd kp) p'
      | _, _ => false
      end) (epars s)
  else negb (is_ok r) && esame s s'.

Definition step_ok (c : cls) (s : elt) (o : eop) (ob : obs) : bool :=
  let s' := oelt ob in let r := ores ob in
  inv_ps (epars s') &&
  match o with
  | SetValues a => setter_ok Kvalue (epars s) a r (epars s') && list_eqb N.eqb (elabel s) (elabel s')
  | SetLower a => setter_ok Klower (epars s) a r (epars s') && list_eqb N.eqb (elabel s) (elabel s')
  | SetUpper a => setter_ok Kupper (epars s) a r (epars s') && list_eqb N.eqb (elabel s) (elabel s')
  | SetFixed a => setter_ok Kfixed (epars s) a r (epars s') && list_eqb N.eqb (elabel s) (elabel s')
  | SetLabel v =>
      if is_ok r then
        match v with VStr t => list_eqb N.eqb (elabel s') (strip t) | _ => false end
        && pars_same (epars s) (epars s')
      else esame s s'
  | ResetAll ks => reset_ok (cdefaults c) ks s r s'
  | ResetOne k => reset_ok (cdefaults c) [k] s r s'
  | Copy | DeepCopy =>
      esame s s' &&
      (if within_limits (epars s) then
         is_ok r && match ocopy ob with Some cp => esame s cp | None => false end
       else match ocopy ob with Some cp => is_ok r | None => negb (is_ok r) end)
  end.

(* whole-world step: the other instance and the class defaults are never changed *)
Fixpoint holds_on (c : cls) (other : elt) (s : elt) (t : list (eop * wobs)) : bool :=
  match t with
  | [] => true
  | (o, w) :: r =>
      step_ok c s o (wobs_o w) && esame other (wother w) && pars_same (cdefaults c) (wdefs w)
      && holds_on c other (oelt (wobs_o w)) r
  end.

(* admissible inputs of the theorem: no NaN among limit arguments (a NaN limit is accepted by the
   code and makes "lower < upper" false; see DESIGN.md, finding F20) *)
Definition arg_nanfree (a : args) : bool :=
  forallb (fun kv => match snd kv with VNum NaN => false | _ => true end) (kw a ++ pos a).
Definition op_nanfree (o : eop) : bool :=
  match o with SetLower a | SetUpper a => arg_nanfree a | _ => true end.

Definition wf_p (p : pstate) : bool :=
  xltb (plo p) (phi p) && negb (is_nan (plo p)) && negb (is_nan (phi p)).
Fixpoint nodup_keys {A} (l : list (key * A)) : bool :=
  match l with [] => true | (k, _) :: r => negb (has_key k r) && nodup_keys r end.
(* a class default additionally has its value inside its limits *)
Definition wf_default (p : pstate) : bool :=
  wf_p p && xleb (plo p) (pv p) && xleb (pv p) (phi p).
Definition wf_cls (c : cls) : bool :=
  forallb (fun kp => wf_default (snd kp)) (cdefaults c) && nodup_keys (cdefaults c).

Fixpoint nodup_list (l : list key) : bool :=
  match l with [] => true | k :: r => negb (existsb (N.eqb k) r) && nodup_list r end.
Definition op_kw_nodup (o : eop) : bool :=
  match o with
  | SetValues a | SetLower a | SetUpper a | SetFixed a => nodup_keys (kw a)
  | ResetAll ks => nodup_list ks      (* the keys are iterated from a Python set *)
  | _ => true end.
(* admissible operations: what Python can express (keyword arguments are distinct) and no NaN limit *)
Definition op_ok (o : eop) : bool := op_nanfree o && op_kw_nodup o.

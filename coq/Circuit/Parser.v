(* Circuit/Parser.v — executable model of pyimpspec.circuit.parser.Parser (token level) and of
   parse_cdc (string level): process, migrate, main_loop, connection (with flattening), element,
   parameters, subcircuit (both forms), param, param_limit, and the construction of elements through the
   parameter API modelled in ElemState.v.  Explicit stack, explicit errors, fuel for termination,
   a depth budget for Python's recursion limit.  Model only. *)
From Coq Require Import ZArith QArith Bool List.
From PV Require Import Base.Float53 Base.Num Base.Outcome Circuit.ElemState Circuit.Tree Circuit.Token.
Import ListNotations.

(* ParsingError subclasses, numbered *)
Definition PE_base := EParse 0.                (* ParsingError itself (too deeply nested) *)
Definition PE_insufficient := EParse 1.        (* InsufficientTokens *)
Definition PE_unexpected_token := EParse 2.
Definition PE_unexpected_ident := EParse 3.
Definition PE_expected_param_ident := EParse 4.
Definition PE_expected_number := EParse 5.
Definition PE_invalid_number := EParse 6.
Definition PE_conn_without_elements := EParse 7.
Definition PE_insufficient_parallel := EParse 8.
Definition PE_invalid_symbol := EParse 9.
Definition PE_duplicate_param := EParse 10.
Definition PE_invalid_param := EParse 11.
Definition PE_too_many_params := EParse 12.
Definition PE_invalid_lower := EParse 13.
Definition PE_invalid_upper := EParse 14.

Inductive sk := SkTok (k : tkind) | SkNode (n : node).

Record pst := mkPS { ptoks : list tok; pstack : list sk }.     (* stack: head = top, as insert(0, ..) *)

Definition accept (k : tkind) (p : pst) : bool :=
  match ptoks p with t :: _ => tkind_eqb (tk t) k | [] => false end.

Definition pop_token (p : pst) : outcome (tok * pst) :=
  match ptoks p with t :: r => Ok (t, mkPS r (pstack p)) | [] => Err PE_insufficient end.

Definition expect (k : tkind) (p : pst) : outcome unit :=
  match ptoks p with
  | [] => Err PE_insufficient
  | t :: _ => if tkind_eqb (tk t) k then Ok tt else Err PE_unexpected_token
  end.

Definition expect_number (p : pst) : outcome unit :=
  match ptoks p with
  | [] => Err PE_expected_number
  | t :: _ => match tk t with KNumber | KFixed => Ok tt | _ => Err PE_expected_number end
  end.

Definition push_stack (x : sk) (p : pst) : pst := mkPS (ptoks p) (x :: pstack p).

(* ---- numbers of a parameter definition -------------------------------------------------------------- *)
(* sign of a number as IEEE multiplication sees it: Some true = positive, Some false = negative, None = zero or NaN *)
Definition xsign (x : xnum) : option bool :=
  match x with
  | Fin q => if Qlt_le_dec 0 q then Some true else if Qlt_le_dec q 0 then Some false else None
  | PInf => Some true | NInf => Some false | NaN => None
  end.
Definition xmul_div100 (v l : xnum) : xnum :=      (* value * limit / 100 *)
  match v, l with
  | Fin a, Fin b => Fin (fl53 (fl53 (a * b) / 100))     (* two correctly rounded binary64 operations *)
  | NaN, _ | _, NaN => NaN
  | _, _ =>                                         (* an infinite factor (a number token beyond the double range reads as inf): inf * 0 = nan *)
      match xsign v, xsign l with
      | Some s1, Some s2 => if Bool.eqb s1 s2 then PInf else NInf
      | _, _ => NaN
      end
  end.

Definition str_inf : str := [105; 110; 102]%N.
Definition str_zero : str := [122; 101; 114; 111]%N.
Definition str_short : str := [115; 104; 111; 114; 116]%N.
Definition str_open : str := [111; 112; 101; 110]%N.

Definition param_limit (value : xnum) (upper : bool) (p : pst) : outcome (xnum * pst) :=
  if negb (accept KNumber p) then
    let* _ := expect KIdent p in
    let* (t, p1) := pop_token p in
    if negb (str_eqb (tstr t) str_inf) then Err EValue
    else Ok (if upper then PInf else NInf, p1)
  else
    let* (t, p1) := pop_token p in
    if accept KPct p1 then
      let* (_, p2) := pop_token p1 in Ok (xmul_div100 value (tnum t), p2)
    else Ok (tnum t, p1).

(* param(): value, lower, upper (NaN = not given), fixed *)
Definition param (p : pst) : outcome ((xnum * xnum * xnum * bool) * pst) :=
  let* _ := expect_number p in
  let* (vt, p1) := pop_token p in
  let fixed := tkind_eqb (tk vt) KFixed in
  let v := tnum vt in
  if accept KSlash p1 then
    let* (_, p2) := pop_token p1 in
    if accept KSlash p2 then
      let* (_, p3) := pop_token p2 in
      let* (up, p4) := param_limit v true p3 in
      Ok ((v, NaN, up, fixed), p4)
    else
      let* (lo, p3) := param_limit v false p2 in
      if accept KSlash p3 then
        let* (_, p4) := pop_token p3 in
        let* (up, p5) := param_limit v true p4 in
        Ok ((v, lo, up, fixed), p5)
      else Ok ((v, lo, NaN, fixed), p3)
  else Ok ((v, NaN, NaN, fixed), p1).

(* ---- building an element from what parameters() returned ---------------------------------------- *)
Record pdefs := mkPD {
  pd_label : str;
  pd_params : list (key * xnum);       (* in the order written *)
  pd_lower : list (key * xnum);
  pd_upper : list (key * xnum);
  pd_fixed : list (key * bool);
  pd_subs : list (nat * option conn) }. (* sub-circuit index, value *)

Definition empty_defs : pdefs := mkPD [] [] [] [] [] [].

Definition res_to_outcome {A} (er : A * res) : outcome A :=
  match snd er with ROk => Ok (fst er) | RErr e => Err e | RCrash c => Crash c end.

Definition nonnan (l : list (key * xnum)) : list (key * xnum) := filter (fun kv => negb (is_nan (snd kv))) l.
Definition kwnum (l : list (key * xnum)) : args := mkA (map (fun kv => (fst kv, VNum (snd kv))) l) [] false.

Fixpoint replace_nth {A} (n : nat) (x : A) (l : list A) : list A :=
  match l, n with
  | [], _ => []
  | _ :: r, O => x :: r
  | y :: r, S m => y :: replace_nth m x r
  end.

Definition build_element (ci : nat) (r : rcls) (d : pdefs) : outcome node :=
  (* Class( **parameters, **subcircuits) *)
  let e0 := mkE [] (map (fun kp => match lookup (fst kp) (pd_params d) with
                                   | Some x => (fst kp, mkP x (plo (snd kp)) (phi (snd kp)) (pfx (snd kp)))
                                   | None => kp end) (cdefaults (r_cls r))) in
  let subs := fold_left (fun acc iv => replace_nth (fst iv) (snd iv) acc) (pd_subs d) (r_subdefaults r) in
  (* element.set_label(label) *)
  let* e1 := res_to_outcome (set_label e0 (VStr (pd_label d))) in
  (* element._set_limits(lower, upper): lower -> -inf, upper, lower *)
  let lo := nonnan (pd_lower d) in
  let up := nonnan (pd_upper d) in
  let* e2 := res_to_outcome (setter g_lower e1 (kwnum (map (fun kv => (fst kv, NInf)) lo))) in
  let* e3 := res_to_outcome (setter g_upper e2 (kwnum up)) in
  let* e4 := res_to_outcome (setter g_lower e3 (kwnum lo)) in
  (* element.set_fixed( **fixed) *)
  let* e5 := res_to_outcome (setter g_fixed e4 (mkA (map (fun kv => (fst kv, VBool (snd kv))) (pd_fixed d)) [] false)) in
  Ok (NE ci e5 subs).

(* ---- connection(): collect the items above the opening token -------------------------------------- *)
Definition conn_kind_is (series : bool) (n : node) : option (list node) :=
  match n with
  | NC (Ser l) => if series then Some l else None
  | NC (Par l) => if series then None else Some l
  | _ => None
  end.

(* pops until the opening token; [items] is built exactly as the code does (append / extend(reversed)) and
   reversed at the end by the caller *)
Fixpoint collect (opening : tkind) (series : bool) (stack : list sk) (items : list sk) : list sk * list sk :=
  match stack with
  | [] => (items, [])
  | SkTok k :: rest =>
      if tkind_eqb k opening then (items, rest) else collect opening series rest (items ++ [SkTok k])
  | SkNode n :: rest =>
      match conn_kind_is series n with
      | Some l => collect opening series rest (items ++ map SkNode (rev l))
      | None => collect opening series rest (items ++ [SkNode n])
      end
  end.

Fixpoint all_nodes (l : list sk) : option (list node) :=
  match l with
  | [] => Some []
  | SkNode n :: r => match all_nodes r with Some ns => Some (n :: ns) | None => None end
  | SkTok _ :: _ => None
  end.

Definition finish_connection (opening : tkind) (series : bool) (p : pst) : outcome pst :=
  let '(items, rest) := collect opening series (pstack p) [] in
  match items with
  | [] => Err EValue
  | _ =>
      if negb series && Nat.ltb (length items) 2 then Err PE_insufficient_parallel
      else match all_nodes items with
           | None => Err EType
           | Some ns =>
               let ns := rev ns in
               match series, ns with
               | true, [n] => Ok (mkPS (ptoks p) (SkNode n :: rest))
               | true, _ => Ok (mkPS (ptoks p) (SkNode (NC (Ser ns)) :: rest))
               | false, _ => Ok (mkPS (ptoks p) (SkNode (NC (Par ns)) :: rest))
               end
           end
  end.

Definition is_param_end (p : pst) : bool :=
  match ptoks p with
  | t :: _ => match tk t with KComma | KColon | KRCur => true | _ => false end
  | [] => false
  end.

Fixpoint pop_above (n : nat) (stack : list sk) (acc : list node) : outcome (list node * list sk) :=
  (* while len(stack) > n: con = pop_stack(); elements.insert(0, con) *)
  if Nat.leb (length stack) n then Ok (acc, stack)
  else match stack with
       | SkNode x :: rest => pop_above n rest (x :: acc)
       | SkTok _ :: _ => Err PE_unexpected_token
       | [] => Ok (acc, stack)
       end.

Definition remove_str (s : str) (l : list str) : list str :=
  (fix go l := match l with [] => [] | x :: r => if str_eqb s x then r else x :: go r end) l.
Definition mem_str (s : str) (l : list str) : bool := existsb (str_eqb s) l.

(* ---- the mutually recursive core -------------------------------------------------------------------- *)
(* [fuel] bounds the number of calls (termination); [depth] is the remaining nesting budget: the
   implementation converts Python's RecursionError into ParsingError *)
Fixpoint main_loop (fuel depth : nat) (reg : registry) (p : pst) : outcome pst :=
  match fuel with
  | O => Crash COutOfFuel
  | S f =>
      if accept KLBr p then connection f depth reg KLBr KRBr true p
      else if accept KLPar p then connection f depth reg KLPar KRPar false p
      else if accept KIdent p then element f depth reg p
      else match ptoks p with _ :: _ => Err PE_unexpected_token | [] => Err PE_insufficient end
  end

with connection (fuel depth : nat) (reg : registry) (opening closing : tkind) (series : bool) (p : pst) : outcome pst :=
  match fuel with
  | O => Crash COutOfFuel
  | S f =>
      match depth with
      | O | S O => Err PE_base
      | S (S d) =>                      (* two Python frames per nesting level: main_loop + connection *)
          let* (t, p1) := pop_token p in
          let p2 := push_stack (SkTok (tk t)) p1 in
          if accept closing p2 then Err PE_conn_without_elements
          else
            let* p3 := (fix loop (n : nat) (q : pst) : outcome pst :=
                          if accept closing q then Ok q
                          else match n with
                               | O => Crash COutOfFuel
                               | S m => let* q' := main_loop f d reg q in loop m q'
                               end) f p2 in
            let* _ := expect closing p3 in
            let* (_, p4) := pop_token p3 in
            finish_connection opening series p4
      end
  end

with element (fuel depth : nat) (reg : registry) (p : pst) : outcome pst :=
  match fuel with
  | O => Crash COutOfFuel
  | S f =>
      let* (idt, p1) := pop_token p in
      match find_sym (tstr idt) reg 0 with
      | None => Err PE_invalid_symbol
      | Some (ci, r) =>
          let* (d, p2) := parameters f depth reg r p1 in
          let* n := build_element ci r d in
          Ok (push_stack (SkNode n) p2)
      end
  end

with parameters (fuel depth : nat) (reg : registry) (r : rcls) (p : pst) : outcome (pdefs * pst) :=
  match fuel with
  | O => Crash COutOfFuel
  | S f =>
      if negb (accept KLCur p) then Ok (empty_defs, p)
      else
        let* (_, p1) := pop_token p in
        let* (d, p2) :=
          if accept KColon p1 then Ok (empty_defs, p1)
          else
            (fix loop (n : nat) (pkeys skeys : list str) (d : pdefs) (q : pst) : outcome (pdefs * pst) :=
               match pkeys, skeys with
               | [], [] => Ok (d, q)
               | _, _ =>
                 match n with
                 | O => Crash COutOfFuel
                 | S m =>
                   if negb (accept KIdent q) then Err PE_expected_param_ident
                   else
                     let* (kt, q1) := pop_token q in
                     let key := tstr kt in
                     let* _ := expect KEq q1 in
                     let* (_, q2) := pop_token q1 in
                     let* (pk, sk', d', q3) :=
                       if accept KLBr q2 || accept KLPar q2 || accept KIdent q2 then
                         match index_of key (r_subkeys r) 0 with
                         | Some si =>
                             if existsb (fun iv => Nat.eqb (fst iv) si) (pd_subs d) then Err PE_duplicate_param
                             else if negb (mem_str key skeys) then Err PE_invalid_param
                             else
                               let* (oc, q3) := subcircuit f depth reg q2 in
                               Ok (pkeys, remove_str key skeys,
                                   mkPD (pd_label d) (pd_params d) (pd_lower d) (pd_upper d) (pd_fixed d) (pd_subs d ++ [(si, oc)]), q3)
                         | None => Err PE_invalid_param
                         end
                       else
                         match index_of key (r_keys r) 0 with
                         | Some ki =>
                             let k := N.of_nat ki in
                             if has_key k (pd_params d) then Err PE_duplicate_param
                             else if negb (mem_str key pkeys) then Err PE_invalid_param
                             else
                               let* (vals, q3) := param q2 in
                               let '(v, lo, up, fx) := vals in
                               if negb (is_nan lo) && xltb v lo then Err PE_invalid_lower
                               else if negb (is_nan up) && xltb up v then Err PE_invalid_upper
                               else Ok (remove_str key pkeys, skeys,
                                        mkPD (pd_label d) (pd_params d ++ [(k, v)]) (pd_lower d ++ [(k, lo)])
                                             (pd_upper d ++ [(k, up)]) (pd_fixed d ++ [(k, fx)]) (pd_subs d), q3)
                         | None => Err PE_invalid_param
                         end in
                     if accept KComma q3 then
                       match pk, sk' with
                       | [], [] => Err PE_too_many_params
                       | _, _ => let* (_, q4) := pop_token q3 in loop m pk sk' d' q4
                       end
                     else Ok (d', q3)
                 end
               end) f (r_keys r) (r_subkeys r) empty_defs p1 in
        let* (d3, p3) :=
          if accept KColon p2 then
            let* (_, q1) := pop_token p2 in
            let* _ := expect KLabel q1 in
            let* (lt, q2) := pop_token q1 in
            Ok (mkPD (tstr lt) (pd_params d) (pd_lower d) (pd_upper d) (pd_fixed d) (pd_subs d), q2)
          else Ok (d, p2) in
        let* _ := expect KRCur p3 in
        let* (_, p4) := pop_token p3 in
        Ok (d3, p4)
  end

with subcircuit (fuel depth0 : nat) (reg : registry) (p : pst) : outcome (option conn * pst) :=
  match fuel with
  | O => Crash COutOfFuel
  | S f =>
     match depth0 with
     | O | S O | S (S O) | S (S (S O)) => Err PE_base
     | S (S (S (S depth))) =>           (* four frames: main_loop, element, parameters, subcircuit *)
      if accept KIdent p then
        match ptoks p with
        | [] => Err EType
        | t :: _ =>
            if str_eqb (tstr t) str_zero || str_eqb (tstr t) str_short then
              let* (_, p1) := pop_token p in Ok (Some (Ser []), p1)
            else if str_eqb (tstr t) str_inf || str_eqb (tstr t) str_open then
              let* (_, p1) := pop_token p in Ok (None, p1)
            else
              let n0 := length (pstack p) in
              let* p1 := (fix loop (n : nat) (q : pst) : outcome pst :=
                            if is_param_end q then Ok q
                            else match ptoks q with
                                 | [] => Err PE_insufficient
                                 | _ => match n with
                                        | O => Crash COutOfFuel
                                        | S m => let* q' := main_loop f depth reg q in loop m q'
                                        end
                                 end) f p in
              let* (els, rest) := pop_above n0 (pstack p1) [] in
              Ok (Some (Ser els), mkPS (ptoks p1) rest)
        end
      else
        let series := accept KLBr p in
        let* p1 := if series then connection f depth reg KLBr KRBr true p
                   else connection f depth reg KLPar KRPar false p in
        match pstack p1 with
        | [] => Err EValue
        | SkTok _ :: _ => Err EType
        | SkNode (NE ci st subs) :: rest => Ok (Some (Ser [NE ci st subs]), mkPS (ptoks p1) rest)
        | SkNode (NC c) :: rest => Ok (Some c, mkPS (ptoks p1) rest)
        end
     end
  end.

(* ---- migrate(): the version header -------------------------------------------------------------------- *)
Definition upper_char (c : N) : N := if is_lower c then (c - 32)%N else c.

Definition migrate (p : pst) : outcome pst :=
  if accept KExcl p then
    let* (_, p1) := pop_token p in
    let* _ := expect KIdent p1 in
    let* (t, p2) := pop_token p1 in
    if negb (str_eqb (map upper_char (tstr t)) [86%N]) then Err PE_unexpected_ident
    else
      let* _ := expect KEq p2 in
      let* (_, p3) := pop_token p2 in
      let* _ := expect_number p3 in
      let* (vt, p4) := pop_token p3 in
      (* 0 < value < VERSION + 1, then int(value) must satisfy 0 < version <= VERSION *)
      if negb (xltb (Fin 0) (tnum vt) && xltb (tnum vt) (Fin 2)) then Err PE_invalid_number
      else if xltb (tnum vt) (Fin 1) then Err PE_invalid_number       (* int(0.5) = 0 *)
      else
        let* _ := expect KExcl p4 in
        let* (_, p5) := pop_token p4 in
        Ok p5
  else Ok p.

(* ---- process() ------------------------------------------------------------------------------------------- *)
(* Python's limit is 1000 frames minus those of the caller; the generator stays below 200 or far above 1000 *)
Definition depth_budget : nat := 600.

Fixpoint drop_ws (s : str) : str := match s with c :: r => if ElemState.is_space c then drop_ws r else s | [] => [] end.
Definition pstrip (s : str) : str := rev (drop_ws (rev (drop_ws s))).

Fixpoint after_second_excl (s : str) : option str :=      (* s = the text after the first "!" *)
  match s with [] => None | c :: r => if N.eqb c 33 then Some r else after_second_excl r end.

Definition is_empty_circuit (s : str) : bool :=
  match s with
  | [] => true
  | [91; 93]%N => true
  | 33%N :: r => match after_second_excl r with Some [91; 93]%N => true | _ => false end
  | _ => false
  end.

Definition assemble (p : pst) : outcome conn :=
  match pstack p with
  | _ :: _ :: _ =>
      match all_nodes (pstack p) with
      | Some ns => Ok (Ser (rev ns))
      | None => Err EType
      end
  | [SkNode (NC (Ser l))] => Ok (Ser l)
  | [SkNode n] => Ok (Ser [n])
  | [SkTok _] => Err EType         (* Circuit(token) raises TypeError *)
  | [] => Err EValue               (* "Ran out of items on the stack!" *)
  end.

Definition parse_tokens (reg : registry) (ts : list tok) : outcome conn :=
  let fuel := (4 * length ts + 10)%nat in
  let* p0 := migrate (mkPS ts []) in
  let* p1 := (fix loop (n : nat) (q : pst) : outcome pst :=
                match ptoks q with
                | [] => Ok q
                | _ => match n with
                       | O => Crash COutOfFuel
                       | S m => let* q' := main_loop fuel depth_budget reg q in loop m q'
                       end
                end) fuel p0 in
  assemble p1.

Definition parse (reg : registry) (s : str) : outcome conn :=
  let s := pstrip s in
  if is_empty_circuit s then Ok (Ser [])
  else
    let* ts := tokenize s in
    match ts with
    | [] => assemble (mkPS [] [])
    | _ => parse_tokens reg ts
    end.

(* Circuit/Parser_basic.v — the syntactic half of the basic-syntax round trip: the parser rebuilds, from the tokens of
   to_string(-1), the printed tree with default elements, nested same-kind connections merged and one-element series
   unwrapped — for every tree. *)
From Coq Require Import ZArith NArith QArith Bool List Lia.
From PV Require Import Base.Num Base.Outcome Circuit.ElemState Circuit.Tree Circuit.Token Circuit.Registry Circuit.Parser Circuit.Printer
  Circuit.Parser_facts Circuit.Token_decode Circuit.Printer_lex.
Import ListNotations.
Local Open Scope nat_scope.

Section Basic.
Variable reg : registry.
(* symbols are distinct: looking a printed symbol up finds the class that printed it *)
Hypothesis Hsyms : forall ci r, nth_error reg ci = Some r -> find_sym (r_sym r) reg 0 = Some (ci, r).

Definition expand (series : bool) (n : node) : list node :=
  match conn_kind_is series n with Some l => l | None => [n] end.

Definition flat_children (pn : node -> option node) (series : bool) : list node -> option (list node) :=
  fix go (l : list node) : option (list node) :=
    match l with
    | [] => Some []
    | x :: r => match pn x, go r with
                | Some n', Some rest => Some (expand series n' ++ rest)
                | _, _ => None
                end
    end.

(* what connection() leaves on the stack for the (flattened) items between the brackets *)
Definition wrap (series : bool) (items : list node) : option node :=
  if series then match items with [] => None | [x] => Some x | _ => Some (NC (Ser items)) end
  else if length items <? 2 then None else Some (NC (Par items)).

(* what the parser builds from the printed form of a node; None = the text is rejected (or the printing fuel ran out);
   the fuel follows the printer's (node_string / conn_string) *)
Fixpoint pnode (pf : nat) (n : node) : option node :=
  match pf with
  | O => None
  | S f =>
      match n with
      | NE ci _ _ =>
          match nth_error reg ci with
          | Some r => match build_element ci r empty_defs with Ok n' => Some n' | _ => None end
          | None => None
          end
      | NC c => pconn f c
      end
  end
with pconn (pf : nat) (c : conn) : option node :=
  match pf with
  | O => None
  | S f =>
      match c with
      | Ser l => match flat_children (pnode f) true l with Some items => wrap true items | None => None end
      | Par l => match flat_children (pnode f) false l with Some items => wrap false items | None => None end
      end
  end.

Definition ntoks (pf : nat) (n : node) : list tok := map item_tok (node_items pf reg n).
Definition ctoks (pf : nat) (c : conn) : list tok := map item_tok (conn_items pf reg c).

Definition head_not_lcur (rest : list tok) : Prop :=
  match rest with t :: _ => tk t <> KLCur | [] => True end.

(* the first token of a printed node is never a closing bracket *)
Definition opens (ts : list tok) : Prop :=
  exists t r, ts = t :: r /\ (tk t = KLBr \/ tk t = KLPar \/ tk t = KIdent).

Lemma toks_head pf :
  (forall n n' rest, pnode pf n = Some n' -> opens (ntoks pf n ++ rest)) /\
  (forall c n' rest, pconn pf c = Some n' -> opens (ctoks pf c ++ rest)).
Proof.
  induction pf as [|f [IHn IHc]]; [split; intros; discriminate|]. split.
  - intros [ci st subs|c] n' rest; unfold ntoks; simpl.
    + destruct (nth_error reg ci); [|discriminate]. intros _. eexists; eexists; split; [reflexivity|auto].
    + apply IHc.
  - intros [l|l] n' rest _; unfold ctoks; simpl; eexists; eexists; split; try reflexivity; auto.
Qed.

Lemma collect_exact opening series base : forall ns items,
  collect opening series (map SkNode ns ++ SkTok opening :: base) (map SkNode items)
  = (map SkNode (items ++ flat_map (fun n => rev (expand series n)) ns), base).
Proof.
  induction ns as [|n ns IH]; intros items; simpl.
  - assert (E : tkind_eqb opening opening = true) by (destruct opening; auto). rewrite E, app_nil_r. reflexivity.
  - unfold expand. destruct (conn_kind_is series n) as [l|] eqn:Ek.
    + rewrite <- map_app, IH, <- app_assoc. reflexivity.
    + change [SkNode n] with (map SkNode [n]). rewrite <- map_app, IH, <- app_assoc. reflexivity.
Qed.

Lemma rev_flat_map_rev {A B} (g : A -> list B) (l : list A) :
  rev (flat_map (fun x => rev (g x)) (rev l)) = flat_map g l.
Proof.
  induction l as [|x l IH]; simpl; auto.
  rewrite flat_map_app, rev_app_distr, IH. simpl. rewrite app_nil_r, rev_involutive. reflexivity.
Qed.

Lemma flat_children_inv pn series : forall l items,
  flat_children pn series l = Some items ->
  exists l', Forall2 (fun x x' => pn x = Some x') l l' /\ items = flat_map (expand series) l'.
Proof.
  induction l as [|x l IH]; simpl; intros items H.
  - inversion H. exists []. split; [constructor|reflexivity].
  - destruct (pn x) as [x'|] eqn:Ex; [|discriminate].
    destruct (flat_children pn series l) as [rest|] eqn:Er; [|discriminate].
    inversion H; subst. destruct (IH rest eq_refl) as (l' & Hf & ->).
    exists (x' :: l'). split; [constructor; auto|reflexivity].
Qed.

Lemma finish_exact opening series toks0 st l' n' :
  wrap series (flat_map (expand series) l') = Some n' ->
  finish_connection opening series (mkPS toks0 (map SkNode (rev l') ++ SkTok opening :: st)) = Ok (mkPS toks0 (SkNode n' :: st)).
Proof.
  intro Hw. unfold finish_connection. cbn [pstack ptoks].
  change (@nil sk) with (map SkNode []). rewrite collect_exact. cbn [app].
  set (items := flat_map (expand series) l') in *.
  assert (HX : flat_map (fun n => rev (expand series n)) (rev l') = rev items).
  { rewrite <- (rev_involutive (flat_map _ (rev l'))). rewrite rev_flat_map_rev. reflexivity. }
  rewrite HX. clear HX.
  destruct items as [|a b] eqn:Ei.
  { unfold wrap in Hw. destruct series; discriminate. }
  destruct (map SkNode (rev (a :: b))) as [|s0 s1] eqn:Em.
  { apply (f_equal (@length _)) in Em. rewrite map_length, rev_length in Em. discriminate. }
  rewrite <- Em. rewrite map_length, rev_length, all_nodes_map, rev_involutive.
  unfold wrap in Hw. destruct series; cbn [negb andb].
  - destruct b as [|b1 b2]; inversion Hw; reflexivity.
  - destruct (length (a :: b) <? 2); [discriminate|]. inversion Hw. reflexivity.
Qed.

(* ---- unfolding equations for the mutually recursive parser ------------------------------------------------ *)
Fixpoint conn_loop (f d : nat) (closing : tkind) (n : nat) (q : pst) : outcome pst :=
  if accept closing q then Ok q
  else match n with
       | O => Crash COutOfFuel
       | S m => let* q' := main_loop f d reg q in conn_loop f d closing m q'
       end.

Lemma main_loop_S f D p :
  main_loop (S f) D reg p =
  if accept KLBr p then connection f D reg KLBr KRBr true p
  else if accept KLPar p then connection f D reg KLPar KRPar false p
  else if accept KIdent p then element f D reg p
  else match ptoks p with _ :: _ => Err PE_unexpected_token | [] => Err PE_insufficient end.
Proof. reflexivity. Qed.

Lemma connection_S f d opening closing series p :
  connection (S f) (S (S d)) reg opening closing series p =
  let* (t, p1) := pop_token p in
  let p2 := push_stack (SkTok (tk t)) p1 in
  if accept closing p2 then Err PE_conn_without_elements
  else
    let* p3 := conn_loop f d closing f p2 in
    let* _ := expect closing p3 in
    let* (_, p4) := pop_token p3 in
    finish_connection opening series p4.
Proof.
  simpl. destruct (pop_token p) as [[t p1]|e|c]; simpl; auto.
  destruct (accept closing (push_stack (SkTok (tk t)) p1)); auto.
  set (L := fix loop (n : nat) (q : pst) {struct n} : outcome pst :=
              if accept closing q then Ok q
              else match n with
                   | 0 => Crash COutOfFuel
                   | S m => let* q' := main_loop f d reg q in loop m q'
                   end).
  assert (HL : forall n q, L n q = conn_loop f d closing n q).
  { induction n as [|m IH]; intro q; simpl; destruct (accept closing q); auto.
    destruct (main_loop f d reg q); simpl; auto. }
  rewrite HL. reflexivity.
Qed.

Lemma element_S f D p :
  element (S f) D reg p =
  let* (idt, p1) := pop_token p in
  match find_sym (tstr idt) reg 0 with
  | None => Err PE_invalid_symbol
  | Some (ci, r) =>
      let* (d, p2) := parameters f D reg r p1 in
      let* n := build_element ci r d in
      Ok (push_stack (SkNode n) p2)
  end.
Proof. reflexivity. Qed.

Lemma parameters_S_plain f D r p : accept KLCur p = false -> parameters (S f) D reg r p = Ok (empty_defs, p).
Proof. intro H. cbn [parameters]. rewrite H. reflexivity. Qed.

Lemma tkind_eqb_refl k : tkind_eqb k k = true.
Proof. destruct k; reflexivity. Qed.
Lemma tkind_eqb_neq a b : a <> b -> tkind_eqb a b = false.
Proof. destruct a, b; try reflexivity; intro H; exfalso; apply H; reflexivity. Qed.

Lemma accept_cons k t r st : accept k (mkPS (t :: r) st) = tkind_eqb (tk t) k.
Proof. reflexivity. Qed.

Lemma accept_lcur_rest rest st : head_not_lcur rest -> accept KLCur (mkPS rest st) = false.
Proof. destruct rest as [|t r]; simpl; auto. intro H. unfold accept. simpl. apply tkind_eqb_neq. exact H. Qed.

Lemma map_flat_map_items f l : map item_tok (flat_map (node_items f reg) l) = flat_map (ntoks f) l.
Proof. induction l as [|x l IH]; simpl; auto. rewrite map_app, IH. reflexivity. Qed.

Definition P_node (pf : nat) : Prop := forall n n' F D st rest,
  pnode pf n = Some n' -> 2 * length (ntoks pf n) + 1 <= F -> 2 * pf <= D -> head_not_lcur rest ->
  main_loop F D reg (mkPS (ntoks pf n ++ rest) st) = Ok (mkPS rest (SkNode n' :: st)).
Definition P_conn (pf : nat) : Prop := forall c n' F D st rest,
  pconn pf c = Some n' -> 2 * length (ctoks pf c) + 1 <= F -> 2 * pf <= D -> head_not_lcur rest ->
  main_loop F D reg (mkPS (ctoks pf c ++ rest) st) = Ok (mkPS rest (SkNode n' :: st)).

Lemma opens_not_closing ts closing st :
  opens ts -> closing = KRBr \/ closing = KRPar -> accept closing (mkPS ts st) = false.
Proof.
  intros (t & r & -> & Hk) Hc. rewrite accept_cons.
  destruct Hc as [-> | ->]; destruct Hk as [-> | [-> | ->]]; reflexivity.
Qed.
Lemma opens_not_lcur ts : opens ts -> head_not_lcur ts.
Proof. intros (t & r & -> & Hk). simpl. destruct Hk as [-> | [-> | ->]]; discriminate. Qed.

Lemma ntoks_len pf x x' : pnode pf x = Some x' -> 1 <= length (ntoks pf x).
Proof.
  intro H. destruct (proj1 (toks_head pf) x x' [] H) as (t & r & E & _). rewrite app_nil_r in E. rewrite E. simpl. lia.
Qed.

Lemma flat_len pf l l' : Forall2 (fun x x' => pnode pf x = Some x') l l' -> length l <= length (flat_map (ntoks pf) l).
Proof.
  induction 1 as [|x x' l l' Hx _ IH]; simpl; auto. rewrite app_length. pose proof (ntoks_len pf x x' Hx). lia.
Qed.
Lemma in_flat_len pf l x : In x l -> length (ntoks pf x) <= length (flat_map (ntoks pf) l).
Proof.
  induction l as [|y l IH]; simpl; [tauto|]. rewrite app_length. intros [-> | H]; [lia|]. specialize (IH H). lia.
Qed.

Lemma loop_children pf f2 d closing tclose rest :
  P_node pf -> tk tclose = closing -> (closing = KRBr \/ closing = KRPar) -> 2 * pf <= d ->
  forall l l', Forall2 (fun x x' => pnode pf x = Some x') l l' ->
  (forall x, In x l -> 2 * length (ntoks pf x) + 1 <= f2) ->
  forall n st, length l <= n ->
  conn_loop f2 d closing n (mkPS (flat_map (ntoks pf) l ++ tclose :: rest) st)
  = Ok (mkPS (tclose :: rest) (map SkNode (rev l') ++ st)).
Proof.
  intros HP Htc Hcl Hd l l' HF. induction HF as [|x x' l l' Hx HF IH]; intros Hb n st Hn.
  - cbn [flat_map app rev map]. destruct n; cbn [conn_loop]; rewrite accept_cons, Htc, tkind_eqb_refl; reflexivity.
  - destruct n as [|m]; [simpl in Hn; lia|].
    cbn [flat_map]. rewrite <- app_assoc. cbn [conn_loop].
    assert (Hrest : opens (flat_map (ntoks pf) l ++ tclose :: rest) \/ l = []).
    { destruct HF as [|y y' l0 l0' Hy _]; [right; reflexivity|left].
      cbn [flat_map]. rewrite <- app_assoc. apply (proj1 (toks_head pf) y y' _ Hy). }
    rewrite (opens_not_closing _ closing st (proj1 (toks_head pf) x x' _ Hx) Hcl).
    rewrite (HP x x' f2 d st _ Hx).
    + cbn [bind]. rewrite IH.
      * cbn [rev]. rewrite map_app, <- app_assoc. reflexivity.
      * intros y Hy. apply Hb. right. exact Hy.
      * simpl in Hn. lia.
    + apply Hb. left. reflexivity.
    + exact Hd.
    + destruct Hrest as [Ho | ->]; [apply opens_not_lcur; exact Ho|].
      cbn. rewrite Htc. destruct Hcl as [-> | ->]; discriminate.
Qed.

Lemma conn_body f (IHn : P_node f) series opening closing (topen tclose : tok) l n' f2 d st rest :
  tk topen = opening -> tk tclose = closing -> (closing = KRBr \/ closing = KRPar) ->
  match flat_children (pnode f) series l with Some items => wrap series items | None => None end = Some n' ->
  2 * length (flat_map (ntoks f) l) + 1 <= f2 -> 2 * f <= d ->
  connection (S f2) (S (S d)) reg opening closing series (mkPS ((topen :: flat_map (ntoks f) l ++ [tclose]) ++ rest) st)
  = Ok (mkPS rest (SkNode n' :: st)).
Proof.
  intros Hto Htc Hcl Hp HF HD.
  destruct (flat_children (pnode f) series l) as [items|] eqn:Efc; [|discriminate].
  destruct (flat_children_inv _ _ _ _ Efc) as (l' & HF2 & ->).
  rewrite connection_S. unfold pop_token, push_stack. cbn [ptoks pstack app bind]. rewrite Hto.
  rewrite <- app_assoc. cbn [app].
  assert (Hne : l <> []).
  { intros ->. inversion HF2; subst. unfold wrap in Hp. simpl in Hp. destruct series; discriminate. }
  assert (Hop : opens (flat_map (ntoks f) l ++ tclose :: rest)).
  { destruct HF2 as [|y y' l0 l0' Hy _]; [congruence|]. cbn [flat_map]. rewrite <- app_assoc.
    apply (proj1 (toks_head f) y y' _ Hy). }
  rewrite (opens_not_closing _ closing _ Hop Hcl).
  rewrite (loop_children f f2 d closing tclose rest IHn Htc Hcl HD l l' HF2).
  - cbn [bind]. unfold expect. cbn [ptoks]. rewrite Htc, tkind_eqb_refl. cbn [bind].
    apply finish_exact. exact Hp.
  - intros x Hx. pose proof (in_flat_len f l x Hx). lia.
  - pose proof (flat_len f l l' HF2). lia.
Qed.

Lemma step_all pf : P_node pf /\ P_conn pf.
Proof.
  induction pf as [|f [IHn IHc]]; [split; intros ? ? ? ? ? ? H; discriminate H|]. split.
  - intros [ci st0 subs|c] n' F D st rest Hp HF HD Hr.
    + unfold ntoks in *. cbn [pnode node_items] in *.
      destruct (nth_error reg ci) as [r|] eqn:Er; [|discriminate].
      destruct (build_element ci r empty_defs) as [nb| |] eqn:Eb; try discriminate. inversion Hp; subst nb.
      cbn [map app length] in *.
      destruct F as [|[|[|F3]]]; try lia.
      rewrite main_loop_S, !accept_cons. cbn [item_tok ident_tok tk tkind_eqb].
      rewrite element_S. unfold pop_token. cbn [ptoks pstack bind]. cbn [tstr ident_tok item_tok].
      rewrite (Hsyms ci r Er). rewrite parameters_S_plain by (apply accept_lcur_rest; exact Hr).
      cbn [bind]. rewrite Eb. reflexivity.
    + change (ntoks (S f) (NC c)) with (ctoks f c) in *. cbn [pnode] in Hp.
      apply IHc; auto; lia.
  - intros [l|l] n' F D st rest Hp HF HD Hr; unfold ctoks in *; cbn [pconn conn_items] in *;
      rewrite !map_app, map_flat_map_items in *; cbn [map app item_tok] in *;
      cbn [length] in HF; rewrite app_length in HF; cbn [length] in HF;
      destruct F as [|[|f2]]; try lia; destruct D as [|[|d]]; try lia;
      rewrite main_loop_S, !accept_cons; cbn [tk tkind_eqb].
    + apply (conn_body f IHn true KLBr KRBr _ _ l n' f2 d st rest); auto.
      lia. lia.
    + apply (conn_body f IHn false KLPar KRPar _ _ l n' f2 d st rest); auto.
      lia. lia.
Qed.

(* Circuit(...) around what is left on the stack *)
Definition top (n : node) : conn := match n with NC (Ser l) => Ser l | _ => Ser [n] end.

Lemma ctoks_shape pf c n' : pconn pf c = Some n' ->
  exists t r, ctoks pf c = t :: r /\ (tk t = KLBr \/ tk t = KLPar).
Proof.
  destruct pf as [|f]; [discriminate|]. intros _. unfold ctoks. destruct c as [l|l]; cbn [conn_items app map];
  eexists; eexists; split; try reflexivity; auto.
Qed.

Theorem basic_parse_tokens pf c n' :
  pconn pf c = Some n' -> 2 * pf <= depth_budget ->
  parse_tokens reg (ctoks pf c) = Ok (top n').
Proof.
  intros Hp Hd. unfold parse_tokens.
  destruct (ctoks_shape pf c n' Hp) as (t & r & Ets & Hk).
  assert (Hm : migrate (mkPS (ctoks pf c) []) = Ok (mkPS (ctoks pf c) [])).
  { unfold migrate. rewrite Ets, accept_cons. destruct Hk as [-> | ->]; reflexivity. }
  rewrite Hm. cbn [bind].
  remember (4 * length (ctoks pf c) + 10) as fuel eqn:Ef.
  destruct fuel as [|m]; [lia|].
  assert (Hml : main_loop (S m) depth_budget reg (mkPS (ctoks pf c) []) = Ok (mkPS [] [SkNode n'])).
  { rewrite <- (app_nil_r (ctoks pf c)) at 1. apply (proj2 (step_all pf)); auto; [lia|exact I]. }
  rewrite Ets in *. cbn [ptoks]. rewrite Hml. cbn [bind].
  assert (Hl : forall k, (fix loop (n : nat) (q : pst) {struct n} : outcome pst :=
                 match ptoks q with
                 | [] => Ok q
                 | _ :: _ => match n with
                             | 0 => Crash COutOfFuel
                             | S m0 => let* q' := main_loop (S m) depth_budget reg q in loop m0 q'
                             end
                 end) k (mkPS [] [SkNode n']) = Ok (mkPS [] [SkNode n'])).
  { intros [|k]; reflexivity. }
  rewrite Hl. cbn [bind]. unfold assemble. cbn [pstack].
  destruct n' as [ci st subs|[l|l]]; reflexivity.
Qed.

(* ---- what the rebuilt tree keeps: the element types, in order ---------------------------------------- *)
Fixpoint leaves (n : node) : list nat :=
  match n with NE ci _ _ => [ci] | NC c => cleaves c end
with cleaves (c : conn) : list nat :=
  match c with Ser l => flat_map leaves l | Par l => flat_map leaves l end.

Lemma build_element_shape ci r d n : build_element ci r d = Ok n -> exists e s, n = NE ci e s.
Proof.
  unfold build_element.
  repeat match goal with
         | |- bind ?o _ = Ok _ -> _ => destruct o; cbn [bind]; try discriminate
         end.
  intro H. inversion H. eauto.
Qed.

Lemma leaves_expand series x : flat_map leaves (expand series x) = leaves x.
Proof.
  unfold expand, conn_kind_is. destruct x as [ci st subs|[l|l]]; destruct series; simpl; rewrite ?app_nil_r; reflexivity.
Qed.

Lemma leaves_wrap series items n' : wrap series items = Some n' -> leaves n' = flat_map leaves items.
Proof.
  unfold wrap. destruct series.
  - destruct items as [|a [|b r]]; intro H; inversion H; subst; simpl; rewrite ?app_nil_r; reflexivity.
  - destruct (length items <? 2); intro H; inversion H; reflexivity.
Qed.

Lemma leaves_kept pf :
  (forall n n', pnode pf n = Some n' -> leaves n' = leaves n) /\
  (forall c n', pconn pf c = Some n' -> leaves n' = cleaves c).
Proof.
  induction pf as [|f [IHn IHc]]; [split; intros; discriminate|]. split.
  - intros [ci st subs|c] n'; cbn [pnode].
    + destruct (nth_error reg ci) as [r|]; [|discriminate].
      destruct (build_element ci r empty_defs) as [nb| |] eqn:Eb; try discriminate.
      intro H; inversion H; subst. destruct (build_element_shape _ _ _ _ Eb) as (e & s0 & ->). reflexivity.
    + apply IHc.
  - assert (Hch : forall series l items, flat_children (pnode f) series l = Some items ->
                    flat_map leaves items = flat_map leaves l).
    { intros series l items H. destruct (flat_children_inv _ _ _ _ H) as (l' & HF & ->). clear H.
      induction HF as [|x x' l0 l0' Hx _ IH]; simpl; auto.
      rewrite flat_map_app, leaves_expand, (IHn _ _ Hx), IH. reflexivity. }
    intros [l|l] n'; cbn [pconn cleaves].
    + destruct (flat_children (pnode f) true l) as [items|] eqn:Efc; [|intro H0; discriminate H0].
      intro Hw. rewrite (leaves_wrap _ _ _ Hw). eapply Hch; eauto.
    + destruct (flat_children (pnode f) false l) as [items|] eqn:Efc; [|intro H0; discriminate H0].
      intro Hw. rewrite (leaves_wrap _ _ _ Hw). eapply Hch; eauto.
Qed.

(* unfolding equations of the specification *)
Lemma pnode_S_elem f ci st subs :
  pnode (S f) (NE ci st subs) =
  match nth_error reg ci with
  | Some r => match build_element ci r empty_defs with Ok n' => Some n' | _ => None end
  | None => None
  end.
Proof. reflexivity. Qed.
Lemma pnode_S_conn f c : pnode (S f) (NC c) = pconn f c.
Proof. reflexivity. Qed.
Lemma pconn_S_ser f l :
  pconn (S f) (Ser l) = match flat_children (pnode f) true l with Some items => wrap true items | None => None end.
Proof. reflexivity. Qed.
Lemma pconn_S_par f l :
  pconn (S f) (Par l) = match flat_children (pnode f) false l with Some items => wrap false items | None => None end.
Proof. reflexivity. Qed.

Lemma ser_has_child f l n' : pconn (S f) (Ser l) = Some n' -> 1 <= length (flat_map (ntoks f) l).
Proof.
  cbn [pconn]. destruct (flat_children (pnode f) true l) as [items|] eqn:Efc; [|discriminate].
  destruct (flat_children_inv _ _ _ _ Efc) as (l' & HF & ->). intro Hw.
  destruct HF as [|y y' l0 l0' Hy _]; [discriminate|].
  cbn [flat_map]. rewrite app_length. pose proof (ntoks_len f y y' Hy). lia.
Qed.

End Basic.

(* the two halves together: print with to_string(-1), scan, parse *)
Theorem basic_round_trip (reg : registry) :
  (forall r, In r reg -> valid_symbol (r_sym r) = true) ->
  (forall ci r, nth_error reg ci = Some r -> find_sym (r_sym r) reg 0 = Some (ci, r)) ->
  forall pf c n', pconn reg pf c = Some n' -> 2 * pf <= depth_budget ->
  exists ts, tokenize (to_string reg None c pf) = Ok ts /\ parse_tokens reg ts = Ok (top n').
Proof.
  intros Hv Hs pf c n' Hp Hd. exists (ctoks reg pf c). split.
  - apply basic_text_tokenizes. exact Hv.
  - apply basic_parse_tokens; assumption.
Qed.

(* ---- a decidable form of the distinct-symbols hypothesis ------------------------------------------------ *)
Definition syms_unique (reg : registry) : bool :=
  forallb (fun i => match nth_error reg i with
                    | Some r => match find_sym (r_sym r) reg 0 with Some (j, _) => Nat.eqb i j | None => false end
                    | None => true
                    end) (seq 0 (length reg)).

Lemma find_sym_nth s : forall reg i0 j r, find_sym s reg i0 = Some (j, r) -> i0 <= j /\ nth_error reg (j - i0) = Some r.
Proof.
  induction reg as [|a reg IH]; simpl; intros i0 j r H; [discriminate|].
  destruct (str_eqb s (r_sym a)).
  - inversion H; subst. split; [lia|]. rewrite Nat.sub_diag. reflexivity.
  - apply IH in H as [H1 H2]. split; [lia|]. replace (j - i0) with (S (j - S i0)) by lia. exact H2.
Qed.

Lemma syms_unique_sound reg : syms_unique reg = true ->
  forall ci r, nth_error reg ci = Some r -> find_sym (r_sym r) reg 0 = Some (ci, r).
Proof.
  intros H ci r Hn. unfold syms_unique in H. rewrite forallb_forall in H. specialize (H ci). rewrite Hn in H.
  assert (Hin : In ci (seq 0 (length reg))).
  { apply in_seq. split; [lia|]. simpl. apply nth_error_Some. congruence. }
  specialize (H Hin). destruct (find_sym (r_sym r) reg 0) as [[j r']|] eqn:E; [|discriminate].
  apply Nat.eqb_eq in H. subst j. apply find_sym_nth in E as [_ E]. rewrite Nat.sub_0_r in E. congruence.
Qed.

Definition syms_valid (reg : registry) : bool := forallb (fun r => valid_symbol (r_sym r)) reg.

Theorem basic_round_trip_b (reg : registry) :
  syms_valid reg = true -> syms_unique reg = true ->
  forall pf c n', pconn reg pf c = Some n' -> 2 * pf <= depth_budget ->
  exists ts, tokenize (to_string reg None c pf) = Ok ts /\ parse_tokens reg ts = Ok (top n')
             /\ cleaves (top n') = cleaves c.
Proof.
  intros Hv Hu pf c n' Hp Hd.
  destruct (basic_round_trip reg) with (pf := pf) (c := c) (n' := n') as (ts & H1 & H2); auto.
  - intros r Hr. unfold syms_valid in Hv. rewrite forallb_forall in Hv. auto.
  - apply syms_unique_sound; exact Hu.
  - exists ts. repeat split; auto.
    pose proof (proj2 (leaves_kept reg pf) c n' Hp) as Hl.
    destruct n' as [ci st subs|[l|l]]; simpl in *; rewrite ?app_nil_r in *; auto.
Qed.

(* ---- the same for parse (the model of parse_cdc): stripping and the empty-circuit shortcut do not interfere ---------- *)
Lemma pstrip_id c0 mid c1 :
  ElemState.is_space c0 = false -> ElemState.is_space c1 = false -> pstrip (c0 :: mid ++ [c1]) = c0 :: mid ++ [c1].
Proof.
  intros H0 H1.
  assert (E : rev (c0 :: mid ++ [c1]) = c1 :: rev mid ++ [c0]).
  { simpl. rewrite rev_app_distr. reflexivity. }
  unfold pstrip. cbn [drop_ws]. rewrite H0, E. cbn [drop_ws]. rewrite H1, <- E. apply rev_involutive.
Qed.

Lemma nonempty3 x y r : is_empty_circuit (91%N :: x :: y :: r) = false.
Proof.
  unfold is_empty_circuit. destruct x as [|p]; [reflexivity|].
  repeat (destruct p as [p|p|]; try reflexivity).
Qed.

Theorem basic_parse (reg : registry) :
  syms_valid reg = true -> syms_unique reg = true ->
  forall pf c n', pconn reg pf c = Some n' -> 2 * pf <= depth_budget ->
  parse reg (to_string reg None c pf) = Ok (top n').
Proof.
  intros Hv Hu pf c n' Hp Hd.
  assert (Hv' : forall r, In r reg -> valid_symbol (r_sym r) = true).
  { intros r Hr. unfold syms_valid in Hv. rewrite forallb_forall in Hv. auto. }
  pose proof (basic_text_tokenizes reg Hv' pf c) as Htok. fold (ctoks reg pf c) in Htok.
  pose proof (basic_parse_tokens reg (syms_unique_sound reg Hu) pf c n' Hp Hd) as Hpt.
  destruct (ctoks_shape reg pf c n' Hp) as (t0 & r0 & Ets & _).
  unfold to_string in *.
  destruct pf as [|f]; [discriminate|].
  assert (Hfinish : forall s, pstrip s = s -> is_empty_circuit s = false -> tokenize s = Ok (ctoks reg (S f) c) ->
                    parse reg s = Ok (top n')).
  { intros s H1 H2 H3. unfold parse. rewrite H1, H2, H3. cbn [bind]. rewrite Ets in *. exact Hpt. }
  apply Hfinish; [| |exact Htok]; clear Hfinish.
  - destruct c as [l|l]; cbn [conn_string]; apply pstrip_id; reflexivity.
  - destruct c as [l|l]; cbn [conn_string] in *; [|reflexivity].
    destruct (flat_map (node_string f reg None) l) as [|x X'] eqn:EX.
    + (* "[]" would scan to two tokens, but the printed connection has at least three *)
      exfalso. cbn [app] in Htok. unfold ctoks in Htok. cbn [conn_items] in Htok.
      rewrite !map_app in Htok. cbn [map app] in Htok.
      assert (Hc : tokenize [91%N; 93%N] = Ok [item_tok IOpenS; item_tok ICloseS]) by (vm_compute; reflexivity).
      rewrite Hc in Htok. inversion Htok as [Hl]. apply (f_equal (@length _)) in Hl. rewrite app_length in Hl. simpl in Hl.
      pose proof (ser_has_child reg f l n' Hp) as Hn || pose proof (ser_has_child reg (syms_unique_sound reg Hu) f l n' Hp) as Hn. rewrite <- map_flat_map_items, map_length in Hn.
      rewrite map_length in Hl. lia.
    + cbn [app]. destruct X' as [|y r]; cbn [app]; apply nonempty3.
Qed.

(* Circuit/Registry.v — executable model of the element registry (registry.py): the module dictionaries
   _ELEMENTS / _DEFAULT_ELEMENTS / _PRIVATE_ELEMENTS / _DEFAULT_ELEMENT_PARAMETERS and the class-level default
   values, with register_element (symbol validation, static information written before the checks, impedance
   validation as an oracle boolean, duplicate check), remove_elements, reset, reset_default_parameter_values,
   Class.set_default_values and get_elements(default_only, private).  Model only. *)
From Coq Require Import ZArith Bool List.
From PV Require Import Base.Outcome Circuit.Tree Circuit.Printer Circuit.Token.
Import ListNotations.

Definition cid := nat.

(* a Python dict str -> class, in insertion order *)
Definition sdict := list (str * cid).
Fixpoint sget (k : str) (d : sdict) : option cid :=
  match d with [] => None | (k', v) :: r => if str_eqb k k' then Some v else sget k r end.
Fixpoint sset (k : str) (v : cid) (d : sdict) : sdict :=
  match d with
  | [] => [(k, v)]
  | (k', v') :: r => if str_eqb k k' then (k', v) :: r else (k', v') :: sset k v r
  end.
Fixpoint sdel (k : str) (d : sdict) : sdict :=
  match d with [] => [] | (k', v') :: r => if str_eqb k k' then r else (k', v') :: sdel k r end.
Definition shas (k : str) (d : sdict) : bool := match sget k d with Some _ => true | None => false end.

(* class-level default value (of the first parameter), per class *)
Definition ddict := list (cid * Z).
Fixpoint dvget (c : cid) (d : ddict) : option Z :=
  match d with [] => None | (c', v) :: r => if Nat.eqb c c' then Some v else dvget c r end.
Fixpoint dvset (c : cid) (v : Z) (d : ddict) : ddict :=
  match d with [] => [(c, v)] | (c', v') :: r => if Nat.eqb c c' then (c', v) :: r else (c', v') :: dvset c v r end.

Record rstate := mkRS {
  rs_elems : sdict;          (* _ELEMENTS *)
  rs_private : sdict;        (* _PRIVATE_ELEMENTS *)
  rs_defaults : ddict }.     (* Class._parameter_default_value, first parameter *)

(* what does not change after import: _DEFAULT_ELEMENTS, the private built-ins and _DEFAULT_ELEMENT_PARAMETERS *)
Record builtins := mkB { b_elems : sdict; b_private : sdict; b_params : ddict }.

Definition init (b : builtins) : rstate := mkRS (b_elems b) (b_private b) (b_params b).

(* _validate_element_symbol on the stripped symbol *)
Definition valid_symbol (s : str) : bool :=
  match s with
  | [] => false
  | c :: r => is_upper c && forallb (fun x => is_lower x || is_dig x || N.eqb x 95) r
  end.

Definition is_builtin_class (b : builtins) (c : cid) : bool := existsb (fun kv => Nat.eqb (snd kv) c) (b_elems b).

Inductive rop :=
  | Register (c : cid) (sym : str) (def_value : Z) (consistent private : bool)
  | Remove (cs : list cid)
  | Reset (elements default_parameters : bool)
  | SetDefault (c : cid) (v : Z)
  | ResetDefaults (cs : option (list cid)).

Definition reset_defaults (b : builtins) (which : cid -> bool) (d : ddict) : ddict :=
  fold_left (fun acc kv => match sget (fst kv) (b_elems b) with
                           | Some c => if which c then (match dvget c (b_params b) with Some v => dvset c v acc | None => acc end) else acc
                           | None => acc end) (b_elems b) d.

(* remove_elements: for each class the first key that maps to it, in both dictionaries *)
Fixpoint first_key_of (c : cid) (d : sdict) : option str :=
  match d with [] => None | (k, v) :: r => if Nat.eqb v c then Some k else first_key_of c r end.

Definition rstep (b : builtins) (s : rstate) (o : rop) : rstate * res_kind :=
  match o with
  | Register c sym dv consistent private =>
      let sym' := Circuit.ElemState.strip sym in
      if negb (valid_symbol sym') then (s, RK_err EValue)
      else
        (* static information (incl. the class defaults) is written before the remaining checks *)
        let s1 := mkRS (rs_elems s) (rs_private s) (dvset c dv (rs_defaults s)) in
        if negb consistent then (s1, RK_err EValue)
        else match sget sym' (rs_elems s1) with
             | Some c' => if negb (Nat.eqb c c') then (s1, RK_err EKey)
                          else (mkRS (sset sym' c (rs_elems s1)) (if private then sset sym' c (rs_private s1) else rs_private s1) (rs_defaults s1), RK_ok)
             | None => (mkRS (sset sym' c (rs_elems s1)) (if private then sset sym' c (rs_private s1) else rs_private s1) (rs_defaults s1), RK_ok)
             end
  | Remove cs =>
      match cs with
      | [] => (s, RK_err EValue)
      | _ =>
        if existsb (is_builtin_class b) cs then (s, RK_err EValue)
        else (fold_left (fun st c =>
                 match first_key_of c (rs_elems st) with
                 | Some k => mkRS (sdel k (rs_elems st))
                                  (match sget k (rs_private st) with Some c' => if Nat.eqb c c' then sdel k (rs_private st) else rs_private st | None => rs_private st end)
                                  (rs_defaults st)
                 | None => st end) cs s, RK_ok)
      end
  | Reset e d =>
      let s1 := if e then mkRS (b_elems b) (filter (fun kv => shas (fst kv) (b_elems b)) (rs_private s)) (rs_defaults s) else s in
      let s2 := if d then mkRS (rs_elems s1) (rs_private s1) (reset_defaults b (fun _ => true) (rs_defaults s1)) else s1 in
      (s2, RK_ok)
  | SetDefault c v =>
      (* a class that never received static information has no default dictionary entry: KeyError *)
      match dvget c (rs_defaults s) with
      | Some _ => (mkRS (rs_elems s) (rs_private s) (dvset c v (rs_defaults s)), RK_ok)
      | None => (s, RK_err EKey)
      end
  | ResetDefaults None => (mkRS (rs_elems s) (rs_private s) (reset_defaults b (fun _ => true) (rs_defaults s)), RK_ok)
  | ResetDefaults (Some []) => (s, RK_err EValue)
  | ResetDefaults (Some cs) => (mkRS (rs_elems s) (rs_private s) (reset_defaults b (fun c => existsb (Nat.eqb c) cs) (rs_defaults s)), RK_ok)
  end.

(* ---- observations ----------------------------------------------------------------------------------------- *)
Definition sort_strs (l : list str) : list str := map fst (sort_by_key (map (fun s => (s, tt)) l)).

(* get_elements(default_only, private): sorted keys; [None] = KeyError (a default symbol missing from _ELEMENTS) *)
Definition get_elements (b : builtins) (s : rstate) (default_only private : bool) : option (list str) :=
  let keys := sort_strs (map fst (if default_only then b_elems b else rs_elems s)) in
  let keys := if private then keys else filter (fun k => negb (shas k (rs_private s))) keys in
  if forallb (fun k => shas k (rs_elems s)) keys then Some keys else None.

Record robs := mkRO {
  ro_res : res_kind;
  ro_all_priv : option (list str); ro_all_pub : option (list str);
  ro_def_priv : option (list str); ro_def_pub : option (list str);
  ro_defaults : list (option Z);           (* current default of every built-in class and of the user classes, by class id *)
  ro_parses : list bool }.                  (* parse_cdc(symbol) succeeds, for a fixed list of candidate symbols *)

Definition observe_r (b : builtins) (classes : list cid) (candidates : list str) (r : res_kind) (s : rstate) : robs :=
  mkRO r (get_elements b s false true) (get_elements b s false false) (get_elements b s true true) (get_elements b s true false)
       (map (fun c => dvget c (rs_defaults s)) classes) (map (fun k => shas k (rs_elems s)) candidates).

Fixpoint rrun (b : builtins) (classes : list cid) (candidates : list str) (s : rstate) (ops : list rop) : list robs :=
  match ops with
  | [] => []
  | o :: rest => let '(s', r) := rstep b s o in observe_r b classes candidates r s' :: rrun b classes candidates s' rest
  end.

Definition ostrs_eqb (a b : option (list str)) : bool :=
  match a, b with
  | None, None => true
  | Some x, Some y => (fix go x y := match x, y with [], [] => true | u :: x', v :: y' => str_eqb u v && go x' y' | _, _ => false end) x y
  | _, _ => false
  end.
Definition oz_eqb (a b : option Z) : bool := match a, b with None, None => true | Some x, Some y => Z.eqb x y | _, _ => false end.
Fixpoint list_all2 {A} (f : A -> A -> bool) (a b : list A) : bool :=
  match a, b with [], [] => true | x :: a', y :: b' => f x y && list_all2 f a' b' | _, _ => false end.
Definition robs_eqb (a b : robs) : bool :=
  res_kind_eqb (ro_res a) (ro_res b) && ostrs_eqb (ro_all_priv a) (ro_all_priv b) && ostrs_eqb (ro_all_pub a) (ro_all_pub b)
  && ostrs_eqb (ro_def_priv a) (ro_def_priv b) && ostrs_eqb (ro_def_pub a) (ro_def_pub b)
  && list_all2 oz_eqb (ro_defaults a) (ro_defaults b) && list_all2 Bool.eqb (ro_parses a) (ro_parses b).

(* what "behaves as freshly imported" means on observations: the built-in part of an observation *)
Definition fresh_view (b : builtins) (builtin_classes : list cid) (candidates : list str) (s : rstate) :=
  (get_elements b s false true, get_elements b s false false, get_elements b s true true, get_elements b s true false,
   map (fun c => dvget c (rs_defaults s)) builtin_classes, map (fun k => shas k (rs_elems s)) candidates).

(* the hypotheses of the C15 theorems as a boolean, evaluated on the table of the live registry on every run *)
Fixpoint nodup_strs (l : list str) : bool :=
  match l with [] => true | x :: r => negb (existsb (str_eqb x) r) && nodup_strs r end.
Definition wf_builtins (b : builtins) : bool :=
  nodup_strs (map fst (b_elems b)) &&
  forallb (fun kv => shas (fst kv) (b_elems b)) (b_private b) &&
  forallb (fun kv => match dvget (snd kv) (b_params b) with Some _ => true | None => false end) (b_elems b).

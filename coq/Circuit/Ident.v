(* Circuit/Ident.v — element traversal order, running and per-type identifiers, display names, fit identifiers
   and symbolic variable names (Connection._get_elements_recursive, generate_element_identifiers,
   get_element_name, generate_fit_identifiers, Element.to_sympy naming).  Model only. *)
From Coq Require Import ZArith Bool List.
From PV Require Import Base.Outcome Circuit.Tree Circuit.Printer.
Import ListNotations.

(* an element as the identifier code sees it: a unique object id (given by the harness), its symbol, label,
   parameter keys, and sub-circuits (None = open) *)
Inductive inode :=
  | IE (uid : nat) (sym : str) (label : str) (keys : list str) (subs : list (option iconn))
  | IC (c : iconn)
with iconn := ISer (l : list inode) | IPar (l : list inode).

Record ielt := mkIE { ie_uid : nat; ie_sym : str; ie_label : str; ie_keys : list str; ie_subs : list (option iconn) }.

(* _get_all_items_recursive: depth first through connections, not into containers *)
Fixpoint items_node (fuel : nat) (n : inode) : list ielt :=
  match fuel with
  | O => []
  | S f => match n with
           | IE u s l k subs => [mkIE u s l k subs]
           | IC c => items_conn f c
           end
  end
with items_conn (fuel : nat) (c : iconn) : list ielt :=
  match fuel with
  | O => []
  | S f => match c with ISer l | IPar l => flat_map (items_node f) l end
  end.

Fixpoint dedup (seen : list nat) (l : list ielt) : list ielt :=
  match l with
  | [] => []
  | e :: r => if existsb (Nat.eqb (ie_uid e)) seen then dedup seen r else e :: dedup (ie_uid e :: seen) r
  end.

(* _get_elements_recursive: the elements of the connection tree first (depth first), then, container by
   container in that order and sub-circuit by sub-circuit in key order, the elements of each sub-circuit (each
   expanded the same way); an element already listed is skipped *)
Fixpoint elems (fuel : nat) (c : iconn) : list ielt :=
  match fuel with
  | O => []
  | S f =>
      let l0 := items_conn fuel c in
      dedup [] (l0 ++ flat_map (fun e => flat_map (fun os => match os with Some s => elems f s | None => [] end) (ie_subs e)) l0)
  end.

(* generate_element_identifiers(running=True) *)
Definition running_ids (es : list ielt) : list (nat * nat) := combine (map ie_uid es) (seq 0 (length es)).

(* generate_element_identifiers(running=False): the n-th element of its symbol gets n, counting from 1 *)
Fixpoint count_sym (s : str) (l : list ielt) : nat :=
  match l with [] => 0 | e :: r => (if str_eqb s (ie_sym e) then 1 else 0) + count_sym s r end.
Fixpoint typed_from (before : list ielt) (es : list ielt) : list (nat * nat) :=
  match es with
  | [] => []
  | e :: r => (ie_uid e, S (count_sym (ie_sym e) before)) :: typed_from (before ++ [e]) r
  end.
Definition typed_ids (es : list ielt) : list (nat * nat) := typed_from [] es.

Definition dec_str (n : nat) : str := dec_digits (Z.of_nat n).

(* get_element_name: symbol_label when labelled, else symbol_<per-type count> *)
Definition names (es : list ielt) : list (nat * str) :=
  map (fun ei => let e := fst ei in
                 (ie_uid e, ie_sym e ++ [95%N] ++ (match ie_label e with [] => dec_str (snd (snd ei)) | l => l end)))
      (combine es (typed_ids es)).

(* generate_fit_identifiers: key_<running id> for every parameter of every element *)
Definition fit_ids (es : list ielt) : list (nat * list str) :=
  map (fun ei => (ie_uid (fst ei), map (fun k => k ++ [95%N] ++ dec_str (snd ei)) (ie_keys (fst ei))))
      (combine es (seq 0 (length es))).

(* variable names of the unsubstituted symbolic expression: key_label when labelled, else key_<running id> *)
Definition sym_vars (es : list ielt) : list (nat * list str) :=
  map (fun ei => (ie_uid (fst ei),
                  map (fun k => k ++ [95%N] ++ (match ie_label (fst ei) with [] => dec_str (snd ei) | l => l end)) (ie_keys (fst ei))))
      (combine es (seq 0 (length es))).

(* every element object of the tree, containers' sub-circuits included (depth first) *)
Fixpoint all_uids_node (fuel : nat) (n : inode) : list nat :=
  match fuel with
  | O => []
  | S f => match n with
           | IE u _ _ _ subs => u :: flat_map (fun os => match os with Some s => all_uids_conn f s | None => [] end) subs
           | IC c => all_uids_conn f c
           end
  end
with all_uids_conn (fuel : nat) (c : iconn) : list nat :=
  match fuel with
  | O => []
  | S f => match c with ISer l | IPar l => flat_map (all_uids_node f) l end
  end.

(* ---- CircuiTikZ components (one per element of the connections; a container counts as one) ------------ *)
Definition tikz_symbol (sym : str) : str :=
  if str_eqb sym [82%N] then [82%N]                                                        (* Resistor: R *)
  else if str_eqb sym [67%N] then map Z.to_N [99; 97; 112; 97; 99; 105; 116; 111; 114]%Z       (* Capacitor: capacitor *)
  else if str_eqb sym [76%N] then [76%N]                                                    (* Inductor: L *)
  else if str_eqb sym [76%N; 97%N] then [76%N]                                              (* ModifiedInductor: L *)
  else if str_eqb sym [81%N] then map Z.to_N [99; 112; 101]%Z                               (* ConstantPhaseElement: cpe *)
  else map Z.to_N [103; 101; 110; 101; 114; 105; 99]%Z.                                      (* generic *)

(* label: symbol_{\rm <label or identifier>} *)
Definition tikz_label (e : ielt) (id : nat) : str :=
  ie_sym e ++ map Z.to_N [95; 123; 92; 114; 109; 32]%Z ++ (match ie_label e with [] => dec_str id | l => l end) ++ [125%N].

(* the component lines, in drawing order; identifiers are those of generate_element_identifiers(running) over ALL
   elements (containers' contents included), but only the elements of the connections are drawn *)
Definition lookup_id (u : nat) (ids : list (nat * nat)) : nat :=
  match find (fun p => Nat.eqb (fst p) u) ids with Some p => snd p | None => 0 end.
Definition tikz_components (fuel : nat) (running : bool) (c : iconn) : list (str * str) :=
  let all := elems fuel c in
  let ids := if running then running_ids all else typed_ids all in
  map (fun e => (tikz_symbol (ie_sym e), tikz_label e (lookup_id (ie_uid e) ids))) (items_conn fuel c).

(* Circuit/Parser_facts.v — stack discipline and totality of the parser model:
   every successful main_loop/connection/element pushes exactly one node and leaves the rest of the stack
   alone; parameters and subcircuit leave the stack as they found it (a container's sub-circuit takes only
   what was written after its key); no path raises TypeError/KeyError; the only crash is fuel exhaustion. *)
From Coq Require Import ZArith QArith Bool List Lia.
From PV Require Import Base.Num Base.Outcome Circuit.ElemState Circuit.Tree Circuit.Token Circuit.Token_facts Circuit.Parser.
Import ListNotations.
Local Open Scope nat_scope.

Definition okerr (e : errkind) : bool :=
  match e with EParse _ | ETokenizing | EValue => true | _ => false end.

Definition good {A} (P : A -> Prop) (o : outcome A) : Prop :=
  match o with Ok a => P a | Err e => okerr e = true | Crash c => c = COutOfFuel end.

Lemma good_bind {A B} (Q : A -> Prop) (P : B -> Prop) (o : outcome A) (f : A -> outcome B) :
  good Q o -> (forall a, Q a -> good P (f a)) -> good P (bind o f).
Proof. destruct o; simpl; auto. Qed.

Lemma good_weaken {A} (P Q : A -> Prop) o : good P o -> (forall a, P a -> Q a) -> good Q o.
Proof. destruct o; simpl; auto. Qed.

(* ---- token-level helpers ------------------------------------------------------------------------- *)
Lemma pop_token_good p : good (fun tp => pstack (snd tp) = pstack p /\ ptoks p = fst tp :: ptoks (snd tp)) (pop_token p).
Proof. unfold pop_token. destruct (ptoks p) eqn:E; simpl; auto. Qed.

Lemma expect_good k p : good (fun _ => True) (expect k p).
Proof. unfold expect. destruct (ptoks p); simpl; auto. destruct (tkind_eqb (tk t) k); simpl; auto. Qed.

Lemma expect_number_good p : good (fun _ => True) (expect_number p).
Proof. unfold expect_number. destruct (ptoks p); simpl; auto. destruct (tk t); simpl; auto. Qed.

Definition same_stack (p : pst) {A} (xp : A * pst) : Prop := pstack (snd xp) = pstack p.

Lemma param_limit_good v up p : good (same_stack p) (param_limit v up p).
Proof.
  unfold param_limit. destruct (negb (accept KNumber p)).
  - eapply good_bind; [apply expect_good|]. intros _ _.
    eapply good_bind; [apply pop_token_good|]. intros [t p1] [H1 H2]. simpl in *.
    destruct (negb (str_eqb (tstr t) str_inf)); simpl; auto.
  - eapply good_bind; [apply pop_token_good|]. intros [t p1] [H1 H2]. simpl in *.
    destruct (accept KPct p1); simpl; auto.
    eapply good_bind; [apply pop_token_good|]. intros [t2 p2] [H3 H4]. simpl in *. unfold same_stack. simpl. congruence.
Qed.

Lemma param_good p : good (same_stack p) (param p).
Proof.
  unfold param.
  eapply good_bind; [apply expect_number_good|]. intros _ _.
  eapply good_bind; [apply pop_token_good|]. intros [vt p1] [H1 _]. simpl in *.
  destruct (accept KSlash p1); [|unfold same_stack; simpl; auto].
  eapply good_bind; [apply pop_token_good|]. intros [t2 p2] [H2 _]. simpl in *.
  destruct (accept KSlash p2).
  - eapply good_bind; [apply pop_token_good|]. intros [t3 p3] [H3 _]. simpl in *.
    eapply good_bind; [apply param_limit_good|]. intros [up p4] H4. unfold same_stack in *. simpl in *. congruence.
  - eapply good_bind; [apply param_limit_good|]. intros [lo p3] H3. unfold same_stack in H3. simpl in *.
    destruct (accept KSlash p3); [|unfold same_stack; simpl; congruence].
    eapply good_bind; [apply pop_token_good|]. intros [t4 p4] [H4 _]. simpl in *.
    eapply good_bind; [apply param_limit_good|]. intros [up p5] H5. unfold same_stack in *. simpl in *. congruence.
Qed.

(* ---- stack helpers ----------------------------------------------------------------------------------- *)
Lemma all_nodes_map l : all_nodes (map SkNode l) = Some l.
Proof. induction l; simpl; auto. rewrite IHl. auto. Qed.

Lemma all_nodes_app a b la lb : all_nodes a = Some la -> all_nodes b = Some lb -> all_nodes (a ++ b) = Some (la ++ lb).
Proof.
  revert la. induction a as [|[k|n] a IH]; simpl; intros la Ha Hb.
  - inversion Ha. auto.
  - discriminate.
  - destruct (all_nodes a) eqn:E; [|discriminate]. inversion Ha; subst. rewrite (IH l eq_refl Hb). auto.
Qed.

Lemma collect_nodes opening series base : forall ns items li,
  all_nodes items = Some li ->
  exists li', collect opening series (map SkNode ns ++ SkTok opening :: base) items = (map SkNode li', base).
Proof.
  induction ns as [|n ns IH]; intros items li Hi; simpl.
  - assert (E : tkind_eqb opening opening = true) by (destruct opening; auto). rewrite E.
    exists li. f_equal. clear -Hi. revert li Hi. induction items as [|[k|x] r IH]; simpl; intros li H.
    + inversion H; auto.
    + discriminate.
    + destruct (all_nodes r) eqn:E; [|discriminate]. inversion H; subst. simpl. f_equal. auto.
  - destruct (conn_kind_is series n) as [l|] eqn:Ek.
    + apply (IH (items ++ map SkNode (rev l)) (li ++ rev l)). apply all_nodes_app; auto. apply all_nodes_map.
    + apply (IH (items ++ [SkNode n]) (li ++ [n])). apply all_nodes_app; auto.
Qed.

Lemma finish_connection_good opening series ns base toks0 :
  good (fun p' => exists n, pstack p' = SkNode n :: base /\ ptoks p' = toks0)
       (finish_connection opening series (mkPS toks0 (map SkNode ns ++ SkTok opening :: base))).
Proof.
  unfold finish_connection. simpl.
  destruct (collect_nodes opening series base ns [] [] eq_refl) as (li' & H1). rewrite H1.
  destruct li' as [|a li'']; simpl; auto.
  destruct (negb series && (S (length (map SkNode li'')) <? 2)); simpl; auto.
  rewrite all_nodes_map.
  destruct series.
  - destruct (rev (a :: li'')) as [|x [|y r]]; simpl; eauto.
  - simpl. eauto.
Qed.

Lemma pop_above_eq n stack acc :
  pop_above n stack acc =
  if Nat.leb (length stack) n then Ok (acc, stack)
  else match stack with
       | SkNode x :: rest => pop_above n rest (x :: acc)
       | SkTok _ :: _ => Err PE_unexpected_token
       | [] => Ok (acc, stack)
       end.
Proof. destruct stack; reflexivity. Qed.

Lemma pop_above_nodes n base : length base = n -> forall ns acc,
  pop_above n (map SkNode ns ++ base) acc = Ok (rev ns ++ acc, base).
Proof.
  intros Hb. induction ns as [|x ns IH]; intro acc; rewrite pop_above_eq.
  - simpl map. simpl app. assert (Hle : (length base <=? n) = true) by (apply Nat.leb_le; lia).
    rewrite Hle. auto.
  - assert (Hgt : (length (map SkNode (x :: ns) ++ base) <=? n) = false).
    { apply Nat.leb_gt. simpl. rewrite app_length. lia. }
    rewrite Hgt. cbn [map app]. rewrite IH. simpl. rewrite <- app_assoc. auto.
Qed.

(* ---- building an element never raises KeyError / TypeError ---------------------------------------- *)
Definition wf_rcls (r : rcls) : bool :=
  list_eqb N.eqb (map fst (cdefaults (r_cls r))) (map N.of_nat (seq 0 (length (r_keys r)))) &&
  Nat.eqb (length (r_subkeys r)) (length (r_subdefaults r)).
Definition wf_registry (reg : registry) : bool := forallb wf_rcls reg.

Definition key_ok (r : rcls) (k : key) : Prop := N.to_nat k < length (r_keys r).

Lemma list_eqb_N_eq (a b : list N) : list_eqb N.eqb a b = true -> a = b.
Proof.
  revert b. induction a as [|x a IH]; intros [|y b]; simpl; try discriminate; auto.
  rewrite andb_true_iff. intros [H1 H2]. apply N.eqb_eq in H1. subst. f_equal. auto.
Qed.

Lemma lookup_seq_keys {A} (ps : list (key * A)) n k :
  map fst ps = map N.of_nat (seq 0 n) -> N.to_nat k < n -> lookup k ps <> None.
Proof.
  intros Hm Hk Hnone.
  assert (Hin : In k (map fst ps)).
  { rewrite Hm. apply in_map_iff. exists (N.to_nat k). split; [lia|]. apply in_seq. lia. }
  clear Hm. induction ps as [|[k' a] r IH]; simpl in *; [auto|].
  destruct (N.eqb k k') eqn:E; [discriminate|]. apply N.eqb_neq in E. destruct Hin as [H|H]; [congruence|auto].
Qed.

Definition gerr_value (g : gfn) (vals : pyval -> Prop) : Prop :=
  forall p v, vals v -> match g p v with Ok _ => True | Err e => e = EValue | Crash _ => False end.

Lemma map_fst_update' {A} k (a : A) l : map fst (update k a l) = map fst l.
Proof.
  induction l as [|[k2 a2] r IH]; simpl; auto.
  destruct (N.eqb k k2) eqn:E; simpl; [|rewrite IH]; auto.
Qed.

Lemma loop_errs g (vals : pyval -> Prop) n : gerr_value g vals -> forall pairs ps,
  map fst ps = map N.of_nat (seq 0 n) ->
  (forall k v, In (k, v) pairs -> N.to_nat k < n /\ vals v) ->
  match loop g ps pairs with
  | (ps', ROk) => map fst ps' = map fst ps
  | (_, RErr e) => e = EValue
  | (_, RCrash _) => False
  end.
Proof.
  intros Hg. induction pairs as [|[k v] r IH]; intros ps Hm Hall; simpl; auto.
  unfold upd_body. destruct (lookup k ps) as [p|] eqn:El.
  - destruct (Hall k v (or_introl eq_refl)) as [Hk Hv]. pose proof (Hg p v Hv) as Hgv.
    destruct (g p v) as [p'|e|c]; simpl; auto.
    specialize (IH (update k p' ps)). rewrite map_fst_update' in IH.
    specialize (IH Hm (fun k0 v0 H0 => Hall k0 v0 (or_intror H0))).
    destruct (loop g (update k p' ps) r) as [ps' [|e|c]]; auto; try congruence.
  - exfalso. destruct (Hall k v (or_introl eq_refl)) as [Hk _]. eapply lookup_seq_keys; eauto.
Qed.

Lemma setter_kw_errs g (vals : pyval -> Prop) n e kwl :
  gerr_value g vals -> map fst (epars e) = map N.of_nat (seq 0 n) ->
  (forall k v, In (k, v) kwl -> N.to_nat k < n /\ vals v) ->
  match setter g e (mkA kwl [] false) with
  | (e', ROk) => map fst (epars e') = map fst (epars e)
  | (_, RErr er) => er = EValue
  | (_, RCrash _) => False
  end.
Proof.
  intros Hg Hm Hall. unfold setter, merge. simpl.
  pose proof (loop_errs g vals n Hg kwl (epars e) Hm Hall) as H.
  destruct (loop g (epars e) kwl) as [ps' r]. simpl. auto.
Qed.

Definition is_num (v : pyval) : Prop := exists x, v = VNum x.
Definition is_bool (v : pyval) : Prop := exists b, v = VBool b.

Lemma g_lower_errs : gerr_value g_lower is_num.
Proof. intros p v [x ->]. unfold g_lower. simpl. destruct (xgeb x (phi p)); auto. Qed.
Lemma g_upper_errs : gerr_value g_upper is_num.
Proof. intros p v [x ->]. unfold g_upper. simpl. destruct (xleb x (plo p)); auto. Qed.
Lemma g_fixed_errs : gerr_value g_fixed is_bool.
Proof. intros p v [b ->]. simpl. auto. Qed.

Record pd_ok (r : rcls) (d : pdefs) : Prop := mkPDok {
  pdo_lower : Forall (key_ok r) (map fst (pd_lower d));
  pdo_upper : Forall (key_ok r) (map fst (pd_upper d));
  pdo_fixed : Forall (key_ok r) (map fst (pd_fixed d)) }.

Lemma pd_ok_empty r : pd_ok r empty_defs.
Proof. constructor; simpl; constructor. Qed.

Lemma in_kw_num (l : list (key * xnum)) k v :
  In (k, v) (map (fun kv => (fst kv, VNum (snd kv))) l) -> In k (map fst l) /\ is_num v.
Proof.
  intro H. apply in_map_iff in H. destruct H as ([k' x] & He & Hi). simpl in He. inversion He as [[Hk Hv]].
  split; [apply in_map_iff; exists (k', x); auto|exists x; auto].
Qed.

Lemma nonnan_keys l : incl (map fst (nonnan l)) (map fst l).
Proof.
  unfold nonnan. intros k H. apply in_map_iff in H. destruct H as ([k' x] & He & Hi). simpl in He.
  apply filter_In in Hi. destruct Hi as [Hi _]. apply in_map_iff. exists (k', x). auto.
Qed.

Lemma build_element_good ci r d :
  wf_rcls r = true -> pd_ok r d -> good (fun _ => True) (build_element ci r d).
Proof.
  unfold wf_rcls. rewrite andb_true_iff. intros [Hk _] [Hlo Hup Hfx]. apply list_eqb_N_eq in Hk.
  unfold build_element.
  set (n := length (r_keys r)) in *.
  set (e0 := mkE [] (map _ (cdefaults (r_cls r)))).
  assert (He0 : map fst (epars e0) = map N.of_nat (seq 0 n)).
  { unfold e0. simpl. rewrite map_map. rewrite <- Hk. apply map_ext. intros [k p]. simpl.
    destruct (lookup k (pd_params d)); auto. }
  (* set_label *)
  assert (Hl : forall e, match set_label e (VStr (pd_label d)) with
                         | (e', ROk) => epars e' = epars e | (_, RErr er) => er = EValue | (_, RCrash _) => False end).
  { intro e. unfold set_label. destruct (strip (pd_label d)); [simpl; auto|].
    destruct (negb _); [simpl; auto|]. destruct (forallb is_digit _); simpl; auto. }
  specialize (Hl e0). unfold res_to_outcome at 1. destruct (set_label e0 (VStr (pd_label d))) as [e1 [|er|c]]; simpl in *;
    [|subst; auto|contradiction].
  assert (He1 : map fst (epars e1) = map N.of_nat (seq 0 n)) by (rewrite Hl; auto).
  assert (Hin_lo : forall k v, In (k, v) (map (fun kv : key * xnum => (fst kv, VNum (snd kv))) (map (fun kv : key * xnum => (fst kv, NInf)) (nonnan (pd_lower d)))) -> N.to_nat k < n /\ is_num v).
  { intros k v H. apply in_kw_num in H. destruct H as [H1 H2]. split; auto.
    rewrite map_map in H1. simpl in H1. apply nonnan_keys in H1. rewrite Forall_forall in Hlo. apply Hlo. auto. }
  pose proof (setter_kw_errs g_lower is_num n e1 _ g_lower_errs He1 Hin_lo) as S1.
  unfold kwnum. unfold res_to_outcome at 1.
  destruct (setter g_lower e1 _) as [e2 [|er|c]]; simpl in *; [|subst; auto|contradiction].
  assert (He2 : map fst (epars e2) = map N.of_nat (seq 0 n)) by congruence.
  assert (Hin_up : forall k v, In (k, v) (map (fun kv : key * xnum => (fst kv, VNum (snd kv))) (nonnan (pd_upper d))) -> N.to_nat k < n /\ is_num v).
  { intros k v H. apply in_kw_num in H. destruct H as [H1 H2]. split; auto.
    apply nonnan_keys in H1. rewrite Forall_forall in Hup. apply Hup. auto. }
  pose proof (setter_kw_errs g_upper is_num n e2 _ g_upper_errs He2 Hin_up) as S2.
  unfold res_to_outcome at 1.
  destruct (setter g_upper e2 _) as [e3 [|er|c]]; simpl in *; [|subst; auto|contradiction].
  assert (He3 : map fst (epars e3) = map N.of_nat (seq 0 n)) by congruence.
  assert (Hin_lo2 : forall k v, In (k, v) (map (fun kv : key * xnum => (fst kv, VNum (snd kv))) (nonnan (pd_lower d))) -> N.to_nat k < n /\ is_num v).
  { intros k v H. apply in_kw_num in H. destruct H as [H1 H2]. split; auto.
    apply nonnan_keys in H1. rewrite Forall_forall in Hlo. apply Hlo. auto. }
  pose proof (setter_kw_errs g_lower is_num n e3 _ g_lower_errs He3 Hin_lo2) as S3.
  unfold res_to_outcome at 1.
  destruct (setter g_lower e3 _) as [e4 [|er|c]]; simpl in *; [|subst; auto|contradiction].
  assert (He4 : map fst (epars e4) = map N.of_nat (seq 0 n)) by congruence.
  assert (Hin_fx : forall k v, In (k, v) (map (fun kv : key * bool => (fst kv, VBool (snd kv))) (pd_fixed d)) -> N.to_nat k < n /\ is_bool v).
  { intros k v H. apply in_map_iff in H. destruct H as ([k' b] & He & Hi). simpl in He. inversion He as [[Hk' Hv]]. split; [|exists b; auto].
    rewrite Forall_forall in Hfx. apply Hfx. apply in_map_iff. exists (k', b). auto. }
  pose proof (setter_kw_errs g_fixed is_bool n e4 _ g_fixed_errs He4 Hin_fx) as S4.
  unfold res_to_outcome.
  destruct (setter g_fixed e4 _) as [e5 [|er|c]]; simpl in *; [auto|subst; auto|contradiction].
Qed.

(* ---- the mutually recursive core ------------------------------------------------------------------- *)
Lemma tkind_eqb_eq a b : tkind_eqb a b = true -> a = b.
Proof. destruct a, b; simpl; congruence. Qed.

Lemma accept_head k p t r : accept k p = true -> ptoks p = t :: r -> tk t = k.
Proof. unfold accept. intros H E. rewrite E in H. apply tkind_eqb_eq. auto. Qed.

Lemma accept_nonempty k p : accept k p = true -> exists t r, ptoks p = t :: r.
Proof. unfold accept. destruct (ptoks p); [discriminate|eauto]. Qed.

Lemma find_sym_in s reg : forall i ci r, find_sym s reg i = Some (ci, r) -> In r reg.
Proof.
  induction reg as [|x reg IH]; simpl; intros i ci r H; [discriminate|].
  destruct (str_eqb s (r_sym x)); [inversion H; auto|right; eapply IH; eauto].
Qed.

Lemma index_of_lt s l : forall i j, index_of s l i = Some j -> i <= j < i + length l.
Proof.
  induction l as [|x l IH]; simpl; intros i j H; [discriminate|].
  destruct (str_eqb s x); [inversion H; lia|]. apply IH in H. lia.
Qed.

Definition pushes1 (p p' : pst) : Prop := exists n, pstack p' = SkNode n :: pstack p.

Section Core.
Variable reg : registry.
Hypothesis Hreg : wf_registry reg = true.

Lemma reg_wf r : In r reg -> wf_rcls r = true.
Proof. unfold wf_registry in Hreg. rewrite forallb_forall in Hreg. auto. Qed.

Definition core_stmt (fuel : nat) : Prop := forall depth p,
  good (pushes1 p) (main_loop fuel depth reg p) /\
  (forall opening closing series, accept opening p = true ->
     good (pushes1 p) (connection fuel depth reg opening closing series p)) /\
  good (pushes1 p) (element fuel depth reg p) /\
  (forall r, wf_rcls r = true ->
     good (fun dp => pstack (snd dp) = pstack p /\ pd_ok r (fst dp)) (parameters fuel depth reg r p)) /\
  (accept KIdent p || accept KLBr p || accept KLPar p = true ->
     good (fun op => pstack (snd op) = pstack p) (subcircuit fuel depth reg p)).

Lemma core_main f : core_stmt f -> forall depth p, good (pushes1 p) (main_loop (S f) depth reg p).
Proof.
  intros IH depth p. simpl.
  destruct (accept KLBr p) eqn:E1; [apply (IH depth p); auto|].
  destruct (accept KLPar p) eqn:E2; [apply (IH depth p); auto|].
  destruct (accept KIdent p) eqn:E3; [apply (IH depth p)|].
  destruct (ptoks p); simpl; auto.
Qed.

Lemma core_connection f : core_stmt f -> forall depth p opening closing series,
  accept opening p = true -> good (pushes1 p) (connection (S f) depth reg opening closing series p).
Proof.
  intros IH depth p opening closing series Hacc. simpl.
  destruct depth as [|[|d]]; simpl; auto.
  eapply good_bind; [apply pop_token_good|]. intros [t p1] [Hs Ht]. simpl in *.
  assert (Hk : tk t = opening) by (eapply accept_head; eauto). rewrite Hk.
  destruct (accept closing (push_stack (SkTok opening) p1)); simpl; auto.
  set (L := fix loop (n : nat) (q : pst) {struct n} : outcome pst :=
              if accept closing q then Ok q
              else match n with
                   | 0 => Crash COutOfFuel
                   | S m => let* q' := main_loop f d reg q in loop m q'
                   end).
  assert (HL : forall n q, (exists ns, pstack q = map SkNode ns ++ SkTok opening :: pstack p) ->
                good (fun q' => exists ns, pstack q' = map SkNode ns ++ SkTok opening :: pstack p) (L n q)).
  { induction n as [|m IHm]; intros q Hq; simpl.
    - destruct (accept closing q); simpl; auto.
    - destruct (accept closing q); simpl; auto.
      eapply good_bind; [apply (IH d q)|]. intros q' [x Hx]. apply IHm.
      destruct Hq as [ns Hns]. exists (x :: ns). rewrite Hx, Hns. auto. }
  eapply good_bind; [apply (HL f (push_stack (SkTok opening) p1))|].
  { exists []. simpl. rewrite Hs. auto. }
  intros p3 [ns Hns].
  eapply good_bind; [apply expect_good|]. intros _ _.
  eapply good_bind; [apply pop_token_good|]. intros [t4 p4] [Hs4 _]. simpl in *.
  destruct p4 as [tk4 st4]. simpl in *. subst st4. rewrite Hns.
  eapply good_weaken; [apply finish_connection_good|]. intros p' [n [Hn _]]. exists n. auto.
Qed.

Lemma core_element f : core_stmt f -> forall depth p, good (pushes1 p) (element (S f) depth reg p).
Proof.
  intros IH depth p. simpl.
  eapply good_bind; [apply pop_token_good|]. intros [idt p1] [Hs _]. simpl in *.
  destruct (find_sym (tstr idt) reg 0) as [[ci r]|] eqn:Ef; simpl; auto.
  pose proof (reg_wf r (find_sym_in _ _ _ _ _ Ef)) as Hwf.
  eapply good_bind; [apply (IH depth p1); auto|]. intros [d p2] [Hs2 Hok]. simpl in *.
  eapply good_bind; [apply build_element_good; auto|]. intros n _. simpl.
  exists n. simpl. congruence.
Qed.

Lemma pd_ok_add r d k v lo up fx :
  pd_ok r d -> key_ok r k ->
  pd_ok r (mkPD (pd_label d) (pd_params d ++ [(k, v)]) (pd_lower d ++ [(k, lo)]) (pd_upper d ++ [(k, up)])
                (pd_fixed d ++ [(k, fx)]) (pd_subs d)).
Proof.
  intros [H1 H2 H3] Hk. constructor; simpl; rewrite map_app; apply Forall_app; split; auto; simpl; constructor; auto.
Qed.

Lemma core_parameters f : core_stmt f -> forall depth p r, wf_rcls r = true ->
  good (fun dp => pstack (snd dp) = pstack p /\ pd_ok r (fst dp)) (parameters (S f) depth reg r p).
Proof.
  intros IH depth p r Hwf. simpl.
  destruct (negb (accept KLCur p)); simpl; [split; auto using pd_ok_empty|].
  eapply good_bind; [apply pop_token_good|]. intros [t1 p1] [Hs1 _]. simpl in *.
  set (L := fix loop (n : nat) (pkeys skeys : list str) (d : pdefs) (q : pst) {struct n} : outcome (pdefs * pst) := _).
  assert (HL : forall n pkeys skeys d q, pstack q = pstack p -> pd_ok r d ->
                good (fun dp => pstack (snd dp) = pstack p /\ pd_ok r (fst dp)) (L n pkeys skeys d q)).
  { induction n as [|m IHm]; intros pkeys skeys d q Hq Hd.
    - simpl. destruct pkeys, skeys; simpl; auto.
    - assert (Hstep : good (fun dp => pstack (snd dp) = pstack p /\ pd_ok r (fst dp))
               (if negb (accept KIdent q) then Err PE_expected_param_ident
                else
                  let* (kt, q1) := pop_token q in
                  let key := tstr kt in
                  let* _ := expect KEq q1 in
                  let* (_, q2) := pop_token q1 in
                  let* (pk, sk', d', q3) :=
                    if accept KLBr q2 || accept KLPar q2 || accept KIdent q2 then
                      match index_of key (r_subkeys r) 0 with
                      | Some si =>
                          if existsb (fun iv => Nat.eqb (fst iv) si) (pd_subs d) then Err PE_duplicate_param
                          else if negb (mem_str key skeys) then Err PE_invalid_param
                          else
                            let* (oc, q3) := subcircuit f depth reg q2 in
                            Ok (pkeys, remove_str key skeys,
                                mkPD (pd_label d) (pd_params d) (pd_lower d) (pd_upper d) (pd_fixed d) (pd_subs d ++ [(si, oc)]), q3)
                      | None => Err PE_invalid_param
                      end
                    else
                      match index_of key (r_keys r) 0 with
                      | Some ki =>
                          let k := N.of_nat ki in
                          if has_key k (pd_params d) then Err PE_duplicate_param
                          else if negb (mem_str key pkeys) then Err PE_invalid_param
                          else
                            let* (vals, q3) := param q2 in
                            let '(v, lo, up, fx) := vals in
                            if negb (is_nan lo) && xltb v lo then Err PE_invalid_lower
                            else if negb (is_nan up) && xltb up v then Err PE_invalid_upper
                            else Ok (remove_str key pkeys, skeys,
                                     mkPD (pd_label d) (pd_params d ++ [(k, v)]) (pd_lower d ++ [(k, lo)])
                                          (pd_upper d ++ [(k, up)]) (pd_fixed d ++ [(k, fx)]) (pd_subs d), q3)
                      | None => Err PE_invalid_param
                      end in
                  if accept KComma q3 then
                    match pk, sk' with
                    | [], [] => Err PE_too_many_params
                    | _, _ => let* (_, q4) := pop_token q3 in L m pk sk' d' q4
                    end
                  else Ok (d', q3))).
      { destruct (negb (accept KIdent q)); simpl; auto.
        eapply good_bind; [apply pop_token_good|]. intros [kt q1] [Hq1 _]. simpl in *.
        eapply good_bind; [apply expect_good|]. intros _ _.
        eapply good_bind; [apply pop_token_good|]. intros [t2 q2] [Hq2 _]. simpl in *.
        eapply (good_bind (fun x => pstack (snd x) = pstack p /\ pd_ok r (snd (fst x)))).
        - destruct (accept KLBr q2 || accept KLPar q2 || accept KIdent q2) eqn:Eacc.
          + destruct (index_of (tstr kt) (r_subkeys r) 0); simpl; auto.
            destruct (existsb _ (pd_subs d)); simpl; auto.
            destruct (negb (mem_str (tstr kt) skeys)); simpl; auto.
            eapply good_bind; [apply (IH depth q2)|].
            { destruct (accept KIdent q2), (accept KLBr q2), (accept KLPar q2); simpl in *; auto. }
            intros [oc q3] Hq3. simpl in *. split; [congruence|]. destruct Hd. constructor; auto.
          + destruct (index_of (tstr kt) (r_keys r) 0) as [ki|] eqn:Ei; simpl; auto.
            destruct (has_key (N.of_nat ki) (pd_params d)); simpl; auto.
            destruct (negb (mem_str (tstr kt) pkeys)); simpl; auto.
            eapply good_bind; [apply param_good|]. intros [[[[v lo] up] fx] q3] Hq3. unfold same_stack in Hq3. simpl in *.
            destruct (negb (is_nan lo) && xltb v lo); simpl; auto.
            destruct (negb (is_nan up) && xltb up v); simpl; auto.
            split; [congruence|]. apply pd_ok_add; auto. unfold key_ok. apply index_of_lt in Ei. lia.
        - intros [[[pk sk'] d'] q3] [Hq3 Hd']. simpl in *.
          destruct (accept KComma q3); simpl; auto.
          destruct pk, sk'; simpl; auto;
            (eapply good_bind; [apply pop_token_good|]; intros [t4 q4] [Hq4 _]; simpl in *; apply IHm; auto; congruence). }
      simpl. destruct pkeys, skeys; simpl; auto; exact Hstep. }
  eapply (good_bind (fun dp => pstack (snd dp) = pstack p /\ pd_ok r (fst dp))).
  - destruct (accept KColon p1); simpl; [split; auto using pd_ok_empty; congruence|].
    apply HL; auto using pd_ok_empty; congruence.
  - intros [d p2] [Hs2 Hd]. simpl in *.
    eapply (good_bind (fun dp => pstack (snd dp) = pstack p /\ pd_ok r (fst dp))).
    + destruct (accept KColon p2); simpl; auto.
      eapply good_bind; [apply pop_token_good|]. intros [t3 q1] [Hq1 _]. simpl in *.
      eapply good_bind; [apply expect_good|]. intros _ _.
      eapply good_bind; [apply pop_token_good|]. intros [lt q2] [Hq2 _]. simpl in *.
      split; [congruence|]. destruct Hd. constructor; auto.
    + intros [d3 p3] [Hs3 Hd3]. simpl in *.
      eapply good_bind; [apply expect_good|]. intros _ _.
      eapply good_bind; [apply pop_token_good|]. intros [t5 p4] [Hs4 _]. simpl in *.
      split; [congruence|auto].
Qed.

Lemma core_subcircuit f : core_stmt f -> forall depth p,
  accept KIdent p || accept KLBr p || accept KLPar p = true ->
  good (fun op => pstack (snd op) = pstack p) (subcircuit (S f) depth reg p).
Proof.
  intros IH depth0 p Hacc. simpl.
  destruct depth0 as [|[|[|[|depth]]]]; simpl; auto.
  destruct (accept KIdent p) eqn:Ei.
  - destruct (accept_nonempty _ _ Ei) as (t & rest & Et). rewrite Et.
    destruct (str_eqb (tstr t) str_zero || str_eqb (tstr t) str_short).
    { eapply good_bind; [apply pop_token_good|]. intros [t1 p1] [H1 _]. simpl in *. auto. }
    destruct (str_eqb (tstr t) str_inf || str_eqb (tstr t) str_open).
    { eapply good_bind; [apply pop_token_good|]. intros [t1 p1] [H1 _]. simpl in *. auto. }
    set (L := fix loop (n : nat) (q : pst) {struct n} : outcome pst := _).
    assert (HL : forall n q, (exists ns, pstack q = map SkNode ns ++ pstack p) ->
                  good (fun q' => exists ns, pstack q' = map SkNode ns ++ pstack p) (L n q)).
    { induction n as [|m IHm]; intros q Hq; simpl.
      - destruct (is_param_end q); simpl; auto. destruct (ptoks q); simpl; auto.
      - destruct (is_param_end q); simpl; auto. destruct (ptoks q) eqn:Eq; simpl; auto.
        eapply good_bind; [apply (IH depth q)|]. intros q' [x Hx]. apply IHm.
        destruct Hq as [ns Hns]. exists (x :: ns). rewrite Hx, Hns. auto. }
    eapply good_bind; [apply (HL f p); exists []; auto|]. intros p1 [ns Hns].
    rewrite Hns. rewrite pop_above_nodes by auto. simpl. auto.
  - simpl in Hacc.
    eapply (good_bind (pushes1 p)).
    + destruct (accept KLBr p) eqn:Eb; [apply (IH depth p); auto|]. simpl in Hacc. apply (IH depth p); auto.
    + intros p1 [n Hn]. rewrite Hn. destruct n; simpl; auto.
Qed.

Theorem core_all : forall fuel, core_stmt fuel.
Proof.
  induction fuel as [|f IH]; intros depth p.
  - simpl. repeat split; intros; simpl; auto.
  - split; [apply core_main; auto|]. split; [intros; apply core_connection; auto|].
    split; [apply core_element; auto|]. split; [intros; apply core_parameters; auto|].
    apply core_subcircuit; auto.
Qed.

(* ---- migrate, the top-level loop, assemble --------------------------------------------------------- *)
Lemma migrate_good p : good (fun p' => pstack p' = pstack p) (migrate p).
Proof.
  unfold migrate. destruct (accept KExcl p); simpl; auto.
  eapply good_bind; [apply pop_token_good|]. intros [t1 p1] [H1 _]. simpl in *.
  eapply good_bind; [apply expect_good|]. intros _ _.
  eapply good_bind; [apply pop_token_good|]. intros [t2 p2] [H2 _]. simpl in *.
  destruct (negb (str_eqb (map upper_char (tstr t2)) [86%N])); simpl; auto.
  eapply good_bind; [apply expect_good|]. intros _ _.
  eapply good_bind; [apply pop_token_good|]. intros [t3 p3] [H3 _]. simpl in *.
  eapply good_bind; [apply expect_number_good|]. intros _ _.
  eapply good_bind; [apply pop_token_good|]. intros [t4 p4] [H4 _]. simpl in *.
  destruct (negb _); simpl; auto. destruct (xltb (tnum t4) (Fin 1)); simpl; auto.
  eapply good_bind; [apply expect_good|]. intros _ _.
  eapply good_bind; [apply pop_token_good|]. intros [t5 p5] [H5 _]. simpl in *. congruence.
Qed.

Lemma assemble_good p ns : pstack p = map SkNode ns -> good (fun _ => True) (assemble p).
Proof.
  unfold assemble. intros ->. destruct ns as [|a [|b r]]; simpl; auto.
  - destruct a as [? ? ?|[l|l]]; simpl; auto.
  - rewrite all_nodes_map. destruct a as [? ? ?|[l|l]]; simpl; auto.
Qed.

Theorem parse_tokens_good ts : good (fun _ => True) (parse_tokens reg ts).
Proof.
  unfold parse_tokens.
  eapply good_bind; [apply migrate_good|]. intros p0 H0. simpl in H0.
  set (fuel := 4 * length ts + 10).
  set (L := fix loop (n : nat) (q : pst) {struct n} : outcome pst := _).
  assert (HL : forall n q, (exists ns, pstack q = map SkNode ns) -> good (fun q' => exists ns, pstack q' = map SkNode ns) (L n q)).
  { induction n as [|m IHm]; intros q Hq; simpl.
    - destruct (ptoks q); simpl; auto.
    - destruct (ptoks q); simpl; auto.
      eapply good_bind; [apply (core_all fuel depth_budget q)|]. intros q' [x Hx]. apply IHm.
      destruct Hq as [ns Hns]. exists (x :: ns). rewrite Hx, Hns. auto. }
  eapply good_bind; [apply (HL fuel p0); exists []; auto|]. intros p1 [ns Hns].
  eapply assemble_good; eauto.
Qed.
End Core.

Theorem parse_good reg s : wf_registry reg = true -> good (fun _ => True) (parse reg s).
Proof.
  intro Hreg. unfold parse. destruct (is_empty_circuit (pstrip s)); simpl; auto.
  eapply (good_bind (fun _ => True)).
  - pose proof (Token_facts.tokenize_total (pstrip s)) as H. destruct (tokenize (pstrip s)); simpl; auto.
    + destruct H as [-> | ->]; auto.
    + contradiction.
  - intros ts _. destruct ts.
    + simpl. auto.
    + apply parse_tokens_good. auto.
Qed.

(* Circuit/Lex_ext.v — the lexical half of the extended-syntax round trip: the text printed by to_string(d) for a tree of elements
   without sub-circuits is a sequence of lexemes (symbol, braces, key = value[F] / limit / limit, commas, label) that the scanner
   splits into exactly the tokens of Parser_ext.v, every number token carrying the value float() reads from the printed digits. *)
From Coq Require Import ZArith NArith QArith Bool List Lia.
From PV Require Import Base.Num Base.Outcome Circuit.ElemState Circuit.ElemProp Circuit.Tree Circuit.Token Circuit.Registry Circuit.Parser
  Circuit.Printer Circuit.Token_decode Circuit.Token_ext Circuit.Printer_num Circuit.Printer_lex Circuit.Parser_basic Circuit.Parser_ext.
Import ListNotations.
Local Open Scope nat_scope.

Section LexExt.
Variable reg : registry.
Variable d : nat.

(* ---- lexemes of a printed element ---------------------------------------------------------------------------------------------- *)
Definition num_lex (fixed : bool) (x : xnum) : lexeme :=
  match x with
  | Fin q => let np := fmt_parts d q in LNum (np_neg np) (np_c np) (np_frac np) (np_eneg np) (np_edigs np) fixed
  | _ => LWord str_inf
  end.
Definition limit_lex (x : xnum) : lexeme := if is_inf x then LWord str_inf else num_lex false x.
Definition param_lex (name : str) (p : pstate) : list lexeme :=
  [LKey name; LPunct KEq; num_lex (pfx p) (pv p); LPunct KSlash; limit_lex (plo p); LPunct KSlash; limit_lex (phi p)].
Fixpoint params_lex (names : list str) (ps : list pstate) : list lexeme :=
  match names, ps with
  | n :: nr, p :: pr => param_lex n p ++ (match pr with [] => [] | _ => LPunct KComma :: params_lex nr pr end)
  | _, _ => []
  end.
Definition label_lex (l : str) : list lexeme := match l with [] => [] | _ => [LPunct KColon; LLabel l] end.
Definition elem_lex (r : rcls) (s : elt) : list lexeme :=
  LWord (r_sym r) :: LPunct KLCur :: params_lex (r_keys r) (map snd (epars s)) ++ label_lex (elabel s) ++ [LPunct KRCur].

(* the value the scanner reads back from the printed form *)
Definition rdx (x : xnum) : xnum :=
  match x with
  | Fin q => let np := fmt_parts d q in num_value (np_neg np) (np_c np) (np_frac np) (np_eneg np) (np_edigs np)
  | _ => x
  end.
Definition rd_p (p : pstate) : pstate := mkP (rdx (pv p)) (rdx (plo p)) (rdx (phi p)) (pfx p).
Definition rd_elt (s : elt) : elt := mkE (elabel s) (map (fun kp => (fst kp, rd_p (snd kp))) (epars s)).

(* what the printer and the scanner need of a parameter: a finite value, limits that are numbers or infinite, and no printed number
   beyond the range of a double (a finite number that reads back as inf would be written as a number and read as one, but re-printed
   as the keyword) *)
Definition lex_p_ok (p : pstate) : bool :=
  match pv p with Fin _ => true | _ => false end
  && negb (is_nan (plo p)) && negb (is_nan (phi p))
  && negb (is_inf (rdx (pv p))) && Bool.eqb (is_inf (rdx (plo p))) (is_inf (plo p)) && Bool.eqb (is_inf (rdx (phi p))) (is_inf (phi p)).

Lemma rdx_value fixed q : lex_tok (num_lex fixed (Fin q)) = num_tok fixed (rdx (Fin q)).
Proof. reflexivity. Qed.

Lemma limit_lex_tok x : is_nan x = false -> Bool.eqb (is_inf (rdx x)) (is_inf x) = true ->
  map lex_tok [limit_lex x] = limit_toks (rdx x).
Proof.
  intros Hn Hi. apply eqb_prop in Hi. unfold limit_toks, limit_lex. rewrite Hi.
  destruct x as [q| | |]; try discriminate; cbn [is_inf] in *.
  - rewrite <- Hi. reflexivity.
  - reflexivity.
  - reflexivity.
Qed.

Lemma param_lex_tok name p : lex_p_ok p = true -> map lex_tok (param_lex name p) = param_toks name (rd_p p).
Proof.
  unfold lex_p_ok. rewrite !andb_true_iff, !negb_true_iff. intros [[[[[Hv Hlo] Hhi] Hvi] Hloi] Hhii].
  unfold param_lex, param_toks. cbn [map rd_p pv plo phi pfx app].
  destruct (pv p) as [q| | |] eqn:Ev; try discriminate.
  change [lex_tok (limit_lex (plo p))] with (map lex_tok [limit_lex (plo p)]).
  pose proof (limit_lex_tok (plo p) Hlo Hloi) as H1. pose proof (limit_lex_tok (phi p) Hhi Hhii) as H2.
  cbn [map] in H1, H2.
  assert (E : forall a b c0 (l1 l2 : list tok), [a] = l1 -> [b] = l2 -> a :: c0 :: b :: nil = l1 ++ c0 :: l2) by (intros; subst; reflexivity).
  f_equal. f_equal. f_equal. f_equal. apply E; assumption.
Qed.

Lemma params_lex_tok : forall names ps, forallb lex_p_ok ps = true ->
  map lex_tok (params_lex names ps) = params_toks names (map rd_p ps).
Proof.
  induction names as [|n names IH]; intros [|p ps] H; cbn [params_lex params_toks map]; try reflexivity.
  cbn [forallb] in H. apply andb_prop in H as [H1 H2]. rewrite map_app, (param_lex_tok n p H1).
  destruct ps as [|p2 ps]; [reflexivity|]. cbn [map]. f_equal. f_equal. apply (IH (p2 :: ps) H2).
Qed.

Lemma elem_lex_tok r s : forallb (fun kp => lex_p_ok (snd kp)) (epars s) = true ->
  map lex_tok (elem_lex r s) = elem_toks r (rd_elt s).
Proof.
  intro H. unfold elem_lex, elem_toks. cbn [map]. rewrite !map_app. cbn [rd_elt epars elabel].
  rewrite params_lex_tok.
  - rewrite !map_map. cbn [snd]. f_equal. f_equal. f_equal. unfold label_lex, label_toks. destruct (elabel s); reflexivity.
  - rewrite forallb_forall in *. intros p Hp. apply in_map_iff in Hp. destruct Hp as (kp & <- & Hin). apply (H kp Hin).
Qed.

(* ---- the text of the lexemes is the printed text --------------------------------------------------------------------------------- *)
Lemma num_lex_text fixed q : lex_text (num_lex fixed (Fin q)) = fmtE d (Fin q) ++ fix_mark fixed.
Proof. cbn [num_lex lex_text]. rewrite (proj1 (fmtE_parts d q)). reflexivity. Qed.

Lemma limit_lex_text x : is_nan x = false -> lex_text (limit_lex x) = if is_inf x then str_inf' else fmtE d x.
Proof.
  intro Hn. unfold limit_lex. destruct x as [q| | |]; try discriminate; cbn [is_inf]; try reflexivity.
  rewrite num_lex_text. apply app_nil_r.
Qed.

Lemma ltext_cons x l : ltext (x :: l) = lex_text x ++ ltext l.
Proof. reflexivity. Qed.

Lemma param_lex_text name p : lex_p_ok p = true -> ltext (param_lex name p) = param_string d name p.
Proof.
  unfold lex_p_ok. rewrite !andb_true_iff, !negb_true_iff. intros [[[[[Hv Hlo] Hhi] _] _] _].
  unfold param_lex, param_string. rewrite !ltext_cons. destruct (pv p) as [q| | |] eqn:Ev; try discriminate.
  rewrite num_lex_text, (limit_lex_text _ Hlo), (limit_lex_text _ Hhi). cbn [lex_text punct]. unfold ltext. cbn [map concat].
  rewrite app_nil_r. unfold fix_mark. rewrite <- !app_assoc. reflexivity.
Qed.

Lemma params_lex_text : forall names ps, length names = length ps -> forallb lex_p_ok ps = true ->
  ltext (params_lex names ps) = join [44%N] (map (fun np => param_string d (fst np) (snd np)) (combine names ps)).
Proof.
  induction names as [|n names IH]; intros [|p ps] Hl H; cbn [params_lex combine map join]; try reflexivity; try discriminate.
  cbn [forallb] in H. apply andb_prop in H as [H1 H2]. rewrite ltext_app, (param_lex_text n p H1). cbn [fst snd].
  destruct ps as [|p2 ps].
  - destruct names; [|discriminate]. cbn [combine map]. unfold ltext. cbn. apply app_nil_r.
  - destruct names as [|n2 names]; [discriminate|]. rewrite ltext_cons. cbn [lex_text punct].
    rewrite (IH (p2 :: ps)); [|cbn [length] in *; lia|exact H2]. cbn [combine map]. reflexivity.
Qed.

Lemma nth_skipn {A} (l : list A) i dflt : i < length l -> skipn i l = nth i l dflt :: skipn (S i) l.
Proof.
  revert i. induction l as [|x l IH]; intros i H; [cbn in H; lia|]. destruct i as [|i]; [reflexivity|].
  cbn [skipn nth]. apply IH. cbn [length] in H. lia.
Qed.

Lemma printed_names (keys : list str) : forall (eps : list (N * pstate)) i,
  map fst eps = map N.of_nat (seq i (length eps)) -> i + length eps <= length keys ->
  map (fun kp : N * pstate => (nth_str keys (N.to_nat (fst kp)), snd kp)) eps = combine (firstn (length eps) (skipn i keys)) (map snd eps).
Proof.
  induction eps as [|[k p] eps IH]; intros i Hk Hl; [reflexivity|].
  cbn [length seq map fst snd] in *. inversion Hk as [[Hk0 Hk1]]. rewrite Nat2N.id.
  rewrite (nth_skipn keys i []) by lia. cbn [firstn combine]. unfold nth_str at 1. f_equal.
  rewrite (IH (S i) Hk1) by lia. reflexivity.
Qed.

Lemma elem_lex_text r s ci subs f :
  nth_error reg ci = Some r -> r_subkeys r = [] ->
  map fst (epars s) = map N.of_nat (seq 0 (length (r_keys r))) ->
  forallb (fun kp => lex_p_ok (snd kp)) (epars s) = true ->
  ltext (elem_lex r s) = node_string (S f) reg (Some d) (NE ci s subs).
Proof.
  intros Hr Hsub Hnum Hok. cbn [node_string]. rewrite Hr, Hsub.
  unfold elem_lex. rewrite !ltext_cons, !ltext_app. cbn [lex_text punct].
  assert (Hlen : length (epars s) = length (r_keys r)).
  { rewrite <- (map_length fst (epars s)), Hnum, map_length, seq_length. reflexivity. }
  rewrite params_lex_text.
  - assert (Hn : map (fun kp : N * pstate => param_string d (nth_str (r_keys r) (N.to_nat (fst kp))) (snd kp)) (epars s)
                 = map (fun np => param_string d (fst np) (snd np)) (combine (r_keys r) (map snd (epars s)))).
    { rewrite <- (map_map (fun kp : N * pstate => (nth_str (r_keys r) (N.to_nat (fst kp)), snd kp)) (fun np => param_string d (fst np) (snd np))).
      rewrite (printed_names (r_keys r) (epars s) 0); [|etransitivity; [exact Hnum|]; do 2 f_equal; symmetry; exact Hlen|cbn [plus]; apply Nat.eq_le_incl; exact Hlen].
      cbn [skipn]. assert (Hfa : firstn (length (epars s)) (r_keys r) = r_keys r) by (etransitivity; [|apply firstn_all]; f_equal; exact Hlen).
      unfold key in *. rewrite Hfa. reflexivity. }
    rewrite Hn. unfold label_lex. destruct (elabel s) as [|c0 l0]; unfold ltext; cbn [map concat lex_text punct app]; rewrite ?app_nil_r; rewrite <- ?app_assoc; reflexivity.
  - rewrite map_length. symmetry. exact Hlen.
  - rewrite forallb_forall in *. intros p Hp. apply in_map_iff in Hp. destruct Hp as (kp & <- & Hin). apply (Hok kp Hin).
Qed.

(* ---- the lexemes of an element chain up ------------------------------------------------------------------------------------------ *)
Definition sep_head (s : str) : Prop :=
  match s with c :: _ => c = 44%N \/ c = 47%N \/ c = 58%N \/ c = 125%N | [] => False end.

Lemma sep_after_num s : sep_head s -> after_num s.
Proof. destruct s as [|c r]; [contradiction|]. cbn. intros [-> | [-> | [-> | ->]]]; repeat split; try reflexivity; discriminate. Qed.
Lemma sep_not_tailp s : sep_head s -> match s with c :: _ => tailp c = false | [] => True end.
Proof. destruct s as [|c r]; [contradiction|]. cbn. intros [-> | [-> | [-> | ->]]]; reflexivity. Qed.

Lemma num_lex_ok fixed q : lex_ok (num_lex fixed (Fin q)).
Proof. cbn [num_lex lex_ok]. apply (proj2 (fmtE_parts d q)). Qed.

Lemma num_lex_next fixed q rest : sep_head rest -> next_ok (num_lex fixed (Fin q)) rest.
Proof. intro H. cbn [num_lex next_ok]. unfold after_number. destruct fixed; [exact I|apply sep_after_num; exact H]. Qed.

Lemma limit_lex_facts x ts rest :
  is_nan x = false -> plain_prev ts -> sep_head rest ->
  lex_ok (limit_lex x) /\ prev_ok ts (limit_lex x) /\ next_ok (limit_lex x) rest.
Proof.
  intros Hn Hp Hs. unfold limit_lex. destruct x as [q| | |]; try discriminate; cbn [is_inf].
  - split; [apply num_lex_ok|]. split; [exact I|apply num_lex_next; exact Hs].
  - split; [reflexivity|]. split; [exact Hp|apply sep_not_tailp; exact Hs].
  - split; [reflexivity|]. split; [exact Hp|apply sep_not_tailp; exact Hs].
Qed.

Lemma ltext_limit_head x rest : is_nan x = false -> exists c r, lex_text (limit_lex x) ++ rest = c :: r.
Proof.
  intros Hn. unfold limit_lex. destruct x as [q| | |]; try discriminate; cbn [is_inf].
  - cbn [num_lex lex_text]. unfold num_text. destruct (np_neg (fmt_parts d q)); cbn [app]; eexists; eexists; reflexivity.
  - eexists; eexists; reflexivity.
  - eexists; eexists; reflexivity.
Qed.

Lemma lchain_cons ts x r after :
  lex_ok x -> prev_ok ts x -> next_ok x (ltext r ++ after) -> lchain (lex_tok x :: ts) r after -> lchain ts (x :: r) after.
Proof. intros. cbn [lchain]. auto. Qed.

Lemma sep_slash r0 : sep_head (lex_text (LPunct KSlash) ++ r0).
Proof. cbn. right. left. reflexivity. Qed.

Lemma param_lchain name p ts rest after :
  valid_key name = true -> lex_p_ok p = true -> key_prev ts -> sep_head (ltext rest ++ after) ->
  lchain (rev (map lex_tok (param_lex name p)) ++ ts) rest after ->
  lchain ts (param_lex name p ++ rest) after.
Proof.
  intros Hk Hp Hprev Hsep Hrest. unfold lex_p_ok in Hp. rewrite !andb_true_iff, !negb_true_iff in Hp.
  destruct Hp as [[[[[Hv Hlo] Hhi] _] _] _]. destruct (pv p) as [q| | |] eqn:Ev; try discriminate.
  unfold param_lex in *. rewrite Ev in *. cbn [app].
  apply lchain_cons; [exact Hk|exact Hprev|rewrite ltext_cons; reflexivity|].
  apply lchain_cons; [reflexivity|exact I|exact I|].
  apply lchain_cons; [apply num_lex_ok|exact I|apply num_lex_next; rewrite ltext_cons, <- app_assoc; apply sep_slash|].
  apply lchain_cons; [reflexivity|exact I|exact I|].
  destruct (limit_lex_facts (plo p) (lex_tok (LPunct KSlash) :: lex_tok (num_lex (pfx p) (Fin q)) :: lex_tok (LPunct KEq) :: lex_tok (LKey name) :: ts)
              (ltext (LPunct KSlash :: limit_lex (phi p) :: rest) ++ after) Hlo I) as (A1 & A2 & A3).
  { rewrite ltext_cons, <- app_assoc. apply sep_slash. }
  apply lchain_cons; [exact A1|exact A2|exact A3|].
  apply lchain_cons; [reflexivity|exact I|exact I|].
  destruct (limit_lex_facts (phi p) (lex_tok (LPunct KSlash) :: lex_tok (limit_lex (plo p)) :: lex_tok (LPunct KSlash) :: lex_tok (num_lex (pfx p) (Fin q)) :: lex_tok (LPunct KEq) :: lex_tok (LKey name) :: ts)
              (ltext rest ++ after) Hhi I Hsep) as (B1 & B2 & B3).
  apply lchain_cons; [exact B1|exact B2|exact B3|].
  cbn [map rev app] in Hrest. rewrite <- ?app_assoc in Hrest. cbn [app] in Hrest. exact Hrest.
Qed.

Definition close_head (s : str) : Prop := match s with c :: _ => c = 58%N \/ c = 125%N | [] => False end.
Lemma close_sep s : close_head s -> sep_head s.
Proof. destruct s as [|c r]; [contradiction|]. cbn. intros [-> | ->]; auto. Qed.

Lemma last_toks_key_prev ts name p : key_prev (lex_tok (LPunct KComma) :: rev (map lex_tok (param_lex name p)) ++ ts).
Proof. cbn. right. reflexivity. Qed.

Lemma params_lchain : forall names ps ts rest after,
  forallb valid_key names = true -> forallb lex_p_ok ps = true -> length names = length ps -> key_prev ts ->
  close_head (ltext rest ++ after) ->
  lchain (last_toks ts (params_lex names ps)) rest after ->
  lchain ts (params_lex names ps ++ rest) after.
Proof.
  induction names as [|n names IH]; intros [|p ps] ts rest after Hk Hp Hl Hprev Hclose Hrest; try discriminate.
  - exact Hrest.
  - cbn [forallb] in Hk, Hp. apply andb_prop in Hk as [Hk1 Hk2]. apply andb_prop in Hp as [Hp1 Hp2].
    cbn [params_lex]. destruct ps as [|p2 ps].
    + destruct names; [|discriminate]. rewrite <- app_assoc. cbn [app].
      apply param_lchain; [exact Hk1|exact Hp1|exact Hprev|apply close_sep; exact Hclose|].
      unfold last_toks in Hrest. cbn [params_lex] in Hrest. rewrite app_nil_r in Hrest. exact Hrest.
    + destruct names as [|n2 names]; [discriminate|]. rewrite <- app_assoc.
      apply param_lchain; [exact Hk1|exact Hp1|exact Hprev| |].
      * cbn [app]. rewrite ltext_cons. cbn. left. reflexivity.
      * cbn [app]. apply lchain_cons; [reflexivity|exact I|exact I|].
        apply (IH (p2 :: ps)); [exact Hk2|exact Hp2|cbn [length] in *; congruence|apply last_toks_key_prev|exact Hclose|].
        unfold last_toks in *. cbn [params_lex] in Hrest. rewrite map_app, rev_app_distr in Hrest. cbn [map rev] in Hrest.
        rewrite <- !app_assoc in Hrest. cbn [app] in Hrest. exact Hrest.
Qed.


Lemma elem_lchain r s ts after :
  plain_prev ts -> valid_word (r_sym r) = true -> forallb valid_key (r_keys r) = true ->
  forallb (fun kp => lex_p_ok (snd kp)) (epars s) = true -> length (r_keys r) = length (epars s) ->
  (elabel s = [] \/ valid_label (elabel s) = true) ->
  lchain ts (elem_lex r s) after.
Proof.
  intros Hprev Hsym Hkeys Hps Hlen Hlab. unfold elem_lex.
  apply lchain_cons; [exact Hsym|exact Hprev|rewrite ltext_cons; reflexivity|].
  apply lchain_cons; [reflexivity|exact I|exact I|].
  apply params_lchain.
  - exact Hkeys.
  - rewrite forallb_forall in *. intros p Hp. apply in_map_iff in Hp. destruct Hp as (kp & <- & Hin). apply (Hps kp Hin).
  - rewrite map_length. exact Hlen.
  - cbn. left. reflexivity.
  - unfold label_lex. destruct (elabel s); cbn; [right|left]; reflexivity.
  - unfold label_lex. destruct (elabel s) as [|c0 l0] eqn:El; cbn [app].
    + apply lchain_cons; [reflexivity|exact I|exact I|exact I].
    + destruct Hlab as [Hl|Hl]; [discriminate|].
      apply lchain_cons; [reflexivity|exact I|exact I|].
      apply lchain_cons; [exact Hl|reflexivity|reflexivity|].
      apply lchain_cons; [reflexivity|exact I|exact I|exact I].
Qed.

Lemma elem_last_plain r s ts : plain_prev (last_toks ts (elem_lex r s)).
Proof.
  unfold last_toks, elem_lex. cbn [map]. rewrite !map_app. cbn [map rev]. rewrite !rev_app_distr. cbn [rev app]. exact I.
Qed.

(* ---- trees ------------------------------------------------------------------------------------------------------------------------- *)
Fixpoint xnode_lex (pf : nat) (n : node) : list lexeme :=
  match pf with
  | O => []
  | S f =>
      match n with
      | NE ci s _ => match nth_error reg ci with Some r => elem_lex r s | None => [] end
      | NC c => xconn_lex f c
      end
  end
with xconn_lex (pf : nat) (c : conn) : list lexeme :=
  match pf with
  | O => []
  | S f =>
      match c with
      | Ser l => LPunct KLBr :: flat_map (xnode_lex f) l ++ [LPunct KRBr]
      | Par l => LPunct KLPar :: flat_map (xnode_lex f) l ++ [LPunct KRPar]
      end
  end.

Fixpoint rd_node (pf : nat) (n : node) : node :=
  match pf with
  | O => n
  | S f => match n with NE ci s subs => NE ci (rd_elt s) subs | NC c => NC (rd_conn f c) end
  end
with rd_conn (pf : nat) (c : conn) : conn :=
  match pf with
  | O => c
  | S f => match c with Ser l => Ser (map (rd_node f) l) | Par l => Par (map (rd_node f) l) end
  end.

(* what the lexical half needs of an element: a class without sub-circuits whose symbol and keys have the validated shapes, the keys
   of the class in order, printable parameters, a label the scanner can delimit *)
Definition elem_lex_okb (r : rcls) (s : elt) : bool :=
  match r_subkeys r with [] => true | _ => false end
  && valid_word (r_sym r) && forallb valid_key (r_keys r)
  && list_eqb N.eqb (map fst (epars s)) (map N.of_nat (seq 0 (length (r_keys r))))
  && forallb (fun kp => lex_p_ok (snd kp)) (epars s)
  && match elabel s with [] => true | l => valid_label l end.

Fixpoint lex_node_ok (pf : nat) (n : node) : bool :=
  match pf with
  | O => false
  | S f =>
      match n with
      | NE ci s _ => match nth_error reg ci with Some r => elem_lex_okb r s | None => false end
      | NC c => lex_conn_ok f c
      end
  end
with lex_conn_ok (pf : nat) (c : conn) : bool :=
  match pf with
  | O => false
  | S f => match c with Ser l | Par l => forallb (lex_node_ok f) l end
  end.

Lemma flat_map_ext_in' {A B} (g h : A -> list B) l : (forall x, In x l -> g x = h x) -> flat_map g l = flat_map h l.
Proof. induction l as [|x l IH]; intro H; [reflexivity|]. cbn [flat_map]. rewrite (H x (or_introl eq_refl)), IH; [reflexivity|]. intros y Hy. apply H. right. exact Hy. Qed.

Lemma ltext_flat_map {A} (g : A -> list lexeme) l : ltext (flat_map g l) = flat_map (fun x => ltext (g x)) l.
Proof. induction l as [|x l IH]; [reflexivity|]. cbn [flat_map]. rewrite ltext_app, IH. reflexivity. Qed.

Lemma tree_lex pf :
  (forall n, lex_node_ok pf n = true ->
     ltext (xnode_lex pf n) = node_string pf reg (Some d) n /\
     map lex_tok (xnode_lex pf n) = xntoks reg pf (rd_node pf n) /\
     (forall ts after, plain_prev ts -> lchain ts (xnode_lex pf n) after /\ plain_prev (last_toks ts (xnode_lex pf n)))) /\
  (forall c, lex_conn_ok pf c = true ->
     ltext (xconn_lex pf c) = conn_string pf reg (Some d) c /\
     map lex_tok (xconn_lex pf c) = xctoks reg pf (rd_conn pf c) /\
     (forall ts after, lchain ts (xconn_lex pf c) after /\ plain_prev (last_toks ts (xconn_lex pf c)))).
Proof.
  induction pf as [|f [IHn IHc]]; [split; intros; discriminate|]. split.
  - intros [ci s subs|c] Hok; cbn [lex_node_ok xnode_lex rd_node] in *.
    + destruct (nth_error reg ci) as [r|] eqn:Er; [|discriminate].
      unfold elem_lex_okb in Hok. rewrite !andb_true_iff in Hok. destruct Hok as [[[[[Hsub Hsym] Hkeys] Hnum] Hps] Hlab].
      assert (Esub : r_subkeys r = []) by (destruct (r_subkeys r); [reflexivity|discriminate]).
      apply list_eqb_N_eq in Hnum.
      assert (Hlen : length (r_keys r) = length (epars s)).
      { rewrite <- (map_length fst (epars s)), Hnum, map_length, seq_length. reflexivity. }
      split; [apply elem_lex_text; auto|]. split.
      * cbn [xntoks]. rewrite Er. apply elem_lex_tok. exact Hps.
      * intros ts after Hp. split; [|apply elem_last_plain].
        apply elem_lchain; auto. destruct (elabel s); [left; reflexivity|right; exact Hlab].
    + destruct (IHc c Hok) as (H1 & H2 & H3). split; [exact H1|]. split; [exact H2|]. intros ts after _. apply H3.
  - assert (Hkids : forall l, forallb (lex_node_ok f) l = true ->
        ltext (flat_map (xnode_lex f) l) = flat_map (node_string f reg (Some d)) l /\
        map lex_tok (flat_map (xnode_lex f) l) = flat_map (xntoks reg f) (map (rd_node f) l) /\
        (forall ts rest after, plain_prev ts ->
           (forall ts', plain_prev ts' -> lchain ts' rest after) ->
           lchain ts (flat_map (xnode_lex f) l ++ rest) after)).
    { induction l as [|x l IHl]; intro Hl.
      - split; [reflexivity|]. split; [reflexivity|]. intros ts rest after Hp Hr. apply Hr. exact Hp.
      - cbn [forallb] in Hl. apply andb_prop in Hl as [Hx Hl]. destruct (IHn x Hx) as (X1 & X2 & X3). destruct (IHl Hl) as (L1 & L2 & L3).
        split; [cbn [flat_map]; rewrite ltext_app, X1, L1; reflexivity|].
        split; [cbn [flat_map map]; rewrite map_app, X2, L2; reflexivity|].
        intros ts rest after Hp Hr. cbn [flat_map]. rewrite <- app_assoc.
        destruct (X3 ts (ltext (flat_map (xnode_lex f) l ++ rest) ++ after) Hp) as [C1 C2].
        apply lchain_app; [exact C1|]. apply L3; [exact C2|exact Hr]. }
    intros [l|l] Hok; cbn [lex_conn_ok xconn_lex rd_conn conn_string xctoks] in *; destruct (Hkids l Hok) as (K1 & K2 & K3).
    + split; [rewrite ltext_cons, ltext_app, K1; reflexivity|]. split; [cbn [map]; rewrite map_app, K2; reflexivity|].
      intros ts after. split.
      * apply lchain_cons; [reflexivity|exact I|exact I|]. apply K3; [exact I|].
        intros ts' _. apply lchain_cons; [reflexivity|exact I|exact I|exact I].
      * unfold last_toks. cbn [map]. rewrite map_app. cbn [map rev]. rewrite rev_app_distr. exact I.
    + split; [rewrite ltext_cons, ltext_app, K1; reflexivity|]. split; [cbn [map]; rewrite map_app, K2; reflexivity|].
      intros ts after. split.
      * apply lchain_cons; [reflexivity|exact I|exact I|]. apply K3; [exact I|].
        intros ts' _. apply lchain_cons; [reflexivity|exact I|exact I|exact I].
      * unfold last_toks. cbn [map]. rewrite map_app. cbn [map rev]. rewrite rev_app_distr. exact I.
Qed.

(* the printed text of such a tree is scanned into exactly the tokens of the extended theorem, numbers as read back *)
Theorem ext_text_tokenizes pf c :
  lex_conn_ok pf c = true -> tokenize (to_string reg (Some d) c pf) = Ok (xctoks reg pf (rd_conn pf c)).
Proof.
  intro H. destruct (proj2 (tree_lex pf) c H) as (H1 & H2 & H3). unfold to_string. rewrite <- H1, <- H2.
  apply lexemes_tokenize_exactly. apply (H3 [] []).
Qed.

End LexExt.

(* ---- both halves: print with to_string(d), scan, parse ------------------------------------------------------------------------------ *)
Theorem ext_round_trip (reg : registry) (d : nat) :
  syms_unique reg = true ->
  forall pf c n', lex_conn_ok reg d pf c = true -> xpconn reg pf (rd_conn d pf c) = Some n' -> 2 * pf <= depth_budget ->
  exists ts, tokenize (to_string reg (Some d) c pf) = Ok ts /\ parse_tokens reg ts = Ok (top n')
             /\ xcleaves (top n') = xcleaves (rd_conn d pf c).
Proof.
  intros Hu pf c n' Hl Hp Hd. exists (xctoks reg pf (rd_conn d pf c)). split.
  - apply ext_text_tokenizes. exact Hl.
  - apply ext_round_trip_tokens; assumption.
Qed.

Lemma rd_conn_S_ser d f l : rd_conn d (S f) (Ser l) = Ser (map (rd_node d f) l).
Proof. reflexivity. Qed.

(* ---- the same for parse (the model of parse_cdc): stripping and the empty-circuit shortcut do not interfere --------------------- *)
Theorem ext_parse (reg : registry) (d : nat) :
  syms_unique reg = true ->
  forall pf c n', lex_conn_ok reg d pf c = true -> xpconn reg pf (rd_conn d pf c) = Some n' -> 2 * pf <= depth_budget ->
  parse reg (to_string reg (Some d) c pf) = Ok (top n').
Proof.
  intros Hu pf c n' Hl Hp Hd.
  pose proof (ext_text_tokenizes reg d pf c Hl) as Htok.
  pose proof (proj1 (ext_round_trip_tokens reg Hu pf (rd_conn d pf c) n' Hp Hd)) as Hpt.
  unfold to_string in *. destruct pf as [|f]; [discriminate|].
  assert (Hfinish : forall s, pstrip s = s -> is_empty_circuit s = false -> tokenize s = Ok (xctoks reg (S f) (rd_conn d (S f) c)) ->
                    parse reg s = Ok (top n')).
  { intros s H1 H2 H3. unfold parse. rewrite H1, H2, H3. cbn [bind].
    destruct c as [l|l]; cbn [rd_conn xctoks] in *; exact Hpt. }
  apply Hfinish; [| |exact Htok]; clear Hfinish.
  - destruct c as [l|l]; cbn [conn_string]; apply pstrip_id; reflexivity.
  - destruct c as [l|l]; cbn [conn_string] in *; [|reflexivity].
    destruct (flat_map (node_string f reg (Some d)) l) as [|x X'] eqn:EX.
    + (* "[]" is two tokens; the tokens of a tree the parser accepts are at least three *)
      exfalso. cbn [app] in Htok.
      assert (Hc : tokenize [91%N; 93%N] = Ok [ptok KLBr; ptok KRBr]) by (vm_compute; reflexivity).
      rewrite Hc in Htok. rewrite rd_conn_S_ser in Htok, Hp. inversion Htok as [Hlen].
      apply (f_equal (@length _)) in Hlen. cbn [length] in Hlen. rewrite app_length in Hlen. cbn [length] in Hlen.
      rewrite xpconn_S_ser in Hp.
      remember (map (rd_node d f) l) as ml eqn:Eml. clear Eml.
      destruct (flat_children (xpnode reg f) true ml) as [items|] eqn:Efc; [|discriminate Hp].
      destruct (flat_children_inv _ _ _ _ Efc) as (l' & HF & ->).
      destruct HF as [|y y' l0 l0' Hy _]; [cbn in Hp; discriminate Hp|].
      cbn [flat_map] in Hlen. rewrite app_length in Hlen.
      destruct (proj1 (xtoks_head reg f) y y' [] Hy) as (t & r & E & _). rewrite app_nil_r in E. rewrite E in Hlen. cbn [length] in Hlen. lia.
    + cbn [app]. destruct X' as [|y r]; cbn [app]; apply nonempty3.
Qed.

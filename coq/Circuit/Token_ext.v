(* Circuit/Token_ext.v — the scanner on the lexemes of the extended syntax: a number written as "%.dE" prints it (optionally followed
   by the fixed marker), a parameter key after "{" or ",", the keyword inf after "/", a label after ":", punctuation — one pass of
   main_loop per lexeme, each consuming exactly its own characters. *)
From Coq Require Import ZArith NArith QArith Bool List Lia ZifyBool ZifyN.
From PV Require Import Base.Num Base.Outcome Circuit.Tree Circuit.Token Circuit.Registry Circuit.Token_decode.
Import ListNotations.
Local Open Scope nat_scope.

(* ---- digits ---------------------------------------------------------------------------------------------------------------- *)
Lemma take_digits_app ds rest :
  forallb is_dig ds = true -> (match rest with c :: _ => is_dig c = false | [] => True end) -> take_digits (ds ++ rest) = (ds, rest).
Proof.
  induction ds as [|c ds IH]; intros Hd Hr; cbn [app take_digits].
  - destruct rest as [|c r]; [reflexivity|]. cbn [take_digits]. rewrite Hr. reflexivity.
  - cbn [forallb] in Hd. apply andb_prop in Hd as [Hc Hd]. rewrite Hc, (IH Hd Hr). reflexivity.
Qed.

Lemma dig_not_special c : is_dig c = true -> special c = None.
Proof.
  unfold is_dig, special. intro H.
  repeat match goal with |- context [(c =? ?k)%N] => destruct (N.eqb_spec c k); [exfalso; lia|] end. reflexivity.
Qed.
Lemma dig_not_letter c : is_dig c = true -> is_letter c = false.
Proof. unfold is_dig, is_letter, is_upper, is_lower. lia. Qed.

(* the text of a number as "%.dE" writes it: [-] c [. frac] E (+|-) edigs *)
Definition num_text (neg : bool) (c : N) (frac : str) (eneg : bool) (edigs : str) : str :=
  (if neg then [45%N] else []) ++ [c] ++ (match frac with [] => [] | _ => 46%N :: frac end) ++ [69%N] ++ [if eneg then 45%N else 43%N] ++ edigs.

Definition num_shape (c : N) (frac edigs : str) : Prop :=
  is_dig c = true /\ forallb is_dig frac = true /\ forallb is_dig edigs = true /\ edigs <> [].

(* what follows a number: not a digit; and, unless the fixed marker is written, not the letter f/F either *)
Definition after_num (rest : str) : Prop :=
  match rest with c :: _ => is_dig c = false /\ c <> 102%N /\ c <> 70%N | [] => True end.

(* float(str) after the sign has been split off (the same code as Token.float_of_str) *)
Definition fos_body (neg : bool) (s1 : str) : option xnum :=
  let '(di, s2) := take_digits s1 in
  let '(df, s3) := match s2 with 46%N :: r => take_digits r | _ => ([], s2) end in
  match di ++ df with
  | [] => None
  | _ =>
    let m := digits_val 0 (di ++ df) in
    let nd := Z.of_nat (length (di ++ df)) in
    match s3 with
    | [] => Some (dec_to_xnum neg m (- Z.of_nat (length df)) nd)
    | e :: r =>
        if ((e =? 101) || (e =? 69))%N then
          let '(eneg, r1) := match r with 45%N :: t => (true, t) | 43%N :: t => (false, t) | _ => (false, r) end in
          let '(de, r2) := take_digits r1 in
          match de, r2 with
          | _ :: _, [] =>
              let de' := strip_zeros de in
              let ev := if (6 <? Z.of_nat (length de'))%Z then 1000000%Z else digits_val 0 de' in
              Some (dec_to_xnum neg m ((if eneg then - ev else ev) - Z.of_nat (length df)) nd)
          | _, _ => None
          end
        else None
    end
  end.

Lemma float_of_str_body (s : str) :
  float_of_str s = let '(neg, s1) := match s with 45%N :: r => (true, r) | _ => (false, s) end in fos_body neg s1.
Proof. reflexivity. Qed.

Lemma dig_cases (c : N) : is_dig c = true ->
  (c = 48 \/ c = 49 \/ c = 50 \/ c = 51 \/ c = 52 \/ c = 53 \/ c = 54 \/ c = 55 \/ c = 56 \/ c = 57)%N.
Proof. unfold is_dig. lia. Qed.

Lemma fos_body_num (neg : bool) (c : N) (frac : str) (eneg : bool) (edigs : str) :
  num_shape c frac edigs ->
  exists v, fos_body neg ([c] ++ (match frac with [] => [] | _ => 46%N :: frac end) ++ [69%N] ++ [if eneg then 45%N else 43%N] ++ edigs) = Some v.
Proof.
  intros (Hc & Hf & He & Hne). unfold fos_body.
  set (tail := [69%N] ++ [if eneg then 45%N else 43%N] ++ edigs).
  assert (Ht : take_digits ([c] ++ (match frac with [] => [] | _ => 46%N :: frac end) ++ tail) = ([c], (match frac with [] => [] | _ => 46%N :: frac end) ++ tail)).
  { apply take_digits_app; [cbn; rewrite Hc; reflexivity|]. destruct frac; reflexivity. }
  rewrite Ht. cbv beta iota.
  assert (Hs : (match (if eneg then 45%N else 43%N) :: edigs with 45%N :: t => (true, t) | 43%N :: t => (false, t) | _ => (false, (if eneg then 45%N else 43%N) :: edigs) end) = (eneg, edigs))
    by (destruct eneg; reflexivity).
  assert (Hd : take_digits edigs = (edigs, [])).
  { rewrite <- (app_nil_r edigs) at 1. apply take_digits_app; [exact He|exact I]. }
  destruct frac as [|f0 fr].
  - cbn [app]. unfold tail. cbn [app]. cbv beta iota.
    change ((69 =? 101)%N || (69 =? 69)%N) with true. cbv beta iota.
    destruct eneg; cbv beta iota; rewrite Hd; cbv beta iota; (destruct edigs as [|e0 er]; [congruence|]); eexists; reflexivity.
  - change ((46%N :: f0 :: fr) ++ tail) with (46%N :: ((f0 :: fr) ++ tail)). cbv beta iota.
    rewrite (take_digits_app (f0 :: fr) tail Hf); [|reflexivity]. cbv beta iota. unfold tail. cbn [app]. cbv beta iota.
    change ((69 =? 101)%N || (69 =? 69)%N) with true. cbv beta iota.
    destruct eneg; cbv beta iota; rewrite Hd; cbv beta iota; (destruct edigs as [|e0 er]; [congruence|]); eexists; reflexivity.
Qed.

Lemma float_of_str_num (neg : bool) (c : N) (frac : str) (eneg : bool) (edigs : str) :
  num_shape c frac edigs -> exists v, float_of_str (num_text neg c frac eneg edigs) = Some v.
Proof.
  intros Hs. rewrite float_of_str_body. unfold num_text. destruct neg; cbn [app].
  - apply (fos_body_num true c frac eneg edigs Hs).
  - destruct Hs as (Hc & Hrest). pose proof (fos_body_num false c frac eneg edigs (conj Hc Hrest)) as H. cbn [app] in H.
    destruct (dig_cases c Hc) as [->|[->|[->|[->|[->|[->|[->|[->|[->| ->]]]]]]]]]; exact H.
Qed.

(* ---- one pass of main_loop over a printed number -------------------------------------------------------------------------------- *)
Definition fix_mark (fixed : bool) : str := if fixed then [70%N] else [].

Lemma take1_cons c r ts val i st o : take1 (mkTS (c :: r) ts val i st o) = mkTS r ts (val ++ [c]) (S i) st o.
Proof. reflexivity. Qed.

Definition after_number (fixed : bool) (rest : str) : Prop := if fixed then True else after_num rest.

Lemma tw_digits fuel ds rest ts val i st o :
  forallb is_dig ds = true -> (match rest with c :: _ => is_dig c = false | [] => True end) -> length (ds ++ rest) <= fuel ->
  take_while fuel is_dig (mkTS (ds ++ rest) ts val i st o) = mkTS rest ts (val ++ ds) (i + length ds) st o.
Proof.
  intros Hd Hr Hf. rewrite (take_while_spec is_dig fuel ds rest); cbn [chars toks value index start orig]; auto.
  rewrite app_length in Hf. destruct rest; [right; split; [simpl in Hf; lia|reflexivity]|left; simpl in Hf; lia].
Qed.

(* the part of number() after the integer digits: fraction, exponent, marker, push *)
Lemma number_tail (frac : str) (eneg : bool) (edigs : str) (fixed : bool) (rest : str) ts val i st o n v :
  forallb is_dig frac = true -> forallb is_dig edigs = true -> edigs <> [] -> after_number fixed rest ->
  length ((match frac with [] => [] | _ => 46%N :: frac end) ++ [69%N] ++ [if eneg then 45%N else 43%N] ++ edigs ++ fix_mark fixed ++ rest) <= n ->
  float_of_str (val ++ (match frac with [] => [] | _ => 46%N :: frac end) ++ [69%N] ++ [if eneg then 45%N else 43%N] ++ edigs) = Some v ->
  num_finish (num_exp n (num_frac n (mkTS ((match frac with [] => [] | _ => 46%N :: frac end) ++ [69%N] ++ [if eneg then 45%N else 43%N] ++ edigs ++ fix_mark fixed ++ rest) ts val i st o)))
  = Ok (mkTS rest (mkTok (if fixed then KFixed else KNumber) [] v :: ts) []
             (i + length ((match frac with [] => [] | _ => 46%N :: frac end) ++ [69%N] ++ [if eneg then 45%N else 43%N] ++ edigs ++ fix_mark fixed))
             (i + length ((match frac with [] => [] | _ => 46%N :: frac end) ++ [69%N] ++ [if eneg then 45%N else 43%N] ++ edigs ++ fix_mark fixed)) o).
Proof.
  intros Hf He Hne Hafter Hn Hv.
  set (etail := edigs ++ fix_mark fixed ++ rest).
  assert (Hhead : match fix_mark fixed ++ rest with c :: _ => is_dig c = false | [] => True end).
  { destruct fixed; cbn [fix_mark app]; [reflexivity|]. destruct rest as [|c0 r0]; [exact I|]. destruct Hafter as [H _]. exact H. }
  (* fraction *)
  assert (Hfr : num_frac n (mkTS ((match frac with [] => [] | _ => 46%N :: frac end) ++ [69%N] ++ [if eneg then 45%N else 43%N] ++ etail) ts val i st o)
                = mkTS ([69%N] ++ [if eneg then 45%N else 43%N] ++ etail) ts (val ++ (match frac with [] => [] | _ => 46%N :: frac end))
                       (i + length (match frac with [] => [] | _ => 46%N :: frac end)) st o).
  { destruct frac as [|f0 fr].
    - cbn [app length]. unfold num_frac. cbn [chars]. rewrite app_nil_r, Nat.add_0_r. reflexivity.
    - unfold num_frac. cbn [app chars]. rewrite take1_cons.
      change (f0 :: fr ++ 69%N :: (if eneg then 45%N else 43%N) :: etail) with ((f0 :: fr) ++ 69%N :: (if eneg then 45%N else 43%N) :: etail).
      rewrite tw_digits; [|exact Hf|reflexivity|].
      + rewrite <- app_assoc. cbn [app length]. f_equal. lia.
      + unfold etail in *. clear - Hn. cbn [app] in Hn. repeat (rewrite ?app_length in *; cbn [length] in * ). lia. }
  unfold etail in *. rewrite Hfr. clear Hfr.
  (* exponent *)
  unfold num_exp. cbn [app chars]. change ((69 =? 101)%N || (69 =? 69)%N) with true. cbv iota. rewrite take1_cons.
  assert (Hsg : num_sign (mkTS ((if eneg then 45%N else 43%N) :: edigs ++ fix_mark fixed ++ rest) ts
                           ((val ++ (match frac with [] => [] | _ => 46%N :: frac end)) ++ [69%N])
                           (S (i + length (match frac with [] => [] | _ => 46%N :: frac end))) st o)
                = mkTS (edigs ++ fix_mark fixed ++ rest) ts (((val ++ (match frac with [] => [] | _ => 46%N :: frac end)) ++ [69%N]) ++ [if eneg then 45%N else 43%N])
                       (S (S (i + length (match frac with [] => [] | _ => 46%N :: frac end)))) st o).
  { destruct eneg; reflexivity. }
  rewrite Hsg. clear Hsg.
  rewrite tw_digits; [|exact He|exact Hhead|].
  2:{ clear - Hn. repeat (rewrite ?app_length in *; cbn [length] in * ). lia. }
  (* marker and push *)
  assert (Hval : (((val ++ (match frac with [] => [] | _ => 46%N :: frac end)) ++ [69%N]) ++ [if eneg then 45%N else 43%N]) ++ edigs
                 = val ++ (match frac with [] => [] | _ => 46%N :: frac end) ++ [69%N] ++ [if eneg then 45%N else 43%N] ++ edigs).
  { rewrite <- !app_assoc. reflexivity. }
  rewrite Hval. unfold num_finish. destruct fixed; cbn [fix_mark app chars].
  - change ((70 =? 102)%N || (70 =? 70)%N) with true. cbv iota. unfold push. cbn [value chars toks index start orig]. cbn [app] in Hv. rewrite Hv.
    f_equal. f_equal; rewrite !app_length; cbn [length]; rewrite ?app_length; cbn [length]; lia.
  - destruct rest as [|c0 r0].
    + unfold push. cbn [value chars toks index start orig]. cbn [app] in Hv. rewrite Hv. f_equal. f_equal; rewrite !app_length; cbn [length]; rewrite ?app_length; cbn [length]; lia.
    + destruct Hafter as (_ & H1 & H2).
      assert (Hc0 : ((c0 =? 102)%N || (c0 =? 70)%N) = false).
      { destruct (N.eqb_spec c0 102); [congruence|]. destruct (N.eqb_spec c0 70); [congruence|]. reflexivity. }
      rewrite Hc0. unfold push. cbn [value chars toks index start orig]. cbn [app] in Hv. rewrite Hv.
      f_equal. f_equal; rewrite !app_length; cbn [length]; rewrite ?app_length; cbn [length]; lia.
Qed.

Lemma tw_stop fuel p s : (match chars s with c :: _ => p c = false | [] => True end) -> take_while fuel p s = s.
Proof. destruct fuel; [reflexivity|]. simpl. destruct (chars s) as [|c r]; [reflexivity|]. intros ->. reflexivity. Qed.

Lemma frac_head_not_dig (frac : str) (tl : str) :
  match (match frac with [] => [] | _ => 46%N :: frac end) ++ 69%N :: tl with c :: _ => is_dig c = false | [] => True end.
Proof. destruct frac; reflexivity. Qed.

Lemma main_loop_number pre ts (neg : bool) (c : N) (frac : str) (eneg : bool) (edigs : str) (fixed : bool) (rest : str) v :
  num_shape c frac edigs -> float_of_str (num_text neg c frac eneg edigs) = Some v -> after_number fixed rest ->
  main_loop (mkTS ((num_text neg c frac eneg edigs ++ fix_mark fixed) ++ rest) ts [] (length pre) (length pre)
                  (pre ++ (num_text neg c frac eneg edigs ++ fix_mark fixed) ++ rest))
  = Ok (mkTS rest (mkTok (if fixed then KFixed else KNumber) [] v :: ts) []
             (length pre + length (num_text neg c frac eneg edigs ++ fix_mark fixed))
             (length pre + length (num_text neg c frac eneg edigs ++ fix_mark fixed))
             (pre ++ (num_text neg c frac eneg edigs ++ fix_mark fixed) ++ rest)).
Proof.
  intros (Hc & Hf & He & Hne) Hv Hafter.
  set (o := pre ++ (num_text neg c frac eneg edigs ++ fix_mark fixed) ++ rest).
  set (fp := match frac with [] => [] | _ => 46%N :: frac end) in *.
  assert (Etext : (num_text neg c frac eneg edigs ++ fix_mark fixed) ++ rest
                  = (if neg then [45%N] else []) ++ c :: (fp ++ [69%N] ++ [if eneg then 45%N else 43%N] ++ edigs ++ fix_mark fixed ++ rest)).
  { unfold num_text. fold fp. rewrite <- !app_assoc. reflexivity. }
  rewrite Etext. unfold main_loop.
  set (tl := fp ++ [69%N] ++ [if eneg then 45%N else 43%N] ++ edigs ++ fix_mark fixed ++ rest).
  assert (Htl : match tl with c0 :: _ => is_dig c0 = false | [] => True end) by (unfold tl, fp; destruct frac; reflexivity).
  destruct neg.
  - (* "-" then the digit *)
    change ([45%N] ++ c :: tl) with (45%N :: c :: tl). cbn [chars].
    change (special 45%N) with (@None tkind). change (is_letter 45%N) with false. cbv iota.
    rewrite Hc. change (is_dig 45 || (45 =? 45)%N && true) with true. cbv iota.
    unfold number. cbn [chars]. rewrite take1_cons.
    change (c :: tl) with ([c] ++ tl).
    rewrite tw_digits; [|cbn; rewrite Hc; reflexivity|exact Htl|cbn [length app]; lia].
    unfold tl. rewrite (number_tail frac eneg edigs fixed rest ts _ _ _ o _ v Hf He Hne Hafter).
    + f_equal. unfold num_text. fold fp. f_equal; repeat (rewrite ?app_length; cbn [length]); lia.
    + fold fp. fold tl. cbn [length app]. lia.
    + fold fp. unfold num_text in Hv. fold fp in Hv. cbn [app] in Hv |- *. exact Hv.
  - (* the digit *)
    change ([] ++ c :: tl) with (c :: tl). cbn [chars].
    rewrite (dig_not_special c Hc), (dig_not_letter c Hc), Hc. cbn [orb]. cbv iota.
    unfold number. cbn [chars]. rewrite take1_cons.
    rewrite tw_stop by exact Htl.
    unfold tl. rewrite (number_tail frac eneg edigs fixed rest ts _ _ _ o _ v Hf He Hne Hafter).
    + f_equal. unfold num_text. fold fp. f_equal; repeat (rewrite ?app_length; cbn [length]); lia.
    + fold fp. fold tl. cbn [length app]. lia.
    + fold fp. unfold num_text in Hv. fold fp in Hv. cbn [app] in Hv |- *. exact Hv.
Qed.

(* ---- words: element symbols and the keyword inf (anywhere but after ":" "{" ","), parameter keys (after "{" or ",") ------------- *)
Lemma letter_not_special c : is_letter c = true -> special c = None.
Proof.
  unfold is_letter, is_upper, is_lower, special. intro H.
  repeat match goal with |- context [(c =? ?k)%N] => destruct (N.eqb_spec c k); [exfalso; lia|] end. reflexivity.
Qed.

Definition valid_word (s : str) : bool := match s with c :: r => is_letter c && forallb tailp r | [] => false end.
Definition keyp (c : N) : bool := is_letter c || is_dig c || (c =? 95)%N.
Definition valid_key (s : str) : bool := match s with c :: r => is_letter c && forallb keyp r | [] => false end.

Lemma main_loop_word (pre w rest : str) (ts : list tok) :
  valid_word w = true -> plain_prev ts ->
  (match rest with c :: _ => tailp c = false | [] => True end) ->
  main_loop (mkTS (w ++ rest) ts [] (length pre) (length pre) (pre ++ w ++ rest))
  = Ok (mkTS rest (ident_tok w :: ts) [] (length pre + length w) (length pre + length w) (pre ++ w ++ rest)).
Proof.
  intros Hv Hprev Hrest. destruct w as [|c r]; [discriminate|]. simpl in Hv. apply andb_prop in Hv as [Hu Ht].
  unfold main_loop. cbn [chars app]. rewrite (letter_not_special c Hu), Hu.
  unfold identifier_or_label.
  cbv zeta. unfold take1; cbn [chars toks value index start orig app].
  assert (Hpk : match prev_kind (mkTS (r ++ rest) ts [c] (S (length pre)) (length pre) (pre ++ c :: r ++ rest)) with
                | Some KColon | Some KLCur | Some KComma => False | _ => True end).
  { unfold prev_kind. cbn [toks]. destruct ts as [|t ts']; auto. }
  change (fun c0 : N => is_lower c0 || is_dig c0 || (c0 =? 95)%N) with tailp.
  assert (Htw : take_while (length (r ++ rest)) tailp (mkTS (r ++ rest) ts [c] (S (length pre)) (length pre) (pre ++ c :: r ++ rest))
                = mkTS rest ts (c :: r) (S (length pre) + length r) (length pre) (pre ++ c :: r ++ rest)).
  { rewrite (take_while_spec tailp (length (r ++ rest)) r rest); cbn [chars toks value index start orig]; auto.
    rewrite app_length. destruct rest; [right; split; [simpl; lia|reflexivity]|left; simpl; lia]. }
  destruct (prev_kind _) as [[]|]; try contradiction; rewrite Htw; unfold push; cbn [chars toks value index start orig];
    replace (S (length pre) + length r) with (length pre + length (c :: r)) by (simpl; lia);
    change (pre ++ c :: r ++ rest) with (pre ++ (c :: r) ++ rest); rewrite slice_mid; reflexivity.
Qed.

Definition key_prev (ts : list tok) : Prop := match ts with t :: _ => tk t = KLCur \/ tk t = KComma | [] => False end.

Lemma main_loop_key (pre w rest : str) (ts : list tok) :
  valid_key w = true -> key_prev ts ->
  (match rest with c :: _ => keyp c = false | [] => True end) ->
  main_loop (mkTS (w ++ rest) ts [] (length pre) (length pre) (pre ++ w ++ rest))
  = Ok (mkTS rest (ident_tok w :: ts) [] (length pre + length w) (length pre + length w) (pre ++ w ++ rest)).
Proof.
  intros Hv Hprev Hrest. destruct w as [|c r]; [discriminate|]. simpl in Hv. apply andb_prop in Hv as [Hu Ht].
  unfold main_loop. cbn [chars app]. rewrite (letter_not_special c Hu), Hu.
  unfold identifier_or_label.
  cbv zeta. unfold take1; cbn [chars toks value index start orig app].
  change (fun c0 : N => is_letter c0 || is_dig c0 || (c0 =? 95)%N) with keyp.
  assert (Htw : take_while (length (r ++ rest)) keyp (mkTS (r ++ rest) ts [c] (S (length pre)) (length pre) (pre ++ c :: r ++ rest))
                = mkTS rest ts (c :: r) (S (length pre) + length r) (length pre) (pre ++ c :: r ++ rest)).
  { rewrite (take_while_spec keyp (length (r ++ rest)) r rest); cbn [chars toks value index start orig]; auto.
    rewrite app_length. destruct rest; [right; split; [simpl; lia|reflexivity]|left; simpl; lia]. }
  unfold prev_kind. cbn [toks]. destruct ts as [|t ts']; [contradiction|]. cbn in Hprev.
  destruct Hprev as [Hk | Hk]; rewrite Hk; rewrite Htw; unfold push; cbn [chars toks value index start orig];
    replace (S (length pre) + length r) with (length pre + length (c :: r)) by (simpl; lia);
    change (pre ++ c :: r ++ rest) with (pre ++ (c :: r) ++ rest); rewrite slice_mid; reflexivity.
Qed.

(* ---- labels (after ":"): a letter, then anything whose braces are balanced, up to the closing brace of the element ------------- *)
Fixpoint brace_depth (d : nat) (l : str) : option nat :=
  match l with
  | [] => Some d
  | c :: r => if (c =? 123)%N then brace_depth (S d) r
              else if (c =? 125)%N then match d with O => None | S d' => brace_depth d' r end
              else brace_depth d r
  end.
Definition valid_label (s : str) : bool :=
  match s with c :: r => is_letter c && (match brace_depth 0 r with Some O => true | _ => false end) | [] => false end.

Lemma label_loop_run : forall l1 fuel l2 s d d',
  chars s = l1 ++ l2 -> brace_depth d l1 = Some d' -> length l1 <= fuel ->
  label_loop fuel d s = label_loop (fuel - length l1) d' (mkTS l2 (toks s) (value s ++ l1) (index s + length l1) (start s) (orig s)).
Proof.
  induction l1 as [|c l1 IH]; intros fuel l2 s d d' Hc Hb Hf.
  - cbn [app length brace_depth] in *. inversion Hb; subst d'. rewrite Nat.sub_0_r, app_nil_r, Nat.add_0_r.
    destruct s; cbn in *; subst; reflexivity.
  - destruct fuel as [|f]; [cbn [length] in Hf; lia|]. cbn [app] in Hc. cbn [label_loop]. rewrite Hc.
    cbn [brace_depth] in Hb. cbn [length]. cbn [Nat.sub].
    assert (Hstep : forall dd, brace_depth dd l1 = Some d' ->
              label_loop f dd (take1 s) = label_loop (f - length l1) d' (mkTS l2 (toks s) (value s ++ c :: l1) (index s + S (length l1)) (start s) (orig s))).
    { intros dd Hdd. rewrite (IH f l2 (take1 s) dd d'); [|unfold take1; rewrite Hc; reflexivity|exact Hdd|cbn [length] in Hf; lia].
      unfold take1. rewrite Hc. cbn [chars toks value index start orig]. rewrite <- app_assoc. cbn [app]. f_equal. f_equal. lia. }
    destruct (c =? 123)%N.
    + apply Hstep. exact Hb.
    + destruct (c =? 125)%N.
      * destruct d as [|d0]; [discriminate|]. apply Hstep. exact Hb.
      * apply Hstep. exact Hb.
Qed.

Lemma label_loop_spec : forall fuel l1 l2 s,
  chars s = l1 ++ 125%N :: l2 -> brace_depth 0 l1 = Some 0 -> length l1 < fuel ->
  label_loop fuel 0 s = mkTS (125%N :: l2) (toks s) (value s ++ l1) (index s + length l1) (start s) (orig s).
Proof.
  intros fuel l1 l2 s Hc Hb Hf. rewrite (label_loop_run l1 fuel (125%N :: l2) s 0 0 Hc Hb) by lia.
  destruct (fuel - length l1) as [|k] eqn:Ek; [lia|]. cbn [label_loop chars].
  change ((125 =? 123)%N) with false. change ((125 =? 125)%N) with true. reflexivity.
Qed.

Definition label_tok (l : str) : tok := mkTok KLabel l (Fin 0%Q).

Lemma main_loop_label (pre l rest : str) (ts : list tok) :
  valid_label l = true -> (match ts with t :: _ => tk t = KColon | [] => False end) ->
  main_loop (mkTS (l ++ 125%N :: rest) ts [] (length pre) (length pre) (pre ++ l ++ 125%N :: rest))
  = Ok (mkTS (125%N :: rest) (label_tok l :: ts) [] (length pre + length l) (length pre + length l) (pre ++ l ++ 125%N :: rest)).
Proof.
  intros Hv Hprev. destruct l as [|c r]; [discriminate|]. cbn [valid_label] in Hv. apply andb_prop in Hv as [Hu Ht].
  assert (Hb : brace_depth 0 r = Some 0) by (destruct (brace_depth 0 r) as [[|k]|]; [reflexivity|discriminate|discriminate]).
  unfold main_loop. cbn [chars app]. rewrite (letter_not_special c Hu), Hu.
  unfold identifier_or_label. cbv zeta. unfold take1; cbn [chars toks value index start orig app].
  unfold prev_kind. cbn [toks]. destruct ts as [|t ts']; [contradiction|]. cbn in Hprev. rewrite Hprev.
  rewrite (label_loop_spec (length (r ++ 125%N :: rest)) r rest); cbn [chars toks value index start orig]; auto.
  - unfold push; cbn [chars toks value index start orig].
    replace (S (length pre) + length r) with (length pre + length (c :: r)) by (simpl; lia).
    change (pre ++ c :: r ++ 125%N :: rest) with (pre ++ (c :: r) ++ 125%N :: rest). rewrite slice_mid. reflexivity.
  - rewrite app_length. cbn [length]. lia.
Qed.

(* ---- punctuation ------------------------------------------------------------------------------------------------------------- *)
Definition punct (k : tkind) : str :=
  match k with
  | KLBr => [91%N] | KRBr => [93%N] | KLPar => [40%N] | KRPar => [41%N] | KLCur => [123%N] | KRCur => [125%N] | KEq => [61%N]
  | KSlash => [47%N] | KPct => [37%N] | KComma => [44%N] | KColon => [58%N] | KExcl => [33%N] | _ => []
  end.
Definition ptok (k : tkind) : tok := mkTok k (punct k) (Fin 0%Q).
Definition is_punct (k : tkind) : bool := match punct k with [] => false | _ => true end.

Lemma main_loop_punct (pre rest : str) (ts : list tok) (k : tkind) :
  is_punct k = true ->
  main_loop (mkTS (punct k ++ rest) ts [] (length pre) (length pre) (pre ++ punct k ++ rest))
  = Ok (mkTS rest (ptok k :: ts) [] (length pre + 1) (length pre + 1) (pre ++ punct k ++ rest)).
Proof.
  intro Hk. destruct k; try discriminate; unfold main_loop; cbn [punct chars app special N.eqb Pos.eqb];
  unfold take1, push; cbn [chars toks value index start orig ptok punct];
  replace (S (length pre)) with (length pre + 1) by lia;
  match goal with |- context [slice (pre ++ ?c :: rest) _ _] =>
    change (pre ++ c :: rest) with (pre ++ [c] ++ rest); change 1 with (length [c]) at 1; rewrite slice_mid end;
  reflexivity.
Qed.

(* ---- sequences of lexemes ------------------------------------------------------------------------------------------------------ *)
Inductive lexeme :=
  | LPunct (k : tkind)
  | LWord (w : str)                                   (* element symbol, or the keyword inf *)
  | LKey (w : str)                                    (* parameter key *)
  | LNum (neg : bool) (c : N) (frac : str) (eneg : bool) (edigs : str) (fixed : bool)
  | LLabel (l : str).

Definition lex_text (x : lexeme) : str :=
  match x with
  | LPunct k => punct k
  | LWord w | LKey w | LLabel w => w
  | LNum neg c frac eneg edigs fixed => num_text neg c frac eneg edigs ++ fix_mark fixed
  end.

Definition num_value (neg : bool) (c : N) (frac : str) (eneg : bool) (edigs : str) : xnum :=
  match float_of_str (num_text neg c frac eneg edigs) with Some v => v | None => NaN end.

Definition lex_tok (x : lexeme) : tok :=
  match x with
  | LPunct k => ptok k
  | LWord w | LKey w => ident_tok w
  | LNum neg c frac eneg edigs fixed => mkTok (if fixed then KFixed else KNumber) [] (num_value neg c frac eneg edigs)
  | LLabel l => label_tok l
  end.

Definition lex_ok (x : lexeme) : Prop :=
  match x with
  | LPunct k => is_punct k = true
  | LWord w => valid_word w = true
  | LKey w => valid_key w = true
  | LNum _ c frac _ edigs _ => num_shape c frac edigs
  | LLabel l => valid_label l = true
  end.

(* what the lexeme needs from the token before it and from the character after it *)
Definition prev_ok (ts : list tok) (x : lexeme) : Prop :=
  match x with
  | LWord _ => plain_prev ts
  | LKey _ => key_prev ts
  | LLabel _ => match ts with t :: _ => tk t = KColon | [] => False end
  | _ => True
  end.
Definition next_ok (x : lexeme) (rest : str) : Prop :=
  match x with
  | LWord _ => match rest with c :: _ => tailp c = false | [] => True end
  | LKey _ => match rest with c :: _ => keyp c = false | [] => True end
  | LNum _ _ _ _ _ fixed => after_number fixed rest
  | LLabel _ => match rest with c :: _ => c = 125%N | [] => False end
  | LPunct _ => True
  end.

Definition ltext (l : list lexeme) : str := concat (map lex_text l).

Fixpoint lchain (ts : list tok) (l : list lexeme) (after : str) : Prop :=
  match l with
  | [] => True
  | x :: r => lex_ok x /\ prev_ok ts x /\ next_ok x (ltext r ++ after) /\ lchain (lex_tok x :: ts) r after
  end.

Lemma lex_text_nonempty x : lex_ok x -> lex_text x <> [].
Proof.
  destruct x as [k|w|w|neg c frac eneg edigs fixed|l]; cbn [lex_ok lex_text].
  - unfold is_punct. destruct (punct k); [discriminate|discriminate].
  - destruct w; [discriminate|discriminate].
  - destruct w; [discriminate|discriminate].
  - intros _. unfold num_text. destruct neg; discriminate.
  - destruct l; [discriminate|discriminate].
Qed.

Lemma main_loop_lexeme (pre rest : str) (ts : list tok) (x : lexeme) :
  lex_ok x -> prev_ok ts x -> next_ok x rest ->
  main_loop (mkTS (lex_text x ++ rest) ts [] (length pre) (length pre) (pre ++ lex_text x ++ rest))
  = Ok (mkTS rest (lex_tok x :: ts) [] (length pre + length (lex_text x)) (length pre + length (lex_text x)) (pre ++ lex_text x ++ rest)).
Proof.
  destruct x as [k|w|w|neg c frac eneg edigs fixed|l]; cbn [lex_ok prev_ok next_ok lex_text lex_tok]; intros Hok Hp Hn.
  - rewrite (main_loop_punct pre rest ts k Hok). destruct k; try discriminate; reflexivity.
  - apply main_loop_word; assumption.
  - apply main_loop_key; assumption.
  - destruct (float_of_str_num neg c frac eneg edigs Hok) as (v & Hv).
    unfold num_value. rewrite Hv. apply main_loop_number; assumption.
  - destruct rest as [|c0 r0]; [contradiction|]. subst c0. apply main_loop_label; assumption.
Qed.

Lemma scan_lexemes : forall (l : list lexeme) (pre : str) (ts : list tok) (fuel : nat),
  lchain ts l [] -> length l < fuel ->
  scan fuel (mkTS (ltext l) ts [] (length pre) (length pre) (pre ++ ltext l)) = Ok (rev ts ++ map lex_tok l).
Proof.
  induction l as [|x l IH]; intros pre ts fuel Hch Hfuel.
  - simpl. destruct fuel; simpl; rewrite app_nil_r; reflexivity.
  - destruct Hch as (Hok & Hp & Hn & Hch). destruct fuel as [|f]; [lia|].
    assert (Hne : chars (mkTS (ltext (x :: l)) ts [] (length pre) (length pre) (pre ++ ltext (x :: l))) <> []).
    { unfold ltext. cbn [chars map concat]. pose proof (lex_text_nonempty x Hok). destruct (lex_text x); [congruence|discriminate]. }
    rewrite scan_step by exact Hne.
    unfold ltext. cbn [map concat]. fold (ltext l). rewrite app_nil_r in Hn.
    rewrite (main_loop_lexeme pre (ltext l) ts x Hok Hp Hn). cbn [bind].
    replace (pre ++ lex_text x ++ ltext l) with ((pre ++ lex_text x) ++ ltext l) by (rewrite app_assoc; reflexivity).
    rewrite <- app_length.
    rewrite (IH (pre ++ lex_text x) (lex_tok x :: ts) f Hch); [|simpl in Hfuel; lia].
    simpl. rewrite <- app_assoc. reflexivity.
Qed.

Theorem lexemes_tokenize_exactly (l : list lexeme) :
  lchain [] l [] -> tokenize (ltext l) = Ok (map lex_tok l).
Proof.
  intro H. unfold tokenize.
  change (mkTS (ltext l) [] [] 0 0 (ltext l)) with (mkTS (ltext l) [] [] (length (@nil N)) (length (@nil N)) ([] ++ ltext l)).
  rewrite scan_lexemes; auto.
  assert (Hlen : forall ts l0, lchain ts l0 [] -> length l0 <= length (ltext l0)).
  { intros ts l0. revert ts. induction l0 as [|x l0 IH]; intros ts Hc; [simpl; lia|].
    destruct Hc as (Hok & _ & _ & Hc). unfold ltext. cbn [map concat length]. rewrite app_length. fold (ltext l0).
    pose proof (lex_text_nonempty x Hok). specialize (IH _ Hc). destruct (lex_text x); [congruence|]. simpl. lia. }
  specialize (Hlen [] l H). lia.
Qed.

(* composing chains: what a sequence needs from its surroundings is the token before it and the first character after it *)
Definition last_toks (ts : list tok) (l : list lexeme) : list tok := rev (map lex_tok l) ++ ts.

Lemma lchain_app : forall a ts b after,
  lchain ts a (ltext b ++ after) -> lchain (last_toks ts a) b after -> lchain ts (a ++ b) after.
Proof.
  induction a as [|x a IH]; intros ts b after Ha Hb; cbn [app]; [exact Hb|].
  destruct Ha as (Hok & Hp & Hn & Ha). cbn [lchain]. repeat split; auto.
  - unfold ltext in *. rewrite map_app, concat_app, <- app_assoc. exact Hn.
  - apply IH; [exact Ha|]. unfold last_toks in *. cbn [map rev] in Hb. rewrite <- app_assoc in Hb. exact Hb.
Qed.

Lemma ltext_app a b : ltext (a ++ b) = ltext a ++ ltext b.
Proof. unfold ltext. rewrite map_app, concat_app. reflexivity. Qed.

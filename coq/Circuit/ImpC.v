(* Circuit/ImpC.v — the pointwise law instantiated on Coquelicot's complex numbers: the series and parallel
   formulas, the open branch and the shorted branch, as equalities in C. *)
From Coq Require Import Reals ZArith Bool List.
From Coquelicot Require Import Coquelicot.
From PV Require Import Base.Outcome Circuit.Imp.
Import ListNotations.
Open Scope C_scope.

Lemma Ceq_dec' (a b : C) : {a = b} + {a <> b}.
Proof.
  destruct a as [a1 a2], b as [b1 b2].
  destruct (Req_EM_T a1 b1) as [H1|H1]; [|right; intro H; apply H1; inversion H; reflexivity].
  destruct (Req_EM_T a2 b2) as [H2|H2]; [left; subst; reflexivity|right; intro H; apply H2; inversion H; reflexivity].
Qed.

Definition cis0 (z : C) : bool := if Ceq_dec' z 0 then true else false.
Definition cspec := spec C (RtoC 0) Cplus Cinv cis0.

Lemma cis0_false (z : C) : z <> 0 -> cis0 z = false.
Proof. unfold cis0. intro H. destruct (Ceq_dec' z 0) as [e|e]; [exfalso; apply H; exact e|reflexivity]. Qed.
Lemma cis0_true : cis0 0 = true.
Proof. unfold cis0. destruct (Ceq_dec' 0 0) as [|H]; [reflexivity|exfalso; apply H; reflexivity]. Qed.

Definition two (a b : ez C) : nat -> ez C := fun id => match id with O => a | _ => b end.

(* parts in series add *)
Lemma series_law (a b : C) : cspec (CSer [Leaf 0; Leaf 1]) (two (Zf a) (Zf b)) = Zf (a + b).
Proof. unfold cspec. simpl. f_equal. ring. Qed.

(* parts in parallel add as reciprocals *)
Lemma parallel_law (a b : C) : a <> 0 -> b <> 0 -> / a + / b <> 0 ->
  cspec (CPar [Leaf 0; Leaf 1]) (two (Zf a) (Zf b)) = Zf (/ (/ a + / b)).
Proof.
  intros Ha Hb Hs. unfold cspec. simpl.
  pose proof (cis0_false a Ha) as Ea. pose proof (cis0_false b Hb) as Eb.
  destruct (cis0 a); [discriminate|]. destruct (cis0 b); [discriminate|]. simpl.
  assert (E : 0 + / a + / b = / a + / b) by ring. rewrite E.
  pose proof (cis0_false _ Hs) as Es. destruct (cis0 (/ a + / b)); [discriminate|]. auto.
Qed.

(* an open branch of a parallel connection contributes nothing *)
Lemma open_branch (a : C) : a <> 0 -> cspec (CPar [Leaf 0; Leaf 1]) (two (Zf a) Inf) = Zf a.
Proof.
  intros Ha. unfold cspec. simpl.
  pose proof (cis0_false a Ha) as Ea. destruct (cis0 a); [discriminate|]. simpl.
  assert (Hi : / a <> 0).
  { intro Hc. pose proof (Cinv_r a Ha) as Hr. rewrite Hc in Hr. rewrite Cmult_0_r in Hr.
    apply (f_equal fst) in Hr. simpl in Hr. apply R1_neq_R0. auto. }
  assert (E : 0 + / a = / a) by ring. rewrite E.
  pose proof (cis0_false _ Hi) as Ei. destruct (cis0 (/ a)); [discriminate|]. f_equal. field. split; auto.
  intro Hc. apply (f_equal fst) in Hc. simpl in Hc. apply R1_neq_R0. auto.
Qed.

(* a shorted branch shorts the connection, whatever the other branch is *)
Lemma short_branch (x : ez C) : cspec (CPar [Leaf 0; Leaf 1]) (two (Zf (RtoC 0)) x) = Zf (RtoC 0).
Proof. unfold cspec. simpl. pose proof cis0_true as E. destruct (cis0 0); [|discriminate]. simpl. auto. Qed.

(* all branches open: the connection is open *)
Lemma all_open : cspec (CPar [Leaf 0; Leaf 1]) (two (@Inf C) (@Inf C)) = Inf.
Proof. unfold cspec. simpl. auto. Qed.

(* ---- nested series connections may be merged (what the parser does): the pointwise law is unchanged -------------------------- *)
Lemma cez_add_assoc (a b c : ez C) : ez_add C Cplus (ez_add C Cplus a b) c = ez_add C Cplus a (ez_add C Cplus b c).
Proof. destruct a, b, c; simpl; auto. f_equal. ring. Qed.
Lemma cez_add_0_l (a : ez C) : ez_add C Cplus (Zf (RtoC 0)) a = a.
Proof. destruct a; simpl; auto. f_equal. ring. Qed.

Lemma ser_fold_acc (leaf : nat -> ez C) l : forall acc,
  fold_left (fun a c => ez_add C Cplus a (cspec c leaf)) l acc
  = ez_add C Cplus acc (fold_left (fun a c => ez_add C Cplus a (cspec c leaf)) l (Zf (RtoC 0))).
Proof.
  induction l as [|x l IH]; intro acc; cbn [fold_left].
  - destruct acc; simpl; auto. f_equal. ring.
  - rewrite (IH (ez_add C Cplus acc (cspec x leaf))). rewrite (IH (ez_add C Cplus (Zf (RtoC 0)) (cspec x leaf))).
    rewrite cez_add_0_l. apply cez_add_assoc.
Qed.

Theorem series_flatten (leaf : nat -> ez C) (a l b : list ctree) :
  cspec (CSer (a ++ CSer l :: b)) leaf = cspec (CSer (a ++ l ++ b)) leaf.
Proof.
  unfold cspec. cbn [spec]. rewrite !fold_left_app. cbn [fold_left spec]. fold cspec.
  set (A := fold_left (fun acc c => ez_add C Cplus acc (spec C (RtoC 0) Cplus Cinv cis0 c leaf)) a (Zf (RtoC 0))).
  f_equal. symmetry. apply ser_fold_acc.
Qed.

(* Circuit/ImpC.v — the pointwise law instantiated on Coquelicot's complex numbers: the series and parallel
   formulas, the open branch and the shorted branch, as equalities in C. *)
From Coq Require Import Reals ZArith Bool List.
From Coquelicot Require Import Coquelicot.
From PV Require Import Base.Outcome Circuit.Imp.
Import ListNotations.
Open Scope C_scope.

Lemma Ceq_dec' (a b : C) : {a = b} + {a <> b}.
Proof.
  destruct a as [a1 a2], b as [b1 b2].
  destruct (Req_EM_T a1 b1) as [H1|H1]; [|right; intro H; apply H1; inversion H; reflexivity].
  destruct (Req_EM_T a2 b2) as [H2|H2]; [left; subst; reflexivity|right; intro H; apply H2; inversion H; reflexivity].
Qed.

Definition cis0 (z : C) : bool := if Ceq_dec' z 0 then true else false.
Definition cspec := spec C (RtoC 0) Cplus Cinv cis0.

Lemma cis0_false (z : C) : z <> 0 -> cis0 z = false.
Proof. unfold cis0. intro H. destruct (Ceq_dec' z 0) as [e|e]; [exfalso; apply H; exact e|reflexivity]. Qed.
Lemma cis0_true : cis0 0 = true.
Proof. unfold cis0. destruct (Ceq_dec' 0 0) as [|H]; [reflexivity|exfalso; apply H; reflexivity]. Qed.

Definition two (a b : ez C) : nat -> ez C := fun id => match id with O => a | _ => b end.

(* parts in series add *)
Lemma series_law (a b : C) : cspec (CSer [Leaf 0; Leaf 1]) (two (Zf a) (Zf b)) = Zf (a + b).
Proof. unfold cspec. simpl. f_equal. ring. Qed.

(* parts in parallel add as reciprocals *)
Lemma parallel_law (a b : C) : a <> 0 -> b <> 0 -> / a + / b <> 0 ->
  cspec (CPar [Leaf 0; Leaf 1]) (two (Zf a) (Zf b)) = Zf (/ (/ a + / b)).
Proof.
  intros Ha Hb Hs. unfold cspec. simpl.
  pose proof (cis0_false a Ha) as Ea. pose proof (cis0_false b Hb) as Eb.
  destruct (cis0 a); [discriminate|]. destruct (cis0 b); [discriminate|]. simpl.
  assert (E : 0 + / a + / b = / a + / b) by ring. rewrite E.
  pose proof (cis0_false _ Hs) as Es. destruct (cis0 (/ a + / b)); [discriminate|]. auto.
Qed.

(* an open branch of a parallel connection contributes nothing *)
Lemma open_branch (a : C) : a <> 0 -> cspec (CPar [Leaf 0; Leaf 1]) (two (Zf a) Inf) = Zf a.
Proof.
  intros Ha. unfold cspec. simpl.
  pose proof (cis0_false a Ha) as Ea. destruct (cis0 a); [discriminate|]. simpl.
  assert (Hi : / a <> 0).
  { intro Hc. pose proof (Cinv_r a Ha) as Hr. rewrite Hc in Hr. rewrite Cmult_0_r in Hr.
    apply (f_equal fst) in Hr. simpl in Hr. apply R1_neq_R0. auto. }
  assert (E : 0 + / a = / a) by ring. rewrite E.
  pose proof (cis0_false _ Hi) as Ei. destruct (cis0 (/ a)); [discriminate|]. f_equal. field. split; auto.
  intro Hc. apply (f_equal fst) in Hc. simpl in Hc. apply R1_neq_R0. auto.
Qed.

(* a shorted branch shorts the connection, whatever the other branch is *)
Lemma short_branch (x : ez C) : cspec (CPar [Leaf 0; Leaf 1]) (two (Zf (RtoC 0)) x) = Zf (RtoC 0).
Proof. unfold cspec. simpl. pose proof cis0_true as E. destruct (cis0 0); [|discriminate]. simpl. auto. Qed.

(* all branches open: the connection is open *)
Lemma all_open : cspec (CPar [Leaf 0; Leaf 1]) (two (@Inf C) (@Inf C)) = Inf.
Proof. unfold cspec. simpl. auto. Qed.

(* ---- nested series connections may be merged (what the parser does): the pointwise law is unchanged -------------------------- *)
Lemma cez_add_assoc (a b c : ez C) : ez_add C Cplus (ez_add C Cplus a b) c = ez_add C Cplus a (ez_add C Cplus b c).
Proof. destruct a, b, c; simpl; auto. f_equal. ring. Qed.
Lemma cez_add_0_l (a : ez C) : ez_add C Cplus (Zf (RtoC 0)) a = a.
Proof. destruct a; simpl; auto. f_equal. ring. Qed.

Lemma ser_fold_acc (leaf : nat -> ez C) l : forall acc,
  fold_left (fun a c => ez_add C Cplus a (cspec c leaf)) l acc
  = ez_add C Cplus acc (fold_left (fun a c => ez_add C Cplus a (cspec c leaf)) l (Zf (RtoC 0))).
Proof.
  induction l as [|x l IH]; intro acc; cbn [fold_left].
  - destruct acc; simpl; auto. f_equal. ring.
  - rewrite (IH (ez_add C Cplus acc (cspec x leaf))). rewrite (IH (ez_add C Cplus (Zf (RtoC 0)) (cspec x leaf))).
    rewrite cez_add_0_l. apply cez_add_assoc.
Qed.

Theorem series_flatten (leaf : nat -> ez C) (a l b : list ctree) :
  cspec (CSer (a ++ CSer l :: b)) leaf = cspec (CSer (a ++ l ++ b)) leaf.
Proof.
  unfold cspec. cbn [spec]. rewrite !fold_left_app. cbn [fold_left spec]. fold cspec.
  set (A := fold_left (fun acc c => ez_add C Cplus acc (spec C (RtoC 0) Cplus Cinv cis0 c leaf)) a (Zf (RtoC 0))).
  f_equal. symmetry. apply ser_fold_acc.
Qed.

(* ---- nested parallel connections may be merged as well ------------------------------------------------------------------------ *)
Definition pzero (vals : list (ez C)) : bool := existsb (ez_is_zero C cis0) vals.
Definition pfin (vals : list (ez C)) : list (ez C) := filter (fun v => negb (ez_is_inf C v)) vals.
Definition padd (acc v : ez C) : ez C := ez_add C Cplus acc (ez_inv C (RtoC 0) Cinv cis0 v).
Definition padm (vals : list (ez C)) : ez C := fold_left padd (pfin vals) (Zf (RtoC 0)).
Definition pval (vals : list (ez C)) : ez C :=
  if pzero vals then Zf (RtoC 0) else match pfin vals with [] => Inf | _ => ez_inv C (RtoC 0) Cinv cis0 (padm vals) end.

Lemma spec_par_pval (leaf : nat -> ez C) l : l <> [] -> cspec (CPar l) leaf = pval (map (fun c => cspec c leaf) l).
Proof. destruct l as [|x l]; [congruence|]. intros _. reflexivity. Qed.

Lemma pzero_app a b : pzero (a ++ b) = pzero a || pzero b.
Proof. unfold pzero. apply existsb_app. Qed.
Lemma pfin_app a b : pfin (a ++ b) = pfin a ++ pfin b.
Proof. unfold pfin. apply filter_app. Qed.

Lemma padd_fold_acc l : forall acc, fold_left padd l acc = ez_add C Cplus acc (fold_left padd l (Zf (RtoC 0))).
Proof.
  induction l as [|x l IH]; intro acc; cbn [fold_left].
  - destruct acc; simpl; auto. f_equal. ring.
  - rewrite (IH (padd acc x)). rewrite (IH (padd (Zf (RtoC 0)) x)). unfold padd. rewrite cez_add_0_l. apply cez_add_assoc.
Qed.

(* without a shorted branch the summed admittance of the finite branches is a finite number *)
Lemma padm_finite vals : pzero vals = false -> exists s, padm vals = Zf s.
Proof.
  unfold padm. intro H.
  assert (G : forall l acc, (forall v, In v l -> ez_is_zero C cis0 v = false /\ ez_is_inf C v = false) -> forall s0, acc = Zf s0 ->
              exists s, fold_left padd l acc = Zf s).
  { induction l as [|x l IH]; intros acc Hl s0 ->; cbn [fold_left]; [eauto|].
    destruct (Hl x (or_introl eq_refl)) as [Hz Hi]. destruct x as [z|]; [|discriminate].
    simpl in Hz. unfold padd. simpl. rewrite Hz. simpl. eapply IH; [intros v Hv; apply Hl; right; exact Hv|reflexivity]. }
  apply (G (pfin vals) (Zf (RtoC 0))) with (s0 := RtoC 0); [|reflexivity].
  intros v Hv. unfold pfin in Hv. apply filter_In in Hv. destruct Hv as [Hin Hf]. split.
  - unfold pzero in H. destruct (ez_is_zero C cis0 v) eqn:E; [|reflexivity].
    assert (existsb (ez_is_zero C cis0) vals = true) by (apply existsb_exists; eauto). congruence.
  - destruct (ez_is_inf C v); [discriminate|reflexivity].
Qed.

Lemma Cinv_nonzero (s : C) : s <> 0 -> / s <> 0.
Proof.
  intros Hs Hc. pose proof (Cinv_r s Hs) as Hr. rewrite Hc in Hr. rewrite Cmult_0_r in Hr.
  apply (f_equal fst) in Hr. simpl in Hr. apply R1_neq_R0. auto.
Qed.

Lemma Cinv_inv' (s : C) : s <> 0 -> / / s = s.
Proof.
  intro Hs. rewrite <- (Cmult_1_r (/ / s)). rewrite <- (Cinv_l s Hs). rewrite Cmult_assoc.
  rewrite (Cinv_l (/ s) (Cinv_nonzero s Hs)). apply Cmult_1_l.
Qed.

Lemma pzero_cons x l : pzero (x :: l) = ez_is_zero C cis0 x || pzero l.
Proof. reflexivity. Qed.
Lemma pfin_cons_Zf z l : pfin (Zf z :: l) = Zf z :: pfin l.
Proof. reflexivity. Qed.
Lemma pfin_cons_Inf l : pfin (@Inf C :: l) = pfin l.
Proof. reflexivity. Qed.

Theorem pval_flatten (va vl vb : list (ez C)) : vl <> [] ->
  pval (va ++ pval vl :: vb) = pval (va ++ vl ++ vb).
Proof.
  intro Hne. destruct (pzero vl) eqn:Ez.
  - (* a shorted branch inside: everything is shorted *)
    assert (E : pval vl = Zf (RtoC 0)) by (unfold pval; rewrite Ez; reflexivity). rewrite E.
    unfold pval. rewrite !pzero_app, pzero_cons, Ez. cbn [ez_is_zero]. rewrite cis0_true. cbn [orb].
    rewrite !orb_true_r. reflexivity.
  - destruct (padm_finite vl Ez) as [s Hs].
    destruct (pfin vl) as [|f0 fr] eqn:Ef.
    + (* all branches of the inner connection open: it is open *)
      assert (E : pval vl = Inf) by (unfold pval; rewrite Ez, Ef; reflexivity). rewrite E.
      unfold pval, padm. rewrite !pzero_app, pzero_cons, Ez. cbn [ez_is_zero orb].
      rewrite !pfin_app, pfin_cons_Inf, Ef. reflexivity.
    + assert (Hfin : pfin vl <> []) by (rewrite Ef; discriminate).
      assert (E : pval vl = ez_inv C (RtoC 0) Cinv cis0 (Zf s)) by (unfold pval; rewrite Ez, Ef, Hs; reflexivity).
      rewrite E. cbn [ez_inv]. clear E.
      destruct (cis0 s) eqn:Es0.
      * (* the admittances of the inner branches cancel: the inner connection is open *)
        assert (s0 : s = 0). { unfold cis0 in Es0. destruct (Ceq_dec' s 0); [auto|discriminate]. }
        unfold pval, padm. rewrite !pzero_app, pzero_cons, Ez. cbn [ez_is_zero orb].
        destruct (pzero va || pzero vb); [reflexivity|].
        rewrite !pfin_app, pfin_cons_Inf. rewrite !fold_left_app.
        assert (Hmid : forall acc, fold_left padd (pfin vl) acc = acc).
        { intro acc. rewrite padd_fold_acc. unfold padm in Hs. rewrite Hs, s0. destruct acc; simpl; auto. f_equal. ring. }
        rewrite Hmid.
        destruct (pfin va ++ pfin vb) eqn:Eab.
        -- apply app_eq_nil in Eab. destruct Eab as [Ea Eb]. rewrite Ea, Eb. cbn [app fold_left]. rewrite app_nil_r.
           destruct (pfin vl) eqn:E2; [congruence|]. cbn [ez_inv]. rewrite cis0_true. reflexivity.
        -- destruct (pfin va ++ pfin vl ++ pfin vb) eqn:E3.
           ++ apply app_eq_nil in E3. destruct E3 as [_ E3]. apply app_eq_nil in E3. destruct E3 as [E3 _]. congruence.
           ++ reflexivity.
      * assert (Hsn : s <> 0). { unfold cis0 in Es0. destruct (Ceq_dec' s 0); [discriminate|auto]. }
        assert (Hin : cis0 (/ s) = false) by (apply cis0_false, Cinv_nonzero; auto).
        unfold pval, padm. rewrite !pzero_app, pzero_cons, Ez. cbn [ez_is_zero orb]. rewrite Hin. cbn [orb].
        destruct (pzero va || pzero vb); [reflexivity|].
        rewrite !pfin_app, pfin_cons_Zf. rewrite !fold_left_app. cbn [fold_left].
        assert (Hmid : forall acc, fold_left padd (pfin vl) acc = padd acc (Zf (/ s))).
        { intro acc. rewrite padd_fold_acc. unfold padm in Hs. rewrite Hs. unfold padd. cbn [ez_inv]. rewrite Hin, Cinv_inv' by auto. reflexivity. }
        rewrite Hmid.
        destruct (pfin va ++ Zf (/ s) :: pfin vb) eqn:E1; [destruct (pfin va); discriminate|].
        destruct (pfin va ++ pfin vl ++ pfin vb) eqn:E3.
        -- apply app_eq_nil in E3. destruct E3 as [_ E3]. apply app_eq_nil in E3. destruct E3 as [E3 _]. congruence.
        -- reflexivity.
Qed.

Theorem parallel_flatten (leaf : nat -> ez C) (a l b : list ctree) : l <> [] ->
  cspec (CPar (a ++ CPar l :: b)) leaf = cspec (CPar (a ++ l ++ b)) leaf.
Proof.
  intro Hl. rewrite !spec_par_pval.
  - rewrite !map_app. cbn [map]. rewrite (spec_par_pval leaf l Hl). apply pval_flatten. destruct l; [congruence|discriminate].
  - destruct a; simpl; [destruct l; [congruence|discriminate]|discriminate].
  - destruct a; discriminate.
Qed.

(* Circuit/IdentQueue.v — Connection._get_elements_recursive as the code performs it: a first-in first-out work list that starts
   with the items of the connection tree (connections flattened, containers not entered); a popped connection is replaced by the
   result of the same function on it, appended at the END of the list; a popped element is listed unless it is already listed, and,
   when it is a container, its sub-circuits (those that are not open) are appended at the end of the list.  Model only; the
   comparison with the recursive description [elems] of Circuit/Ident.v is in IdentQueue_facts.v.

   The final check of the code (`len(elements) != len(set(elements))` -> ValueError) can never fire, because an element is only
   listed when it is not listed yet; it is not modelled. *)
From Coq Require Import ZArith Bool List.
From PV Require Import Base.Outcome Circuit.Tree Circuit.Printer Circuit.Ident.
Import ListNotations.

Inductive qitem := QE (e : ielt) | QC (c : iconn).

(* filter(lambda connection: connection is not None, element.get_subcircuits().values()) *)
Definition subs_of (e : ielt) : list iconn :=
  flat_map (fun o : option iconn => match o with Some s => [s] | None => [] end) (ie_subs e).

(* `if element not in elements: elements.append(element)` — membership is object identity *)
Definition listed (acc : list ielt) (e : ielt) : bool := existsb (Nat.eqb (ie_uid e)) (map ie_uid acc).
Definition add (acc : list ielt) (e : ielt) : list ielt := if listed acc e then acc else acc ++ [e].

(* the while loop; [rec] is the call `element._get_elements_recursive()` on a popped connection; [k] bounds the number of iterations;
   None = a bound was too small (never a normal-looking result) *)
Fixpoint qloop (rec : iconn -> option (list ielt)) (k : nat) (q : list qitem) (acc : list ielt) {struct k} : option (list ielt) :=
  match q with
  | [] => Some acc
  | it :: q' =>
      match k with
      | O => None
      | S k' =>
          match it with
          | QC c' => match rec c' with
                     | Some r => qloop rec k' (q' ++ map QE r) acc
                     | None => None
                     end
          | QE e => qloop rec k' (q' ++ map QC (subs_of e)) (add acc e)
          end
      end
  end.

(* [d] bounds the nesting of calls (a connection inside a sub-circuit inside ...), [K] the iterations of each loop *)
Fixpoint qelems (d K : nat) (c : iconn) {struct d} : option (list ielt) :=
  match d with
  | O => None
  | S d' => qloop (qelems d' K) K (map QE (items_conn d c)) []
  end.

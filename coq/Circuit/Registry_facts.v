(* Circuit/Registry_facts.v — after reset() the registry shows exactly what a fresh import shows, whatever happened before;
   built-in symbols always map to their original classes. *)
From Coq Require Import ZArith Bool List Lia.
From PV Require Import Base.Outcome Circuit.Tree Circuit.Printer Circuit.Token Circuit.Ident_facts Circuit.Registry.
Import ListNotations.

Lemma sget_sset k k' v d : sget k (sset k' v d) = if str_eqb k k' then Some v else sget k d.
Proof.
  induction d as [|[k2 v2] r IH]; simpl.
  - destruct (str_eqb k k'); auto.
  - destruct (str_eqb k' k2) eqn:E; simpl.
    + apply str_eqb_eq in E. subst k2. destruct (str_eqb k k'); auto.
    + destruct (str_eqb k k2) eqn:E2.
      * apply str_eqb_eq in E2. subst k2. destruct (str_eqb k k') eqn:E3; auto.
        apply str_eqb_eq in E3. subst. rewrite str_eqb_refl in E. discriminate.
      * apply IH.
Qed.

Lemma sget_sdel_ne k k' d : str_eqb k k' = false -> sget k (sdel k' d) = sget k d.
Proof.
  intro Hne. induction d as [|[k2 v2] r IH]; simpl; auto.
  destruct (str_eqb k' k2) eqn:E; simpl.
  - apply str_eqb_eq in E. subst k2. rewrite Hne. auto.
  - destruct (str_eqb k k2); auto.
Qed.

Lemma str_eqb_sym a b : str_eqb a b = str_eqb b a.
Proof.
  destruct (str_eqb a b) eqn:E1, (str_eqb b a) eqn:E2; auto.
  - apply str_eqb_eq in E1. subst. rewrite str_eqb_refl in E2. discriminate.
  - apply str_eqb_eq in E2. subst. rewrite str_eqb_refl in E1. discriminate.
Qed.

Lemma first_key_of_sget c d k : first_key_of c d = Some k -> exists c', sget k d = Some c'.
Proof.
  induction d as [|[k2 v2] r IH]; simpl; [discriminate|].
  destruct (Nat.eqb v2 c) eqn:E.
  - intro H. inversion H; subst. rewrite str_eqb_refl. eauto.
  - intro H. destruct (str_eqb k k2); eauto.
Qed.

Lemma first_key_of_val c d k : first_key_of c d = Some k -> In (k, c) d.
Proof.
  induction d as [|[k2 v2] r IH]; simpl; [discriminate|].
  destruct (Nat.eqb v2 c) eqn:E.
  - intro H. inversion H; subst. apply Nat.eqb_eq in E. subst. auto.
  - intro H. right. auto.
Qed.

Lemma skeys_sset k v d : map fst (sset k v d) = if shas k d then map fst d else map fst d ++ [k].
Proof.
  unfold shas. induction d as [|[k2 v2] r IH]; simpl; auto.
  destruct (str_eqb k k2) eqn:E; simpl.
  - apply str_eqb_eq in E. subst. auto.
  - rewrite IH. destruct (sget k r); auto.
Qed.

Lemma sget_none_notin k d : sget k d = None -> ~ In k (map fst d).
Proof.
  induction d as [|[k2 v2] r IH]; simpl; [tauto|]. destruct (str_eqb k k2) eqn:E; [discriminate|].
  intros H [Hc|Hc]; [subst; rewrite str_eqb_refl in E; discriminate|apply IH; auto].
Qed.

Lemma NoDup_snoc {A} (l : list A) x : NoDup l -> ~ In x l -> NoDup (l ++ [x]).
Proof.
  induction l as [|a l IH]; simpl; intros Hnd Hx; [constructor; auto; constructor|].
  inversion Hnd; subst. constructor.
  - intro Hin. apply in_app_or in Hin. destruct Hin as [Hin|[Hin|[]]]; [auto|subst; apply Hx; auto].
  - apply IH; auto.
Qed.

Lemma nodup_sset k v d : NoDup (map fst d) -> NoDup (map fst (sset k v d)).
Proof.
  intro H. rewrite skeys_sset. unfold shas. destruct (sget k d) eqn:E; auto.
  apply NoDup_snoc; auto. apply sget_none_notin; auto.
Qed.

Lemma skeys_sdel_incl k d : incl (map fst (sdel k d)) (map fst d).
Proof.
  induction d as [|[k2 v2] r IH]; simpl; [apply incl_refl|].
  destruct (str_eqb k k2); simpl; [apply incl_tl, incl_refl|]. apply incl_cons; [simpl; auto|apply incl_tl; auto].
Qed.

Lemma nodup_sdel k d : NoDup (map fst d) -> NoDup (map fst (sdel k d)).
Proof.
  induction d as [|[k2 v2] r IH]; simpl; auto. intro H. inversion H; subst.
  destruct (str_eqb k k2); simpl; auto. constructor; auto. intro Hin. apply H2. apply (skeys_sdel_incl k r). auto.
Qed.

Lemma first_key_sget c d k : NoDup (map fst d) -> first_key_of c d = Some k -> sget k d = Some c.
Proof.
  induction d as [|[k2 v2] r IH]; simpl; [discriminate|]. intros Hnd H. inversion Hnd; subst.
  destruct (Nat.eqb v2 c) eqn:E.
  - inversion H; subst. rewrite str_eqb_refl. apply Nat.eqb_eq in E. subst. auto.
  - destruct (str_eqb k k2) eqn:E2.
    + apply str_eqb_eq in E2. subst k2. exfalso. apply H2. apply first_key_of_val in H. apply (in_map fst) in H. auto.
    + apply IH; auto.
Qed.

Section Reg.
Variable b : builtins.

(* the registry invariant: keys are unique (a dict), every built-in symbol still maps to its class, and the private
   flags of built-in symbols are the original ones *)
Definition binv (s : rstate) : Prop :=
  NoDup (map fst (rs_elems s)) /\
  (forall k c, sget k (b_elems b) = Some c -> sget k (rs_elems s) = Some c) /\
  filter (fun kv => shas (fst kv) (b_elems b)) (rs_private s) = b_private b.

Hypothesis b_private_builtin : filter (fun kv => shas (fst kv) (b_elems b)) (b_private b) = b_private b.
Hypothesis b_nodup : NoDup (map fst (b_elems b)).

Lemma binv_init : binv (init b).
Proof. repeat split; simpl; auto. Qed.

Definition user_op (o : rop) : bool :=
  match o with Register c _ _ _ _ => negb (is_builtin_class b c) | _ => true end.

Lemma filter_sset_user k c (d : sdict) :
  shas k (b_elems b) = false ->
  filter (fun kv => shas (fst kv) (b_elems b)) (sset k c d) = filter (fun kv => shas (fst kv) (b_elems b)) d.
Proof.
  intro Hk. induction d as [|[k2 v2] r IH]; simpl.
  - rewrite Hk. auto.
  - destruct (str_eqb k k2) eqn:E; simpl.
    + apply str_eqb_eq in E. subst k2. rewrite Hk. auto.
    + rewrite IH. auto.
Qed.

Lemma filter_sdel_user k (d : sdict) :
  shas k (b_elems b) = false ->
  filter (fun kv => shas (fst kv) (b_elems b)) (sdel k d) = filter (fun kv => shas (fst kv) (b_elems b)) d.
Proof.
  intro Hk. induction d as [|[k2 v2] r IH]; simpl; auto.
  destruct (str_eqb k k2) eqn:E; simpl.
  - apply str_eqb_eq in E. subst k2. rewrite Hk. auto.
  - rewrite IH. auto.
Qed.

Lemma is_builtin_sget k c : sget k (b_elems b) = Some c -> is_builtin_class b c = true.
Proof.
  unfold is_builtin_class. generalize (b_elems b) as l. clear. induction l as [|[k2 v2] r IH]; simpl; [discriminate|].
  destruct (str_eqb k k2).
  - intro H. inversion H; subst. rewrite Nat.eqb_refl. reflexivity.
  - intro H. rewrite (IH H). apply orb_true_r.
Qed.

(* removing the entry of a user class never touches a built-in symbol *)
Lemma user_key_not_builtin s c k :
  binv s -> is_builtin_class b c = false -> first_key_of c (rs_elems s) = Some k -> shas k (b_elems b) = false.
Proof.
  intros (Hnd & H1 & _) Hc Hk. unfold shas. destruct (sget k (b_elems b)) as [cb|] eqn:Eb; auto.
  pose proof (first_key_sget _ _ _ Hnd Hk) as Hs. rewrite (H1 _ _ Eb) in Hs. inversion Hs; subst.
  rewrite (is_builtin_sget _ _ Eb) in Hc. discriminate.
Qed.

Lemma remove_one_binv s c : binv s -> is_builtin_class b c = false ->
  binv (match first_key_of c (rs_elems s) with
        | Some k => mkRS (sdel k (rs_elems s))
                         (match sget k (rs_private s) with Some c' => if Nat.eqb c c' then sdel k (rs_private s) else rs_private s | None => rs_private s end)
                         (rs_defaults s)
        | None => s end).
Proof.
  intros HI Hc. destruct (first_key_of c (rs_elems s)) as [k|] eqn:Ek; auto.
  pose proof (user_key_not_builtin s c k HI Hc Ek) as Hk. destruct HI as (Hnd & H1 & H2).
  split; [|split]; simpl.
  - apply nodup_sdel. auto.
  - intros k0 cb Hb. rewrite sget_sdel_ne; auto.
    destruct (str_eqb k0 k) eqn:E; auto. apply str_eqb_eq in E. subst k0. unfold shas in Hk. rewrite Hb in Hk. discriminate.
  - destruct (sget k (rs_private s)) as [c'|]; auto. destruct (Nat.eqb c c'); auto. rewrite filter_sdel_user; auto.
Qed.

Lemma remove_fold_binv l : forall s, binv s -> (forall c, In c l -> is_builtin_class b c = false) ->
  binv (fold_left (fun st c =>
          match first_key_of c (rs_elems st) with
          | Some k => mkRS (sdel k (rs_elems st))
                           (match sget k (rs_private st) with Some c' => if Nat.eqb c c' then sdel k (rs_private st) else rs_private st | None => rs_private st end)
                           (rs_defaults st)
          | None => st end) l s).
Proof.
  induction l as [|c r IH]; intros s HI Hall; simpl; auto.
  apply IH; [|intros; apply Hall; simpl; auto]. apply remove_one_binv; auto. apply Hall. simpl. auto.
Qed.

Lemma rstep_binv s o : binv s -> user_op o = true -> binv (fst (rstep b s o)).
Proof.
  intros HI Hu. pose proof HI as (Hnd & H1 & H2). destruct o as [c sym dv cons priv|cs|e d|c v|[cs|]]; simpl in *.
  - destruct (negb (valid_symbol (ElemState.strip sym))); simpl; auto.
    destruct (negb cons); simpl; [repeat split; auto|].
    set (k := ElemState.strip sym).
    assert (Hgoal : shas k (b_elems b) = false ->
              binv (mkRS (sset k c (rs_elems s)) (if priv then sset k c (rs_private s) else rs_private s) (dvset c dv (rs_defaults s)))).
    { intro Hk. split; [|split]; simpl.
      - apply nodup_sset. auto.
      - intros k0 c0 Hb. rewrite sget_sset. destruct (str_eqb k0 k) eqn:E; auto.
        apply str_eqb_eq in E. subst k0. unfold shas in Hk. rewrite Hb in Hk. discriminate.
      - destruct priv; auto. rewrite filter_sset_user; auto. }
    assert (Hnb : forall c', sget k (rs_elems s) = Some c' -> Nat.eqb c c' = true -> shas k (b_elems b) = false).
    { intros c' Hs He. apply Nat.eqb_eq in He. subst c'. unfold shas. destruct (sget k (b_elems b)) as [cb|] eqn:Eb; auto.
      rewrite (H1 _ _ Eb) in Hs. inversion Hs; subst. rewrite (is_builtin_sget _ _ Eb) in Hu. discriminate. }
    destruct (sget k (rs_elems s)) as [c'|] eqn:Es; simpl.
    + destruct (Nat.eqb c c') eqn:Ec; simpl; [apply Hgoal; eapply Hnb; eauto|repeat split; auto].
    + apply Hgoal. unfold shas. destruct (sget k (b_elems b)) as [cb|] eqn:Eb; auto. rewrite (H1 _ _ Eb) in Es. discriminate.
  - destruct cs as [|c0 cs']; simpl; auto.
    destruct (is_builtin_class b c0 || existsb (is_builtin_class b) cs') eqn:Eb; simpl; auto.
    assert (Hall : forall c, In c (c0 :: cs') -> is_builtin_class b c = false).
    { intros c Hin. apply orb_false_iff in Eb. destruct Eb as [E0 E1]. destruct Hin as [<-|Hin]; auto.
      destruct (is_builtin_class b c) eqn:E; auto. assert (existsb (is_builtin_class b) cs' = true) by (apply existsb_exists; eauto). congruence. }
    apply (remove_fold_binv (c0 :: cs') s HI Hall).
  - assert (Hidem : forall (p : str * cid -> bool) l, filter p (filter p l) = filter p l).
    { intros p l. induction l as [|x r IHr]; simpl; auto. destruct (p x) eqn:E; simpl; rewrite ?E, IHr; auto. }
    destruct e, d; simpl; repeat split; simpl; auto; rewrite Hidem; auto.
  - destruct (dvget c (rs_defaults s)); simpl; repeat split; auto.
  - destruct cs as [|c0 cs']; simpl; repeat split; auto.
  - repeat split; auto.
Qed.

Fixpoint rfinal (s : rstate) (ops : list rop) : rstate :=
  match ops with [] => s | o :: r => rfinal (fst (rstep b s o)) r end.

Lemma rfinal_binv ops : forall s, binv s -> forallb user_op ops = true -> binv (rfinal s ops).
Proof.
  induction ops as [|o r IH]; intros s HI Hu; simpl; auto.
  apply andb_true_iff in Hu. destruct Hu as [Ho Hr]. apply IH; auto. apply rstep_binv; auto.
Qed.

(* class defaults after reset_default_parameter_values() *)
Lemma dvget_dvset c c' v d : dvget c (dvset c' v d) = if Nat.eqb c c' then Some v else dvget c d.
Proof.
  induction d as [|[c2 v2] r IH]; simpl.
  - destruct (Nat.eqb c c'); auto.
  - destruct (Nat.eqb c' c2) eqn:E; simpl.
    + apply Nat.eqb_eq in E. subst c2. destruct (Nat.eqb c c'); auto.
    + destruct (Nat.eqb c c2) eqn:E2.
      * apply Nat.eqb_eq in E2. subst c2. destruct (Nat.eqb c c') eqn:E3; auto.
        apply Nat.eqb_eq in E3. subst. rewrite Nat.eqb_refl in E. discriminate.
      * apply IH.
Qed.

Hypothesis b_params_total : forall k c, sget k (b_elems b) = Some c -> exists v, dvget c (b_params b) = Some v.

Lemma reset_defaults_builtin d c : is_builtin_class b c = true ->
  dvget c (reset_defaults b (fun _ => true) d) = dvget c (b_params b).
Proof.
  unfold reset_defaults, is_builtin_class.
  assert (G : forall (l : sdict) d0, (forall kv, In kv l -> sget (fst kv) (b_elems b) = Some (snd kv)) ->
               dvget c (fold_left (fun acc kv => match sget (fst kv) (b_elems b) with
                                     | Some c0 => match dvget c0 (b_params b) with Some v => dvset c0 v acc | None => acc end
                                     | None => acc end) l d0) =
               if existsb (fun kv => Nat.eqb (snd kv) c) l then dvget c (b_params b) else dvget c d0).
  { induction l as [|[k2 c2] r IH]; intros d0 Hl; simpl; auto.
    rewrite IH by (intros; apply Hl; simpl; auto).
    pose proof (Hl (k2, c2) (or_introl eq_refl)) as H2. simpl in H2. rewrite H2.
    destruct (b_params_total _ _ H2) as [v Hv]. rewrite Hv.
    destruct (existsb (fun kv => Nat.eqb (snd kv) c) r); [destruct (Nat.eqb c2 c); auto|].
    rewrite dvget_dvset. destruct (Nat.eqb c2 c) eqn:E.
    - apply Nat.eqb_eq in E. subst. rewrite Nat.eqb_refl. auto.
    - rewrite Nat.eqb_sym, E. auto. }
  intro Hb. rewrite G.
  - rewrite Hb. auto.
  - intros [k c0] Hin. simpl. revert Hin. pose proof b_nodup as Hnd0. revert Hnd0. generalize (b_elems b) as l. clear.
    induction l as [|[k2 c2] r IH]; simpl; intros Hnd0 Hin; [contradiction|].
    inversion Hnd0; subst. destruct Hin as [H|H].
    + inversion H; subst. rewrite str_eqb_refl. auto.
    + destruct (str_eqb k k2) eqn:E; auto. apply str_eqb_eq in E. subst. exfalso. apply H1. apply (in_map fst) in H. auto.
Qed.

(* after reset() the registry shows what a fresh import shows *)
Theorem reset_is_fresh ops cands :
  forallb user_op ops = true ->
  let s := fst (rstep b (rfinal (init b) ops) (Reset true true)) in
  fresh_view b (map snd (b_elems b)) cands s = fresh_view b (map snd (b_elems b)) cands (init b).
Proof.
  intros Hu s. pose proof (rfinal_binv ops (init b) binv_init Hu) as (Hnd & H1 & H2).
  unfold s, fresh_view. simpl. unfold get_elements. simpl. rewrite H2.
  assert (Hd : map (fun c => dvget c (reset_defaults b (fun _ => true) (rs_defaults (rfinal (init b) ops)))) (map snd (b_elems b))
             = map (fun c => dvget c (b_params b)) (map snd (b_elems b))).
  { apply map_ext_in. intros c Hin. apply reset_defaults_builtin. unfold is_builtin_class.
    apply in_map_iff in Hin. destruct Hin as ([k c'] & Hc & Hin). simpl in Hc. subst c'.
    apply existsb_exists. exists (k, c). split; auto. simpl. apply Nat.eqb_refl. }
  rewrite Hd. reflexivity.
Qed.

(* built-in symbols always map to their original classes: they cannot be removed or shadowed *)
Theorem builtins_preserved ops k c :
  forallb user_op ops = true -> sget k (b_elems b) = Some c -> sget k (rs_elems (rfinal (init b) ops)) = Some c.
Proof. intros Hu Hk. apply (proj1 (proj2 (rfinal_binv ops (init b) binv_init Hu))). auto. Qed.
End Reg.

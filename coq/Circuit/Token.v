(* Circuit/Token.v — executable model of pyimpspec.circuit.tokenizer.Tokenizer, character by character:
   main_loop, identifier_or_label (three contexts decided by the previous token), number, ignore, push with the
   slice original[start:end], and float(str) on exact decimals.  Model only. *)
From Coq Require Import ZArith QArith Bool List.
From PV Require Import Base.Float53 Base.Num Base.Outcome Circuit.Tree.
Import ListNotations.
Open Scope N_scope.

Inductive tkind := KIdent | KLabel | KNumber | KFixed | KLBr | KRBr | KLPar | KRPar | KLCur | KRCur
                 | KEq | KSlash | KPct | KComma | KColon | KExcl.

Definition tkind_eqb (a b : tkind) : bool :=
  match a, b with
  | KIdent, KIdent | KLabel, KLabel | KNumber, KNumber | KFixed, KFixed | KLBr, KLBr | KRBr, KRBr
  | KLPar, KLPar | KRPar, KRPar | KLCur, KLCur | KRCur, KRCur | KEq, KEq | KSlash, KSlash | KPct, KPct
  | KComma, KComma | KColon, KColon | KExcl, KExcl => true
  | _, _ => false
  end.

(* a token: its class, the source slice (identifiers, labels, punctuation) and the number (numbers) *)
Record tok := mkTok { tk : tkind; tstr : str; tnum : xnum }.

(* ---- character classes (string.ascii_letters, digits, whitespace) ----------------------------- *)
Definition is_upper (c : N) := (65 <=? c) && (c <=? 90).
Definition is_lower (c : N) := (97 <=? c) && (c <=? 122).
Definition is_letter (c : N) := is_upper c || is_lower c.
Definition is_dig (c : N) := (48 <=? c) && (c <=? 57).
Definition is_ws (c : N) := (c =? 32) || (c =? 9) || (c =? 10) || (c =? 13) || (c =? 11) || (c =? 12).
Definition special (c : N) : option tkind :=
  if c =? 91 then Some KLBr else if c =? 93 then Some KRBr
  else if c =? 40 then Some KLPar else if c =? 41 then Some KRPar
  else if c =? 123 then Some KLCur else if c =? 125 then Some KRCur
  else if c =? 61 then Some KEq else if c =? 47 then Some KSlash
  else if c =? 37 then Some KPct else if c =? 44 then Some KComma
  else if c =? 58 then Some KColon else if c =? 33 then Some KExcl else None.

(* ---- float(str) for the strings number() can produce ------------------------------------------------ *)
Fixpoint digits_val (acc : Z) (l : str) : Z :=
  match l with [] => acc | c :: r => digits_val (acc * 10 + Z.of_N (c - 48)) r end.
Fixpoint take_digits (l : str) : str * str :=
  match l with
  | c :: r => if is_dig c then let '(d, rest) := take_digits r in (c :: d, rest) else ([], l)
  | [] => ([], [])
  end.

Fixpoint strip_zeros (l : str) : str := match l with c :: r => if (c =? 48)%N then strip_zeros r else l | [] => [] end.

Definition two_pow_1024 : Z := Z.pow 2 1024.
Definition overflow_threshold : Q := inject_Z (two_pow_1024 - Z.pow 2 970).     (* DBL_MAX + half an ulp *)

Definition min_normal : Q := 1 # (Z.to_pos (Z.pow 2 1022)).

(* value of mantissa * 10^scale as float() returns it: correctly rounded in the normal range, saturating at the extremes *)
Definition dec_to_xnum (neg : bool) (m : Z) (scale : Z) (ndig : Z) : xnum :=
  if (m =? 0)%Z then Fin 0
  else if (310 <? scale + ndig)%Z then (if neg then NInf else PInf)
  else if (scale + ndig <? -330)%Z then Fin 0
  else
    let q := (inject_Z m * Qpower (10 # 1) scale)%Q in
    if Qle_bool overflow_threshold q then (if neg then NInf else PInf)
    else if Qle_bool min_normal q then Fin (fl53 (if neg then - q else q))     (* float(): correctly rounded binary64 *)
    else Fin (Qred (if neg then - q else q)).                                 (* subnormal range: kept exact, compared at 2^-48 *)

(* None = float() raises ValueError *)
Definition float_of_str (s : str) : option xnum :=
  let '(neg, s1) := match s with 45 :: r => (true, r) | _ => (false, s) end in
  let '(di, s2) := take_digits s1 in
  let '(df, s3) := match s2 with 46 :: r => take_digits r | _ => ([], s2) end in
  match di ++ df with
  | [] => None
  | _ =>
    let m := digits_val 0 (di ++ df) in
    let nd := Z.of_nat (length (di ++ df)) in
    match s3 with
    | [] => Some (dec_to_xnum neg m (- Z.of_nat (length df)) nd)
    | e :: r =>
        if (e =? 101) || (e =? 69) then
          let '(eneg, r1) := match r with 45 :: t => (true, t) | 43 :: t => (false, t) | _ => (false, r) end in
          let '(de, r2) := take_digits r1 in
          match de, r2 with
          | _ :: _, [] =>
              (* a huge exponent saturates; the cap keeps 10^e computable *)
              (* (leading zeros of the exponent do not count: "1e0000000000" is 1.0) *)
              let de' := strip_zeros de in
              let ev := if (6 <? Z.of_nat (length de'))%Z then 1000000%Z else digits_val 0 de' in
              Some (dec_to_xnum neg m ((if eneg then - ev else ev) - Z.of_nat (length df)) nd)
          | _, _ => None
          end
        else None
    end
  end.

(* ---- the scanner ------------------------------------------------------------------------------------ *)
Record tstate := mkTS {
  chars : str;            (* self._chars *)
  toks : list tok;        (* self._tokens, newest first *)
  value : str;            (* self._value *)
  index : nat; start : nat;
  orig : str }.

Definition slice (s : str) (a b : nat) : str := firstn (b - a) (skipn a s).

(* consume(pop()) *)
Definition take1 (s : tstate) : tstate :=
  match chars s with
  | c :: r => mkTS r (toks s) (value s ++ [c]) (S (index s)) (start s) (orig s)
  | [] => s
  end.

(* push(Class) *)
Definition push (k : tkind) (s : tstate) : outcome tstate :=
  let endi := index s in
  match k with
  | KNumber | KFixed =>
      match float_of_str (value s) with
      | Some x => Ok (mkTS (chars s) (mkTok k [] x :: toks s) [] (index s) (index s) (orig s))
      | None => Err EValue
      end
  | _ => Ok (mkTS (chars s) (mkTok k (slice (orig s) (start s) endi) (Fin 0) :: toks s) [] (index s) (index s) (orig s))
  end.

Definition prev_kind (s : tstate) : option tkind := match toks s with t :: _ => Some (tk t) | [] => None end.

Fixpoint take_while (fuel : nat) (p : N -> bool) (s : tstate) : tstate :=
  match fuel with
  | O => s
  | S f => match chars s with c :: _ => if p c then take_while f p (take1 s) else s | [] => s end
  end.

(* the label loop: everything up to an unmatched "}" or the end of the input *)
Fixpoint label_loop (fuel : nat) (depth : nat) (s : tstate) : tstate :=
  match fuel with
  | O => s
  | S f =>
      match chars s with
      | [] => s
      | c :: _ =>
          if c =? 123 then label_loop f (S depth) (take1 s)
          else if c =? 125 then (match depth with O => s | S d => label_loop f d (take1 s) end)
          else label_loop f depth (take1 s)
      end
  end.

Definition identifier_or_label (s : tstate) : outcome tstate :=
  let s1 := take1 s in
  let n := length (chars s1) in
  match prev_kind s1 with
  | Some KColon => push KLabel (label_loop n 0 s1)
  | Some KLCur | Some KComma =>
      push KIdent (take_while n (fun c => is_letter c || is_dig c || (c =? 95)) s1)
  | _ => push KIdent (take_while n (fun c => is_lower c || is_dig c || (c =? 95)) s1)
  end.

(* number(): digits, optional fraction, optional exponent, optional F marker *)
Definition num_frac (n : nat) (s1 : tstate) : tstate :=
  match chars s1 with 46 :: _ => take_while n is_dig (take1 s1) | _ => s1 end.
Definition num_sign (s : tstate) : tstate :=
  match chars s with 45 :: _ | 43 :: _ => take1 s | _ => s end.
Definition num_exp (n : nat) (s2 : tstate) : tstate :=
  match chars s2 with
  | c :: _ => if (c =? 101) || (c =? 69) then take_while n is_dig (num_sign (take1 s2)) else s2
  | [] => s2
  end.
Definition num_finish (s3 : tstate) : outcome tstate :=
  match chars s3 with
  | c :: r =>
      if (c =? 102) || (c =? 70)
      then push KFixed (mkTS r (toks s3) (value s3) (S (index s3)) (start s3) (orig s3))   (* consume(""); pop() *)
      else push KNumber s3
  | [] => push KNumber s3
  end.
Definition number (s : tstate) : outcome tstate :=
  let n := length (chars s) in
  num_finish (num_exp n (num_frac n (take_while n is_dig (take1 s)))).

Definition main_loop (s : tstate) : outcome tstate :=
  match chars s with
  | [] => Ok s
  | c :: r =>
      match special c with
      | Some k => push k (take1 s)
      | None =>
          if is_letter c then identifier_or_label s
          else if is_dig c || ((c =? 45) && match r with d :: _ => is_dig d | [] => false end) then number s
          else if is_ws c then Ok (mkTS r (toks s) (value s) (S (index s)) (S (index s)) (orig s))   (* ignore() *)
          else Err ETokenizing
      end
  end.

Fixpoint scan (fuel : nat) (s : tstate) : outcome (list tok) :=
  match chars s with
  | [] => Ok (rev (toks s))
  | _ =>
      match fuel with
      | O => Crash COutOfFuel
      | S f => let* s' := main_loop s in scan f s'
      end
  end.

Definition tokenize (s : str) : outcome (list tok) :=
  scan (S (length s)) (mkTS s [] [] 0 0 s).

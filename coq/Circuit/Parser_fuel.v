(* Circuit/Parser_fuel.v — the parser model never runs out of its own fuel: with 4*|tokens|+10 units every recursion and every
   loop of the shift/reduce machine terminates before the counter is exhausted (each call consumes a token within a bounded number
   of frames; each loop iteration consumes at least one token).  Together with the stack discipline (Parser_facts.v, re-proved here
   with the strict outcome predicate) this makes parsing TOTAL: a circuit or an allowed error, never a crash. *)
From Coq Require Import ZArith QArith Bool List Lia.
From PV Require Import Base.Num Base.Outcome Circuit.ElemState Circuit.ElemProp Circuit.ElemState_facts Circuit.Tree
                       Circuit.Token Circuit.Token_facts Circuit.Parser Circuit.Parser_facts.
Import ListNotations.
Local Open Scope nat_scope.

(* strict: no crash of any kind *)
Definition gs {A} (P : A -> Prop) (o : outcome A) : Prop :=
  match o with Ok a => P a | Err e => okerr e = true | Crash _ => False end.

Lemma gs_bind {A B} (Q : A -> Prop) (P : B -> Prop) (o : outcome A) (f : A -> outcome B) :
  gs Q o -> (forall a, Q a -> gs P (f a)) -> gs P (bind o f).
Proof. destruct o; simpl; auto. Qed.

Lemma gs_weaken {A} (P Q : A -> Prop) o : gs P o -> (forall a, P a -> Q a) -> gs Q o.
Proof. destruct o; simpl; auto. Qed.

Lemma gs_good {A} (P : A -> Prop) o : gs P o -> good P o.
Proof. destruct o; simpl; auto. contradiction. Qed.

Definition tl (p : pst) : nat := length (ptoks p).

Lemma pop_token_gs p :
  gs (fun tp => pstack (snd tp) = pstack p /\ ptoks p = fst tp :: ptoks (snd tp) /\ tl p = S (tl (snd tp))) (pop_token p).
Proof. unfold pop_token, tl. destruct (ptoks p) eqn:E; simpl; auto. Qed.

Lemma expect_gs k p : gs (fun _ => True) (expect k p).
Proof. unfold expect. destruct (ptoks p); simpl; auto. destruct (tkind_eqb (tk t) k); simpl; auto. Qed.

Lemma expect_number_gs p : gs (fun _ => True) (expect_number p).
Proof. unfold expect_number. destruct (ptoks p); simpl; auto. destruct (tk t); simpl; auto. Qed.

Definition same_le (p : pst) {A} (xp : A * pst) : Prop := pstack (snd xp) = pstack p /\ tl (snd xp) <= tl p.

Lemma param_limit_gs v up p : gs (same_le p) (param_limit v up p).
Proof.
  unfold param_limit, same_le. destruct (negb (accept KNumber p)).
  - eapply gs_bind; [apply expect_gs|]. intros _ _.
    eapply gs_bind; [apply pop_token_gs|]. intros [t p1] (H1 & H2 & H3). simpl in *.
    destruct (negb (str_eqb (tstr t) str_inf)); simpl; auto. split; [auto|lia].
  - eapply gs_bind; [apply pop_token_gs|]. intros [t p1] (H1 & H2 & H3). simpl in *.
    destruct (accept KPct p1); simpl; [|split; [auto|lia]].
    eapply gs_bind; [apply pop_token_gs|]. intros [t2 p2] (H4 & H5 & H6). simpl in *. split; [congruence|lia].
Qed.

Lemma param_gs p : gs (same_le p) (param p).
Proof.
  unfold param.
  eapply gs_bind; [apply expect_number_gs|]. intros _ _.
  eapply gs_bind; [apply pop_token_gs|]. intros [vt p1] (H1 & _ & L1). simpl in *.
  destruct (accept KSlash p1); [|unfold same_le; simpl; split; [auto|lia]].
  eapply gs_bind; [apply pop_token_gs|]. intros [t2 p2] (H2 & _ & L2). simpl in *.
  destruct (accept KSlash p2).
  - eapply gs_bind; [apply pop_token_gs|]. intros [t3 p3] (H3 & _ & L3). simpl in *.
    eapply gs_bind; [apply param_limit_gs|]. intros [up p4] [H4 L4]. unfold same_le in *. simpl in *. split; [congruence|lia].
  - eapply gs_bind; [apply param_limit_gs|]. intros [lo p3] [H3 L3]. simpl in *.
    destruct (accept KSlash p3); [|unfold same_le; simpl; split; [congruence|lia]].
    eapply gs_bind; [apply pop_token_gs|]. intros [t4 p4] (H4 & _ & L4). simpl in *.
    eapply gs_bind; [apply param_limit_gs|]. intros [up p5] [H5 L5]. unfold same_le in *. simpl in *. split; [congruence|lia].
Qed.

Lemma finish_connection_gs opening series ns base toks0 :
  gs (fun p' => exists n, pstack p' = SkNode n :: base /\ ptoks p' = toks0)
     (finish_connection opening series (mkPS toks0 (map SkNode ns ++ SkTok opening :: base))).
Proof.
  unfold finish_connection. simpl.
  destruct (collect_nodes opening series base ns [] [] eq_refl) as (li' & H1). rewrite H1.
  destruct li' as [|a li'']; simpl; auto.
  destruct (negb series && (S (length (map SkNode li'')) <? 2)); simpl; auto.
  rewrite all_nodes_map.
  destruct series.
  - destruct (rev (a :: li'')) as [|x [|y r]]; simpl; eauto.
  - simpl. eauto.
Qed.

(* building an element neither crashes nor raises anything but ValueError-class errors (the argument of build_element_good) *)
Lemma build_element_gs ci r d :
  wf_rcls r = true -> pd_ok r d -> gs (fun _ => True) (build_element ci r d).
Proof.
  unfold wf_rcls. rewrite andb_true_iff. intros [Hk _] [Hlo Hup Hfx]. apply list_eqb_N_eq in Hk.
  unfold build_element.
  set (n := length (r_keys r)) in *.
  set (e0 := mkE [] (map _ (cdefaults (r_cls r)))).
  assert (He0 : map fst (epars e0) = map N.of_nat (seq 0 n)).
  { unfold e0. simpl. rewrite map_map. rewrite <- Hk. apply map_ext. intros [k p]. simpl.
    destruct (lookup k (pd_params d)); auto. }
  (* set_label *)
  assert (Hl : forall e, match set_label e (VStr (pd_label d)) with
                         | (e', ROk) => epars e' = epars e | (_, RErr er) => er = EValue | (_, RCrash _) => False end).
  { intro e. unfold set_label. destruct (strip (pd_label d)); [simpl; auto|].
    destruct (negb _); [simpl; auto|]. destruct (forallb is_digit _); simpl; auto. }
  specialize (Hl e0). unfold res_to_outcome at 1. destruct (set_label e0 (VStr (pd_label d))) as [e1 [|er|c]]; simpl in *;
    [|subst; auto|contradiction].
  assert (He1 : map fst (epars e1) = map N.of_nat (seq 0 n)) by (rewrite Hl; auto).
  assert (Hin_lo : forall k v, In (k, v) (map (fun kv : key * xnum => (fst kv, VNum (snd kv))) (map (fun kv : key * xnum => (fst kv, NInf)) (nonnan (pd_lower d)))) -> N.to_nat k < n /\ is_num v).
  { intros k v H. apply in_kw_num in H. destruct H as [H1 H2]. split; auto.
    rewrite map_map in H1. simpl in H1. apply nonnan_keys in H1. rewrite Forall_forall in Hlo. apply Hlo. auto. }
  pose proof (setter_kw_errs g_lower is_num n e1 _ g_lower_errs He1 Hin_lo) as S1.
  unfold kwnum. unfold res_to_outcome at 1.
  destruct (setter g_lower e1 _) as [e2 [|er|c]]; simpl in *; [|subst; auto|contradiction].
  assert (He2 : map fst (epars e2) = map N.of_nat (seq 0 n)) by congruence.
  assert (Hin_up : forall k v, In (k, v) (map (fun kv : key * xnum => (fst kv, VNum (snd kv))) (nonnan (pd_upper d))) -> N.to_nat k < n /\ is_num v).
  { intros k v H. apply in_kw_num in H. destruct H as [H1 H2]. split; auto.
    apply nonnan_keys in H1. rewrite Forall_forall in Hup. apply Hup. auto. }
  pose proof (setter_kw_errs g_upper is_num n e2 _ g_upper_errs He2 Hin_up) as S2.
  unfold res_to_outcome at 1.
  destruct (setter g_upper e2 _) as [e3 [|er|c]]; simpl in *; [|subst; auto|contradiction].
  assert (He3 : map fst (epars e3) = map N.of_nat (seq 0 n)) by congruence.
  assert (Hin_lo2 : forall k v, In (k, v) (map (fun kv : key * xnum => (fst kv, VNum (snd kv))) (nonnan (pd_lower d))) -> N.to_nat k < n /\ is_num v).
  { intros k v H. apply in_kw_num in H. destruct H as [H1 H2]. split; auto.
    apply nonnan_keys in H1. rewrite Forall_forall in Hlo. apply Hlo. auto. }
  pose proof (setter_kw_errs g_lower is_num n e3 _ g_lower_errs He3 Hin_lo2) as S3.
  unfold res_to_outcome at 1.
  destruct (setter g_lower e3 _) as [e4 [|er|c]]; simpl in *; [|subst; auto|contradiction].
  assert (He4 : map fst (epars e4) = map N.of_nat (seq 0 n)) by congruence.
  assert (Hin_fx : forall k v, In (k, v) (map (fun kv : key * bool => (fst kv, VBool (snd kv))) (pd_fixed d)) -> N.to_nat k < n /\ is_bool v).
  { intros k v H. apply in_map_iff in H. destruct H as ([k' b] & He & Hi). simpl in He. inversion He as [[Hk' Hv]]. split; [|exists b; auto].
    rewrite Forall_forall in Hfx. apply Hfx. apply in_map_iff. exists (k', b). auto. }
  pose proof (setter_kw_errs g_fixed is_bool n e4 _ g_fixed_errs He4 Hin_fx) as S4.
  unfold res_to_outcome.
  destruct (setter g_fixed e4 _) as [e5 [|er|c]]; simpl in *; [auto|subst; auto|contradiction].
Qed.

(* ---- the mutually recursive core, with fuel bounds -------------------------------------------------------------------------- *)
Section Core.
Variable reg : registry.
Hypothesis Hreg : wf_registry reg = true.

Lemma reg_wf' r : In r reg -> wf_rcls r = true.
Proof. unfold wf_registry in Hreg. rewrite forallb_forall in Hreg. auto. Qed.

Definition step1 (p p' : pst) : Prop := pushes1 p p' /\ tl p' < tl p.

Definition fuel_stmt (fuel : nat) : Prop := forall depth p,
  (4 * tl p + 4 <= fuel -> gs (step1 p) (main_loop fuel depth reg p)) /\
  (forall opening closing series, accept opening p = true -> 4 * tl p + 3 <= fuel ->
     gs (step1 p) (connection fuel depth reg opening closing series p)) /\
  (4 * tl p + 3 <= fuel -> gs (step1 p) (element fuel depth reg p)) /\
  (forall r, wf_rcls r = true -> 4 * tl p + 6 <= fuel ->
     gs (fun dp => pstack (snd dp) = pstack p /\ pd_ok r (fst dp) /\ tl (snd dp) <= tl p) (parameters fuel depth reg r p)) /\
  (accept KIdent p || accept KLBr p || accept KLPar p = true -> 4 * tl p + 5 <= fuel ->
     gs (fun op => pstack (snd op) = pstack p /\ tl (snd op) <= tl p) (subcircuit fuel depth reg p)).

Lemma accept_tl k p : accept k p = true -> 1 <= tl p.
Proof. unfold accept, tl. destruct (ptoks p); simpl; [discriminate|lia]. Qed.

Lemma fuel_main f : fuel_stmt f -> forall depth p, 4 * tl p + 4 <= S f -> gs (step1 p) (main_loop (S f) depth reg p).
Proof.
  intros IH depth p Hb. simpl.
  destruct (accept KLBr p) eqn:E1; [apply (IH depth p); auto; lia|].
  destruct (accept KLPar p) eqn:E2; [apply (IH depth p); auto; lia|].
  destruct (accept KIdent p) eqn:E3; [apply (IH depth p); lia|].
  destruct (ptoks p); simpl; auto.
Qed.

Lemma fuel_connection f : fuel_stmt f -> forall depth p opening closing series,
  accept opening p = true -> 4 * tl p + 3 <= S f -> gs (step1 p) (connection (S f) depth reg opening closing series p).
Proof.
  intros IH depth p opening closing series Hacc Hb. simpl.
  destruct depth as [|[|d]]; simpl; auto.
  eapply gs_bind; [apply pop_token_gs|]. intros [t p1] (Hs & Ht & Hl). simpl in *.
  assert (Hk : tk t = opening) by (eapply accept_head; eauto). rewrite Hk.
  destruct (accept closing (push_stack (SkTok opening) p1)); simpl; auto.
  set (L := fix loop (n : nat) (q : pst) {struct n} : outcome pst :=
              if accept closing q then Ok q
              else match n with
                   | 0 => Crash COutOfFuel
                   | S m => let* q' := main_loop f d reg q in loop m q'
                   end).
  assert (HL : forall n q, (exists ns, pstack q = map SkNode ns ++ SkTok opening :: pstack p) -> tl q < tl p -> tl q + 1 <= n ->
                gs (fun q' => (exists ns, pstack q' = map SkNode ns ++ SkTok opening :: pstack p) /\ tl q' < tl p) (L n q)).
  { induction n as [|m IHm]; intros q Hq Hlt Hn; [lia|]. simpl.
    destruct (accept closing q); simpl; auto.
    eapply gs_bind; [apply (IH d q); lia|]. intros q' [[x Hx] Hlt']. apply IHm; try lia.
    destruct Hq as [ns Hns]. exists (x :: ns). rewrite Hx, Hns. auto. }
  eapply gs_bind; [apply (HL f (push_stack (SkTok opening) p1))|].
  { exists []. simpl. rewrite Hs. auto. }
  { unfold tl, push_stack in *. simpl. lia. }
  { unfold tl, push_stack in *. simpl. lia. }
  intros p3 [[ns Hns] Hlt3].
  eapply gs_bind; [apply expect_gs|]. intros _ _.
  eapply gs_bind; [apply pop_token_gs|]. intros [t4 p4] (Hs4 & _ & Hl4). simpl in *.
  destruct p4 as [tk4 st4]. simpl in *. subst st4. rewrite Hns.
  eapply gs_weaken; [apply finish_connection_gs|]. intros p' [n [Hn Htok]]. split; [exists n; auto|].
  unfold tl in *. simpl in *. rewrite Htok. lia.
Qed.

Lemma fuel_element f : fuel_stmt f -> forall depth p, 4 * tl p + 3 <= S f -> gs (step1 p) (element (S f) depth reg p).
Proof.
  intros IH depth p Hb. simpl.
  eapply gs_bind; [apply pop_token_gs|]. intros [idt p1] (Hs & _ & Hl). simpl in *.
  destruct (find_sym (tstr idt) reg 0) as [[ci r]|] eqn:Ef; simpl; auto.
  pose proof (reg_wf' r (find_sym_in _ _ _ _ _ Ef)) as Hwf.
  eapply gs_bind; [apply (IH depth p1); auto; lia|]. intros [d p2] (Hs2 & Hok & Hl2). simpl in *.
  eapply gs_bind; [apply build_element_gs; auto|]. intros n _. simpl.
  split; [exists n; simpl; congruence|]. unfold tl, push_stack in *. simpl. lia.
Qed.

Lemma fuel_parameters f : fuel_stmt f -> forall depth p r, wf_rcls r = true -> 4 * tl p + 6 <= S f ->
  gs (fun dp => pstack (snd dp) = pstack p /\ pd_ok r (fst dp) /\ tl (snd dp) <= tl p) (parameters (S f) depth reg r p).
Proof.
  intros IH depth p r Hwf Hb. simpl.
  destruct (negb (accept KLCur p)); simpl; [split; [auto|split; [apply pd_ok_empty|lia]]|].
  eapply gs_bind; [apply pop_token_gs|]. intros [t1 p1] (Hs1 & _ & Hl1). simpl in *.
  set (L := fix loop (n : nat) (pkeys skeys : list str) (d : pdefs) (q : pst) {struct n} : outcome (pdefs * pst) := _).
  assert (HL : forall n pkeys skeys d q, pstack q = pstack p -> pd_ok r d -> tl q <= tl p1 -> tl q + 1 <= n ->
                gs (fun dp => pstack (snd dp) = pstack p /\ pd_ok r (fst dp) /\ tl (snd dp) <= tl p1) (L n pkeys skeys d q)).
  { induction n as [|m IHm]; intros pkeys skeys d q Hq Hd Hle Hn; [lia|].
    assert (Hstep : gs (fun dp => pstack (snd dp) = pstack p /\ pd_ok r (fst dp) /\ tl (snd dp) <= tl p1)
               (if negb (accept KIdent q) then Err PE_expected_param_ident
                else
                  let* (kt, q1) := pop_token q in
                  let key := tstr kt in
                  let* _ := expect KEq q1 in
                  let* (_, q2) := pop_token q1 in
                  let* (pk, sk', d', q3) :=
                    if accept KLBr q2 || accept KLPar q2 || accept KIdent q2 then
                      match index_of key (r_subkeys r) 0 with
                      | Some si =>
                          if existsb (fun iv => Nat.eqb (fst iv) si) (pd_subs d) then Err PE_duplicate_param
                          else if negb (mem_str key skeys) then Err PE_invalid_param
                          else
                            let* (oc, q3) := subcircuit f depth reg q2 in
                            Ok (pkeys, remove_str key skeys,
                                mkPD (pd_label d) (pd_params d) (pd_lower d) (pd_upper d) (pd_fixed d) (pd_subs d ++ [(si, oc)]), q3)
                      | None => Err PE_invalid_param
                      end
                    else
                      match index_of key (r_keys r) 0 with
                      | Some ki =>
                          let k := N.of_nat ki in
                          if has_key k (pd_params d) then Err PE_duplicate_param
                          else if negb (mem_str key pkeys) then Err PE_invalid_param
                          else
                            let* (vals, q3) := param q2 in
                            let '(v, lo, up, fx) := vals in
                            if negb (is_nan lo) && xltb v lo then Err PE_invalid_lower
                            else if negb (is_nan up) && xltb up v then Err PE_invalid_upper
                            else Ok (remove_str key pkeys, skeys,
                                     mkPD (pd_label d) (pd_params d ++ [(k, v)]) (pd_lower d ++ [(k, lo)])
                                          (pd_upper d ++ [(k, up)]) (pd_fixed d ++ [(k, fx)]) (pd_subs d), q3)
                      | None => Err PE_invalid_param
                      end in
                  if accept KComma q3 then
                    match pk, sk' with
                    | [], [] => Err PE_too_many_params
                    | _, _ => let* (_, q4) := pop_token q3 in L m pk sk' d' q4
                    end
                  else Ok (d', q3))).
      { destruct (negb (accept KIdent q)); simpl; auto.
        eapply gs_bind; [apply pop_token_gs|]. intros [kt q1] (Hq1 & _ & Hl_1). simpl in *.
        eapply gs_bind; [apply expect_gs|]. intros _ _.
        eapply gs_bind; [apply pop_token_gs|]. intros [t2 q2] (Hq2 & _ & Hl_2). simpl in *.
        eapply (gs_bind (fun x => pstack (snd x) = pstack p /\ pd_ok r (snd (fst x)) /\ tl (snd x) <= tl q2)).
        - destruct (accept KLBr q2 || accept KLPar q2 || accept KIdent q2) eqn:Eacc.
          + destruct (index_of (tstr kt) (r_subkeys r) 0); simpl; auto.
            destruct (existsb _ (pd_subs d)); simpl; auto.
            destruct (negb (mem_str (tstr kt) skeys)); simpl; auto.
            eapply gs_bind; [apply (IH depth q2)|].
            { destruct (accept KIdent q2), (accept KLBr q2), (accept KLPar q2); simpl in *; auto. }
            { lia. }
            intros [oc q3] [Hq3 Hl3]. simpl in *. split; [congruence|]. split; [|lia]. destruct Hd. constructor; auto.
          + destruct (index_of (tstr kt) (r_keys r) 0) as [ki|] eqn:Ei; simpl; auto.
            destruct (has_key (N.of_nat ki) (pd_params d)); simpl; auto.
            destruct (negb (mem_str (tstr kt) pkeys)); simpl; auto.
            eapply gs_bind; [apply param_gs|]. intros [[[[v lo] up] fx] q3] [Hq3 Hl3]. simpl in *.
            destruct (negb (is_nan lo) && xltb v lo); simpl; auto.
            destruct (negb (is_nan up) && xltb up v); simpl; auto.
            split; [congruence|]. split; [|lia]. apply pd_ok_add; auto. unfold key_ok. apply index_of_lt in Ei. lia.
        - intros [[[pk sk'] d'] q3] (Hq3 & Hd' & Hl3). simpl in *.
          destruct (accept KComma q3); simpl; [|split; [auto|split; [auto|lia]]].
          destruct pk, sk'; simpl; auto;
            (eapply gs_bind; [apply pop_token_gs|]; intros [t4 q4] (Hq4 & _ & Hl4); simpl in *; apply IHm; auto; try congruence; lia). }
      simpl. destruct pkeys, skeys; simpl; try exact Hstep. split; [auto|split; [auto|lia]]. }
  eapply (gs_bind (fun dp => pstack (snd dp) = pstack p /\ pd_ok r (fst dp) /\ tl (snd dp) <= tl p1)).
  - destruct (accept KColon p1); simpl; [split; [congruence|split; [apply pd_ok_empty|lia]]|].
    apply HL; auto using pd_ok_empty; try congruence; lia.
  - intros [d p2] (Hs2 & Hd & Hl2). simpl in *.
    eapply (gs_bind (fun dp => pstack (snd dp) = pstack p /\ pd_ok r (fst dp) /\ tl (snd dp) <= tl p1)).
    + destruct (accept KColon p2); simpl; auto.
      eapply gs_bind; [apply pop_token_gs|]. intros [t3 q1] (Hq1 & _ & Hl_1). simpl in *.
      eapply gs_bind; [apply expect_gs|]. intros _ _.
      eapply gs_bind; [apply pop_token_gs|]. intros [lt q2] (Hq2 & _ & Hl_2). simpl in *.
      split; [congruence|]. split; [|lia]. destruct Hd. constructor; auto.
    + intros [d3 p3] (Hs3 & Hd3 & Hl3). simpl in *.
      eapply gs_bind; [apply expect_gs|]. intros _ _.
      eapply gs_bind; [apply pop_token_gs|]. intros [t5 p4] (Hs4 & _ & Hl4). simpl in *.
      split; [congruence|]. split; [auto|lia].
Qed.

Lemma fuel_subcircuit f : fuel_stmt f -> forall depth p,
  accept KIdent p || accept KLBr p || accept KLPar p = true -> 4 * tl p + 5 <= S f ->
  gs (fun op => pstack (snd op) = pstack p /\ tl (snd op) <= tl p) (subcircuit (S f) depth reg p).
Proof.
  intros IH depth0 p Hacc Hb. simpl.
  destruct depth0 as [|[|[|[|depth]]]]; simpl; auto.
  destruct (accept KIdent p) eqn:Ei.
  - destruct (accept_nonempty _ _ Ei) as (t & rest & Et). rewrite Et.
    destruct (str_eqb (tstr t) str_zero || str_eqb (tstr t) str_short).
    { eapply gs_bind; [apply pop_token_gs|]. intros [t1 p1] (H1 & _ & L1). simpl in *. split; [auto|lia]. }
    destruct (str_eqb (tstr t) str_inf || str_eqb (tstr t) str_open).
    { eapply gs_bind; [apply pop_token_gs|]. intros [t1 p1] (H1 & _ & L1). simpl in *. split; [auto|lia]. }
    set (L := fix loop (n : nat) (q : pst) {struct n} : outcome pst := _).
    assert (HL : forall n q, (exists ns, pstack q = map SkNode ns ++ pstack p) -> tl q <= tl p -> tl q + 1 <= n ->
                  gs (fun q' => (exists ns, pstack q' = map SkNode ns ++ pstack p) /\ tl q' <= tl p) (L n q)).
    { induction n as [|m IHm]; intros q Hq Hle Hn; [lia|]. simpl.
      destruct (is_param_end q); simpl; auto. destruct (ptoks q) eqn:Eq; simpl; auto.
      eapply gs_bind; [apply (IH depth q); lia|]. intros q' [[x Hx] Hlt]. apply IHm; try lia.
      destruct Hq as [ns Hns]. exists (x :: ns). rewrite Hx, Hns. auto. }
    eapply gs_bind; [apply (HL f p); [exists []; auto|lia|lia]|]. intros p1 [[ns Hns] Hle1].
    rewrite Hns. rewrite pop_above_nodes by auto. simpl. split; [auto|]. unfold tl in *. simpl. exact Hle1.
  - simpl in Hacc.
    eapply (gs_bind (step1 p)).
    + destruct (accept KLBr p) eqn:Eb; [apply (IH depth p); auto; lia|]. simpl in Hacc. apply (IH depth p); auto; lia.
    + intros p1 [[n Hn] Hlt]. rewrite Hn. destruct n as [ci st subs|c]; simpl; (split; [auto|unfold tl in *; simpl; lia]).
Qed.

Theorem fuel_all : forall fuel, fuel_stmt fuel.
Proof.
  induction fuel as [|f IH]; intros depth p.
  - repeat split; intros; lia.
  - split; [apply fuel_main; auto|]. split; [intros; apply fuel_connection; auto|].
    split; [apply fuel_element; auto|]. split; [intros; apply fuel_parameters; auto|].
    apply fuel_subcircuit; auto.
Qed.

(* ---- the top level ------------------------------------------------------------------------------------------------------------ *)
Lemma migrate_gs p : gs (fun p' => pstack p' = pstack p /\ tl p' <= tl p) (migrate p).
Proof.
  unfold migrate. destruct (accept KExcl p); simpl; auto.
  eapply gs_bind; [apply pop_token_gs|]. intros [t1 p1] (H1 & _ & L1). simpl in *.
  eapply gs_bind; [apply expect_gs|]. intros _ _.
  eapply gs_bind; [apply pop_token_gs|]. intros [t2 p2] (H2 & _ & L2). simpl in *.
  destruct (negb (str_eqb (map upper_char (tstr t2)) [86%N])); simpl; auto.
  eapply gs_bind; [apply expect_gs|]. intros _ _.
  eapply gs_bind; [apply pop_token_gs|]. intros [t3 p3] (H3 & _ & L3). simpl in *.
  eapply gs_bind; [apply expect_number_gs|]. intros _ _.
  eapply gs_bind; [apply pop_token_gs|]. intros [t4 p4] (H4 & _ & L4). simpl in *.
  destruct (negb _); simpl; auto. destruct (xltb (tnum t4) (Fin 1)); simpl; auto.
  eapply gs_bind; [apply expect_gs|]. intros _ _.
  eapply gs_bind; [apply pop_token_gs|]. intros [t5 p5] (H5 & _ & L5). simpl in *. split; [congruence|lia].
Qed.

Lemma assemble_gs p ns : pstack p = map SkNode ns -> gs (fun _ => True) (assemble p).
Proof.
  unfold assemble. intros ->. destruct ns as [|a [|b r]]; simpl; auto.
  - destruct a as [? ? ?|[l|l]]; simpl; auto.
  - rewrite all_nodes_map. destruct a as [? ? ?|[l|l]]; simpl; auto.
Qed.

Theorem parse_tokens_total ts : gs (fun _ => True) (parse_tokens reg ts).
Proof.
  unfold parse_tokens.
  eapply gs_bind; [apply migrate_gs|]. intros p0 [H0 L0]. simpl in H0. unfold tl in L0. simpl in L0.
  set (fuel := 4 * length ts + 10).
  set (L := fix loop (n : nat) (q : pst) {struct n} : outcome pst := _).
  assert (HL : forall n q, (exists ns, pstack q = map SkNode ns) -> tl q <= length ts -> tl q <= n ->
                gs (fun q' => exists ns, pstack q' = map SkNode ns) (L n q)).
  { induction n as [|m IHm]; intros q Hq Hle Hn; simpl.
    - unfold tl in Hn. destruct (ptoks q); simpl in *; auto. lia.
    - destruct (ptoks q) eqn:Eq; simpl; auto.
      eapply gs_bind; [apply (fuel_all fuel depth_budget q); unfold fuel; lia|]. intros q' [[x Hx] Hlt]. apply IHm; try lia.
      destruct Hq as [ns Hns]. exists (x :: ns). rewrite Hx, Hns. auto. }
  eapply gs_bind; [apply (HL fuel p0); [exists []; auto|exact L0|unfold fuel, tl; lia]|]. intros p1 [ns Hns].
  eapply assemble_gs; eauto.
Qed.
End Core.

(* parse_cdc's model is total: for every string and every well-formed registry it returns a circuit or an allowed error *)
Theorem parse_total reg s : wf_registry reg = true -> gs (fun _ => True) (parse reg s).
Proof.
  intro Hreg. unfold parse. destruct (is_empty_circuit (pstrip s)); simpl; auto.
  eapply (gs_bind (fun _ => True)).
  - pose proof (Token_facts.tokenize_total (pstrip s)) as H. destruct (tokenize (pstrip s)); simpl; auto.
    destruct H as [-> | ->]; auto.
  - intros ts _. destruct ts.
    + simpl. auto.
    + apply parse_tokens_total. auto.
Qed.

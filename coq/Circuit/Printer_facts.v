(* Circuit/Printer_facts.v — decimal digits: all characters are digits, and the rendering is injective. *)
From Coq Require Import ZArith Bool List Lia.
From PV Require Import Circuit.Tree Circuit.Printer.
Import ListNotations.
Local Open Scope Z_scope.

Definition is_dchar (c : N) : bool := ((48 <=? c) && (c <=? 57))%N.

(* value of a most-significant-first digit string *)
Fixpoint dval (acc : Z) (l : list N) : Z :=
  match l with [] => acc | c :: r => dval (acc * 10 + (Z.of_N c - 48)) r end.

Lemma dval_app acc a b : dval acc (a ++ b) = dval (dval acc a) b.
Proof. revert acc. induction a; intro acc; simpl; auto. Qed.

Lemma ch_digit d : 0 <= d < 10 -> Z.of_N (ch (48 + d)) - 48 = d /\ is_dchar (ch (48 + d)) = true.
Proof.
  intro H. unfold ch, is_dchar. rewrite Z2N.id by lia. split; [lia|].
  apply andb_true_iff. split; apply N.leb_le; lia.
Qed.

Lemma digits_rev_S f z : digits_rev (S f) z = if z <? 10 then [ch (48 + z)] else ch (48 + z mod 10) :: digits_rev f (z / 10).
Proof. reflexivity. Qed.
Lemma dval_one acc c : dval acc [c] = acc * 10 + (Z.of_N c - 48).
Proof. reflexivity. Qed.

(* least-significant-first digits: value and shape *)
Lemma digits_rev_ok fuel : forall z, 0 <= z < Z.pow 10 (Z.of_nat fuel) ->
  dval 0 (rev (digits_rev fuel z)) = z /\ forallb is_dchar (digits_rev fuel z) = true.
Proof.
  induction fuel as [|f IH]; intros z Hz.
  - simpl in Hz. assert (z = 0) by lia. subst. simpl. auto.
  - rewrite digits_rev_S. destruct (z <? 10) eqn:E.
    + apply Z.ltb_lt in E. destruct (ch_digit z) as [H1 H2]; [lia|].
      cbn [rev app forallb]. rewrite dval_one, H1, H2. split; [lia|auto].
    + apply Z.ltb_ge in E.
      assert (Hq : 0 <= z / 10 < 10 ^ Z.of_nat f).
      { split; [apply Z.div_pos; lia|]. apply Z.div_lt_upper_bound; [lia|].
        replace (Z.of_nat (S f)) with (Z.of_nat f + 1) in Hz by lia. rewrite Z.pow_add_r in Hz by lia. lia. }
      destruct (IH (z / 10) Hq) as [I1 I2].
      destruct (ch_digit (z mod 10)) as [H1 H2]; [apply Z.mod_pos_bound; lia|].
      cbn [rev forallb]. rewrite dval_app, I1, dval_one, H1, H2, I2. split; auto.
      pose proof (Z.div_mod z 10). lia.
Qed.

Lemma log2_bound z : 0 <= z -> z < 10 ^ Z.of_nat (S (Z.to_nat (Z.log2 (Z.max z 1)))).
Proof.
  intro Hz. set (m := Z.max z 1). assert (Hm : 0 < m) by (unfold m; lia).
  pose proof (Z.log2_spec m Hm) as [_ H2]. pose proof (Z.log2_nonneg m) as Hl.
  rewrite Nat2Z.inj_succ, Z2Nat.id by lia.
  assert (z < 2 ^ Z.succ (Z.log2 m)) by (unfold m in *; lia).
  eapply Z.lt_le_trans; eauto. apply Z.pow_le_mono_l. lia.
Qed.

Lemma dec_digits_ok z : 0 <= z -> dval 0 (dec_digits z) = z /\ forallb is_dchar (dec_digits z) = true.
Proof.
  intro Hz. unfold dec_digits.
  destruct (digits_rev_ok (S (Z.to_nat (Z.log2 (Z.max z 1)))) z) as [H1 H2]; [split; auto; apply log2_bound; auto|].
  split; auto. rewrite forallb_forall in *. intros x Hx. apply H2. apply in_rev. auto.
Qed.

Lemma dec_digits_inj a b : 0 <= a -> 0 <= b -> dec_digits a = dec_digits b -> a = b.
Proof.
  intros Ha Hb H. destruct (dec_digits_ok a Ha) as [H1 _]. destruct (dec_digits_ok b Hb) as [H2 _]. congruence.
Qed.

Lemma dec_digits_nonempty z : dec_digits z <> [].
Proof.
  unfold dec_digits. rewrite digits_rev_S. intro H. apply (f_equal (@length N)) in H. rewrite rev_length in H.
  destruct (z <? 10); simpl in H; discriminate.
Qed.

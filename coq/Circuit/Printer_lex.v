(* Circuit/Printer_lex.v — the lexical half of the basic-syntax round trip: for EVERY circuit tree and every registry whose
   symbols have the validated shape, the scanner splits the text printed by to_string(-1) into exactly the brackets and
   element symbols the printer wrote, in order.  (The syntactic half — the parser rebuilding the tree from those tokens —
   is exercised per case by the C03 correspondence check.) *)
From Coq Require Import ZArith NArith QArith Bool List Lia.
From PV Require Import Base.Num Base.Outcome Circuit.ElemState Circuit.Tree Circuit.Token Circuit.Registry Circuit.Printer Circuit.Token_decode.
Import ListNotations.
Local Open Scope nat_scope.

Fixpoint node_items (fuel : nat) (reg : registry) (n : node) : list item :=
  match fuel with
  | O => []
  | S f =>
      match n with
      | NC c => conn_items f reg c
      | NE ci _ _ => match nth_error reg ci with None => [] | Some r => [ISym (r_sym r)] end
      end
  end
with conn_items (fuel : nat) (reg : registry) (c : conn) : list item :=
  match fuel with
  | O => []
  | S f =>
      match c with
      | Ser l => [IOpenS] ++ flat_map (node_items f reg) l ++ [ICloseS]
      | Par l => [IOpenP] ++ flat_map (node_items f reg) l ++ [ICloseP]
      end
  end.

Definition text (its : list item) : str := concat (map item_text its).

Lemma text_app a b : text (a ++ b) = text a ++ text b.
Proof. unfold text. rewrite map_app, concat_app. reflexivity. Qed.

Lemma text_flat_map {A} (g : A -> list item) (h : A -> str) (l : list A) :
  (forall x, text (g x) = h x) -> text (flat_map g l) = flat_map h l.
Proof. intro H. induction l as [|x l IH]; simpl; auto. rewrite text_app, H, IH. reflexivity. Qed.

Lemma items_text fuel reg :
  (forall n, text (node_items fuel reg n) = node_string fuel reg None n) /\
  (forall c, text (conn_items fuel reg c) = conn_string fuel reg None c).
Proof.
  induction fuel as [|f [IHn IHc]]; [split; intros; reflexivity|]. split.
  - intros [ci st subs|c]; simpl.
    + destruct (nth_error reg ci); [unfold text; simpl; apply app_nil_r|reflexivity].
    + apply IHc.
  - intros [l|l]; cbn [conn_items conn_string]; rewrite !text_app, (text_flat_map _ _ l IHn); reflexivity.
Qed.

Lemma items_ok fuel reg :
  (forall r, In r reg -> valid_symbol (r_sym r) = true) ->
  (forall n, Forall item_ok (node_items fuel reg n)) /\ (forall c, Forall item_ok (conn_items fuel reg c)).
Proof.
  intro Hreg. induction fuel as [|f [IHn IHc]]; [split; intros; constructor|]. split.
  - intros [ci st subs|c]; simpl; [|apply IHc].
    destruct (nth_error reg ci) eqn:E; [|constructor]. constructor; [|constructor]. simpl. apply Hreg.
    eapply nth_error_In; eauto.
  - assert (Hfm : forall l, Forall item_ok (flat_map (node_items f reg) l)).
    { induction l as [|x l IH]; simpl; [constructor|]. apply Forall_app. split; auto. }
    intros [l|l]; cbn [conn_items]; repeat (apply Forall_app; split); auto; repeat constructor.
Qed.

Theorem basic_text_tokenizes reg :
  (forall r, In r reg -> valid_symbol (r_sym r) = true) ->
  forall fuel c, tokenize (to_string reg None c fuel) = Ok (map item_tok (conn_items fuel reg c)).
Proof.
  intros Hreg fuel c. unfold to_string. rewrite <- (proj2 (items_text fuel reg) c).
  apply items_tokenize_exactly. apply (proj2 (items_ok fuel reg Hreg)).
Qed.

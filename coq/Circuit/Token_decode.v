(* Circuit/Token_decode.v — unique decodability of element symbols, for EVERY symbol of the validated shape
   [A-Z][a-z0-9_]* (what _validate_element_symbol admits): the scanner splits any concatenation of such symbols into
   exactly those symbols, so no registered symbol — built-in or user-defined — can shadow another (L, La, Ls ...). *)
From Coq Require Import ZArith NArith QArith Bool List Lia ZifyBool ZifyN.
From PV Require Import Base.Num Base.Outcome Circuit.Tree Circuit.Token Circuit.Registry.
Import ListNotations.
Local Open Scope nat_scope.

Definition tailp (c : N) : bool := is_lower c || is_dig c || (c =? 95)%N.

Lemma upper_not_special c : is_upper c = true -> special c = None.
Proof.
  unfold is_upper, special. intro H.
  repeat match goal with |- context [(c =? ?k)%N] => destruct (N.eqb_spec c k); [exfalso; lia|] end. reflexivity.
Qed.
Lemma upper_is_letter c : is_upper c = true -> is_letter c = true.
Proof. unfold is_letter. intros ->. reflexivity. Qed.
Lemma upper_not_tail c : is_upper c = true -> tailp c = false.
Proof. unfold is_upper, tailp, is_lower, is_dig. lia. Qed.

Lemma take_while_spec p : forall fuel l1 l2 s,
  chars s = l1 ++ l2 -> forallb p l1 = true -> (match l2 with c :: _ => p c = false | [] => True end) ->
  length l1 < fuel \/ (length l1 <= fuel /\ l2 = []) ->
  take_while fuel p s = mkTS l2 (toks s) (value s ++ l1) (index s + length l1) (start s) (orig s).
Proof.
  induction fuel as [|f IH]; intros l1 l2 s Hc Hp Hl2 Hf.
  - destruct Hf as [Hf|[Hf ->]]; [lia|]. destruct l1; [|simpl in Hf; lia].
    simpl in *. rewrite app_nil_r, Nat.add_0_r. destruct s; simpl in *. subst. reflexivity.
  - simpl. destruct l1 as [|c l1].
    + simpl in Hc. rewrite Hc. rewrite app_nil_r, Nat.add_0_r.
      destruct l2 as [|c2 l2]; [destruct s; simpl in *; subst; reflexivity|].
      rewrite Hl2. destruct s; simpl in *; subst; reflexivity.
    + simpl in Hc, Hp. apply andb_prop in Hp as [Hpc Hp]. rewrite Hc, Hpc.
      rewrite (IH l1 l2 (take1 s)).
      * unfold take1. rewrite Hc. simpl. rewrite <- app_assoc. simpl. f_equal. lia.
      * unfold take1. rewrite Hc. reflexivity.
      * exact Hp.
      * exact Hl2.
      * simpl in Hf. destruct Hf as [Hf|[Hf ->]]; [left; lia|right; split; [lia|reflexivity]].
Qed.

Definition ident_tok (s : str) : tok := mkTok KIdent s (Fin 0%Q).
(* the previous token does not open a label (:) or a parameter list ({ ,), where other character sets apply *)
Definition plain_prev (ts : list tok) : Prop :=
  match ts with [] => True | t :: _ => match tk t with KColon | KLCur | KComma => False | _ => True end end.

Lemma concat_head_upper (syms : list str) :
  Forall (fun s => valid_symbol s = true) syms ->
  match concat syms with c :: _ => tailp c = false | [] => True end.
Proof.
  intros H. destruct H as [|s syms Hs _]; simpl; auto.
  destruct s as [|c r]; [discriminate|]. simpl in Hs. apply andb_prop in Hs as [Hu _]. simpl.
  apply upper_not_tail; exact Hu.
Qed.

Lemma slice_mid (pre mid post : str) : slice (pre ++ mid ++ post) (length pre) (length pre + length mid) = mid.
Proof.
  unfold slice. replace (length pre + length mid - length pre) with (length mid) by lia.
  rewrite skipn_app, skipn_all, Nat.sub_diag. simpl. rewrite firstn_app, firstn_all, Nat.sub_diag. simpl. apply app_nil_r.
Qed.

(* one pass of main_loop over one symbol *)
Lemma main_loop_symbol (pre sym rest : str) (ts : list tok) :
  valid_symbol sym = true -> plain_prev ts ->
  (match rest with c :: _ => tailp c = false | [] => True end) ->
  main_loop (mkTS (sym ++ rest) ts [] (length pre) (length pre) (pre ++ sym ++ rest))
  = Ok (mkTS rest (ident_tok sym :: ts) [] (length pre + length sym) (length pre + length sym) (pre ++ sym ++ rest)).
Proof.
  intros Hv Hprev Hrest. destruct sym as [|c r]; [discriminate|]. simpl in Hv. apply andb_prop in Hv as [Hu Ht].
  unfold main_loop. cbn [chars app]. rewrite (upper_not_special c Hu), (upper_is_letter c Hu).
  unfold identifier_or_label.
  cbv zeta. unfold take1; cbn [chars toks value index start orig app].
  assert (Hpk : match prev_kind (mkTS (r ++ rest) ts [c] (S (length pre)) (length pre) (pre ++ c :: r ++ rest)) with
                | Some KColon | Some KLCur | Some KComma => False | _ => True end).
  { unfold prev_kind. cbn [toks]. destruct ts as [|t ts']; auto. }
  change (fun c0 : N => is_lower c0 || is_dig c0 || (c0 =? 95)%N) with tailp.
  assert (Htw : take_while (length (r ++ rest)) tailp (mkTS (r ++ rest) ts [c] (S (length pre)) (length pre) (pre ++ c :: r ++ rest))
                = mkTS rest ts (c :: r) (S (length pre) + length r) (length pre) (pre ++ c :: r ++ rest)).
  { rewrite (take_while_spec tailp (length (r ++ rest)) r rest); cbn [chars toks value index start orig]; auto.
    rewrite app_length. destruct rest; [right; split; [simpl; lia|reflexivity]|left; simpl; lia]. }
  destruct (prev_kind _) as [[]|]; try contradiction; rewrite Htw; unfold push; cbn [chars toks value index start orig];
    replace (S (length pre) + length r) with (length pre + length (c :: r)) by (simpl; lia);
    change (pre ++ c :: r ++ rest) with (pre ++ (c :: r) ++ rest); rewrite slice_mid; reflexivity.
Qed.

Lemma scan_step fuel s : chars s <> [] -> scan (S fuel) s = bind (main_loop s) (fun s' => scan fuel s').
Proof. intro H. simpl. destruct (chars s); [congruence|reflexivity]. Qed.

Lemma scan_symbols : forall (syms : list str) (pre : str) (ts : list tok) (fuel : nat),
  Forall (fun s => valid_symbol s = true) syms -> plain_prev ts -> length syms < fuel ->
  scan fuel (mkTS (concat syms) ts [] (length pre) (length pre) (pre ++ concat syms))
  = Ok (rev ts ++ map ident_tok syms).
Proof.
  induction syms as [|sym syms IH]; intros pre ts fuel Hall Hprev Hfuel.
  - simpl. destruct fuel; simpl; rewrite app_nil_r; reflexivity.
  - inversion Hall as [|? ? Hv Hall']; subst.
    destruct fuel as [|f]; [lia|].
    assert (Hne : concat (sym :: syms) <> []).
    { simpl. destruct sym; [discriminate|]. discriminate. }
    rewrite scan_step by exact Hne.
    cbn [concat]. rewrite (main_loop_symbol pre sym (concat syms) ts Hv Hprev (concat_head_upper syms Hall')).
    cbn [bind]. 
    replace (pre ++ sym ++ concat syms) with ((pre ++ sym) ++ concat syms) by (rewrite app_assoc; reflexivity).
    rewrite <- app_length.
    rewrite (IH (pre ++ sym) (ident_tok sym :: ts) f Hall'); [|exact I|simpl in Hfuel; lia].
    simpl. rewrite <- app_assoc. reflexivity.
Qed.

Theorem symbols_tokenize_uniquely (syms : list str) :
  Forall (fun s => valid_symbol s = true) syms ->
  tokenize (concat syms) = Ok (map ident_tok syms).
Proof.
  intro H. unfold tokenize.
  change (mkTS (concat syms) [] [] 0 0 (concat syms)) with (mkTS (concat syms) [] [] (length (@nil N)) (length (@nil N)) ([] ++ concat syms)).
  rewrite scan_symbols; auto; simpl; auto.
  assert (length syms <= length (concat syms)); [|lia].
  induction H as [|s l Hs _ IH]; simpl; auto. rewrite app_length. destruct s; [discriminate|]. simpl. lia.
Qed.

(* ---- the basic syntax (to_string(-1)): brackets and symbols only ---------------------------------------- *)
Inductive item := IOpenS | ICloseS | IOpenP | ICloseP | ISym (s : str).

Definition item_text (i : item) : str :=
  match i with IOpenS => [91%N] | ICloseS => [93%N] | IOpenP => [40%N] | ICloseP => [41%N] | ISym s => s end.
Definition item_tok (i : item) : tok :=
  match i with
  | IOpenS => mkTok KLBr [91%N] (Fin 0%Q) | ICloseS => mkTok KRBr [93%N] (Fin 0%Q)
  | IOpenP => mkTok KLPar [40%N] (Fin 0%Q) | ICloseP => mkTok KRPar [41%N] (Fin 0%Q)
  | ISym s => ident_tok s
  end.
Definition item_ok (i : item) : Prop := match i with ISym s => valid_symbol s = true | _ => True end.

Lemma items_head (its : list item) :
  Forall item_ok its ->
  match concat (map item_text its) with c :: _ => tailp c = false | [] => True end.
Proof.
  intros H. destruct H as [|i its Hi _]; simpl; auto.
  destruct i; simpl; try reflexivity.
  destruct s as [|c r]; [discriminate|]. simpl in Hi. apply andb_prop in Hi as [Hu _]. simpl.
  apply upper_not_tail; exact Hu.
Qed.

Lemma main_loop_bracket (pre rest : str) (ts : list tok) (i : item) :
  (match i with ISym _ => False | _ => True end) ->
  main_loop (mkTS (item_text i ++ rest) ts [] (length pre) (length pre) (pre ++ item_text i ++ rest))
  = Ok (mkTS rest (item_tok i :: ts) [] (length pre + 1) (length pre + 1) (pre ++ item_text i ++ rest)).
Proof.
  intro Hi. destruct i; try contradiction; unfold main_loop; cbn [item_text chars app special N.eqb Pos.eqb];
  unfold take1, push; cbn [chars toks value index start orig item_tok];
  replace (S (length pre)) with (length pre + 1) by lia;
  match goal with |- context [slice (pre ++ ?c :: rest) _ _] =>
    change (pre ++ c :: rest) with (pre ++ [c] ++ rest); change 1 with (length [c]) at 1; rewrite slice_mid end;
  reflexivity.
Qed.

Lemma main_loop_item (pre rest : str) (ts : list tok) (i : item) :
  item_ok i -> plain_prev ts -> (match rest with c :: _ => tailp c = false | [] => True end) ->
  main_loop (mkTS (item_text i ++ rest) ts [] (length pre) (length pre) (pre ++ item_text i ++ rest))
  = Ok (mkTS rest (item_tok i :: ts) [] (length pre + length (item_text i)) (length pre + length (item_text i)) (pre ++ item_text i ++ rest)).
Proof.
  intros Hi Hp Hr. destruct i; try (apply (main_loop_bracket pre rest ts); exact I).
  apply main_loop_symbol; assumption.
Qed.

Lemma plain_prev_item i ts : plain_prev (item_tok i :: ts).
Proof. destruct i; exact I. Qed.

Lemma item_text_nonempty i : item_ok i -> item_text i <> [].
Proof. destruct i; simpl; try discriminate. destruct s; discriminate. Qed.

Lemma scan_items : forall (its : list item) (pre : str) (ts : list tok) (fuel : nat),
  Forall item_ok its -> plain_prev ts -> length its < fuel ->
  scan fuel (mkTS (concat (map item_text its)) ts [] (length pre) (length pre) (pre ++ concat (map item_text its)))
  = Ok (rev ts ++ map item_tok its).
Proof.
  induction its as [|i its IH]; intros pre ts fuel Hall Hprev Hfuel.
  - simpl. destruct fuel; simpl; rewrite app_nil_r; reflexivity.
  - inversion Hall as [|? ? Hv Hall']; subst.
    destruct fuel as [|f]; [lia|].
    assert (Hne : chars (mkTS (concat (map item_text (i :: its))) ts [] (length pre) (length pre)
                          (pre ++ concat (map item_text (i :: its)))) <> []).
    { cbn [chars map concat]. pose proof (item_text_nonempty i Hv). destruct (item_text i); [congruence|discriminate]. }
    rewrite scan_step by exact Hne.
    cbn [map concat]. rewrite (main_loop_item pre (concat (map item_text its)) ts i Hv Hprev (items_head its Hall')).
    cbn [bind].
    replace (pre ++ item_text i ++ concat (map item_text its)) with ((pre ++ item_text i) ++ concat (map item_text its))
      by (rewrite app_assoc; reflexivity).
    rewrite <- app_length.
    rewrite (IH (pre ++ item_text i) (item_tok i :: ts) f Hall'); [|apply plain_prev_item|simpl in Hfuel; lia].
    simpl. rewrite <- app_assoc. reflexivity.
Qed.

Theorem items_tokenize_exactly (its : list item) :
  Forall item_ok its -> tokenize (concat (map item_text its)) = Ok (map item_tok its).
Proof.
  intro H. unfold tokenize.
  change (mkTS (concat (map item_text its)) [] [] 0 0 (concat (map item_text its)))
    with (mkTS (concat (map item_text its)) [] [] (length (@nil N)) (length (@nil N)) ([] ++ concat (map item_text its))).
  rewrite scan_items; auto; simpl; auto.
  assert (length its <= length (concat (map item_text its))); [|lia].
  induction H as [|i l Hi _ IH]; simpl; auto. rewrite app_length.
  pose proof (item_text_nonempty i Hi). destruct (item_text i); [congruence|]. simpl. lia.
Qed.

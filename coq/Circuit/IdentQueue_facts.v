(* Circuit/IdentQueue_facts.v — the work-list traversal of the code (IdentQueue.v) computes the recursive description [elems]
   (Ident.v): big-step semantics of the loop, its determinism, the level argument, termination, and soundness of the executable
   model. *)
From Coq Require Import ZArith Bool List Lia.
From PV Require Import Base.Outcome Circuit.Tree Circuit.Printer Circuit.Ident Circuit.Ident_facts Circuit.IdentQueue.
Import ListNotations.
Local Open Scope nat_scope.

(* ---- big-step semantics of the while loop, over the meaning [E] of the recursive call ------------------------------------ *)
Inductive Loop (E : iconn -> list ielt -> Prop) : list qitem -> list ielt -> list ielt -> Prop :=
  | L_nil acc : Loop E [] acc acc
  | L_conn c q acc r res : E c r -> Loop E (q ++ map QE r) acc res -> Loop E (QC c :: q) acc res
  | L_elem e q acc res : Loop E (q ++ map QC (subs_of e)) (add acc e) res -> Loop E (QE e :: q) acc res.

(* _get_elements_recursive with at most [d] nested calls *)
Fixpoint QElems (d : nat) (c : iconn) (res : list ielt) : Prop :=
  match d with
  | O => False
  | S d' => Loop (QElems d') (map QE (items_conn d c)) [] res
  end.

Lemma Loop_det (E : iconn -> list ielt -> Prop) : (forall c r1 r2, E c r1 -> E c r2 -> r1 = r2) ->
  forall q acc r1, Loop E q acc r1 -> forall r2, Loop E q acc r2 -> r1 = r2.
Proof.
  intros HE q acc r1 H1. induction H1 as [acc|c q acc r res Hc _ IH|e q acc res _ IH]; intros r2 H2; inversion H2; subst; auto.
  match goal with H : E c ?r' |- _ => rewrite (HE c r' r H Hc) in * end. auto.
Qed.

Lemma QElems_det : forall d c r1 r2, QElems d c r1 -> QElems d c r2 -> r1 = r2.
Proof.
  induction d as [|d IH]; intros c r1 r2 H1 H2; [contradiction|].
  cbn [QElems] in *. eapply Loop_det; eauto.
Qed.

(* the executable model only returns what the semantics allows *)
Lemma qloop_sound rec (E : iconn -> list ielt -> Prop) : (forall c r, rec c = Some r -> E c r) ->
  forall k q acc res, qloop rec k q acc = Some res -> Loop E q acc res.
Proof.
  intros Hrec. induction k as [|k IH]; intros q acc res H.
  - destruct q; simpl in H; [inversion H; constructor|discriminate].
  - destruct q as [|[e|c] q]; cbn [qloop] in H.
    + inversion H. constructor.
    + apply L_elem. apply IH. exact H.
    + destruct (rec c) as [r|] eqn:Er; [|discriminate]. eapply L_conn; [apply Hrec; exact Er|]. apply IH. exact H.
Qed.

Lemma qelems_sound : forall d K c res, qelems d K c = Some res -> QElems d c res.
Proof.
  induction d as [|d IH]; intros K c res H; [discriminate|].
  cbn [qelems QElems] in *. eapply qloop_sound; [|exact H]. intros c' r Hr. eapply IH. exact Hr.
Qed.

(* ---- levels --------------------------------------------------------------------------------------------------------------- *)
Definition addall (acc l : list ielt) : list ielt := fold_left add l acc.

(* a run of elements at the head of the list: they are listed, their sub-circuits go to the end *)
Lemma Loop_elems (E : iconn -> list ielt -> Prop) : forall l q acc res,
  Loop E (q ++ map QC (flat_map subs_of l)) (addall acc l) res -> Loop E (map QE l ++ q) acc res.
Proof.
  induction l as [|e l IH]; intros q acc res H; cbn [map app flat_map addall fold_left] in *.
  - rewrite app_nil_r in H. exact H.
  - apply L_elem. rewrite <- app_assoc. apply IH. rewrite <- app_assoc, <- map_app. exact H.
Qed.

(* a run of connections at the head of the list: the elements of each go to the end *)
Lemma Loop_conns (E : iconn -> list ielt -> Prop) (G : iconn -> list ielt) : forall cs q acc res,
  (forall c, In c cs -> E c (G c)) ->
  Loop E (q ++ map QE (flat_map G cs)) acc res -> Loop E (map QC cs ++ q) acc res.
Proof.
  induction cs as [|c cs IH]; intros q acc res HG H; cbn [map app flat_map] in *.
  - rewrite app_nil_r in H. exact H.
  - eapply L_conn; [apply HG; left; reflexivity|]. rewrite <- app_assoc. apply IH; [intros; apply HG; right; assumption|].
    rewrite <- app_assoc, <- map_app. exact H.
Qed.

Definition next (G : iconn -> list ielt) (l : list ielt) : list ielt := flat_map G (flat_map subs_of l).

Fixpoint levels (G : iconn -> list ielt) (n : nat) (l acc : list ielt) : list ielt :=
  match n with O => acc | S n' => levels G n' (next G l) (addall acc l) end.
Fixpoint nth_level (G : iconn -> list ielt) (n : nat) (l : list ielt) : list ielt :=
  match n with O => l | S n' => nth_level G n' (next G l) end.

Lemma Loop_levels (E : iconn -> list ielt -> Prop) G : forall n l acc,
  (forall k, k < n -> forall c, In c (flat_map subs_of (nth_level G k l)) -> E c (G c)) ->
  nth_level G n l = [] ->
  Loop E (map QE l) acc (levels G n l acc).
Proof.
  induction n as [|n IH]; intros l acc HG Hn; cbn [levels nth_level] in *.
  - subst l. constructor.
  - rewrite <- (app_nil_r (map QE l)). apply Loop_elems. cbn [app].
    rewrite <- (app_nil_r (map QC _)). apply (Loop_conns E G).
    + intros c Hc. apply (HG 0); [lia|exact Hc].
    + cbn [app]. apply IH; [|exact Hn]. intros k Hk c Hc. apply (HG (S k)); [lia|exact Hc].
Qed.

(* ---- listing = removing duplicates ---------------------------------------------------------------------------------------- *)
Lemma existsb_set (f : nat -> bool) a b : (forall u, In u a <-> In u b) -> existsb f a = existsb f b.
Proof.
  intro H. destruct (existsb f a) eqn:Ea; symmetry.
  - apply existsb_exists in Ea. destruct Ea as (x & Hx & Hf). apply existsb_exists. exists x. split; [apply H; exact Hx|exact Hf].
  - destruct (existsb f b) eqn:Eb; [|reflexivity]. apply existsb_exists in Eb. destruct Eb as (x & Hx & Hf).
    assert (existsb f a = true) by (apply existsb_exists; exists x; split; [apply H; exact Hx|exact Hf]). congruence.
Qed.

Lemma addall_dedup : forall l acc seen, (forall u, In u seen <-> In u (map ie_uid acc)) -> addall acc l = acc ++ dedup seen l.
Proof.
  induction l as [|e l IH]; intros acc seen Hs; cbn [addall fold_left dedup].
  - rewrite app_nil_r. reflexivity.
  - unfold add at 2. unfold listed. rewrite <- (existsb_set _ seen (map ie_uid acc) Hs).
    destruct (existsb (Nat.eqb (ie_uid e)) seen) eqn:Ex.
    + apply (IH acc seen Hs).
    + change (fold_left add l (acc ++ [e])) with (addall (acc ++ [e]) l). rewrite (IH (acc ++ [e]) (ie_uid e :: seen)).
      * rewrite <- app_assoc. reflexivity.
      * intro u. rewrite map_app, in_app_iff. simpl. rewrite Hs. tauto.
Qed.

Lemma addall_app acc a b : addall acc (a ++ b) = addall (addall acc a) b.
Proof. unfold addall. apply fold_left_app. Qed.

(* elements that are all listed already change nothing *)
Lemma addall_listed : forall l acc, (forall e, In e l -> In (ie_uid e) (map ie_uid acc)) -> addall acc l = acc.
Proof.
  induction l as [|e l IH]; intros acc H; cbn [addall fold_left]; [reflexivity|].
  assert (Ha : add acc e = acc).
  { unfold add, listed. assert (Hx : existsb (Nat.eqb (ie_uid e)) (map ie_uid acc) = true).
    { apply existsb_exists. exists (ie_uid e). split; [apply H; left; reflexivity|apply Nat.eqb_refl]. }
    rewrite Hx. reflexivity. }
  rewrite Ha. apply IH. intros x Hx. apply H. right. exact Hx.
Qed.

Lemma addall_keeps : forall l acc u, In u (map ie_uid acc) -> In u (map ie_uid (addall acc l)).
Proof.
  induction l as [|e l IH]; intros acc u H; cbn [addall fold_left]; [exact H|]. apply IH. unfold add. destruct (listed acc e); [exact H|].
  rewrite map_app, in_app_iff. left. exact H.
Qed.

Lemma addall_lists : forall l acc e, In e l -> In (ie_uid e) (map ie_uid (addall acc l)).
Proof.
  induction l as [|x l IH]; intros acc e H; [contradiction|]. cbn [addall fold_left]. destruct H as [H|H].
  - subst x. apply addall_keeps. unfold add. destruct (listed acc e) eqn:El.
    + unfold listed in El. apply existsb_exists in El. destruct El as (u & Hu & He). apply Nat.eqb_eq in He. subst u. exact Hu.
    + rewrite map_app, in_app_iff. right. left. reflexivity.
  - apply IH. exact H.
Qed.

(* ---- the sub-circuits met later lie inside the ones met earlier ----------------------------------------------------------- *)
Lemma subs_of_in e s : In s (subs_of e) <-> In (Some s) (ie_subs e).
Proof.
  unfold subs_of. rewrite in_flat_map. split.
  - intros ([x|] & Hx & Hs); [|contradiction]. destruct Hs as [Hs|[]]. subst x. exact Hx.
  - intro H. exists (Some s). split; [exact H|left; reflexivity].
Qed.

Lemma elems_uids f c : depth_conn c <= f -> forall u, In u (map ie_uid (elems f c)) <-> In u (uids_conn' c).
Proof.
  intros Hd u. rewrite <- (proj2 uids_fuel c f Hd). split; [apply traversal_sound; exact Hd|apply traversal_complete; exact Hd].
Qed.

Lemma closure : forall f s, depth_conn s <= f -> forall e', In e' (elems f s) -> forall s', In (Some s') (ie_subs e') ->
  depth_conn s' < depth_conn s /\ incl (uids_conn' s') (uids_conn' s).
Proof.
  induction f as [|f IH]; intros s Hd e' He' s' Hs'.
  - destruct s; simpl in Hd; lia.
  - cbn [elems] in He'. rewrite (proj2 items_fuel s (S f) Hd) in He'.
    destruct (dedup_spec (items_conn' s ++ flat_map (fun e => flat_map (fun os => match os with Some s => elems f s | None => [] end) (ie_subs e)) (items_conn' s)) []) as (_ & _ & Hsub).
    specialize (Hsub e' He'). apply in_app_or in Hsub.
    assert (Hdirect : forall s0 e0 s1, In e0 (items_conn' s0) -> In (Some s1) (ie_subs e0) -> incl (uids_conn' s1) (uids_conn' s0)).
    { intros s0 e0 s1 H0 H1 u Hu. rewrite (proj2 uids_structure s0). apply in_flat_map. exists e0. split; [exact H0|]. right.
      apply in_flat_map. exists (Some s1). split; [exact H1|exact Hu]. }
    destruct Hsub as [Hsub|Hsub].
    + split; [apply (proj2 sub_depth s e' s' Hsub Hs')|apply (Hdirect s e' s' Hsub Hs')].
    + apply in_flat_map in Hsub. destruct Hsub as (e & He & Hsub). apply in_flat_map in Hsub. destruct Hsub as ([s''|] & Hs'' & Hin); [|contradiction].
      pose proof (proj2 sub_depth s e s'' He Hs'') as Hlt. assert (Hds : depth_conn s'' <= f) by lia.
      destruct (IH s'' Hds e' Hin s' Hs') as [H1 H2]. split; [lia|].
      intros u Hu. apply (Hdirect s e s'' He Hs''). apply H2. exact Hu.
Qed.

(* the connections met at level k+1 are strictly shallower than the deepest one met at level k *)
Lemma level_depths f : forall D cs,
  (forall s, In s cs -> depth_conn s <= D /\ depth_conn s <= f) ->
  forall s', In s' (flat_map subs_of (flat_map (elems f) cs)) -> depth_conn s' <= D - 1 /\ depth_conn s' <= f.
Proof.
  intros D cs H s' Hs'. apply in_flat_map in Hs'. destruct Hs' as (e' & He' & Hs'). apply in_flat_map in He'. destruct He' as (s & Hs & He').
  destruct (H s Hs) as [H1 H2]. apply subs_of_in in Hs'. destruct (closure f s H2 e' He' s' Hs') as [Hlt _]. lia.
Qed.

Lemma depth_conn_pos c : 1 <= depth_conn c.
Proof. destruct c; simpl; lia. Qed.

Lemma levels_end f : forall D cs,
  (forall s, In s cs -> depth_conn s <= D /\ depth_conn s <= f) -> nth_level (elems f) D (flat_map (elems f) cs) = [].
Proof.
  induction D as [|D IH]; intros cs H.
  - destruct cs as [|s cs]; [reflexivity|]. destruct (H s (or_introl eq_refl)) as [H1 _]. pose proof (depth_conn_pos s). lia.
  - cbn [nth_level]. unfold next. apply IH. intros s' Hs'. pose proof (level_depths f (S D) cs H s' Hs') as [H1 H2]. split; [lia|exact H2].
Qed.

(* later levels only repeat elements of the first level below the tree *)
Lemma level_uids f : forall cs, (forall s, In s cs -> depth_conn s <= f) ->
  forall x, In x (next (elems f) (flat_map (elems f) cs)) -> In (ie_uid x) (map ie_uid (flat_map (elems f) cs)).
Proof.
  intros cs H x Hx. unfold next in Hx. apply in_flat_map in Hx. destruct Hx as (s' & Hs' & Hx).
  apply in_flat_map in Hs'. destruct Hs' as (e' & He' & Hs'). apply in_flat_map in He'. destruct He' as (s & Hs & He').
  apply subs_of_in in Hs'. destruct (closure f s (H s Hs) e' He' s' Hs') as [Hlt Hincl].
  assert (Hd' : depth_conn s' <= f) by (specialize (H s Hs); lia).
  assert (Hu : In (ie_uid x) (uids_conn' s)).
  { apply Hincl. apply (elems_uids f s' Hd'). apply in_map. exact Hx. }
  apply (elems_uids f s (H s Hs)) in Hu. apply in_map_iff in Hu. destruct Hu as (y & Hy & Hin).
  apply in_map_iff. exists y. split; [exact Hy|]. apply in_flat_map. exists s. split; assumption.
Qed.

Lemma levels_stable f : forall n cs acc, (forall s, In s cs -> depth_conn s <= f) ->
  (forall e, In e (flat_map (elems f) cs) -> In (ie_uid e) (map ie_uid acc)) ->
  levels (elems f) n (flat_map (elems f) cs) acc = acc.
Proof.
  induction n as [|n IH]; intros cs acc Hd Hacc; cbn [levels]; [reflexivity|].
  rewrite (addall_listed _ acc Hacc). unfold next. apply IH.
  - intros s' Hs'. apply in_flat_map in Hs'. destruct Hs' as (e' & He' & Hs'). apply in_flat_map in He'. destruct He' as (s & Hs & He').
    apply subs_of_in in Hs'. destruct (closure f s (Hd s Hs) e' He' s' Hs') as [Hlt _]. specialize (Hd s Hs). lia.
  - intros e He. pose proof (level_uids f cs Hd e He) as Hu. apply in_map_iff in Hu. destruct Hu as (y & Hy & Hin). rewrite <- Hy. apply Hacc. exact Hin.
Qed.

Lemma flat_map_subs (G : iconn -> list ielt) l :
  flat_map G (flat_map subs_of l) = flat_map (fun e => flat_map (fun os : option iconn => match os with Some s => G s | None => [] end) (ie_subs e)) l.
Proof.
  rewrite flat_map_flat_map. apply flat_map_ext_in. intros e _. unfold subs_of. rewrite flat_map_flat_map. apply flat_map_ext_in.
  intros [s|] _; simpl; [apply app_nil_r|reflexivity].
Qed.

(* ---- the theorem ----------------------------------------------------------------------------------------------------------- *)
Theorem queue_computes_elems : forall d c, depth_conn c <= d -> QElems d c (elems d c).
Proof.
  induction d as [|d IH]; intros c Hd.
  - destruct c; simpl in Hd; lia.
  - cbn [QElems]. rewrite (proj2 items_fuel c (S d) Hd).
    set (l0 := items_conn' c). set (cs := flat_map subs_of l0).
    assert (Hcs : forall s, In s cs -> depth_conn s <= depth_conn c - 1 /\ depth_conn s <= d).
    { intros s Hs. unfold cs in Hs. apply in_flat_map in Hs. destruct Hs as (e & He & Hs). apply subs_of_in in Hs.
      pose proof (proj2 sub_depth c e s He Hs). lia. }
    assert (Hres : elems (S d) c = levels (elems d) (S (depth_conn c - 1)) l0 []).
    { cbn [levels elems]. rewrite (proj2 items_fuel c (S d) Hd). fold l0. unfold next. fold cs.
      destruct (depth_conn c - 1) as [|n] eqn:En.
      - (* no container has a sub-circuit *)
        assert (cs = []) as Ecs. { destruct cs as [|s r]; [reflexivity|]. destruct (Hcs s (or_introl eq_refl)) as [H1 _]. pose proof (depth_conn_pos s). lia. }
        cbn [levels]. rewrite <- flat_map_subs. fold cs. rewrite Ecs. cbn [flat_map]. rewrite app_nil_r.
        rewrite (addall_dedup l0 [] []); [reflexivity|intro u; simpl; tauto].
      - cbn [levels]. unfold next. rewrite levels_stable.
        + rewrite <- addall_app. rewrite (addall_dedup (l0 ++ flat_map (elems d) cs) [] []); [|intro u; simpl; tauto].
          cbn [app]. unfold cs. rewrite flat_map_subs. reflexivity.
        + intros s' Hs'. apply in_flat_map in Hs'. destruct Hs' as (e' & He' & Hs'). apply in_flat_map in He'. destruct He' as (s & Hs & He').
          apply subs_of_in in Hs'. destruct (Hcs s Hs) as [_ H2]. destruct (closure d s H2 e' He' s' Hs') as [Hlt _]. lia.
        + intros e He. pose proof (level_uids d cs (fun s Hs => proj2 (Hcs s Hs)) e He) as Hu.
          apply in_map_iff in Hu. destruct Hu as (y & Hy & Hin). rewrite <- Hy. apply addall_lists. exact Hin. }
    rewrite Hres. apply Loop_levels.
    + (* every connection popped at any level is shallow enough for the induction hypothesis *)
      intros k Hk s Hs. apply IH.
      assert (Hall : forall k, forall s, In s (flat_map subs_of (nth_level (elems d) k l0)) -> depth_conn s <= d).
      { clear - Hcs. intro k. induction k as [|k IHk].
        - intros s Hs. apply (Hcs s Hs).
        - intros s Hs. cbn [nth_level] in Hs. revert s Hs. generalize dependent l0. intros l0 cs Hcs IHk.
          (* levels below the first are elems of the connections of the level before *)
          assert (G : forall k l, (forall s, In s (flat_map subs_of l) -> depth_conn s <= d) ->
                      forall s, In s (flat_map subs_of (nth_level (elems d) k l)) -> depth_conn s <= d).
          { clear. induction k as [|k IH]; intros l H s Hs; [apply H; exact Hs|].
            cbn [nth_level] in Hs. apply (IH (next (elems d) l)); [|exact Hs].
            intros s' Hs'. unfold next in Hs'. apply in_flat_map in Hs'. destruct Hs' as (e' & He' & Hs'). apply in_flat_map in He'. destruct He' as (s0 & Hs0 & He').
            apply subs_of_in in Hs'. destruct (closure d s0 (H s0 Hs0) e' He' s' Hs') as [Hlt _]. specialize (H s0 Hs0). lia. }
          intros s Hs. apply (G k (next (elems d) l0)); [|exact Hs].
          intros s' Hs'. unfold next in Hs'. apply in_flat_map in Hs'. destruct Hs' as (e' & He' & Hs'). apply in_flat_map in He'. destruct He' as (s0 & Hs0 & He').
          apply subs_of_in in Hs'. destruct (Hcs s0 Hs0) as [_ H2]. destruct (closure d s0 H2 e' He' s' Hs') as [Hlt _]. lia. }
      apply (Hall k s Hs).
    + cbn [nth_level]. unfold next. fold cs. apply levels_end. intros s Hs. destruct (Hcs s Hs). split; lia.
Qed.

(* whatever the work-list traversal returns is the recursive description *)
Corollary queue_result_unique d c res : depth_conn c <= d -> QElems d c res -> res = elems d c.
Proof. intros Hd H. apply (QElems_det d c); [exact H|apply queue_computes_elems; exact Hd]. Qed.

Corollary qelems_is_elems d K c res : depth_conn c <= d -> qelems d K c = Some res -> res = elems d c.
Proof. intros Hd H. apply queue_result_unique; [exact Hd|]. eapply qelems_sound. exact H. Qed.

(* ---- the executable model returns, for every sufficiently large iteration bound ------------------------------------------- *)
Lemma Loop_runs (recK : nat -> iconn -> option (list ielt)) (E : iconn -> list ielt -> Prop) :
  (forall c r, E c r -> exists k1, forall K, k1 <= K -> recK K c = Some r) ->
  forall q acc res, Loop E q acc res -> exists k0, forall K k, k0 <= K -> k0 <= k -> qloop (recK K) k q acc = Some res.
Proof.
  intros HE q acc res H. induction H as [acc|c q acc r res Hc _ IH|e q acc res _ IH].
  - exists 0. intros K k _ _. destruct k; reflexivity.
  - destruct (HE c r Hc) as (k1 & Hk1). destruct IH as (k2 & Hk2). exists (S (Nat.max k1 k2)). intros K k HK Hk.
    destruct k as [|k]; [lia|]. cbn [qloop]. rewrite (Hk1 K) by lia. apply Hk2; lia.
  - destruct IH as (k2 & Hk2). exists (S k2). intros K k HK Hk. destruct k as [|k]; [lia|]. cbn [qloop]. apply Hk2; lia.
Qed.

Lemma QElems_runs : forall d c res, QElems d c res -> exists k0, forall K, k0 <= K -> qelems d K c = Some res.
Proof.
  induction d as [|d IH]; intros c res H; [contradiction|]. cbn [QElems] in H.
  destruct (Loop_runs (qelems d) (QElems d) (IH) _ _ _ H) as (k0 & Hk0).
  exists k0. intros K HK. cbn [qelems]. apply Hk0; exact HK.
Qed.

Theorem qelems_terminates_with_elems d c : depth_conn c <= d ->
  exists k0, forall K, k0 <= K -> qelems d K c = Some (elems d c).
Proof. intro Hd. apply QElems_runs. apply queue_computes_elems. exact Hd. Qed.

(* non-vacuity: a container inside a sub-circuit of a container (nesting depth 8); the inner container's sub-circuit is expanded more
   than once by the work list (by the recursive call that reaches it and again from the loops above it), and listed once; with too
   small an iteration bound the model reports that, never a shortened list *)
Example queue_example :
  let r u := IE u [82%N] [] [[82%N]] [] in
  let inner := IE 5 [84%N] [] [] [Some (ISer [r 6; r 7])] in
  let outer := IE 2 [84%N] [] [] [Some (IPar [r 3; IC (ISer [inner; r 4])]); None] in
  let c := ISer [r 1; outer; IC (IPar [r 8; r 1])] in
  depth_conn c = 8 /\ option_map (map ie_uid) (qelems 8 60 c) = Some [1; 2; 8; 3; 5; 4; 6; 7] /\ map ie_uid (elems 8 c) = [1; 2; 8; 3; 5; 4; 6; 7]
  /\ qelems 8 10 c = None.
Proof. vm_compute. repeat split. Qed.

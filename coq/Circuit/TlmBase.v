(* Circuit/TlmBase.v — the state of one sub-circuit of the general transmission-line model, as both evaluation routes see it *)
From Coq Require Import Reals ZArith.
From Coquelicot Require Import Coquelicot.
From PV Require Import Cx.CFun.

Inductive sub := SOpen | SShort | SVal (z : C).
Definition is_open (s : sub) : bool := match s with SOpen => true | _ => false end.
Definition is_short (s : sub) : bool := match s with SShort => true | _ => false end.
(* .impedances / .expr: the value, 0 for a short; an open sub-circuit's value (inf / oo) is never used in a formula *)
Definition sub_val (s : sub) : C := match s with SVal z => z | _ => cz 0 end.

(* Circuit/Imp_facts.v — the vector-level implementation of the series/parallel rule computes the pointwise law. *)
From Coq Require Import ZArith Bool List Lia.
From PV Require Import Base.Outcome Circuit.Imp.
Import ListNotations.

Section ctree_ind2.
Variable P : ctree -> Prop.
Hypothesis Hleaf : forall id, P (Leaf id).
Hypothesis Hser : forall l, Forall P l -> P (CSer l).
Hypothesis Hpar : forall l, Forall P l -> P (CPar l).
Fixpoint ctree_ind2 (t : ctree) : P t :=
  match t with
  | Leaf id => Hleaf id
  | CSer l => Hser l ((fix go (l : list ctree) : Forall P l :=
                         match l with [] => Forall_nil _ | c :: r => Forall_cons _ (ctree_ind2 c) (go r) end) l)
  | CPar l => Hpar l ((fix go (l : list ctree) : Forall P l :=
                         match l with [] => Forall_nil _ | c :: r => Forall_cons _ (ctree_ind2 c) (go r) end) l)
  end.
End ctree_ind2.

Section Facts.
Variable K : Type.
Variable k0 : K.
Variable kadd : K -> K -> K.
Variable kinv : K -> K.
Variable kis0 : K -> bool.

Notation E := (ez K).
Notation ez_add := (ez_add K kadd).
Notation ez_inv := (ez_inv K k0 kinv kis0).
Notation ez_is_zero := (ez_is_zero K kis0).
Notation ez_is_inf := (ez_is_inf K).
Notation spec := (spec K k0 kadd kinv kis0).
Notation zeros := (zeros K k0).
Notation vadd := (vadd K kadd).
Notation count := (count K).

Variable leafv : nat -> list E.
Variable n : nat.
Hypothesis leaf_len : forall id, length (leafv id) = n.

Notation impl := (impl K k0 kadd kinv kis0 leafv n).
Notation ser_loop := (ser_loop K kadd).
Notation par_loop := (par_loop K k0 kadd kinv kis0 n).

Definition leaf_at (i : nat) : nat -> E := fun id => nth i (leafv id) Inf.
Definition specv (t : ctree) : list E := map (fun i => spec t (leaf_at i)) (seq 0 n).

(* ---- unfolding the local fixpoints ---------------------------------------------------------------- *)
Lemma impl_ser l : impl (CSer l) = ser_loop impl l (zeros n).
Proof.
  simpl. generalize (zeros n). induction l as [|c r IH]; intro acc; simpl; auto.
  destruct (impl c); simpl; auto.
Qed.

Definition pl_fix (total : nat) :=
  fix pl (children : list ctree) (shorted : list bool) (paths : list (list E)) (num_open : nat) {struct children} : outcome (list E) :=
    match children with
    | [] =>
        if forallb (fun b => b) shorted then Ok (zeros n)
        else if Nat.eqb num_open total then Ok (repeat Inf n)
        else Ok (par_result K k0 kadd kinv kis0 n shorted (rev paths))
    | c0 :: rest =>
        let* Z := impl c0 in
        let ninf := count ez_is_inf Z in
        if Nat.eqb ninf n then pl rest shorted paths (S num_open)
        else if Nat.ltb 0 ninf then Err EInfiniteImpedance
        else
          let nzero := count ez_is_zero Z in
          if Nat.eqb nzero n then Ok (zeros n)
          else
            let shorted' := if Nat.ltb 0 nzero then map (fun bz : bool * E => fst bz || ez_is_zero (snd bz)) (combine shorted Z) else shorted in
            if Nat.ltb 0 nzero && forallb (fun b => b) shorted' then Ok (zeros n)
            else pl rest shorted' (Z :: paths) num_open
    end.

Lemma pl_fix_eq total : forall ch sh paths no, pl_fix total ch sh paths no = par_loop impl ch total sh paths no.
Proof.
  induction ch as [|c0 r IH]; intros sh paths no; [reflexivity|].
  simpl. destruct (impl c0) as [Z| |]; simpl; auto.
  destruct (Nat.eqb (count ez_is_inf Z) n); [apply IH|].
  destruct (Nat.ltb 0 (count ez_is_inf Z)); auto.
  destruct (Nat.eqb (count ez_is_zero Z) n); auto.
  destruct (Nat.ltb 0 (count ez_is_zero Z) && forallb (fun b => b) _); auto.
Qed.

Lemma impl_par c l : impl (CPar (c :: l)) = par_loop impl (c :: l) (length (c :: l)) (repeat false n) [] 0.
Proof. rewrite <- pl_fix_eq. reflexivity. Qed.

(* ---- vectors ------------------------------------------------------------------------------------------ *)
Definition vec_is (v : list E) (g : nat -> E) : Prop := length v = n /\ forall i, i < n -> nth i v Inf = g i.

Lemma vec_is_eq v g : vec_is v g -> v = map g (seq 0 n).
Proof.
  intros [Hl Hn]. apply (nth_ext _ _ Inf Inf).
  - rewrite map_length, seq_length. auto.
  - intros i Hi. rewrite Hl in Hi. rewrite Hn by auto.
    rewrite (nth_indep _ Inf (g 0)) by (rewrite map_length, seq_length; auto).
    rewrite (map_nth g (seq 0 n) 0 i), seq_nth by auto. auto.
Qed.

Lemma specv_is t : vec_is (specv t) (fun i => spec t (leaf_at i)).
Proof.
  unfold specv. split; [rewrite map_length, seq_length; auto|].
  intros i Hi. rewrite (nth_indep _ Inf (spec t (leaf_at 0))) by (rewrite map_length, seq_length; auto).
  rewrite (map_nth (fun i0 => spec t (leaf_at i0)) (seq 0 n) 0 i), seq_nth by auto. auto.
Qed.

Lemma zeros_is : vec_is (zeros n) (fun _ => Zf k0).
Proof.
  unfold zeros. split; [apply repeat_length|]. intros i Hi.
  rewrite (nth_indep _ Inf (Zf k0)) by (rewrite repeat_length; auto). apply nth_repeat.
Qed.

Lemma vadd_is a b ga gb : vec_is a ga -> vec_is b gb -> vec_is (vadd a b) (fun i => ez_add (ga i) (gb i)).
Proof.
  intros [La Ha] [Lb Hb]. unfold vadd. split.
  - rewrite map_length, combine_length. lia.
  - intros i Hi.
    rewrite (nth_indep _ Inf (ez_add Inf Inf)) by (rewrite map_length, combine_length; lia).
    change (ez_add Inf Inf) with ((fun xy : E * E => ez_add (fst xy) (snd xy)) (Inf, Inf)).
    rewrite map_nth, combine_nth by lia. simpl. rewrite Ha, Hb by auto. auto.
Qed.

(* ---- series -------------------------------------------------------------------------------------------- *)
Lemma ser_loop_sound : forall l acc g v,
  (forall c, In c l -> forall z, impl c = Ok z -> vec_is z (fun i => spec c (leaf_at i))) ->
  vec_is acc g -> ser_loop impl l acc = Ok v ->
  vec_is v (fun i => fold_left (fun a c => ez_add a (spec c (leaf_at i))) l (g i)).
Proof.
  induction l as [|c r IH]; intros acc g v Hc Hacc H; simpl in *.
  - inversion H; subst. auto.
  - destruct (impl c) as [z| |] eqn:Ez; simpl in H; try discriminate.
    pose proof (Hc c (or_introl eq_refl) z Ez) as Hz.
    eapply (IH (vadd acc z) (fun i => ez_add (g i) (spec c (leaf_at i)))); eauto.
    apply vadd_is; auto.
Qed.

(* ---- counting ------------------------------------------------------------------------------------------ *)
Lemma filter_len_le {A} (p : A -> bool) l : length (filter p l) <= length l.
Proof. induction l; simpl; auto. destruct (p a); simpl; lia. Qed.

Lemma count_all (p : E -> bool) v : length v = n -> (Nat.eqb (count p v) n = true <-> forallb p v = true).
Proof.
  unfold count. intros Hl. rewrite Nat.eqb_eq. rewrite <- Hl. clear Hl. induction v as [|x r IH]; simpl; [tauto|].
  destruct (p x); simpl.
  - rewrite <- IH. lia.
  - split; [|discriminate]. intro H. pose proof (filter_len_le p r). lia.
Qed.

Lemma count_none (p : E -> bool) v : Nat.ltb 0 (count p v) = false <-> forallb (fun x => negb (p x)) v = true.
Proof.
  unfold count. rewrite Nat.ltb_ge. induction v as [|x r IH]; simpl; [split; auto|].
  destruct (p x); simpl; [split; [lia|discriminate]|auto].
Qed.

Lemma forallb_nth (p : E -> bool) v i : forallb p v = true -> i < length v -> p (nth i v Inf) = true.
Proof. rewrite forallb_forall. intros H Hi. apply H. apply nth_In. auto. Qed.

(* ---- parallel -------------------------------------------------------------------------------------------- *)
Definition val (c : ctree) (i : nat) : E := spec c (leaf_at i).
Definition all_inf (c : ctree) : bool := forallb ez_is_inf (specv c).
Definition inf_free (c : ctree) : bool := forallb (fun x => negb (ez_is_inf x)) (specv c).

(* the state of the loop after the children [P] have been processed *)
Record PInv (P : list ctree) (sh : list bool) (paths : list (list E)) (no : nat) : Prop := mkPInv {
  pi_len : length sh = n;
  pi_sh : forall i, i < n -> nth i sh false = existsb (fun c => ez_is_zero (val c i)) P;
  pi_paths : paths = rev (map specv (filter (fun c => negb (all_inf c)) P));
  pi_no : no = length (filter all_inf P);
  pi_class : forall c, In c P -> all_inf c = true \/ inf_free c = true }.

Lemma specv_nth c i : i < n -> nth i (specv c) Inf = val c i.
Proof. intro Hi. apply (proj2 (specv_is c)). auto. Qed.

Lemma specv_len c : length (specv c) = n.
Proof. apply (proj1 (specv_is c)). Qed.

Lemma all_inf_val c i : all_inf c = true -> i < n -> val c i = Inf.
Proof.
  unfold all_inf. intros H Hi. pose proof (forallb_nth _ _ i H) as Hn. rewrite specv_len in Hn.
  specialize (Hn Hi). rewrite specv_nth in Hn by auto. destruct (val c i); simpl in *; congruence.
Qed.

Lemma inf_free_val c i : inf_free c = true -> i < n -> ez_is_inf (val c i) = false.
Proof.
  unfold inf_free. intros H Hi. pose proof (forallb_nth _ _ i H) as Hn. rewrite specv_len in Hn.
  specialize (Hn Hi). rewrite specv_nth in Hn by auto. apply negb_true_iff in Hn. auto.
Qed.

(* the non-infinite values at index i are those of the children that are not open *)
Lemma fin_filter P i : i < n -> (forall c, In c P -> all_inf c = true \/ inf_free c = true) ->
  filter (fun v => negb (ez_is_inf v)) (map (fun c => val c i) P) =
  map (fun c => val c i) (filter (fun c => negb (all_inf c)) P).
Proof.
  intros Hi. induction P as [|c r IH]; intro Hc; simpl; auto.
  rewrite IH by (intros; apply Hc; simpl; auto).
  destruct (Hc c (or_introl eq_refl)) as [Ha|Hf].
  - rewrite Ha. simpl. rewrite (all_inf_val c i Ha Hi). simpl. auto.
  - assert (Hn : all_inf c = false).
    { destruct (all_inf c) eqn:E; auto. pose proof (all_inf_val c i E Hi) as H1. pose proof (inf_free_val c i Hf Hi) as H2.
      rewrite H1 in H2. discriminate. }
    rewrite Hn. simpl. rewrite (inf_free_val c i Hf Hi). simpl. auto.
Qed.

Lemma sums_nth : forall (paths : list (list E)) acc g i,
  i < n -> vec_is acc g -> (forall Z, In Z paths -> length Z = n) ->
  nth i (fold_left (fun a Z => vadd a (map ez_inv Z)) paths acc) Inf =
  fold_left (fun a v => ez_add a (ez_inv v)) (map (fun Z => nth i Z Inf) paths) (g i).
Proof.
  induction paths as [|Z r IH]; intros acc g i Hi Hacc Hlen; simpl.
  - apply (proj2 Hacc). auto.
  - rewrite (IH (vadd acc (map ez_inv Z)) (fun j => ez_add (g j) (ez_inv (nth j Z Inf)))); auto.
    + apply vadd_is; auto. split; [rewrite map_length; apply Hlen; simpl; auto|].
      intros j Hj. rewrite (nth_indep _ Inf (ez_inv Inf)) by (rewrite map_length, Hlen; simpl; auto).
      apply map_nth.
    + intros Z' HZ'. apply Hlen. simpl. auto.
Qed.

Lemma sums_len : forall (paths : list (list E)) acc,
  length acc = n -> (forall Z, In Z paths -> length Z = n) ->
  length (fold_left (fun a Z => vadd a (map ez_inv Z)) paths acc) = n.
Proof.
  induction paths as [|Z r IH]; intros acc Hacc Hlen; simpl; auto.
  apply IH; [|intros; apply Hlen; simpl; auto].
  unfold Imp.vadd. rewrite map_length, combine_length, map_length, Hacc, Hlen by (simpl; auto). lia.
Qed.

Lemma nth_map_d {A B} (f : A -> B) l d d' i : i < length l -> nth i (map f l) d' = f (nth i l d).
Proof. intro Hi. rewrite (nth_indep _ d' (f d)) by (rewrite map_length; auto). apply map_nth. Qed.

Lemma existsb_map_eq {A B} (p : B -> bool) (f : A -> B) l : existsb p (map f l) = existsb (fun x => p (f x)) l.
Proof. induction l; simpl; auto. rewrite IHl. auto. Qed.

Definition spec_par (l : list ctree) (i : nat) : E := spec (CPar l) (leaf_at i).

Lemma spec_par_zero l i : existsb (fun c => ez_is_zero (val c i)) l = true -> spec_par l i = Zf k0.
Proof.
  unfold spec_par. destruct l as [|c r]; [discriminate|]. intro H.
  change (spec (CPar (c :: r)) (leaf_at i)) with
    (let vals := map (fun c0 => val c0 i) (c :: r) in
     if existsb ez_is_zero vals then Zf k0
     else match filter (fun v => negb (ez_is_inf v)) vals with
          | [] => Inf
          | _ => ez_inv (fold_left (fun acc v => ez_add acc (ez_inv v)) (filter (fun v => negb (ez_is_inf v)) vals) (Zf k0))
          end).
  cbv zeta. rewrite existsb_map_eq. rewrite H. auto.
Qed.

Lemma spec_par_nonzero l i : l <> [] -> i < n ->
  existsb (fun c => ez_is_zero (val c i)) l = false ->
  (forall c, In c l -> all_inf c = true \/ inf_free c = true) ->
  spec_par l i =
  match map (fun c => val c i) (filter (fun c => negb (all_inf c)) l) with
  | [] => Inf
  | fin => ez_inv (fold_left (fun acc v => ez_add acc (ez_inv v)) fin (Zf k0))
  end.
Proof.
  intros Hne Hi Hz Hc. unfold spec_par. destruct l as [|c r]; [congruence|].
  change (spec (CPar (c :: r)) (leaf_at i)) with
    (let vals := map (fun c0 => val c0 i) (c :: r) in
     if existsb ez_is_zero vals then Zf k0
     else match filter (fun v => negb (ez_is_inf v)) vals with
          | [] => Inf
          | _ => ez_inv (fold_left (fun acc v => ez_add acc (ez_inv v)) (filter (fun v => negb (ez_is_inf v)) vals) (Zf k0))
          end).
  cbv zeta. rewrite existsb_map_eq, Hz. rewrite (fin_filter (c :: r) i Hi Hc).
  destruct (map (fun c0 => val c0 i) (filter (fun c0 => negb (all_inf c0)) (c :: r))); auto.
Qed.

Lemma forallb_id_nth sh i : forallb (fun b : bool => b) sh = true -> i < length sh -> nth i sh false = true.
Proof. rewrite forallb_forall. intros H Hi. apply H. apply nth_In. auto. Qed.

Lemma filter_len_all {A} (p : A -> bool) l : length (filter p l) = length l -> forallb p l = true.
Proof.
  induction l as [|a r IH]; simpl; auto. destruct (p a); simpl; intro H.
  - apply IH. lia.
  - pose proof (filter_len_le p r). lia.
Qed.

Lemma filter_neg_empty {A} (p : A -> bool) l : forallb p l = true -> filter (fun x => negb (p x)) l = [].
Proof. induction l as [|a r IH]; simpl; auto. destruct (p a); simpl; [auto|discriminate]. Qed.

Lemma PInv_snoc_open P sh paths no c :
  PInv P sh paths no -> all_inf c = true -> PInv (P ++ [c]) sh paths (S no).
Proof.
  intros [H1 H2 H3 H4 H5] Hc. constructor; auto.
  - intros i Hi. rewrite H2 by auto. rewrite existsb_app. simpl. rewrite (all_inf_val c i Hc Hi). simpl.
    rewrite !orb_false_r. auto.
  - rewrite filter_app. simpl. rewrite Hc. simpl. rewrite app_nil_r. auto.
  - rewrite filter_app, app_length. simpl. rewrite Hc. simpl. lia.
  - intros c' Hin. apply in_app_or in Hin. destruct Hin as [Hin|[<-|[]]]; auto.
Qed.

Lemma PInv_snoc_path P sh paths no c :
  PInv P sh paths no -> inf_free c = true -> all_inf c = false ->
  PInv (P ++ [c]) (map (fun bz : bool * E => fst bz || ez_is_zero (snd bz)) (combine sh (specv c))) (specv c :: paths) no.
Proof.
  intros [H1 H2 H3 H4 H5] Hf Hc. constructor.
  - rewrite map_length, combine_length, H1, specv_len. lia.
  - intros i Hi.
    rewrite (nth_map_d _ _ (false, Inf)) by (rewrite combine_length, H1, specv_len; lia).
    rewrite combine_nth by (rewrite H1, specv_len; auto). simpl.
    rewrite H2, specv_nth by auto. rewrite existsb_app. simpl. rewrite orb_false_r. auto.
  - rewrite filter_app. simpl. rewrite Hc. simpl. rewrite map_app, rev_app_distr. simpl. rewrite H3. auto.
  - rewrite filter_app, app_length. simpl. rewrite Hc. simpl. lia.
  - intros c' Hin. apply in_app_or in Hin. destruct Hin as [Hin|[<-|[]]]; auto.
Qed.

Lemma sh_or_nozero sh c : length sh = n ->
  Nat.ltb 0 (count ez_is_zero (specv c)) = false ->
  map (fun bz : bool * E => fst bz || ez_is_zero (snd bz)) (combine sh (specv c)) = sh.
Proof.
  intros Hl Hz. apply count_none in Hz. rewrite forallb_forall in Hz.
  apply (nth_ext _ _ false false).
  - rewrite map_length, combine_length, Hl, specv_len. lia.
  - intros i Hi. rewrite map_length, combine_length, Hl, specv_len in Hi.
    rewrite (nth_map_d _ _ (false, Inf)) by (rewrite combine_length, Hl, specv_len; lia).
    rewrite combine_nth by (rewrite Hl, specv_len; auto). simpl.
    assert (Hx : negb (ez_is_zero (nth i (specv c) Inf)) = true) by (apply Hz, nth_In; rewrite specv_len; lia).
    apply negb_true_iff in Hx. rewrite Hx, orb_false_r. auto.
Qed.

Lemma par_loop_sound total : forall rest P sh paths no v,
  (forall c, In c rest -> forall z, impl c = Ok z -> z = specv c) ->
  PInv P sh paths no -> total = length (P ++ rest) -> (P ++ rest) <> [] ->
  par_loop impl rest total sh paths no = Ok v ->
  vec_is v (spec_par (P ++ rest)).
Proof.
  induction rest as [|c r IH]; intros P sh paths no v Himpl HI Htot Hne H.
  - rewrite app_nil_r in *. destruct HI as [H1 H2 H3 H4 H5]. simpl in H.
    destruct (forallb (fun b => b) sh) eqn:Eall.
    + inversion H; subst v. split; [apply (proj1 zeros_is)|]. intros i Hi.
      rewrite (proj2 zeros_is) by auto. symmetry. apply spec_par_zero.
      rewrite <- H2 by auto. apply forallb_id_nth; auto. lia.
    + destruct (Nat.eqb no total) eqn:Eno.
      * inversion H; subst v. apply Nat.eqb_eq in Eno.
        assert (Hallinf : forallb all_inf P = true) by (apply filter_len_all; lia).
        split; [apply repeat_length|]. intros i Hi.
        rewrite nth_repeat.
        assert (Hz : existsb (fun c => ez_is_zero (val c i)) P = false).
        { clear -Hallinf Hi leaf_len. induction P as [|c r IHr]; simpl in *; auto.
          apply andb_true_iff in Hallinf. destruct Hallinf as [Ha Hr]. rewrite (all_inf_val c i Ha Hi). simpl. auto. }
        rewrite spec_par_nonzero; auto. rewrite filter_neg_empty; auto.
      * inversion H; subst v. apply Nat.eqb_neq in Eno. unfold par_result. rewrite H3, rev_involutive.
        set (pv := map specv (filter (fun c => negb (all_inf c)) P)).
        assert (Hpl : forall Z, In Z pv -> length Z = n).
        { intros Z HZ. unfold pv in HZ. apply in_map_iff in HZ. destruct HZ as (c & <- & _). apply specv_len. }
        pose proof (sums_len pv (zeros n) (proj1 zeros_is) Hpl) as Hsl.
        split; [rewrite map_length, combine_length; lia|]. intros i Hi.
        rewrite (nth_map_d _ _ (Inf, true)) by (rewrite combine_length; lia).
        rewrite combine_nth by lia. simpl.
        destruct (nth i sh true) eqn:Esh.
        -- assert (Hs : nth i sh false = true) by (rewrite (nth_indep _ false true) by lia; auto).
           symmetry. apply spec_par_zero. rewrite <- H2; auto.
        -- assert (Hs : nth i sh false = false) by (rewrite (nth_indep _ false true) by lia; auto).
           rewrite spec_par_nonzero; auto; [|rewrite <- H2; auto].
           rewrite (sums_nth pv (zeros n) (fun _ => Zf k0) i Hi zeros_is Hpl).
           unfold pv. rewrite map_map.
           rewrite (map_ext_in (fun x => nth i (specv x) Inf) (fun c => val c i)) by (intros; apply specv_nth; auto).
           destruct (map (fun c => val c i) (filter (fun c => negb (all_inf c)) P)) eqn:Efin; auto.
           exfalso. apply Eno. rewrite H4, Htot.
           assert (Hem : filter (fun c => negb (all_inf c)) P = []) by (destruct (filter (fun c => negb (all_inf c)) P); [auto|discriminate]).
           clear -Hem. induction P as [|c r IHr]; simpl in *; auto. destruct (all_inf c); simpl in *; [f_equal; auto|discriminate].
  - simpl in H. destruct (impl c) as [z| |] eqn:Ez; simpl in H; try discriminate.
    pose proof (Himpl c (or_introl eq_refl) z Ez) as Hz. subst z.
    assert (Hassoc : P ++ c :: r = (P ++ [c]) ++ r) by (rewrite <- app_assoc; auto).
    assert (Himpl' : forall c0, In c0 r -> forall z, impl c0 = Ok z -> z = specv c0) by (intros; apply Himpl; simpl; auto).
    destruct (Nat.eqb (count ez_is_inf (specv c)) n) eqn:Einf.
    + apply count_all in Einf; [|apply specv_len]. rewrite Hassoc in *.
      eapply IH; eauto. apply PInv_snoc_open; auto.
    + destruct (Nat.ltb 0 (count ez_is_inf (specv c))) eqn:Einf2; [discriminate|].
      apply count_none in Einf2.
      assert (Hnot : all_inf c = false).
      { destruct (all_inf c) eqn:E; auto. unfold all_inf in E. apply (count_all _ _ (specv_len c)) in E. congruence. }
      destruct (Nat.eqb (count ez_is_zero (specv c)) n) eqn:Ezero.
      * inversion H; subst v. apply count_all in Ezero; [|apply specv_len].
        split; [apply (proj1 zeros_is)|]. intros i Hi. rewrite (proj2 zeros_is) by auto. symmetry.
        apply spec_par_zero. rewrite existsb_app. simpl.
        pose proof (forallb_nth _ _ i Ezero) as Hn. rewrite specv_len, specv_nth in Hn by auto. rewrite Hn by auto.
        rewrite orb_true_r. auto.
      * destruct (Nat.ltb 0 (count ez_is_zero (specv c))) eqn:Ez2.
        -- pose proof (PInv_snoc_path P sh paths no c HI Einf2 Hnot) as HI'.
           destruct (forallb (fun b => b) _) eqn:Eall; simpl in H.
           ++ inversion H; subst v. split; [apply (proj1 zeros_is)|]. intros i Hi. rewrite (proj2 zeros_is) by auto. symmetry.
              apply spec_par_zero. rewrite Hassoc, existsb_app. destruct HI' as [L1 L2 _ _ _].
              rewrite <- L2 by auto. rewrite forallb_id_nth; auto. lia.
           ++ rewrite Hassoc in *. eapply IH; eauto.
        -- simpl in H. pose proof (PInv_snoc_path P sh paths no c HI Einf2 Hnot) as HI'.
           rewrite (sh_or_nozero sh c (pi_len _ _ _ _ HI) Ez2) in HI'.
           rewrite Hassoc in *. eapply IH; eauto.
Qed.

Theorem impl_sound : forall t v, impl t = Ok v -> v = specv t.
Proof.
  induction t as [id|l IHl|l IHl] using ctree_ind2; intros v H.
  - simpl in H. inversion H; subst v. apply vec_is_eq. split; [apply leaf_len|]. intros i Hi. reflexivity.
  - rewrite impl_ser in H. rewrite Forall_forall in IHl.
    assert (Hc : forall c, In c l -> forall z, impl c = Ok z -> vec_is z (fun i => spec c (leaf_at i))).
    { intros c Hin z Hz. rewrite (IHl c Hin z Hz). apply specv_is. }
    pose proof (ser_loop_sound l (zeros n) (fun _ => Zf k0) v Hc zeros_is H) as Hv.
    apply vec_is_eq in Hv. rewrite Hv. reflexivity.
  - destruct l as [|c r].
    + simpl in H. inversion H; subst v. apply vec_is_eq. split; [apply (proj1 zeros_is)|].
      intros i Hi. rewrite (proj2 zeros_is) by auto. reflexivity.
    + rewrite impl_par in H. rewrite Forall_forall in IHl.
      assert (HI : PInv [] (repeat false n) [] 0).
      { constructor; simpl; auto; try (apply repeat_length); try (intros i Hi; apply nth_repeat); try (intros c0 []). }
      pose proof (par_loop_sound (length (c :: r)) (c :: r) [] (repeat false n) [] 0 v IHl HI eq_refl) as Hv.
      simpl app in Hv. specialize (Hv ltac:(discriminate) H). apply vec_is_eq in Hv. exact Hv.
Qed.
End Facts.

(* ---- consequences stated without the section variables ------------------------------------------------ *)
Section Consequences.
Variable K : Type.
Variable k0 : K.
Variable kadd : K -> K -> K.
Variable kinv : K -> K.
Variable kis0 : K -> bool.

Lemma spec_ext t : forall (l1 l2 : nat -> ez K), (forall id, l1 id = l2 id) ->
  spec K k0 kadd kinv kis0 t l1 = spec K k0 kadd kinv kis0 t l2.
Proof.
  induction t as [id|l IHl|l IHl] using ctree_ind2; intros l1 l2 Hl.
  - simpl. auto.
  - simpl. generalize (@Zf K k0). induction l as [|c r IHr]; intro acc; simpl; auto.
    inversion IHl; subst. rewrite (H1 l1 l2 Hl). apply IHr. auto.
  - destruct l as [|c r]; auto.
    assert (Hm : map (fun c0 => spec K k0 kadd kinv kis0 c0 l1) (c :: r) = map (fun c0 => spec K k0 kadd kinv kis0 c0 l2) (c :: r)).
    { apply map_ext_in. intros a Ha. rewrite Forall_forall in IHl. apply IHl; auto. }
    change (spec K k0 kadd kinv kis0 (CPar (c :: r)) l1) with
      (let vals := map (fun c0 => spec K k0 kadd kinv kis0 c0 l1) (c :: r) in
       if existsb (ez_is_zero K kis0) vals then Zf k0
       else match filter (fun v => negb (ez_is_inf K v)) vals with
            | [] => Inf
            | _ => ez_inv K k0 kinv kis0 (fold_left (fun acc v => ez_add K kadd acc (ez_inv K k0 kinv kis0 v)) (filter (fun v => negb (ez_is_inf K v)) vals) (Zf k0))
            end).
    change (spec K k0 kadd kinv kis0 (CPar (c :: r)) l2) with
      (let vals := map (fun c0 => spec K k0 kadd kinv kis0 c0 l2) (c :: r) in
       if existsb (ez_is_zero K kis0) vals then Zf k0
       else match filter (fun v => negb (ez_is_inf K v)) vals with
            | [] => Inf
            | _ => ez_inv K k0 kinv kis0 (fold_left (fun acc v => ez_add K kadd acc (ez_inv K k0 kinv kis0 v)) (filter (fun v => negb (ez_is_inf K v)) vals) (Zf k0))
            end).
    cbv zeta. rewrite Hm. auto.
Qed.

(* array evaluation and one-at-a-time evaluation agree wherever both return *)
Theorem vector_eq_pointwise leafv n t v i x :
  (forall id, length (leafv id) = n) -> i < n ->
  impl K k0 kadd kinv kis0 leafv n t = Ok v ->
  impl K k0 kadd kinv kis0 (fun id => [nth i (leafv id) Inf]) 1 t = Ok [x] ->
  nth i v Inf = x.
Proof.
  intros Hlen Hi Hv Hx.
  apply (impl_sound K k0 kadd kinv kis0 leafv n Hlen) in Hv.
  apply (impl_sound K k0 kadd kinv kis0 (fun id => [nth i (leafv id) Inf]) 1 (fun _ => eq_refl)) in Hx.
  subst v. unfold specv in *. simpl in Hx. inversion Hx as [Hx'].
  rewrite (nth_map_d _ _ 0) by (rewrite seq_length; auto). rewrite seq_nth by auto. simpl.
  apply spec_ext. intro id. unfold leaf_at. simpl. auto.
Qed.
End Consequences.

(* Circuit/Imp_facts.v — the vector-level implementation of the series/parallel rule computes the pointwise law. *)
From Coq Require Import ZArith Bool List Lia.
From PV Require Import Base.Outcome Circuit.Imp.
Import ListNotations.

Section Facts.
Variable K : Type.
Variable k0 : K.
Variable kadd : K -> K -> K.
Variable kinv : K -> K.
Variable kis0 : K -> bool.

Notation E := (ez K).
Notation ez_add := (ez_add K kadd).
Notation ez_inv := (ez_inv K k0 kinv kis0).
Notation ez_is_zero := (ez_is_zero K kis0).
Notation ez_is_inf := (ez_is_inf K).
Notation spec := (spec K k0 kadd kinv kis0).
Notation zeros := (zeros K k0).
Notation vadd := (vadd K kadd).
Notation count := (count K).

Variable leafv : nat -> list E.
Variable n : nat.
Hypothesis leaf_len : forall id, length (leafv id) = n.

Notation impl := (impl K k0 kadd kinv kis0 leafv n).
Notation ser_loop := (ser_loop K kadd).
Notation par_loop := (par_loop K k0 kadd kinv kis0 n).

Definition leaf_at (i : nat) : nat -> E := fun id => nth i (leafv id) Inf.
Definition specv (t : ctree) : list E := map (fun i => spec t (leaf_at i)) (seq 0 n).

(* ---- unfolding the local fixpoints ---------------------------------------------------------------- *)
Lemma impl_ser l : impl (CSer l) = ser_loop impl l (zeros n).
Proof.
  simpl. generalize (zeros n). induction l as [|c r IH]; intro acc; simpl; auto.
  destruct (impl c); simpl; auto.
Qed.

Definition pl_fix (total : nat) :=
  fix pl (children : list ctree) (shorted : list bool) (paths : list (list E)) (num_open : nat) {struct children} : outcome (list E) :=
    match children with
    | [] =>
        if forallb (fun b => b) shorted then Ok (zeros n)
        else if Nat.eqb num_open total then Ok (repeat Inf n)
        else Ok (par_result K k0 kadd kinv kis0 n shorted (rev paths))
    | c0 :: rest =>
        let* Z := impl c0 in
        let ninf := count ez_is_inf Z in
        if Nat.eqb ninf n then pl rest shorted paths (S num_open)
        else if Nat.ltb 0 ninf then Err EInfiniteImpedance
        else
          let nzero := count ez_is_zero Z in
          if Nat.eqb nzero n then Ok (zeros n)
          else
            let shorted' := if Nat.ltb 0 nzero then map (fun bz : bool * E => fst bz || ez_is_zero (snd bz)) (combine shorted Z) else shorted in
            if Nat.ltb 0 nzero && forallb (fun b => b) shorted' then Ok (zeros n)
            else pl rest shorted' (Z :: paths) num_open
    end.

Lemma pl_fix_eq total : forall ch sh paths no, pl_fix total ch sh paths no = par_loop impl ch total sh paths no.
Proof.
  induction ch as [|c0 r IH]; intros sh paths no; [reflexivity|].
  simpl. destruct (impl c0) as [Z| |]; simpl; auto.
  destruct (Nat.eqb (count ez_is_inf Z) n); [apply IH|].
  destruct (Nat.ltb 0 (count ez_is_inf Z)); auto.
  destruct (Nat.eqb (count ez_is_zero Z) n); auto.
  destruct (Nat.ltb 0 (count ez_is_zero Z) && forallb (fun b => b) _); auto.
Qed.

Lemma impl_par c l : impl (CPar (c :: l)) = par_loop impl (c :: l) (length (c :: l)) (repeat false n) [] 0.
Proof. rewrite <- pl_fix_eq. reflexivity. Qed.

(* ---- vectors ------------------------------------------------------------------------------------------ *)
Definition vec_is (v : list E) (g : nat -> E) : Prop := length v = n /\ forall i, i < n -> nth i v Inf = g i.

Lemma vec_is_eq v g : vec_is v g -> v = map g (seq 0 n).
Proof.
  intros [Hl Hn]. apply (nth_ext _ _ Inf Inf).
  - rewrite map_length, seq_length. auto.
  - intros i Hi. rewrite Hl in Hi. rewrite Hn by auto.
    rewrite (nth_indep _ Inf (g 0)) by (rewrite map_length, seq_length; auto).
    rewrite (map_nth g (seq 0 n) 0 i), seq_nth by auto. auto.
Qed.

Lemma specv_is t : vec_is (specv t) (fun i => spec t (leaf_at i)).
Proof.
  unfold specv. split; [rewrite map_length, seq_length; auto|].
  intros i Hi. rewrite (nth_indep _ Inf (spec t (leaf_at 0))) by (rewrite map_length, seq_length; auto).
  rewrite (map_nth (fun i0 => spec t (leaf_at i0)) (seq 0 n) 0 i), seq_nth by auto. auto.
Qed.

Lemma zeros_is : vec_is (zeros n) (fun _ => Zf k0).
Proof.
  unfold zeros. split; [apply repeat_length|]. intros i Hi.
  rewrite (nth_indep _ Inf (Zf k0)) by (rewrite repeat_length; auto). apply nth_repeat.
Qed.

Lemma vadd_is a b ga gb : vec_is a ga -> vec_is b gb -> vec_is (vadd a b) (fun i => ez_add (ga i) (gb i)).
Proof.
  intros [La Ha] [Lb Hb]. unfold vadd. split.
  - rewrite map_length, combine_length. lia.
  - intros i Hi.
    rewrite (nth_indep _ Inf (ez_add Inf Inf)) by (rewrite map_length, combine_length; lia).
    change (ez_add Inf Inf) with ((fun xy : E * E => ez_add (fst xy) (snd xy)) (Inf, Inf)).
    rewrite map_nth, combine_nth by lia. simpl. rewrite Ha, Hb by auto. auto.
Qed.

(* ---- series -------------------------------------------------------------------------------------------- *)
Lemma ser_loop_sound : forall l acc g v,
  (forall c, In c l -> forall z, impl c = Ok z -> vec_is z (fun i => spec c (leaf_at i))) ->
  vec_is acc g -> ser_loop impl l acc = Ok v ->
  vec_is v (fun i => fold_left (fun a c => ez_add a (spec c (leaf_at i))) l (g i)).
Proof.
  induction l as [|c r IH]; intros acc g v Hc Hacc H; simpl in *.
  - inversion H; subst. auto.
  - destruct (impl c) as [z| |] eqn:Ez; simpl in H; try discriminate.
    pose proof (Hc c (or_introl eq_refl) z Ez) as Hz.
    eapply (IH (vadd acc z) (fun i => ez_add (g i) (spec c (leaf_at i)))); eauto.
    apply vadd_is; auto.
Qed.

(* ---- counting ------------------------------------------------------------------------------------------ *)
Lemma filter_len_le {A} (p : A -> bool) l : length (filter p l) <= length l.
Proof. induction l; simpl; auto. destruct (p a); simpl; lia. Qed.

Lemma count_all (p : E -> bool) v : length v = n -> (Nat.eqb (count p v) n = true <-> forallb p v = true).
Proof.
  unfold count. intros Hl. rewrite Nat.eqb_eq. rewrite <- Hl. clear Hl. induction v as [|x r IH]; simpl; [tauto|].
  destruct (p x); simpl.
  - rewrite <- IH. lia.
  - split; [|discriminate]. intro H. pose proof (filter_len_le p r). lia.
Qed.

Lemma count_none (p : E -> bool) v : Nat.ltb 0 (count p v) = false <-> forallb (fun x => negb (p x)) v = true.
Proof.
  unfold count. rewrite Nat.ltb_ge. induction v as [|x r IH]; simpl; [split; auto|].
  destruct (p x); simpl; [split; [lia|discriminate]|auto].
Qed.

Lemma forallb_nth (p : E -> bool) v i : forallb p v = true -> i < length v -> p (nth i v Inf) = true.
Proof. rewrite forallb_forall. intros H Hi. apply H. apply nth_In. auto. Qed.
End Facts.

(* Circuit/ElemState_facts.v — lemmas about the element parameter state machine (C14). *)
From Coq Require Import ZArith QArith Bool List Lia.
From PV Require Import Base.Num Base.Outcome Circuit.ElemState Circuit.ElemProp.
Import ListNotations.

(* ---------- association lists ------------------------------------------------------------- *)
Section Assoc.
Context {A : Type}.
Implicit Types (l : list (key * A)) (k : key).

Lemma lookup_update_eq l k a a0 : lookup k l = Some a0 -> lookup k (update k a l) = Some a.
Proof.
  induction l as [|[k' a'] r IH]; simpl; [discriminate|].
  destruct (N.eqb k k') eqn:E; simpl; rewrite E; auto.
Qed.

Lemma lookup_update_ne l k k' a : k <> k' -> lookup k' (update k a l) = lookup k' l.
Proof.
  intro Hne. induction l as [|[k2 a2] r IH]; simpl; auto.
  destruct (N.eqb k k2) eqn:E; simpl.
  - apply N.eqb_eq in E. subst k2. simpl. destruct (N.eqb k' k) eqn:E2; auto.
    apply N.eqb_eq in E2. congruence.
  - simpl. rewrite IH. auto.
Qed.

Lemma map_fst_update l k a : map fst (update k a l) = map fst l.
Proof.
  induction l as [|[k2 a2] r IH]; simpl; auto.
  destruct (N.eqb k k2) eqn:E; simpl; [|rewrite IH]; auto.
Qed.

Lemma has_key_in l k : has_key k l = true <-> In k (map fst l).
Proof.
  unfold has_key. induction l as [|[k2 a2] r IH]; simpl; [split; [discriminate|tauto]|].
  destruct (N.eqb k k2) eqn:E.
  - apply N.eqb_eq in E. subst. split; auto.
  - apply N.eqb_neq in E. rewrite IH. split; [auto|]. intros [H|H]; [congruence|auto].
Qed.

Lemma lookup_none_iff l k : lookup k l = None <-> ~ In k (map fst l).
Proof.
  rewrite <- has_key_in. unfold has_key. destruct (lookup k l); split; try congruence; auto.
Qed.

Lemma nodup_keys_NoDup l : nodup_keys l = true <-> NoDup (map fst l).
Proof.
  induction l as [|[k a] r IH]; simpl.
  - split; auto. constructor.
  - rewrite andb_true_iff, negb_true_iff, IH. split.
    + intros [H1 H2]. constructor; auto. rewrite <- has_key_in. congruence.
    + intro H. inversion H; subst. split; auto. rewrite <- has_key_in in H2.
      destruct (has_key k r); auto. exfalso; auto.
Qed.

Lemma lookup_in l k a : lookup k l = Some a -> In (k, a) l.
Proof.
  induction l as [|[k2 a2] r IH]; simpl; [discriminate|].
  destruct (N.eqb k k2) eqn:E; auto.
  apply N.eqb_eq in E. subst. intro H. inversion H. auto.
Qed.

Lemma in_lookup l k a : NoDup (map fst l) -> In (k, a) l -> lookup k l = Some a.
Proof.
  induction l as [|[k2 a2] r IH]; simpl; [tauto|].
  intros Hnd [H|H].
  - inversion H; subst. rewrite N.eqb_refl. auto.
  - inversion Hnd; subst. destruct (N.eqb k k2) eqn:E; auto.
    apply N.eqb_eq in E. subst. exfalso. apply H2. apply (in_map fst) in H. auto.
Qed.

Lemma lookup_ext_eq l m :
  map fst l = map fst m -> NoDup (map fst l) -> (forall k, lookup k l = lookup k m) -> l = m.
Proof.
  revert m. induction l as [|[k a] r IH]; intros [|[k2 a2] r2]; simpl; try discriminate; auto.
  intros Hm Hnd Hl. inversion Hm; subst. inversion Hnd; subst.
  pose proof (Hl k2) as Hk. simpl in Hk. rewrite N.eqb_refl in Hk. inversion Hk; subst.
  f_equal. apply IH; auto. intro k.
  pose proof (Hl k) as Hk'. simpl in Hk'. destruct (N.eqb k k2) eqn:E; auto.
  apply N.eqb_eq in E. subst.
  assert (lookup k2 r = None) by (apply lookup_none_iff; auto).
  assert (lookup k2 r2 = None) by (apply lookup_none_iff; rewrite <- H1; auto).
  congruence.
Qed.
End Assoc.

(* ---------- boolean equalities are reflexive ------------------------------------------------ *)
Lemma psame_refl p : psame p p = true.
Proof. unfold psame. rewrite !xsame_refl, eqb_reflx. auto. Qed.

Lemma list_eqb_refl {A} (eqb : A -> A -> bool) l : (forall a, eqb a a = true) -> list_eqb eqb l l = true.
Proof. intro H. induction l; simpl; auto. rewrite H, IHl. auto. Qed.

Lemma pars_same_refl l : pars_same l l = true.
Proof. apply list_eqb_refl. intros [k p]. simpl. rewrite N.eqb_refl, psame_refl. auto. Qed.

Lemma label_eqb_refl (l : list N) : list_eqb N.eqb l l = true.
Proof. apply list_eqb_refl, N.eqb_refl. Qed.

Lemma esame_refl e : esame e e = true.
Proof. unfold esame. rewrite label_eqb_refl, pars_same_refl. auto. Qed.

Lemma same_keys_of_map l m : map fst l = map fst m -> same_keys l m = true.
Proof. unfold same_keys. intros ->. apply list_eqb_refl, N.eqb_refl. Qed.

(* ---------- merge yields duplicate-free pairs ------------------------------------------------ *)
Lemma nodup_keys_app1 {A} (l : list (key * A)) k a :
  nodup_keys l = true -> has_key k l = false -> nodup_keys (l ++ [(k, a)]) = true.
Proof.
  induction l as [|[k2 a2] r IH]; simpl; auto.
  rewrite andb_true_iff, negb_true_iff. intros [H1 H2] H3.
  unfold has_key in *. simpl in H3. destruct (N.eqb k k2) eqn:E; [discriminate|].
  rewrite IH; auto. rewrite andb_true_r, negb_true_iff.
  destruct (lookup k2 (r ++ [(k, a)])) eqn:E2; auto. exfalso.
  apply lookup_in in E2. apply in_app_or in E2. destruct E2 as [E2|[E2|[]]].
  - apply (in_map fst) in E2. simpl in E2. apply has_key_in in E2. unfold has_key in E2.
    destruct (lookup k2 r); congruence.
  - inversion E2; subst. rewrite N.eqb_refl in E. discriminate.
Qed.

Lemma merge_pos_nodup p : forall pairs out,
  nodup_keys pairs = true -> merge_pos pairs p = Ok out -> nodup_keys out = true.
Proof.
  induction p as [|[k v] r IH]; simpl; intros pairs out Hnd H.
  - inversion H; subst; auto.
  - destruct (has_key k pairs) eqn:E; [discriminate|]. eapply IH; [|eauto]. apply nodup_keys_app1; auto.
Qed.

Lemma merge_nodup a out : nodup_keys (kw a) = true -> merge a = Ok out -> nodup_keys out = true.
Proof. unfold merge. destruct (dangling a); [discriminate|]. apply merge_pos_nodup. Qed.

(* ---------- the loop of a setter ------------------------------------------------------------- *)
Lemma loop_spec g : forall pairs ps ps' r,
  nodup_keys pairs = true ->
  loop g ps pairs = (ps', r) ->
  map fst ps' = map fst ps /\
  (forall k, lookup k pairs = None -> lookup k ps' = lookup k ps) /\
  (forall k v p, lookup k pairs = Some v -> lookup k ps = Some p ->
     (r = ROk -> exists p', g p v = Ok p' /\ lookup k ps' = Some p') /\
     (lookup k ps' = Some p \/ exists p', g p v = Ok p' /\ lookup k ps' = Some p')) /\
  (r = ROk -> forall k v, lookup k pairs = Some v -> lookup k ps <> None) /\
  (r <> ROk -> length pairs = 1%nat -> ps' = ps).
Proof.
  induction pairs as [|[k0 v0] rest IH]; intros ps ps' r Hnd H; simpl in *.
  - inversion H; subst. repeat split; auto; try discriminate.
  - apply andb_true_iff in Hnd. destruct Hnd as [Hk0 Hnd]. apply negb_true_iff in Hk0.
    assert (Hk0' : lookup k0 rest = None) by (unfold has_key in Hk0; destruct (lookup k0 rest); congruence).
    unfold upd_body in H. destruct (lookup k0 ps) as [p0|] eqn:El.
    + destruct (g p0 v0) as [p0'| |] eqn:Eg; simpl in H.
      * specialize (IH _ _ _ Hnd H). destruct IH as (I1 & I2 & I3 & I4 & I5).
        split; [rewrite I1; apply map_fst_update|].
        split; [|split; [|split]].
        -- intros k Hk. destruct (N.eqb k k0) eqn:E; [discriminate|]. apply N.eqb_neq in E.
           rewrite I2; auto. apply lookup_update_ne. congruence.
        -- intros k v p Hk Hp. destruct (N.eqb k k0) eqn:E.
           ++ apply N.eqb_eq in E. subst k0. inversion Hk; subst v0. rewrite Hp in El. inversion El; subst p0.
              assert (lookup k ps' = Some p0').
              { rewrite I2; auto. eapply lookup_update_eq; eauto. }
              split; eauto.
           ++ apply N.eqb_neq in E.
              assert (Hp' : lookup k (update k0 p0' ps) = Some p) by (rewrite lookup_update_ne; auto).
              apply (I3 _ _ _ Hk Hp').
        -- intros Hr k v Hk. destruct (N.eqb k k0) eqn:E.
           ++ apply N.eqb_eq in E. subst. congruence.
           ++ apply N.eqb_neq in E. specialize (I4 Hr _ _ Hk). rewrite lookup_update_ne in I4; auto.
        -- intros Hr Hlen. destruct rest; [|simpl in Hlen; lia]. simpl in H. inversion H; subst. congruence.
      * inversion H; subst. split; auto. split; auto. split; [|split; [|auto]].
        -- intros k v p Hk Hp. split; [discriminate|auto].
        -- discriminate.
      * inversion H; subst. split; auto. split; auto. split; [|split; [|auto]].
        -- intros k v p Hk Hp. split; [discriminate|auto].
        -- discriminate.
    + inversion H; subst. split; auto. split; auto. split; [|split; [|auto]].
      * intros k v p Hk Hp. split; [discriminate|auto].
      * discriminate.
Qed.

(* when every pair is accepted, the loop succeeds *)
Lemma loop_all_ok g : forall pairs ps,
  nodup_keys pairs = true ->
  (forall k v, lookup k pairs = Some v -> exists p p', lookup k ps = Some p /\ g p v = Ok p') ->
  exists ps', loop g ps pairs = (ps', ROk).
Proof.
  induction pairs as [|[k0 v0] rest IH]; intros ps Hnd Hall; simpl in *; eauto.
  apply andb_true_iff in Hnd. destruct Hnd as [Hk0 Hnd]. apply negb_true_iff in Hk0.
  assert (Hk0' : lookup k0 rest = None) by (unfold has_key in Hk0; destruct (lookup k0 rest); congruence).
  destruct (Hall k0 v0) as (p & p' & Hp & Hg); [rewrite N.eqb_refl; auto|].
  unfold upd_body. rewrite Hp, Hg. simpl. apply IH; auto.
  intros k v Hk. destruct (N.eqb k k0) eqn:E.
  - apply N.eqb_eq in E. subst. congruence.
  - destruct (Hall k v) as (q & q' & Hq & Hg'); [rewrite E; auto|].
    exists q, q'. split; auto. apply N.eqb_neq in E. rewrite lookup_update_ne; auto.
Qed.

(* ---------- kinds and their bodies ------------------------------------------------------------ *)
Definition g_of (kd : kind) : gfn :=
  match kd with Kvalue => g_value | Klower => g_lower | Kupper => g_upper | Kfixed => g_fixed end.

Lemma g_spec kd p v p' : g_of kd p v = Ok p' -> spec_upd kd p v = Some p'.
Proof.
  destruct kd; simpl; unfold g_value, g_lower, g_upper, g_fixed, bind.
  - destruct (to_float v); congruence.
  - destruct (to_float v); try congruence. destruct (xgeb a (phi p)); congruence.
  - destruct (to_float v); try congruence. destruct (xleb a (plo p)); try congruence. unfold xgtb. congruence.
  - destruct v; congruence.
Qed.

Definition val_nanfree (v : pyval) : bool := match v with VNum NaN => false | _ => true end.

Lemma to_float_nanfree v x : val_nanfree v = true -> to_float v = Ok x -> is_nan x = false.
Proof. destruct v as [[]| | |]; simpl; try congruence; intros _ H; inversion H; auto. Qed.

Lemma wf_p_iff p : wf_p p = true <-> xltb (plo p) (phi p) = true /\ is_nan (plo p) = false /\ is_nan (phi p) = false.
Proof. unfold wf_p. rewrite !andb_true_iff, !negb_true_iff. tauto. Qed.

Lemma g_preserves_wf kd p v p' :
  (match kd with Klower | Kupper => val_nanfree v = true | _ => True end) ->
  wf_p p = true -> g_of kd p v = Ok p' -> wf_p p' = true.
Proof.
  intros Hv Hwf. apply wf_p_iff in Hwf. destruct Hwf as (H1 & H2 & H3).
  destruct kd; simpl; unfold g_value, g_lower, g_upper, g_fixed, bind.
  - destruct (to_float v); try congruence. intro H. inversion H. apply wf_p_iff. simpl. auto.
  - destruct (to_float v) as [x| |] eqn:Ef; try congruence.
    pose proof (to_float_nanfree _ _ Hv Ef) as Hx.
    destruct (xgeb x (phi p)) eqn:E; try congruence. intro H. inversion H. apply wf_p_iff. simpl.
    rewrite xgeb_not_ltb in E; auto. apply negb_false_iff in E. auto.
  - destruct (to_float v) as [x| |] eqn:Ef; try congruence.
    pose proof (to_float_nanfree _ _ Hv Ef) as Hx.
    destruct (xleb x (plo p)) eqn:E; try congruence. intro H. inversion H. apply wf_p_iff. simpl.
    split; auto. apply xleb_ltb_false; auto.
  - destruct v; try congruence. intro H. inversion H. apply wf_p_iff. simpl. auto.
Qed.

(* ---------- invariant of reachable element states ------------------------------------------- *)
Definition label_ok (l : list N) : bool :=
  match l with
  | [] => true
  | c :: _ => negb (is_space c) && negb (is_space (last l 0%N)) && forallb is_ascii l && negb (forallb is_digit l)
  end.

Record Inv (c : cls) (s : elt) : Prop := mkInv {
  inv_keys : map fst (epars s) = map fst (cdefaults c);
  inv_wf : forall k p, lookup k (epars s) = Some p -> wf_p p = true;
  inv_label : label_ok (elabel s) = true }.

Lemma wf_cls_nodup c : wf_cls c = true -> NoDup (map fst (cdefaults c)).
Proof. unfold wf_cls. rewrite andb_true_iff. intros [_ H]. apply nodup_keys_NoDup. auto. Qed.

Lemma wf_cls_default c k d : wf_cls c = true -> lookup k (cdefaults c) = Some d -> wf_default d = true.
Proof.
  unfold wf_cls. rewrite andb_true_iff. intros [H _] Hl. rewrite forallb_forall in H.
  apply lookup_in in Hl. apply (H _ Hl).
Qed.

Lemma wf_default_wf d : wf_default d = true -> wf_p d = true.
Proof. unfold wf_default. rewrite !andb_true_iff. tauto. Qed.

Lemma Inv_fresh c : wf_cls c = true -> Inv c (fresh c).
Proof.
  intro H. constructor; simpl; auto.
  intros k p Hl. apply wf_default_wf. eapply wf_cls_default; eauto.
Qed.

Lemma lookup_same_keys {A B} (l : list (key * A)) (m : list (key * B)) k :
  map fst l = map fst m -> lookup k l = None -> lookup k m = None.
Proof. intros Hm H. apply lookup_none_iff. rewrite <- Hm. apply lookup_none_iff. auto. Qed.

Lemma lookup_some_keys {A B} (l : list (key * A)) (m : list (key * B)) k a :
  map fst l = map fst m -> lookup k l = Some a -> exists b, lookup k m = Some b.
Proof.
  intros Hm H. destruct (lookup k m) eqn:E; eauto.
  symmetry in Hm. pose proof (lookup_same_keys _ _ _ Hm E). congruence.
Qed.

(* pairs produced by merge come from the arguments *)
Lemma merge_pos_in p : forall pairs out k v,
  merge_pos pairs p = Ok out -> lookup k out = Some v -> In (k, v) (pairs ++ p).
Proof.
  induction p as [|[k0 v0] r IH]; simpl; intros pairs out k v H Hl.
  - inversion H; subst. rewrite app_nil_r. apply lookup_in; auto.
  - destruct (has_key k0 pairs); [discriminate|]. specialize (IH _ _ _ _ H Hl).
    rewrite <- app_assoc in IH. auto.
Qed.

Lemma merge_in a out k v : merge a = Ok out -> lookup k out = Some v -> In (k, v) (kw a ++ pos a).
Proof. unfold merge. destruct (dangling a); [discriminate|]. apply merge_pos_in. Qed.

Lemma arg_nanfree_val a k v : arg_nanfree a = true -> In (k, v) (kw a ++ pos a) -> val_nanfree v = true.
Proof. unfold arg_nanfree. rewrite forallb_forall. intros H Hi. apply (H _ Hi). Qed.

(* ---------- one setter call ------------------------------------------------------------------ *)
Lemma setter_step kd c s a :
  wf_cls c = true -> Inv c s -> nodup_keys (kw a) = true ->
  (match kd with Klower | Kupper => arg_nanfree a = true | _ => True end) ->
  Inv c (fst (setter (g_of kd) s a)) /\
  setter_ok kd (epars s) a (snd (setter (g_of kd) s a)) (epars (fst (setter (g_of kd) s a))) = true /\
  elabel (fst (setter (g_of kd) s a)) = elabel s.
Proof.
  intros Hc [Hk Hwf Hlab] Hnd Hnan. unfold setter, setter_ok.
  assert (HND : NoDup (map fst (epars s))) by (rewrite Hk; apply wf_cls_nodup; auto).
  destruct (merge a) as [pairs|e|cr] eqn:Em.
  - pose proof (merge_nodup _ _ Hnd Em) as Hnp.
    destruct (loop (g_of kd) (epars s) pairs) as [ps' r] eqn:El. simpl.
    destruct (loop_spec _ _ _ _ _ Hnp El) as (I1 & I2 & I3 & I4 & I5).
    assert (Hval : forall k v, lookup k pairs = Some v ->
              match kd with Klower | Kupper => val_nanfree v = true | _ => True end).
    { intros k v Hl. destruct kd; auto; eapply arg_nanfree_val; eauto; eapply merge_in; eauto. }
    split; [|split; auto].
    + constructor; simpl; auto; [congruence|].
      intros k p' Hp'. destruct (lookup k pairs) as [v|] eqn:Ekp.
      * destruct (lookup_some_keys _ (epars s) _ _ I1 Hp') as [p Hp].
        destruct (I3 _ _ _ Ekp Hp) as [_ [H|(p'' & Hg & H)]].
        -- rewrite H in Hp'. inversion Hp'; subst. eauto.
        -- rewrite H in Hp'. inversion Hp'; subst. eapply g_preserves_wf; eauto. apply (Hval _ _ Ekp).
      * rewrite I2 in Hp'; eauto.
    + rewrite same_keys_of_map; auto. simpl. apply andb_true_iff. split.
      * apply forallb_forall. intros [k p] Hin. simpl.
        pose proof (in_lookup _ _ _ HND Hin) as Hp.
        destruct (lookup_some_keys _ ps' _ _ (eq_sym I1) Hp) as [p' Hp']. rewrite Hp'.
        destruct (lookup k pairs) as [v|] eqn:Ekp.
        -- destruct (I3 _ _ _ Ekp Hp) as [Hok Hany]. destruct r; simpl.
           ++ destruct (Hok eq_refl) as (p'' & Hg & H). rewrite H in Hp'. inversion Hp'; subst.
              rewrite (g_spec _ _ _ _ Hg). simpl. apply psame_refl.
           ++ destruct Hany as [H|(p'' & Hg & H)]; rewrite H in Hp'; inversion Hp'; subst.
              ** rewrite psame_refl. auto.
              ** rewrite (g_spec _ _ _ _ Hg). simpl. rewrite psame_refl. apply orb_true_r.
           ++ destruct Hany as [H|(p'' & Hg & H)]; rewrite H in Hp'; inversion Hp'; subst.
              ** rewrite psame_refl. auto.
              ** rewrite (g_spec _ _ _ _ Hg). simpl. rewrite psame_refl. apply orb_true_r.
        -- rewrite I2 in Hp'; auto. rewrite Hp in Hp'. inversion Hp'; subst. apply psame_refl.
      * destruct r; simpl.
        -- apply forallb_forall. intros [k v] Hin. simpl.
           assert (Hl : lookup k pairs = Some v) by (apply in_lookup; auto; apply nodup_keys_NoDup; auto).
           specialize (I4 eq_refl _ _ Hl). unfold has_key. destruct (lookup k (epars s)); congruence.
        -- destruct pairs as [|x [|y t]]; auto. rewrite I5; auto; [apply pars_same_refl|discriminate].
        -- destruct pairs as [|x [|y t]]; auto. rewrite I5; auto; [apply pars_same_refl|discriminate].
  - simpl. split; [constructor; auto|]. split; auto.
    rewrite same_keys_of_map; auto. simpl. apply pars_same_refl.
  - simpl. split; [constructor; auto|]. split; auto.
    rewrite same_keys_of_map; auto. simpl. apply pars_same_refl.
Qed.

(* ---------- labels ------------------------------------------------------------------------------ *)
Lemma lstrip_hd s : match lstrip s with [] => True | c :: _ => is_space c = false end.
Proof. induction s as [|c r IH]; simpl; auto. destruct (is_space c) eqn:E; auto. Qed.

Lemma lstrip_suffix s : exists pre, s = pre ++ lstrip s.
Proof.
  induction s as [|c r [pre IH]]; simpl; [exists []; auto|].
  destruct (is_space c); [exists (c :: pre); simpl; congruence|exists []; auto].
Qed.

Lemma last_app_ne {A} (a b : list A) d : b <> [] -> last (a ++ b) d = last b d.
Proof.
  intro Hb. induction a as [|x a IH]; simpl; auto.
  destruct (a ++ b) eqn:E; auto. destruct a, b; simpl in E; congruence.
Qed.

Lemma last_rev_hd {A} (l : list A) d : last (rev l) d = hd d l.
Proof. destruct l; simpl; auto. rewrite last_app_ne; [auto|discriminate]. Qed.

Lemma hd_rev_last {A} (l : list A) d : hd d (rev l) = last l d.
Proof. rewrite <- (rev_involutive l) at 2. rewrite last_rev_hd. auto. Qed.

Lemma lstrip_id s : match s with [] => True | c :: _ => is_space c = false end -> lstrip s = s.
Proof. destruct s; simpl; auto. intros ->. auto. Qed.

Lemma strip_edges s :
  match strip s with [] => True | c :: _ => is_space c = false /\ is_space (last (strip s) 0%N) = false end.
Proof.
  unfold strip. set (x := lstrip (rev (lstrip s))).
  destruct (rev x) as [|c r] eqn:E; auto.
  assert (Hx : x <> []) by (intro H; rewrite H in E; discriminate).
  split.
  - (* head of rev x = last of x = last of rev (lstrip s) = head of lstrip s *)
    assert (Hc : c = last x 0%N) by (rewrite <- hd_rev_last, E; auto).
    destruct (lstrip_suffix (rev (lstrip s))) as [pre Hpre]. fold x in Hpre.
    assert (Hl : last x 0%N = hd 0%N (lstrip s)).
    { rewrite <- last_rev_hd, Hpre. symmetry. apply last_app_ne; auto. }
    rewrite Hc, Hl. pose proof (lstrip_hd s) as H. destruct (lstrip s) eqn:E2; simpl; auto.
  - rewrite <- E, last_rev_hd. pose proof (lstrip_hd (rev (lstrip s))) as H. fold x in H.
    destruct x; simpl; auto.
Qed.

Lemma strip_fix l :
  match l with [] => True | c :: _ => is_space c = false /\ is_space (last l 0%N) = false end -> strip l = l.
Proof.
  destruct l as [|c r]; auto. intros [H1 H2]. unfold strip.
  rewrite (lstrip_id (c :: r)); auto.
  rewrite lstrip_id; [apply rev_involutive|].
  destruct (rev (c :: r)) eqn:E; auto.
  assert (n = hd 0%N (rev (c :: r))) by (rewrite E; auto). rewrite hd_rev_last in H. congruence.
Qed.

Lemma label_ok_strip l : label_ok l = true -> strip l = l.
Proof.
  intro H. apply strip_fix. destruct l; auto. simpl in H. rewrite !andb_true_iff, !negb_true_iff in H. tauto.
Qed.

Lemma set_label_step c s v :
  Inv c s ->
  Inv c (fst (set_label s v)) /\
  (if is_ok (snd (set_label s v)) then
     match v with VStr t => list_eqb N.eqb (elabel (fst (set_label s v))) (strip t) | _ => false end
     && pars_same (epars s) (epars (fst (set_label s v)))
   else esame s (fst (set_label s v))) = true /\
  epars (fst (set_label s v)) = epars s.
Proof.
  intros HI. pose proof HI as [Hk Hwf Hl]. unfold set_label. destruct v; simpl; try (repeat split; auto using esame_refl; fail).
  destruct (strip s0) as [|ch r] eqn:E; simpl.
  - repeat split; auto. rewrite pars_same_refl. auto.
  - destruct (is_ascii ch && forallb is_ascii r) eqn:Ea; simpl.
    + destruct (is_digit ch && forallb is_digit r) eqn:Ed; simpl.
      * repeat split; auto using esame_refl.
      * split; [|split; auto].
        -- constructor; simpl; auto. pose proof (strip_edges s0) as He. rewrite E in He. destruct He as [He1 He2].
           simpl in He2. rewrite He1, He2, Ea, Ed. auto.
        -- rewrite N.eqb_refl, label_eqb_refl, pars_same_refl. auto.
    + repeat split; auto using esame_refl.
Qed.

(* ---------- chains of keyword setters (reset, copy) ------------------------------------------- *)
Fixpoint pfold (steps : list (gfn * (pstate -> pyval))) (d p : pstate) : option pstate :=
  match steps with
  | [] => Some p
  | (g, val) :: r => match g p (val d) with Ok p' => pfold r d p' | _ => None end
  end.

Lemma lookup_map_val (val : pstate -> pyval) src k :
  lookup k (map (fun kp : key * pstate => (fst kp, val (snd kp))) src) = option_map val (lookup k src).
Proof. induction src as [|[k2 d] r IH]; simpl; auto. destruct (N.eqb k k2); auto. Qed.

Lemma nodup_keys_map_val (val : pstate -> pyval) src :
  nodup_keys (map (fun kp : key * pstate => (fst kp, val (snd kp))) src) = nodup_keys src.
Proof.
  induction src as [|[k2 d] r IH]; simpl; auto. rewrite IH. f_equal. f_equal.
  unfold has_key. rewrite lookup_map_val. destruct (lookup k2 r); auto.
Qed.

Lemma chain_ok : forall steps src e,
  nodup_keys src = true ->
  (forall k d, lookup k src = Some d -> exists p p', lookup k (epars e) = Some p /\ pfold steps d p = Some p') ->
  exists e', chain steps src e = (e', ROk) /\ elabel e' = elabel e /\
    map fst (epars e') = map fst (epars e) /\
    (forall k, lookup k src = None -> lookup k (epars e') = lookup k (epars e)) /\
    (forall k d p, lookup k src = Some d -> lookup k (epars e) = Some p -> lookup k (epars e') = pfold steps d p).
Proof.
  unfold chain. induction steps as [|[g val] rest IH]; intros src e Hnd Hall; simpl.
  - exists e. repeat split; auto.
  - unfold andthen at 2. simpl. unfold setter, kwargs_of, merge. simpl.
    set (pairs := map (fun kp : key * pstate => (fst kp, val (snd kp))) src).
    assert (Hnp : nodup_keys pairs = true) by (unfold pairs; rewrite nodup_keys_map_val; auto).
    destruct (loop_all_ok g pairs (epars e) Hnp) as [ps1 Hloop].
    { intros k v Hl. unfold pairs in Hl. rewrite lookup_map_val in Hl.
      destruct (lookup k src) as [d|] eqn:Ed; [|discriminate]. inversion Hl; subst.
      destruct (Hall _ _ Ed) as (p & p' & Hp & Hf). simpl in Hf.
      destruct (g p (val d)) eqn:Eg; try discriminate. eauto. }
    rewrite Hloop.
    destruct (loop_spec _ _ _ _ _ Hnp Hloop) as (I1 & I2 & I3 & _ & _).
    destruct (IH src (mkE (elabel e) ps1) Hnd) as (e' & Hc & Hlab & Hkeys & Hnone & Hsome).
    { intros k d Ed. destruct (Hall _ _ Ed) as (p & p' & Hp & Hf). simpl in Hf.
      assert (Hkp : lookup k pairs = Some (val d)) by (unfold pairs; rewrite lookup_map_val, Ed; auto).
      destruct (I3 _ _ _ Hkp Hp) as [Hok _]. destruct (Hok eq_refl) as (p1 & Hg & H1).
      rewrite Hg in Hf. simpl. eauto. }
    exists e'. simpl in *. split; auto. split; auto. split; [congruence|]. split.
    + intros k Hk. rewrite Hnone; auto. apply I2. unfold pairs. rewrite lookup_map_val, Hk. auto.
    + intros k d p Ed Hp.
      assert (Hkp : lookup k pairs = Some (val d)) by (unfold pairs; rewrite lookup_map_val, Ed; auto).
      destruct (I3 _ _ _ Hkp Hp) as [Hok _]. destruct (Hok eq_refl) as (p1 & Hg & H1).
      rewrite (Hsome _ _ _ Ed H1). rewrite Hg. auto.
Qed.

(* ---------- reset ---------------------------------------------------------------------------------- *)
Lemma pfold_reset d p : wf_default d = true -> wf_p p = true -> pfold reset_order d p = Some d.
Proof.
  unfold wf_default. rewrite !andb_true_iff. intros [[Hd H1] H2] Hp.
  apply wf_p_iff in Hd. destruct Hd as (D1 & D2 & D3). apply wf_p_iff in Hp. destruct Hp as (P1 & P2 & P3).
  destruct d as [dv dlo dhi dfx], p as [v lo hi fx]. simpl in *.
  unfold g_value, g_lower, g_upper, g_fixed, bind, to_float, xgeb, xgtb. simpl.
  rewrite (xleb_NInf_false _ _ P1). simpl. rewrite xltb_NInf_r.
  rewrite (xleb_NInf_false _ _ D1). simpl. rewrite (xleb_not_gt _ _ H2).
  change (xleb dhi dlo) with (xgeb dlo dhi). rewrite xgeb_not_ltb; auto. rewrite D1. simpl.
  rewrite (xleb_not_gt _ _ H1). auto.
Qed.

Lemma sel_spec ks d :
  if all_known ks d then
    exists src, sel ks d = Ok src /\ map fst src = ks /\
      (forall k p, lookup k src = Some p -> lookup k d = Some p) /\
      (forall k, lookup k src = None <-> ~ In k ks)
  else exists e, sel ks d = Err e.
Proof.
  induction ks as [|k r IH]; simpl.
  - exists []. repeat split; auto; try discriminate. 
  - unfold has_key at 1. destruct (lookup k d) as [p|] eqn:E; simpl.
    + destruct (all_known r d).
      * destruct IH as (src & Hs & Hm & Hl & Hn). rewrite Hs. simpl. exists ((k, p) :: src).
        split; auto. split; [simpl; congruence|]. split.
        -- intros k' p' H. simpl in H. destruct (N.eqb k' k) eqn:E2; auto.
           apply N.eqb_eq in E2. subst. congruence.
        -- intro k'. simpl. destruct (N.eqb k' k) eqn:E2.
           ++ apply N.eqb_eq in E2. subst. split; [discriminate|]. intro H. exfalso. auto.
           ++ apply N.eqb_neq in E2. rewrite Hn. split; [intros H [H'|H']; congruence|tauto].
      * destruct IH as [e He]. rewrite He. simpl. eauto.
    + destruct (sel r d); simpl; eauto.
      destruct (all_known r d); [destruct IH as (src & Hs & _); discriminate|destruct IH as [e0 He]; discriminate].
Qed.

Lemma nodup_list_NoDup l : nodup_list l = true -> NoDup l.
Proof.
  induction l as [|k r IH]; simpl; [constructor|]. rewrite andb_true_iff, negb_true_iff.
  intros [H1 H2]. constructor; auto. intro Hin.
  assert (existsb (N.eqb k) r = true) by (apply existsb_exists; exists k; split; auto; apply N.eqb_refl). congruence.
Qed.

Lemma chain_inv c s src e' steps :
  wf_cls c = true -> Inv c s -> nodup_keys src = true ->
  (forall k d, lookup k src = Some d -> exists p, lookup k (epars s) = Some p /\ exists p', pfold steps d p = Some p' /\ wf_p p' = true) ->
  chain steps src s = (e', ROk) ->
  Inv c e'.
Proof.
  intros Hc [Hk Hwf Hl] Hnd Hall Hch.
  destruct (chain_ok steps src s Hnd) as (e2 & H1 & H2 & H3 & H4 & H5).
  { intros k d Hd. destruct (Hall _ _ Hd) as (p & Hp & p' & Hf & _). eauto. }
  rewrite H1 in Hch. inversion Hch; subst e2.
  constructor; [congruence| |congruence].
  intros k p' Hp'. destruct (lookup k src) as [d|] eqn:Ed.
  - destruct (Hall _ _ Ed) as (p & Hp & p2 & Hf & Hw). rewrite (H5 _ _ _ Ed Hp) in Hp'. congruence.
  - rewrite H4 in Hp'; eauto.
Qed.

Lemma reset_src_step c s src ks :
  wf_cls c = true -> Inv c s -> nodup_keys src = true ->
  (forall k p, lookup k src = Some p -> lookup k (cdefaults c) = Some p) ->
  (forall k p, lookup k (epars s) = Some p -> (lookup k src = None <-> (ks <> [] /\ ~ In k ks))) ->
  all_known ks (cdefaults c) = true ->
  Inv c (fst (chain reset_order src s)) /\
  reset_ok (cdefaults c) ks s (snd (chain reset_order src s)) (fst (chain reset_order src s)) = true.
Proof.
  intros Hc HI Hnd Hsub Hnone Hknown. pose proof HI as [Hk Hwf Hl].
  assert (HND : NoDup (map fst (epars s))) by (rewrite Hk; apply wf_cls_nodup; auto).
  assert (Hall : forall k d, lookup k src = Some d ->
            exists p, lookup k (epars s) = Some p /\ exists p', pfold reset_order d p = Some p' /\ wf_p p' = true).
  { intros k d Hd. pose proof (Hsub _ _ Hd) as Hdd.
    destruct (lookup_some_keys _ (epars s) _ _ (eq_sym Hk) Hdd) as [p Hp]. exists p. split; auto.
    pose proof (wf_cls_default _ _ _ Hc Hdd) as Hwd. exists d. split; [|apply wf_default_wf; auto].
    apply pfold_reset; eauto. }
  destruct (chain_ok reset_order src s Hnd) as (e' & H1 & H2 & H3 & H4 & H5).
  { intros k d Hd. destruct (Hall _ _ Hd) as (p & Hp & p' & Hf & _). eauto. }
  rewrite H1. simpl. split; [eapply chain_inv; eauto|].
  unfold reset_ok. rewrite Hknown. simpl. rewrite H2, label_eqb_refl. simpl.
  rewrite same_keys_of_map; auto. simpl.
  apply forallb_forall. intros [k p] Hin. simpl.
  pose proof (in_lookup _ _ _ HND Hin) as Hp.
  destruct (lookup_some_keys _ (cdefaults c) _ _ Hk Hp) as [dp Hdp]. rewrite Hdp.
  destruct (lookup k src) as [d|] eqn:Ed.
  - rewrite (H5 _ _ _ Ed Hp). pose proof (Hsub _ _ Ed) as Hdd. rewrite Hdd in Hdp. inversion Hdp; subst dp.
    rewrite pfold_reset; eauto using wf_cls_default.
    assert (Hsel : match ks with [] => true | _ :: _ => existsb (N.eqb k) ks end = true).
    { destruct ks; auto. apply existsb_exists. exists k. split; [|apply N.eqb_refl].
      destruct (in_dec N.eq_dec k (k0 :: ks)); auto. exfalso.
      assert (lookup k src = None) by (apply (Hnone _ _ Hp); split; [discriminate|auto]). congruence. }
    rewrite Hsel. apply psame_refl.
  - rewrite (H4 _ Ed), Hp. apply (Hnone _ _ Hp) in Ed. destruct Ed as [Hne Hni].
    assert (Hsel : match ks with [] => true | _ :: _ => existsb (N.eqb k) ks end = false).
    { destruct ks; [congruence|]. destruct (existsb (N.eqb k) (k0 :: ks)) eqn:Ex; auto.
      apply existsb_exists in Ex. destruct Ex as (x & Hx & Hxe). apply N.eqb_eq in Hxe. subst. tauto. }
    rewrite Hsel. apply psame_refl.
Qed.

Lemma reset_all_step c s ks :
  wf_cls c = true -> Inv c s -> nodup_list ks = true ->
  Inv c (fst (reset_parameters c s ks)) /\
  reset_ok (cdefaults c) ks s (snd (reset_parameters c s ks)) (fst (reset_parameters c s ks)) = true.
Proof.
  intros Hc HI Hnd. unfold reset_parameters. pose proof (sel_spec ks (cdefaults c)) as Hs.
  assert (Hcn : nodup_keys (cdefaults c) = true) by (apply nodup_keys_NoDup, wf_cls_nodup; auto).
  destruct ks as [|k0 r].
  - apply reset_src_step; auto.
    intros k p Hp. split; [|intros [H _]; congruence].
    intro H. exfalso. destruct HI as [Hk _ _].
    destruct (lookup_some_keys _ (cdefaults c) _ _ Hk Hp) as [d Hd]. congruence.
  - destruct (all_known (k0 :: r) (cdefaults c)) eqn:Ek.
    + destruct Hs as (src & Hsel & Hm & Hl & Hn). rewrite Hsel.
      apply reset_src_step; auto.
      * apply nodup_keys_NoDup. rewrite Hm. apply nodup_list_NoDup; auto.
      * intros k p _. rewrite Hn. split; [intro H; split; [discriminate|auto]|tauto].
    + destruct Hs as [e He]. rewrite He. simpl. split; auto. unfold reset_ok. rewrite Ek. simpl. apply esame_refl.
Qed.

Lemma reset_one_step c s k :
  wf_cls c = true -> Inv c s ->
  Inv c (fst (reset_parameter c s k)) /\
  reset_ok (cdefaults c) [k] s (snd (reset_parameter c s k)) (fst (reset_parameter c s k)) = true.
Proof.
  intros Hc HI. unfold reset_parameter. destruct (lookup k (cdefaults c)) as [d|] eqn:Ed.
  - apply reset_src_step; auto.
    + intros k' p'. simpl. destruct (N.eqb k' k) eqn:E; [|discriminate].
      apply N.eqb_eq in E. subst. congruence.
    + intros k' p' _. simpl. destruct (N.eqb k' k) eqn:E.
      * apply N.eqb_eq in E. subst. split; [discriminate|]. intros [_ H]. exfalso. apply H. auto.
      * apply N.eqb_neq in E. split; auto. intros _. split; [discriminate|]. intros [H|[]]. congruence.
    + simpl. unfold has_key. rewrite Ed. auto.
  - simpl. split; auto. unfold reset_ok. simpl. unfold has_key. rewrite Ed. simpl. apply esame_refl.
Qed.

(* ---------- copies ---------------------------------------------------------------------------------- *)
Lemma pfold_copy_element p d : wf_p p = true -> wf_p d = true -> pfold copy_order_element p d = Some p.
Proof.
  intros Hp Hd. apply wf_p_iff in Hd. destruct Hd as (D1 & D2 & D3). apply wf_p_iff in Hp. destruct Hp as (P1 & P2 & P3).
  destruct d as [dv dlo dhi dfx], p as [v lo hi fx]. simpl in *.
  unfold g_value, g_lower, g_upper, g_fixed, bind, to_float, xgeb, xgtb. simpl.
  rewrite (xleb_NInf_false _ _ D1). simpl.
  rewrite (xleb_NInf_false _ _ P1). simpl.
  change (xleb hi lo) with (xgeb lo hi). rewrite xgeb_not_ltb; auto. rewrite P1. simpl. auto.
Qed.

Definition pwithin (p : pstate) : bool := xleb (plo p) (pv p) && xleb (pv p) (phi p).

Lemma pfold_copy_container p d :
  wf_p p = true -> wf_p d = true ->
  exists p', pfold copy_order_container p (mkP (pv p) (plo d) (phi d) (pfx d)) = Some p' /\ wf_p p' = true /\
             (pwithin p = true -> p' = p).
Proof.
  intros Hp Hd. apply wf_p_iff in Hd. destruct Hd as (D1 & D2 & D3). pose proof Hp as Hp0.
  apply wf_p_iff in Hp. destruct Hp as (P1 & P2 & P3).
  destruct d as [dv dlo dhi dfx], p as [v lo hi fx]. simpl in *.
  unfold g_value, g_lower, g_upper, g_fixed, bind, to_float, xgeb, xgtb. simpl.
  rewrite (xleb_NInf_false _ _ D1). simpl. rewrite xltb_NInf_r.
  rewrite (xleb_NInf_false _ _ P1). simpl.
  change (xleb hi lo) with (xgeb lo hi). rewrite xgeb_not_ltb; auto. rewrite P1. simpl.
  eexists. split; [reflexivity|]. split.
  - apply wf_p_iff. simpl. auto.
  - unfold pwithin. simpl. rewrite andb_true_iff. intros [H1 H2].
    rewrite (xleb_not_gt _ _ H2). rewrite (xleb_not_gt _ _ H1). auto.
Qed.

Lemma lookup_init_with_values defs src k :
  lookup k (epars (init_with_values (mkC defs false) src)) =
  match lookup k defs with
  | Some d => Some (match lookup k src with Some p => mkP (pv p) (plo d) (phi d) (pfx d) | None => d end)
  | None => None
  end.
Proof.
  unfold init_with_values. simpl. induction defs as [|[k2 d] r IH]; simpl; auto.
  destruct (lookup k2 src) eqn:E2; simpl; destruct (N.eqb k k2) eqn:E; auto.
  - apply N.eqb_eq in E. subst. rewrite E2. auto.
  - apply N.eqb_eq in E. subst. rewrite E2. auto.
Qed.

Lemma init_with_values_any c src : init_with_values c src = init_with_values (mkC (cdefaults c) false) src.
Proof. reflexivity. Qed.

Lemma map_fst_init c src : map fst (epars (init_with_values c src)) = map fst (cdefaults c).
Proof.
  unfold init_with_values. simpl. induction (cdefaults c) as [|[k d] r IH]; simpl; auto.
  rewrite IH. destruct (lookup k src); auto.
Qed.

Lemma set_label_ok_same e l : label_ok l = true -> set_label e (VStr l) = (mkE l (epars e), ROk).
Proof.
  intro H. unfold set_label. rewrite (label_ok_strip _ H). destruct l as [|ch r]; auto.
  unfold label_ok in H. rewrite !andb_true_iff, !negb_true_iff in H. destruct H as [[[_ _] Ha] Hd].
  rewrite Ha, Hd. auto.
Qed.

Lemma copy_step c s :
  wf_cls c = true -> Inv c s ->
  exists cp, do_copy c s = (cp, ROk) /\ Inv c cp /\
    (ccontainer c = false \/ within_limits (epars s) = true -> cp = s).
Proof.
  intros Hc HI. pose proof HI as [Hk Hwf Hl]. unfold do_copy.
  assert (HND : NoDup (map fst (epars s))) by (rewrite Hk; apply wf_cls_nodup; auto).
  assert (Hnd : nodup_keys (epars s) = true) by (apply nodup_keys_NoDup; auto).
  destruct (ccontainer c) eqn:Ec.
  - (* container *)
    set (start := init_with_values c (epars s)).
    assert (Hstart : forall k p, lookup k (epars s) = Some p ->
              exists d, lookup k (cdefaults c) = Some d /\ lookup k (epars start) = Some (mkP (pv p) (plo d) (phi d) (pfx d))).
    { intros k p Hp. destruct (lookup_some_keys _ (cdefaults c) _ _ Hk Hp) as [d Hd]. exists d. split; auto.
      unfold start. rewrite init_with_values_any, lookup_init_with_values, Hd, Hp. auto. }
    destruct (chain_ok copy_order_container (epars s) start Hnd) as (e' & H1 & H2 & H3 & H4 & H5).
    { intros k p Hp. destruct (Hstart _ _ Hp) as (d & Hd & Hs).
      destruct (pfold_copy_container p d) as (p' & Hf & _); eauto using wf_default_wf, wf_cls_default. }
    rewrite H1. unfold andthen. cbn [snd fst]. rewrite set_label_ok_same; auto.
    eexists. split; [reflexivity|]. split.
    + constructor; simpl; auto.
      * rewrite H3. unfold start. apply map_fst_init.
      * intros k p' Hp'. destruct (lookup k (epars s)) as [p|] eqn:Ep.
        -- destruct (Hstart _ _ Ep) as (d & Hd & Hs). rewrite (H5 _ _ _ Ep Hs) in Hp'.
           destruct (pfold_copy_container p d) as (p2 & Hf & Hw & _); eauto using wf_default_wf, wf_cls_default.
           congruence.
        -- exfalso. assert (lookup k (epars e') = None); [|congruence].
           eapply lookup_same_keys; [|exact Ep]. rewrite H3. unfold start. rewrite map_fst_init. auto.
    + intros [H|Hw]; [discriminate|].
      assert (Heq : epars e' = epars s); [|cbn [epars elabel]; rewrite Heq; destruct s; auto].
      apply lookup_ext_eq.
      * rewrite H3. unfold start. rewrite map_fst_init. auto.
      * rewrite H3. unfold start. rewrite map_fst_init, <- Hk. auto.
      * intro k. destruct (lookup k (epars s)) as [p|] eqn:Ep.
        -- destruct (Hstart _ _ Ep) as (d & Hd & Hs). rewrite (H5 _ _ _ Ep Hs).
           destruct (pfold_copy_container p d) as (p2 & Hf & _ & Heq); eauto using wf_default_wf, wf_cls_default.
           rewrite Hf. f_equal. apply Heq. unfold within_limits in Hw. rewrite forallb_forall in Hw.
           apply lookup_in in Ep. apply (Hw _ Ep).
        -- eapply lookup_same_keys; [|exact Ep]. rewrite H3. unfold start. rewrite map_fst_init. auto.
  - (* plain element *)
    assert (Hstart : forall k p, lookup k (epars s) = Some p -> exists d, lookup k (epars (fresh c)) = Some d /\ wf_p d = true).
    { intros k p Hp. destruct (lookup_some_keys _ (cdefaults c) _ _ Hk Hp) as [d Hd]. exists d. split; auto.
      eauto using wf_default_wf, wf_cls_default. }
    destruct (chain_ok copy_order_element (epars s) (fresh c) Hnd) as (e' & H1 & H2 & H3 & H4 & H5).
    { intros k p Hp. destruct (Hstart _ _ Hp) as (d & Hd & Hw). exists d, p. split; auto.
      apply pfold_copy_element; eauto. }
    rewrite H1. unfold andthen. cbn [snd fst]. rewrite set_label_ok_same; auto.
    assert (Heq : epars e' = epars s).
    { apply lookup_ext_eq.
      * rewrite H3. simpl. auto.
      * rewrite H3. simpl. apply wf_cls_nodup; auto.
      * intro k. destruct (lookup k (epars s)) as [p|] eqn:Ep.
        -- destruct (Hstart _ _ Ep) as (d & Hd & Hw). rewrite (H5 _ _ _ Ep Hd). apply pfold_copy_element; eauto.
        -- eapply lookup_same_keys; [|exact Ep]. rewrite H3. simpl. auto. }
    eexists. split; [reflexivity|]. rewrite Heq. destruct s; simpl in *. split; auto.
Qed.

(* ---------- every step of the model satisfies the property predicate ------------------------------- *)
Lemma Inv_inv_ps c s : wf_cls c = true -> Inv c s -> inv_ps (epars s) = true.
Proof.
  intros Hc [Hk Hwf _]. apply forallb_forall. intros [k p] Hin. simpl.
  assert (HND : NoDup (map fst (epars s))) by (rewrite Hk; apply wf_cls_nodup; auto).
  pose proof (Hwf _ _ (in_lookup _ _ _ HND Hin)) as H. apply wf_p_iff in H. tauto.
Qed.

Lemma step_all c s o :
  wf_cls c = true -> Inv c s -> op_ok o = true ->
  step_ok c s o (step c s o) = true /\ Inv c (oelt (step c s o)).
Proof.
  intros Hc HI Hop. unfold op_ok in Hop. apply andb_true_iff in Hop. destruct Hop as [Hnan Hnd].
  unfold step_ok, step.
  destruct o as [a|a|a|a|v|ks|k| |]; simpl in Hnan, Hnd.
  - destruct (setter_step Kvalue c s a Hc HI Hnd I) as (H1 & H2 & H3). simpl in *.
    destruct (setter g_value s a) as [s' r]. simpl in *.
    rewrite (Inv_inv_ps _ _ Hc H1), H2, H3, label_eqb_refl. auto.
  - destruct (setter_step Klower c s a Hc HI Hnd Hnan) as (H1 & H2 & H3). simpl in *.
    destruct (setter g_lower s a) as [s' r]. simpl in *.
    rewrite (Inv_inv_ps _ _ Hc H1), H2, H3, label_eqb_refl. auto.
  - destruct (setter_step Kupper c s a Hc HI Hnd Hnan) as (H1 & H2 & H3). simpl in *.
    destruct (setter g_upper s a) as [s' r]. simpl in *.
    rewrite (Inv_inv_ps _ _ Hc H1), H2, H3, label_eqb_refl. auto.
  - destruct (setter_step Kfixed c s a Hc HI Hnd I) as (H1 & H2 & H3). simpl in *.
    destruct (setter g_fixed s a) as [s' r]. simpl in *.
    rewrite (Inv_inv_ps _ _ Hc H1), H2, H3, label_eqb_refl. auto.
  - destruct (set_label_step c s v HI) as (H1 & H2 & H3).
    destruct (set_label s v) as [s' r]. simpl in *.
    rewrite (Inv_inv_ps _ _ Hc H1), H2. auto.
  - destruct (reset_all_step c s ks Hc HI Hnd) as (H1 & H2).
    destruct (reset_parameters c s ks) as [s' r]. simpl in *.
    rewrite (Inv_inv_ps _ _ Hc H1), H2. auto.
  - destruct (reset_one_step c s k Hc HI) as (H1 & H2).
    destruct (reset_parameter c s k) as [s' r]. simpl in *.
    rewrite (Inv_inv_ps _ _ Hc H1), H2. auto.
  - destruct (copy_step c s Hc HI) as (cp & H1 & H2 & H3). rewrite H1. simpl.
    rewrite (Inv_inv_ps _ _ Hc HI), esame_refl. simpl. split; auto.
    destruct (within_limits (epars s)) eqn:Ew; auto. rewrite H3; auto. apply esame_refl.
  - destruct (copy_step c s Hc HI) as (cp & H1 & H2 & H3). rewrite H1. simpl.
    rewrite (Inv_inv_ps _ _ Hc HI), esame_refl. simpl. split; auto.
    destruct (within_limits (epars s)) eqn:Ew; auto. rewrite H3; auto. apply esame_refl.
Qed.

Lemma run_holds c other : wf_cls c = true -> forall ops s,
  Inv c s -> forallb op_ok ops = true ->
  holds_on c other s (wrun c other s ops) = true.
Proof.
  intros Hc. unfold wrun. induction ops as [|o r IH]; intros s HI Hops; simpl; auto.
  apply andb_true_iff in Hops. destruct Hops as [Ho Hr].
  destruct (step_all c s o Hc HI Ho) as [H1 H2].
  rewrite H1, esame_refl, pars_same_refl. simpl. apply IH; auto.
Qed.

Lemma run_inv c : wf_cls c = true -> forall ops s,
  Inv c s -> forallb op_ok ops = true ->
  Forall (fun oo => Inv c (oelt (snd oo))) (run c s ops).
Proof.
  intros Hc. induction ops as [|o r IH]; intros s HI Hops; simpl; constructor.
  - simpl. apply andb_true_iff in Hops. destruct Hops as [Ho Hr]. apply (step_all c s o Hc HI Ho).
  - simpl in Hops. apply andb_true_iff in Hops. destruct Hops as [Ho Hr]. apply IH; auto.
    apply (step_all c s o Hc HI Ho).
Qed.

(* ---------- exact statements used by Props/C14.v ---------------------------------------------------- *)
Definition final (c : cls) (s : elt) (ops : list eop) : elt :=
  fold_left (fun e o => oelt (step c e o)) ops s.

Lemma final_inv c : wf_cls c = true -> forall ops s, Inv c s -> forallb op_ok ops = true -> Inv c (final c s ops).
Proof.
  intros Hc. unfold final. induction ops as [|o r IH]; intros s HI Hops; simpl; auto.
  apply andb_true_iff in Hops. destruct Hops as [Ho Hr]. apply IH; auto. apply (step_all c s o Hc HI Ho).
Qed.

Lemma reset_all_exact c s :
  wf_cls c = true -> Inv c s ->
  reset_parameters c s [] = (mkE (elabel s) (cdefaults c), ROk).
Proof.
  intros Hc HI. pose proof HI as [Hk Hwf Hl]. unfold reset_parameters.
  assert (Hcn : nodup_keys (cdefaults c) = true) by (apply nodup_keys_NoDup, wf_cls_nodup; auto).
  destruct (chain_ok reset_order (cdefaults c) s Hcn) as (e' & H1 & H2 & H3 & H4 & H5).
  { intros k d Hd. destruct (lookup_some_keys _ (epars s) _ _ (eq_sym Hk) Hd) as [p Hp].
    exists p, d. split; auto. apply pfold_reset; eauto using wf_cls_default. }
  rewrite H1. f_equal. destruct e' as [l ps]. simpl in *. f_equal; auto.
  apply lookup_ext_eq.
  - congruence.
  - rewrite H3, Hk. apply wf_cls_nodup; auto.
  - intro k. destruct (lookup k (cdefaults c)) as [d|] eqn:Ed.
    + destruct (lookup_some_keys _ (epars s) _ _ (eq_sym Hk) Ed) as [p Hp].
      rewrite (H5 _ _ _ Ed Hp). apply pfold_reset; eauto using wf_cls_default.
    + eapply lookup_same_keys; [|exact Ed]. congruence.
Qed.

Lemma single_refused kd s k v s' r :
  setter (g_of kd) s (mkA [(k, v)] [] false) = (s', r) -> r <> ROk -> s' = s.
Proof.
  unfold setter. change (merge (mkA [(k, v)] [] false)) with (@Ok (list (key * pyval)) [(k, v)]).
  destruct (loop (g_of kd) (epars s) [(k, v)]) as [ps r0] eqn:El.
  intros H Hr. 
  destruct (loop_spec _ _ _ _ _ (eq_refl : nodup_keys [(k, v)] = true) El) as (_ & _ & _ & _ & I5).
  rewrite El in H. assert (Hr0 : r0 = r) by congruence. assert (Hs' : mkE (elabel s) ps = s') by congruence.
  rewrite Hr0 in I5. rewrite <- Hs'.
  assert (Hps : ps = epars s) by (apply I5; [exact Hr|reflexivity]). rewrite Hps. destruct s; auto.
Qed.

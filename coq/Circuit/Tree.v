(* Circuit/Tree.v — circuit trees, the registry table used by tokenizer/parser/printer models,
   and strings as lists of code points. *)
From Coq Require Import ZArith QArith Bool List.
From PV Require Import Base.Num Base.Outcome Circuit.ElemState.
Import ListNotations.

Definition str := list N.

Fixpoint str_eqb (a b : str) : bool :=
  match a, b with
  | [], [] => true
  | x :: a', y :: b' => N.eqb x y && str_eqb a' b'
  | _, _ => false
  end.

(* an element: index of its class in the registry, its label and parameters, and (for containers) its
   sub-circuits in the class's key order; [None] = open *)
Inductive node :=
  | NE (ci : nat) (st : elt) (subs : list (option conn))
  | NC (c : conn)
with conn :=
  | Ser (l : list node)
  | Par (l : list node).

Record rcls := mkR {
  r_sym : str;
  r_keys : list str;               (* parameter keys, in dictionary order *)
  r_cls : cls;                     (* defaults (keys numbered 0..) and container flag *)
  r_subkeys : list str;            (* sub-circuit keys, in dictionary order *)
  r_subdefaults : list (option conn) }.

Definition registry := list rcls.

Fixpoint find_sym (s : str) (reg : registry) (i : nat) : option (nat * rcls) :=
  match reg with
  | [] => None
  | r :: rest => if str_eqb s (r_sym r) then Some (i, r) else find_sym s rest (S i)
  end.

Fixpoint index_of (s : str) (l : list str) (i : nat) : option nat :=
  match l with
  | [] => None
  | x :: r => if str_eqb s x then Some i else index_of s r (S i)
  end.

(* Connection.get_elements() of a connection is empty: no element anywhere in the nesting of connections *)
Fixpoint no_elements_node (fuel : nat) (n : node) : bool :=
  match fuel with
  | O => false
  | S f => match n with NE _ _ _ => false | NC c => no_elements_conn f c end
  end
with no_elements_conn (fuel : nat) (c : conn) : bool :=
  match fuel with
  | O => false
  | S f => match c with Ser l | Par l => forallb (no_elements_node f) l end
  end.

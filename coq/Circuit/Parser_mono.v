From Coq Require Import ZArith NArith QArith Bool List Lia.
From PV Require Import Base.Num Base.Outcome Circuit.ElemState Circuit.Tree Circuit.Token Circuit.Registry Circuit.Parser Circuit.Printer
  Circuit.Parser_facts Circuit.Token_decode Circuit.Printer_lex Circuit.Parser_basic.
Import ListNotations.
Local Open Scope nat_scope.

Section Mono.
Variable reg : registry.

Lemma flat_children_ext pn1 pn2 series : forall l,
  (forall x, In x l -> pn1 x = pn2 x) -> flat_children pn1 series l = flat_children pn2 series l.
Proof.
  induction l as [|x l IH]; intro H; [reflexivity|]. cbn [flat_children].
  rewrite (H x (or_introl eq_refl)). fold (flat_children pn1 series l). fold (flat_children pn2 series l).
  rewrite IH; [reflexivity|]. intros y Hy. apply H. right. exact Hy.
Qed.

Lemma forall2_in_l {A B} (R : A -> B -> Prop) l l' : Forall2 R l l' -> forall x, In x l -> exists y, R x y.
Proof. induction 1 as [|a b l l' Hab _ IH]; intros x Hin; [destruct Hin|destruct Hin as [<- | Hx]; eauto]. Qed.

(* more printing fuel changes neither the text nor the specified result *)
Lemma fuel_mono pf :
  (forall n n', pnode reg pf n = Some n' -> forall k, pnode reg (pf + k) n = Some n' /\ node_items (pf + k) reg n = node_items pf reg n) /\
  (forall c n', pconn reg pf c = Some n' -> forall k, pconn reg (pf + k) c = Some n' /\ conn_items (pf + k) reg c = conn_items pf reg c).
Proof.
  induction pf as [|f [IHn IHc]]; [split; intros; discriminate|]. split.
  - intros [ci st subs|c] n' H k; cbn [Nat.add].
    + rewrite pnode_S_elem in *. split; [exact H|reflexivity].
    + rewrite pnode_S_conn in *. cbn [node_items]. apply IHc; exact H.
  - assert (Hch : forall series l items, flat_children (pnode reg f) series l = Some items -> forall k,
              flat_children (pnode reg (f + k)) series l = Some items /\
              flat_map (node_items (f + k) reg) l = flat_map (node_items f reg) l).
    { intros series l items H k. destruct (flat_children_inv _ _ _ _ H) as (l' & HF & _).
      assert (Hx : forall x, In x l -> pnode reg (f + k) x = pnode reg f x /\ node_items (f + k) reg x = node_items f reg x).
      { intros x Hin. destruct (forall2_in_l _ _ _ HF x Hin) as (x' & Hx'). destruct (IHn x x' Hx' k) as [H1 H2].
        split; [congruence|exact H2]. }
      split.
      - rewrite <- H. apply flat_children_ext. intros x Hin. apply (Hx x Hin).
      - clear -Hx. induction l as [|x l IH]; [reflexivity|]. cbn [flat_map].
        rewrite (proj2 (Hx x (or_introl eq_refl))), IH; [reflexivity|]. intros y Hy. apply Hx. right. exact Hy. }
    intros [l|l] n' H k; cbn [Nat.add].
    + rewrite pconn_S_ser in *. cbn [conn_items].
      destruct (flat_children (pnode reg f) true l) as [items|] eqn:Efc; [|discriminate].
      destruct (Hch _ _ _ Efc k) as [H1 H2]. rewrite H1, H2. split; [exact H|reflexivity].
    + rewrite pconn_S_par in *. cbn [conn_items].
      destruct (flat_children (pnode reg f) false l) as [items|] eqn:Efc; [|discriminate].
      destruct (Hch _ _ _ Efc k) as [H1 H2]. rewrite H1, H2. split; [exact H|reflexivity].
Qed.

End Mono.

Theorem basic_parse_any_fuel (reg : registry) :
  syms_valid reg = true -> syms_unique reg = true ->
  forall pf c n', pconn reg pf c = Some n' -> 2 * pf <= depth_budget ->
  forall k, parse reg (to_string reg None c (pf + k)) = Ok (top n').
Proof.
  intros Hv Hu pf c n' Hp Hd k.
  assert (Hv' : forall r, In r reg -> valid_symbol (r_sym r) = true).
  { intros r Hr. unfold syms_valid in Hv. rewrite forallb_forall in Hv. auto. }
  rewrite <- (basic_parse reg Hv Hu pf c n' Hp Hd). f_equal. unfold to_string.
  rewrite <- (proj2 (items_text (pf + k) reg) c), <- (proj2 (items_text pf reg) c).
  rewrite (proj2 (proj2 (fuel_mono reg pf) c n' Hp k)). reflexivity.
Qed.

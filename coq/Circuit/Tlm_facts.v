(* Circuit/Tlm_facts.v — the general transmission-line model: the numeric route (TransmissionLineModel._impedance with _eq8.._eq20)
   and the symbolic route (TransmissionLineModel._sympy) compute the same function of the sub-circuit states and L, and refuse the
   same configurations.  Both definitions are regenerated from transmission_line_model.py (gen/Tlm_gen.v). *)
From Coq Require Import Reals ZArith.
From Coquelicot Require Import Coquelicot.
From PV Require Import Cx.CFun Circuit.TlmBase gen.Tlm_gen.
Open Scope C_scope.

Ltac tlm_case S :=
  unfold tlm_impl, tlm_sym; cbn [is_open is_short andb orb];
  first [ reflexivity
        | cbv zeta; cbn [is_open is_short andb orb]; f_equal;
          unfold tlm_eq8, tlm_eq16, tlm_eq17, tlm_eq18, tlm_eq18_variant, tlm_eq19, tlm_eq20; cbn [sub_val];
          timeout 120 (ceq S) ].

Theorem tlm_impl_eq_sym : forall (S : syms) (x1 x2 za zb ze : sub) (L : C),
  tlm_impl S x1 x2 za zb ze L = tlm_sym S x1 x2 za zb ze L.
Proof.
  intros S x1 x2 za zb ze L.
  destruct x1 as [| |x1]; destruct x2 as [| |x2]; destruct ze as [| |ze]; try (unfold tlm_impl, tlm_sym; cbn [is_open is_short andb orb]; reflexivity);
    destruct za as [| |za]; destruct zb as [| |zb]; tlm_case S.
Qed.

(* the refused configurations are exactly: X_1 or X_2 open, both short, Zeta open or short *)
Theorem tlm_refused_iff : forall (S : syms) (x1 x2 za zb ze : sub) (L : C),
  tlm_impl S x1 x2 za zb ze L = None <->
  (is_open x1 || is_open x2 || (is_short x1 && is_short x2) || is_open ze || is_short ze = true)%bool.
Proof.
  intros S x1 x2 za zb ze L. unfold tlm_impl.
  destruct x1, x2, ze; cbn [is_open is_short andb orb]; try (split; [reflexivity|reflexivity]);
    destruct za, zb; cbn [is_open is_short andb orb]; cbv zeta; split; intro H; discriminate.
Qed.

(* with all five sub-circuits present (neither open nor short) the element computes its documented equation *)
Theorem tlm_general_is_documented_equation : forall (S : syms) (x1 x2 za zb ze L : C),
  tlm_impl S (SVal x1) (SVal x2) (SVal za) (SVal zb) (SVal ze) L = Some (tlm_eqn S x1 x2 za zb ze L).
Proof.
  intros. unfold tlm_impl. cbn [is_open is_short andb orb]. cbv zeta. f_equal.
  unfold tlm_eq16, tlm_eqn. cbn [sub_val]. timeout 300 (ceq S).
Qed.

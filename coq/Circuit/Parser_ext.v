(* Circuit/Parser_ext.v — the extended syntax, token level: from the tokens of an element written with all its parameters
   (key=value[F]/lower/upper, limits possibly `inf`, in the class's key order), an optional label and the closing brace, the parser
   reads back exactly those values, limits, fixed flags and the label, and hands them to the constructor model [build_element]; for
   an element whose values lie within its limits the constructor returns that very element.  Then, for every tree of such elements
   (no container elements), the parser rebuilds the printed tree with nested same-kind connections merged and one-element series
   unwrapped — the extended counterpart of Parser_basic.v. *)
From Coq Require Import ZArith NArith QArith Bool List Lia.
From PV Require Import Base.Num Base.Outcome Circuit.ElemState Circuit.ElemProp Circuit.ElemState_facts Circuit.Tree Circuit.Token Circuit.Registry Circuit.Parser
  Circuit.Printer Circuit.Parser_facts Circuit.Token_decode Circuit.Token_ext Circuit.Printer_lex Circuit.Parser_basic.
Import ListNotations.
Local Open Scope nat_scope.

(* ---- tokens of a printed element -------------------------------------------------------------------------------------------- *)
(* [nstr]: the source text the scanner keeps for a number is irrelevant to the parser (only [tnum] is read) *)
Definition num_tok (fixed : bool) (x : xnum) : tok := mkTok (if fixed then KFixed else KNumber) [] x.
Definition limit_toks (x : xnum) : list tok := if is_inf x then [ident_tok str_inf] else [num_tok false x].

Definition param_toks (name : str) (p : pstate) : list tok :=
  [ident_tok name; ptok KEq; num_tok (pfx p) (pv p); ptok KSlash] ++ limit_toks (plo p) ++ [ptok KSlash] ++ limit_toks (phi p).

Fixpoint params_toks (names : list str) (ps : list pstate) : list tok :=
  match names, ps with
  | n :: nr, p :: pr => param_toks n p ++ (match pr with [] => [] | _ => ptok KComma :: params_toks nr pr end)
  | _, _ => []
  end.

Definition label_toks (l : str) : list tok := match l with [] => [] | _ => [ptok KColon; mkTok KLabel l (Fin 0%Q)] end.

(* a parameter the printer can write and the scanner can read back as numbers: finite value, limits that are numbers or the
   infinity on their own side, value within the limits *)
Definition printable (p : pstate) : bool :=
  match pv p with Fin _ => true | _ => false end
  && negb (is_nan (plo p)) && negb (is_nan (phi p))
  && match plo p with PInf => false | _ => true end && match phi p with NInf => false | _ => true end
  && xleb (plo p) (pv p) && xleb (pv p) (phi p).

Definition is_end (rest : list tok) : Prop :=
  match rest with t :: _ => tk t = KComma \/ tk t = KColon \/ tk t = KRCur | [] => False end.

Lemma is_end_not (rest : list tok) (st : list sk) (k : tkind) : is_end rest -> k = KPct \/ k = KSlash -> accept k (mkPS rest st) = false.
Proof.
  destruct rest as [|t r]; simpl; [tauto|]. intros H Hk. unfold accept. simpl.
  destruct Hk as [-> | ->]; destruct H as [-> | [-> | ->]]; reflexivity.
Qed.

Lemma param_limit_exact (v : xnum) (upper : bool) (x : xnum) (rest : list tok) (st : list sk) :
  is_nan x = false -> (if upper : bool then x <> NInf else x <> PInf) ->
  (match rest with t :: _ => tk t <> KPct | [] => True end) ->
  param_limit v upper (mkPS (limit_toks x ++ rest) st) = Ok (x, mkPS rest st).
Proof.
  intros Hn Hs Hr. unfold limit_toks. destruct x as [q| | |]; try discriminate; cbn [is_inf app].
  - unfold param_limit. cbn. destruct rest as [|t r]; cbn; [reflexivity|].
    unfold accept. cbn. rewrite (tkind_eqb_neq _ _ Hr). reflexivity.
  - destruct upper; [|congruence]. reflexivity.
  - destruct upper; [congruence|]. reflexivity.
Qed.

Lemma param_exact name p rest st :
  printable p = true -> is_end rest ->
  param (mkPS (skipn 2 (param_toks name p) ++ rest) st) = Ok ((pv p, plo p, phi p, pfx p), mkPS rest st).
Proof.
  unfold printable. rewrite !andb_true_iff, !negb_true_iff. intros [[[[[[Hv Hlo] Hhi] Hlp] Hhn] _] _] Hend.
  unfold param_toks. cbn [skipn app].
  unfold param. assert (En : expect_number (mkPS (num_tok (pfx p) (pv p) :: (ptok KSlash :: limit_toks (plo p) ++ [ptok KSlash] ++ limit_toks (phi p)) ++ rest) st) = Ok tt).
  { unfold expect_number, num_tok. cbn. destruct (pfx p); reflexivity. }
  cbn [app] in *. rewrite En. cbn [bind]. unfold pop_token at 1. cbn [ptoks pstack bind].
  rewrite accept_cons. cbn [ptok tk tkind_eqb]. unfold pop_token at 1. cbn [ptoks pstack bind].
  assert (Hns : accept KSlash (mkPS ((limit_toks (plo p) ++ ptok KSlash :: limit_toks (phi p)) ++ rest) st) = false).
  { unfold limit_toks. destruct (is_inf (plo p)); reflexivity. }
  rewrite Hns. rewrite <- app_assoc.
  rewrite param_limit_exact; [|exact Hlo|destruct (plo p); congruence|cbn; discriminate].
  cbn [bind app]. rewrite accept_cons. cbn [ptok tk tkind_eqb]. unfold pop_token at 1. cbn [ptoks pstack bind].
  rewrite param_limit_exact; [|exact Hhi|destruct (phi p); congruence|].
  - cbn [bind]. unfold num_tok. cbn [tk tnum]. destruct (pfx p); reflexivity.
  - destruct rest as [|t r]; [exact I|]. simpl in Hend. destruct Hend as [-> | [-> | ->]]; discriminate.
Qed.

(* ---- the loop of parameters() as a function of its own ------------------------------------------------------------------ *)
Section Ext.
Variable reg : registry.

Fixpoint ploop (f D : nat) (r : rcls) (n : nat) (pkeys skeys : list str) (d : pdefs) (q : pst) : outcome (pdefs * pst) :=
  match pkeys, skeys with
  | [], [] => Ok (d, q)
  | _, _ =>
    match n with
    | O => Crash COutOfFuel
    | S m =>
      if negb (accept KIdent q) then Err PE_expected_param_ident
      else
        let* (kt, q1) := pop_token q in
        let key := tstr kt in
        let* _ := expect KEq q1 in
        let* (_, q2) := pop_token q1 in
        let* (pk, sk', d', q3) :=
          if accept KLBr q2 || accept KLPar q2 || accept KIdent q2 then
            match index_of key (r_subkeys r) 0 with
            | Some si =>
                if existsb (fun iv => Nat.eqb (fst iv) si) (pd_subs d) then Err PE_duplicate_param
                else if negb (mem_str key skeys) then Err PE_invalid_param
                else
                  let* (oc, q3) := subcircuit f D reg q2 in
                  Ok (pkeys, remove_str key skeys,
                      mkPD (pd_label d) (pd_params d) (pd_lower d) (pd_upper d) (pd_fixed d) (pd_subs d ++ [(si, oc)]), q3)
            | None => Err PE_invalid_param
            end
          else
            match index_of key (r_keys r) 0 with
            | Some ki =>
                let k := N.of_nat ki in
                if has_key k (pd_params d) then Err PE_duplicate_param
                else if negb (mem_str key pkeys) then Err PE_invalid_param
                else
                  let* (vals, q3) := param q2 in
                  let '(v, lo, up, fx) := vals in
                  if negb (is_nan lo) && xltb v lo then Err PE_invalid_lower
                  else if negb (is_nan up) && xltb up v then Err PE_invalid_upper
                  else Ok (remove_str key pkeys, skeys,
                           mkPD (pd_label d) (pd_params d ++ [(k, v)]) (pd_lower d ++ [(k, lo)])
                                (pd_upper d ++ [(k, up)]) (pd_fixed d ++ [(k, fx)]) (pd_subs d), q3)
            | None => Err PE_invalid_param
            end in
        if accept KComma q3 then
          match pk, sk' with
          | [], [] => Err PE_too_many_params
          | _, _ => let* (_, q4) := pop_token q3 in ploop f D r m pk sk' d' q4
          end
        else Ok (d', q3)
    end
  end.

Ltac stepeq :=
  match goal with
  | |- bind ?X _ = bind ?X _ => destruct X as [?|?|?]; cbn [bind]; try reflexivity
  | |- (if ?b then _ else _) = (if ?b then _ else _) => destruct b; try reflexivity
  | |- (let '(_, _) := ?x in _) = (let '(_, _) := ?x in _) => destruct x
  | |- match ?x with _ => _ end = match ?x with _ => _ end => destruct x; try reflexivity
  end.

Lemma parameters_S f D r p :
  parameters (S f) D reg r p =
  if negb (accept KLCur p) then Ok (empty_defs, p)
  else
    let* (_, p1) := pop_token p in
    let* (d, p2) := if accept KColon p1 then Ok (empty_defs, p1) else ploop f D r f (r_keys r) (r_subkeys r) empty_defs p1 in
    let* (d3, p3) :=
      if accept KColon p2 then
        let* (_, q1) := pop_token p2 in
        let* _ := expect KLabel q1 in
        let* (lt, q2) := pop_token q1 in
        Ok (mkPD (tstr lt) (pd_params d) (pd_lower d) (pd_upper d) (pd_fixed d) (pd_subs d), q2)
      else Ok (d, p2) in
    let* _ := expect KRCur p3 in
    let* (_, p4) := pop_token p3 in
    Ok (d3, p4).
Proof.
  cbn [parameters]. destruct (negb (accept KLCur p)); [reflexivity|].
  destruct (pop_token p) as [[t p1]|e|c]; cbn [bind]; try reflexivity.
  destruct (accept KColon p1); [reflexivity|].
  match goal with |- bind (?L f (r_keys r) (r_subkeys r) empty_defs p1) _ = _ => set (LL := L) end.
  assert (HL : forall n pk sk d q, LL n pk sk d q = ploop f D r n pk sk d q).
  { induction n as [|m IH]; intros pk sk d q.
    - destruct pk, sk; reflexivity.
    - cbn [ploop]. unfold LL at 1. fold LL.
      destruct pk as [|pk0 pkr], sk as [|sk0 skr]; try reflexivity;
        (destruct (negb (accept KIdent q)); [reflexivity|]);
        repeat stepeq; try (destruct p0 as [[[? ?] ?] ?]); repeat stepeq; try apply IH. }
  rewrite HL. reflexivity.
Qed.

Fixpoint add_defs (i : nat) (ps : list pstate) (d : pdefs) : pdefs :=
  match ps with
  | [] => d
  | p :: pr => add_defs (S i) pr (mkPD (pd_label d) (pd_params d ++ [(N.of_nat i, pv p)]) (pd_lower d ++ [(N.of_nat i, plo p)])
                                       (pd_upper d ++ [(N.of_nat i, phi p)]) (pd_fixed d ++ [(N.of_nat i, pfx p)]) (pd_subs d))
  end.

Definition is_close (rest : list tok) : Prop :=
  match rest with t :: _ => tk t = KColon \/ tk t = KRCur | [] => False end.

Lemma str_eqb_refl' a : str_eqb a a = true.
Proof. induction a as [|x a IH]; simpl; auto. rewrite N.eqb_refl. exact IH. Qed.
Lemma str_eqb_true a b : str_eqb a b = true -> a = b.
Proof.
  revert b. induction a as [|x a IH]; intros [|y b] H; simpl in H; try discriminate; auto.
  apply andb_prop in H. destruct H as [H1 H2]. apply N.eqb_eq in H1. subst. f_equal. apply IH. exact H2.
Qed.

Lemma index_of_app name : forall pre cur i, ~ In name pre -> index_of name (pre ++ name :: cur) i = Some (i + length pre).
Proof.
  induction pre as [|x pre IH]; intros cur i Hn; cbn [app index_of length].
  - rewrite str_eqb_refl'. f_equal. lia.
  - destruct (str_eqb name x) eqn:E; [apply str_eqb_true in E; subst; exfalso; apply Hn; left; reflexivity|].
    rewrite IH; [f_equal; lia|]. intro H. apply Hn. right. exact H.
Qed.

Lemma has_key_seq n (l : list (key * xnum)) : map fst l = map N.of_nat (seq 0 n) -> has_key (N.of_nat n) l = false.
Proof.
  intro H. destruct (has_key (N.of_nat n) l) eqn:E; [|reflexivity]. apply has_key_in in E. rewrite H in E.
  apply in_map_iff in E. destruct E as (x & Hx & Hin). apply Nat2N.inj in Hx. subst x. apply in_seq in Hin. lia.
Qed.

Lemma ploop_exact f D r rest st :
  r_subkeys r = [] -> NoDup (r_keys r) -> is_close rest ->
  forall cur pre ps d n, r_keys r = pre ++ cur -> length ps = length cur -> forallb printable ps = true ->
  map fst (pd_params d) = map N.of_nat (seq 0 (length pre)) -> length cur <= n ->
  ploop f D r n cur [] d (mkPS (params_toks cur ps ++ rest) st) = Ok (add_defs (length pre) ps d, mkPS rest st).
Proof.
  intros Hsub Hnd Hrest. induction cur as [|name cur IH]; intros pre ps d n Hk Hl Hp Hd Hn.
  - destruct ps; [|discriminate]. destruct n; reflexivity.
  - destruct ps as [|p ps]; [discriminate|]. destruct n as [|m]; [simpl in Hn; lia|].
    cbn [forallb] in Hp. apply andb_prop in Hp. destruct Hp as [Hp1 Hp2].
    cbn [params_toks add_defs]. cbn [ploop].
    set (tail := (match ps with [] => [] | _ :: _ => ptok KComma :: params_toks cur ps end) ++ rest).
    assert (Htail : is_end tail).
    { unfold tail. destruct ps; cbn [app]; [|left; reflexivity]. destruct rest as [|t r0]; [exact Hrest|]. simpl in *. tauto. }
    rewrite <- app_assoc. fold tail.
    assert (Etoks : param_toks name p ++ tail = ident_tok name :: ptok KEq :: (skipn 2 (param_toks name p) ++ tail)) by reflexivity.
    rewrite Etoks. rewrite accept_cons. cbn [ident_tok tk tkind_eqb negb].
    unfold pop_token at 1. cbn [ptoks pstack bind tstr].
    unfold expect at 1. cbn [ptoks ptok tk tkind_eqb bind]. unfold pop_token at 1. cbn [ptoks pstack bind].
    assert (Hacc : accept KLBr (mkPS (skipn 2 (param_toks name p) ++ tail) st) || accept KLPar (mkPS (skipn 2 (param_toks name p) ++ tail) st)
                   || accept KIdent (mkPS (skipn 2 (param_toks name p) ++ tail) st) = false).
    { unfold param_toks, num_tok. cbn [skipn app]. rewrite !accept_cons. cbn [tk]. destruct (pfx p); reflexivity. }
    rewrite Hacc. rewrite Hk.
    assert (Hnin : ~ In name pre).
    { rewrite Hk in Hnd. apply NoDup_remove_2 in Hnd. intro H. apply Hnd. apply in_or_app. left. exact H. }
    change (tstr (ident_tok name)) with name. rewrite (index_of_app name pre cur 0 Hnin). cbn [plus].
    rewrite (has_key_seq _ _ Hd). cbn [mem_str existsb]. rewrite str_eqb_refl'. cbn [orb negb].
    rewrite (param_exact name p tail st Hp1 Htail). cbn [bind].
    assert (Hw : printable p = true) by exact Hp1. unfold printable in Hw. rewrite !andb_true_iff in Hw.
    destruct Hw as [[_ Hlov] Hvhi].
    rewrite (xleb_not_gt _ _ Hlov), (xleb_not_gt _ _ Hvhi), !andb_false_r.
    cbn [remove_str]. rewrite str_eqb_refl'.
    unfold tail. destruct ps as [|p2 ps].
    + (* last parameter: no comma *)
      destruct cur; [|discriminate]. cbn [app].
      assert (Hc : accept KComma (mkPS rest st) = false).
      { destruct rest as [|t r0]; [reflexivity|]. rewrite accept_cons. simpl in Hrest. destruct Hrest as [-> | ->]; reflexivity. }
      cbn [bind]. rewrite Hc. reflexivity.
    + destruct cur as [|name2 cur]; [discriminate|]. cbn [app bind]. rewrite accept_cons. cbn [ptok tk tkind_eqb].
      unfold pop_token at 1. cbn [ptoks pstack bind].
      rewrite (IH (pre ++ [name]) (p2 :: ps)).
      * rewrite app_length. cbn [length]. replace (length pre + 1) with (S (length pre)) by lia. reflexivity.
      * rewrite <- app_assoc. exact Hk.
      * simpl in Hl. simpl. lia.
      * exact Hp2.
      * cbn [pd_params]. rewrite map_app, Hd, app_length. cbn [length map]. rewrite Nat.add_1_r, seq_S, map_app. reflexivity.
      * simpl in Hn. simpl. lia.
Qed.

(* ---- the constructor model on the definitions read back ------------------------------------------------------------------- *)
Definition defs_of (s : elt) : pdefs :=
  mkPD (elabel s) (map (fun kp => (fst kp, pv (snd kp))) (epars s)) (map (fun kp => (fst kp, plo (snd kp))) (epars s))
       (map (fun kp => (fst kp, phi (snd kp))) (epars s)) (map (fun kp => (fst kp, pfx (snd kp))) (epars s)) [].

Lemma chain4 g1 v1 g2 v2 g3 v3 g4 v4 src e e' :
  chain [(g1, v1); (g2, v2); (g3, v3); (g4, v4)] src e = (e', ROk) ->
  exists e2 e3 e4, setter g1 e (kwargs_of v1 src) = (e2, ROk) /\ setter g2 e2 (kwargs_of v2 src) = (e3, ROk) /\
                   setter g3 e3 (kwargs_of v3 src) = (e4, ROk) /\ setter g4 e4 (kwargs_of v4 src) = (e', ROk).
Proof.
  unfold chain. cbn [fold_left fst snd]. unfold andthen at 4. cbn [fst snd].
  destruct (setter g1 e (kwargs_of v1 src)) as [e2 r2] eqn:E1.
  destruct r2; [|unfold andthen; cbn [fst snd]; intro H; inversion H|unfold andthen; cbn [fst snd]; intro H; inversion H].
  unfold andthen at 3. cbn [fst snd].
  destruct (setter g2 e2 (kwargs_of v2 src)) as [e3 r3] eqn:E2.
  destruct r3; [|unfold andthen; cbn [fst snd]; intro H; inversion H|unfold andthen; cbn [fst snd]; intro H; inversion H].
  unfold andthen at 2. cbn [fst snd].
  destruct (setter g3 e3 (kwargs_of v3 src)) as [e4 r4] eqn:E3.
  destruct r4; [|unfold andthen; cbn [fst snd]; intro H; inversion H|unfold andthen; cbn [fst snd]; intro H; inversion H].
  unfold andthen. cbn [fst snd]. intro H. exists e2, e3, e4. auto.
Qed.

Lemma lookup_map_snd {A B} (g : A -> B) (l : list (key * A)) k :
  lookup k (map (fun kp => (fst kp, g (snd kp))) l) = option_map g (lookup k l).
Proof. induction l as [|[k2 a] r IH]; simpl; auto. destruct (N.eqb k k2); auto. Qed.

Lemma nonnan_id (g : pstate -> xnum) (l : list (key * pstate)) :
  (forall kp, In kp l -> is_nan (g (snd kp)) = false) ->
  nonnan (map (fun kp => (fst kp, g (snd kp))) l) = map (fun kp => (fst kp, g (snd kp))) l.
Proof.
  induction l as [|kp l IH]; intro H; [reflexivity|]. cbn [map nonnan filter snd]. rewrite (H kp (or_introl eq_refl)). cbn [negb].
  f_equal. apply IH. intros x Hx. apply H. right. exact Hx.
Qed.

(* for an element state of the class whose values lie within their limits, the constructor returns that very state *)
Lemma build_exact ci r s :
  wf_cls (r_cls r) = true -> Inv (r_cls r) s -> within_limits (epars s) = true ->
  build_element ci r (defs_of s) = Ok (NE ci s (r_subdefaults r)).
Proof.
  intros Hc HI Hw. pose proof HI as [Hk Hwf Hl].
  assert (HND : NoDup (map fst (epars s))) by (rewrite Hk; apply wf_cls_nodup; auto).
  assert (Hnd : nodup_keys (epars s) = true) by (apply nodup_keys_NoDup; auto).
  unfold build_element. cbn [defs_of pd_params pd_subs pd_label pd_lower pd_upper pd_fixed fold_left].
  set (e0 := mkE [] _).
  assert (He0 : e0 = init_with_values (mkC (cdefaults (r_cls r)) false) (epars s)).
  { unfold e0, init_with_values. cbn [cdefaults]. f_equal. apply map_ext. intros [k d]. cbn [fst snd].
    rewrite lookup_map_snd. destruct (lookup k (epars s)); reflexivity. }
  rewrite (set_label_ok_same e0 (elabel s) Hl). cbn [res_to_outcome fst snd bind].
  set (e1 := mkE (elabel s) (epars e0)).
  assert (Hstart : forall k p, lookup k (epars s) = Some p ->
            exists d, lookup k (cdefaults (r_cls r)) = Some d /\ lookup k (epars e1) = Some (mkP (pv p) (plo d) (phi d) (pfx d))).
  { intros k p Hp. destruct (lookup_some_keys _ (cdefaults (r_cls r)) _ _ Hk Hp) as [d Hd]. exists d. split; auto.
    unfold e1. cbn [epars]. rewrite He0, lookup_init_with_values. cbn [cdefaults]. rewrite Hd, Hp. reflexivity. }
  destruct (chain_ok copy_order_container (epars s) e1 Hnd) as (e' & H1 & H2 & H3 & H4 & H5).
  { intros k p Hp. destruct (Hstart _ _ Hp) as (d & Hd & Hs).
    destruct (pfold_copy_container p d) as (p' & Hf & _); eauto using wf_default_wf, wf_cls_default. }
  assert (Heq : e' = s).
  { assert (Hps : epars e' = epars s).
    { apply lookup_ext_eq.
      - rewrite H3. unfold e1. cbn [epars]. rewrite He0, map_fst_init. cbn [cdefaults]. auto.
      - rewrite H3. unfold e1. cbn [epars]. rewrite He0, map_fst_init. cbn [cdefaults]. rewrite <- Hk. exact HND.
      - intro k. destruct (lookup k (epars s)) as [p|] eqn:Ep.
        + destruct (Hstart _ _ Ep) as (d & Hd & Hs). rewrite (H5 _ _ _ Ep Hs).
          destruct (pfold_copy_container p d) as (p2 & Hf & _ & Hq); eauto using wf_default_wf, wf_cls_default.
          rewrite Hf. f_equal. apply Hq. unfold within_limits in Hw. rewrite forallb_forall in Hw.
          apply lookup_in in Ep. apply (Hw _ Ep).
        + eapply lookup_same_keys; [|exact Ep]. rewrite H3. unfold e1. cbn [epars]. rewrite He0, map_fst_init. cbn [cdefaults]. auto. }
    destruct e' as [l' ps']. cbn [epars elabel] in *. subst ps'. unfold e1 in H2. cbn [elabel] in H2. subst l'. destruct s; reflexivity. }
  subst e'. unfold copy_order_container, set_limits_order in H1. cbn [app] in H1.
  destruct (chain4 _ _ _ _ _ _ _ _ _ _ _ H1) as (e2 & e3 & e4 & S1 & S2 & S3 & S4).
  assert (Nlo : forall kp, In kp (epars s) -> is_nan (plo (snd kp)) = false).
  { intros [k p] Hin. cbn [snd]. assert (Hlk : lookup k (epars s) = Some p) by (apply in_lookup; auto).
    specialize (Hwf k p Hlk). apply wf_p_iff in Hwf. tauto. }
  assert (Nhi : forall kp, In kp (epars s) -> is_nan (phi (snd kp)) = false).
  { intros [k p] Hin. cbn [snd]. assert (Hlk : lookup k (epars s) = Some p) by (apply in_lookup; auto).
    specialize (Hwf k p Hlk). apply wf_p_iff in Hwf. tauto. }
  rewrite (nonnan_id plo _ Nlo), (nonnan_id phi _ Nhi).
  assert (A1 : kwnum (map (fun kv : key * xnum => (fst kv, NInf)) (map (fun kp : key * pstate => (fst kp, plo (snd kp))) (epars s)))
               = kwargs_of (fun _ => VNum NInf) (epars s)).
  { unfold kwnum, kwargs_of. f_equal. rewrite !map_map. apply map_ext. intros [k p]. reflexivity. }
  assert (A2 : kwnum (map (fun kp : key * pstate => (fst kp, phi (snd kp))) (epars s)) = kwargs_of (fun p => VNum (phi p)) (epars s)).
  { unfold kwnum, kwargs_of. f_equal. rewrite !map_map. apply map_ext. intros [k p]. reflexivity. }
  assert (A3 : kwnum (map (fun kp : key * pstate => (fst kp, plo (snd kp))) (epars s)) = kwargs_of (fun p => VNum (plo p)) (epars s)).
  { unfold kwnum, kwargs_of. f_equal. rewrite !map_map. apply map_ext. intros [k p]. reflexivity. }
  assert (A4 : mkA (map (fun kv : key * bool => (fst kv, VBool (snd kv))) (map (fun kp : key * pstate => (fst kp, pfx (snd kp))) (epars s))) [] false
               = kwargs_of (fun p => VBool (pfx p)) (epars s)).
  { unfold kwargs_of. f_equal. rewrite !map_map. apply map_ext. intros [k p]. reflexivity. }
  rewrite A1. fold e1. rewrite S1. cbn [res_to_outcome fst snd bind].
  rewrite A2, S2. cbn [res_to_outcome fst snd bind].
  rewrite A3, S3. cbn [res_to_outcome fst snd bind].
  rewrite A4, S4. cbn [res_to_outcome fst snd bind]. reflexivity.
Qed.

(* ---- a printed element ---------------------------------------------------------------------------------------------------- *)
Hypothesis Hsyms : forall ci r, nth_error reg ci = Some r -> find_sym (r_sym r) reg 0 = Some (ci, r).

Definition elem_toks (r : rcls) (s : elt) : list tok :=
  ident_tok (r_sym r) :: ptok KLCur :: params_toks (r_keys r) (map snd (epars s)) ++ label_toks (elabel s) ++ [ptok KRCur].

Fixpoint nodup_strs (l : list str) : bool :=
  match l with [] => true | x :: r => negb (existsb (str_eqb x) r) && nodup_strs r end.

(* the conditions under which the printed element is read back as itself (all boolean, so that the specification below computes) *)
Definition elem_okb (r : rcls) (s : elt) : bool :=
  match r_subkeys r with [] => true | _ => false end
  && wf_cls (r_cls r)
  && list_eqb N.eqb (map fst (epars s)) (map fst (cdefaults (r_cls r)))
  && forallb (fun kp => wf_p (snd kp)) (epars s)
  && label_ok (elabel s)
  && within_limits (epars s)
  && forallb (fun kp => printable (snd kp)) (epars s)
  && list_eqb N.eqb (map fst (epars s)) (map N.of_nat (seq 0 (length (r_keys r))))
  && nodup_strs (r_keys r).

Lemma list_eqb_N_eq (a b : list N) : list_eqb N.eqb a b = true -> a = b.
Proof.
  revert b. induction a as [|x a IH]; intros [|y b] H; simpl in H; try discriminate; auto.
  apply andb_prop in H. destruct H as [H1 H2]. apply N.eqb_eq in H1. subst. f_equal. auto.
Qed.

Lemma nodup_strs_NoDup l : nodup_strs l = true -> NoDup l.
Proof.
  induction l as [|x l IH]; simpl; intro H; [constructor|]. apply andb_prop in H. destruct H as [H1 H2].
  constructor; [|apply IH; exact H2]. intro Hin. apply negb_true_iff in H1.
  assert (existsb (str_eqb x) l = true) by (apply existsb_exists; exists x; split; [exact Hin|apply str_eqb_refl']). congruence.
Qed.

Lemma add_defs_spec : forall ps i d (keys : list key),
  keys = map N.of_nat (seq i (length ps)) ->
  add_defs i ps d = mkPD (pd_label d) (pd_params d ++ map (fun kp => (fst kp, pv (snd kp))) (combine keys ps))
                         (pd_lower d ++ map (fun kp => (fst kp, plo (snd kp))) (combine keys ps))
                         (pd_upper d ++ map (fun kp => (fst kp, phi (snd kp))) (combine keys ps))
                         (pd_fixed d ++ map (fun kp => (fst kp, pfx (snd kp))) (combine keys ps)) (pd_subs d).
Proof.
  induction ps as [|p ps IH]; intros i d keys Hk; cbn [add_defs length seq map] in *.
  - subst keys. cbn [combine map]. rewrite !app_nil_r. destruct d; reflexivity.
  - subst keys. cbn [combine map fst snd]. rewrite (IH (S i) _ _ eq_refl). cbn [pd_label pd_params pd_lower pd_upper pd_fixed pd_subs].
    rewrite <- !app_assoc. reflexivity.
Qed.

Lemma combine_fst_snd {A B} (l : list (A * B)) : combine (map fst l) (map snd l) = l.
Proof. induction l as [|[a b] l IH]; simpl; congruence. Qed.

Lemma element_exact r ci s f D st rest :
  nth_error reg ci = Some r -> elem_okb r s = true -> length (r_keys r) + 3 <= f ->
  element f D reg (mkPS (elem_toks r s ++ rest) st) = Ok (mkPS rest (SkNode (NE ci s (r_subdefaults r)) :: st)).
Proof.
  intros Hr Hok Hf. unfold elem_okb in Hok. rewrite !andb_true_iff in Hok.
  destruct Hok as [[[[[[[[Hsub Hc] Hkeys] Hwf] Hlab] Hwithin] Hprint] Hnum] Hnd].
  assert (Esub : r_subkeys r = []) by (destruct (r_subkeys r); [reflexivity|discriminate]).
  apply list_eqb_N_eq in Hkeys. apply list_eqb_N_eq in Hnum. apply nodup_strs_NoDup in Hnd.
  destruct f as [|[|[|f2]]]; try lia.
  rewrite element_S. unfold elem_toks. unfold pop_token at 1. cbn [app ptoks pstack bind ident_tok tstr].
  rewrite (Hsyms ci r Hr). rewrite parameters_S. rewrite accept_cons. cbn [ptok tk tkind_eqb negb].
  unfold pop_token at 1. cbn [ptoks pstack bind].
  set (ps := map snd (epars s)).
  assert (Hlen : length ps = length (r_keys r)).
  { unfold ps. rewrite map_length. rewrite <- (map_length fst (epars s)), Hnum, map_length, seq_length. reflexivity. }
  set (after := label_toks (elabel s) ++ [ptok KRCur]).
  assert (Hclose : is_close (after ++ rest)).
  { unfold after, label_toks. destruct (elabel s); cbn; [right|left]; reflexivity. }
  (* the parameters *)
  assert (Hloop : (if accept KColon (mkPS ((params_toks (r_keys r) ps ++ after) ++ rest) st) then Ok (empty_defs, mkPS ((params_toks (r_keys r) ps ++ after) ++ rest) st)
                   else ploop (S f2) D r (S f2) (r_keys r) (r_subkeys r) empty_defs (mkPS ((params_toks (r_keys r) ps ++ after) ++ rest) st))
                  = Ok (add_defs 0 ps empty_defs, mkPS (after ++ rest) st)).
  { rewrite <- app_assoc. destruct (r_keys r) as [|k0 kr] eqn:Ek.
    - destruct ps; [|discriminate]. cbn [params_toks app add_defs]. rewrite Esub.
      destruct (accept KColon (mkPS (after ++ rest) st)); reflexivity.
    - assert (Hh : accept KColon (mkPS (params_toks (k0 :: kr) ps ++ after ++ rest) st) = false).
      { destruct ps as [|p0 pr]; [discriminate|]. reflexivity. }
      rewrite Hh, Esub. rewrite <- Ek in *.
      apply (ploop_exact (S f2) D r (after ++ rest) st Esub Hnd Hclose (r_keys r) [] ps empty_defs (S f2)); auto.
      + unfold ps. rewrite forallb_forall. intros p Hp. apply in_map_iff in Hp. destruct Hp as (kp & <- & Hin).
        rewrite forallb_forall in Hprint. apply (Hprint kp Hin).
      + lia. }
  rewrite Hloop. cbn [bind].
  (* the label and the closing brace *)
  assert (Hdefs : add_defs 0 ps empty_defs = mkPD [] (pd_params (defs_of s)) (pd_lower (defs_of s)) (pd_upper (defs_of s)) (pd_fixed (defs_of s)) []).
  { rewrite (add_defs_spec ps 0 empty_defs (map fst (epars s))).
    - unfold ps. rewrite combine_fst_snd. reflexivity.
    - rewrite Hnum, Hlen. reflexivity. }
  rewrite Hdefs. unfold after, label_toks.
  assert (Hfinal : build_element ci r (defs_of s) = Ok (NE ci s (r_subdefaults r))).
  { apply build_exact; auto. constructor; auto.
    intros k p Hl. rewrite forallb_forall in Hwf. apply lookup_in in Hl. apply (Hwf (k, p) Hl). }
  destruct (elabel s) as [|c0 l0] eqn:El; cbn [app].
  - rewrite accept_cons. cbn [ptok tk tkind_eqb bind]. unfold expect. cbn [ptoks ptok tk tkind_eqb bind].
    unfold pop_token. cbn [ptoks pstack bind].
    assert (Ed : mkPD [] (pd_params (defs_of s)) (pd_lower (defs_of s)) (pd_upper (defs_of s)) (pd_fixed (defs_of s)) [] = defs_of s)
      by (unfold defs_of; rewrite El; reflexivity).
    rewrite Ed, Hfinal. reflexivity.
  - rewrite accept_cons. cbn [ptok tk tkind_eqb bind]. unfold pop_token at 1. cbn [ptoks pstack bind].
    unfold expect at 1. cbn [ptoks tk tkind_eqb bind]. unfold pop_token at 1. cbn [ptoks pstack bind tstr pd_params pd_lower pd_upper pd_fixed pd_subs].
    unfold expect. cbn [ptoks ptok tk tkind_eqb bind]. unfold pop_token. cbn [ptoks pstack bind].
    assert (Ed : mkPD (c0 :: l0) (pd_params (defs_of s)) (pd_lower (defs_of s)) (pd_upper (defs_of s)) (pd_fixed (defs_of s)) [] = defs_of s)
      by (unfold defs_of; rewrite El; reflexivity).
    rewrite Ed, Hfinal. reflexivity.
Qed.

(* ---- trees of such elements ------------------------------------------------------------------------------------------------ *)
Fixpoint xntoks (pf : nat) (n : node) : list tok :=
  match pf with
  | O => []
  | S f =>
      match n with
      | NE ci s _ => match nth_error reg ci with Some r => elem_toks r s | None => [] end
      | NC c => xctoks f c
      end
  end
with xctoks (pf : nat) (c : conn) : list tok :=
  match pf with
  | O => []
  | S f =>
      match c with
      | Ser l => ptok KLBr :: flat_map (xntoks f) l ++ [ptok KRBr]
      | Par l => ptok KLPar :: flat_map (xntoks f) l ++ [ptok KRPar]
      end
  end.

(* what the parser builds from the tokens of the extended form: every element as it is (with the class's default sub-circuits, which
   is none for the classes admitted here), nested same-kind connections merged, one-element series unwrapped *)
Fixpoint xpnode (pf : nat) (n : node) : option node :=
  match pf with
  | O => None
  | S f =>
      match n with
      | NE ci s _ =>
          match nth_error reg ci with
          | Some r => if elem_okb r s then Some (NE ci s (r_subdefaults r)) else None
          | None => None
          end
      | NC c => xpconn f c
      end
  end
with xpconn (pf : nat) (c : conn) : option node :=
  match pf with
  | O => None
  | S f =>
      match c with
      | Ser l => match flat_children (xpnode f) true l with Some items => wrap true items | None => None end
      | Par l => match flat_children (xpnode f) false l with Some items => wrap false items | None => None end
      end
  end.

Lemma xtoks_head pf :
  (forall n n' rest, xpnode pf n = Some n' -> opens (xntoks pf n ++ rest)) /\
  (forall c n' rest, xpconn pf c = Some n' -> opens (xctoks pf c ++ rest)).
Proof.
  induction pf as [|f [IHn IHc]]; [split; intros; discriminate|]. split.
  - intros [ci s subs|c] n' rest; cbn [xpnode xntoks].
    + destruct (nth_error reg ci); [|discriminate]. intros _. unfold elem_toks. eexists; eexists; split; [reflexivity|auto].
    + apply IHc.
  - intros [l|l] n' rest _; cbn [xctoks]; eexists; eexists; split; try reflexivity; auto.
Qed.

Definition XP_node (pf : nat) : Prop := forall n n' F D st rest,
  xpnode pf n = Some n' -> 2 * length (xntoks pf n) + 1 <= F -> 2 * pf <= D ->
  main_loop F D reg (mkPS (xntoks pf n ++ rest) st) = Ok (mkPS rest (SkNode n' :: st)).
Definition XP_conn (pf : nat) : Prop := forall c n' F D st rest,
  xpconn pf c = Some n' -> 2 * length (xctoks pf c) + 1 <= F -> 2 * pf <= D ->
  main_loop F D reg (mkPS (xctoks pf c ++ rest) st) = Ok (mkPS rest (SkNode n' :: st)).

Lemma xntoks_len pf x x' : xpnode pf x = Some x' -> 1 <= length (xntoks pf x).
Proof.
  intro H. destruct (proj1 (xtoks_head pf) x x' [] H) as (t & r & E & _). rewrite app_nil_r in E. rewrite E. simpl. lia.
Qed.
Lemma xflat_len pf l l' : Forall2 (fun x x' => xpnode pf x = Some x') l l' -> length l <= length (flat_map (xntoks pf) l).
Proof.
  induction 1 as [|x x' l l' Hx _ IH]; simpl; auto. rewrite app_length. pose proof (xntoks_len pf x x' Hx). lia.
Qed.
Lemma xin_flat_len pf l x : In x l -> length (xntoks pf x) <= length (flat_map (xntoks pf) l).
Proof.
  induction l as [|y l IH]; simpl; [tauto|]. rewrite app_length. intros [-> | H]; [lia|]. specialize (IH H). lia.
Qed.

Lemma xloop_children pf f2 d closing tclose rest :
  XP_node pf -> tk tclose = closing -> (closing = KRBr \/ closing = KRPar) -> 2 * pf <= d ->
  forall l l', Forall2 (fun x x' => xpnode pf x = Some x') l l' ->
  (forall x, In x l -> 2 * length (xntoks pf x) + 1 <= f2) ->
  forall n st, length l <= n ->
  conn_loop reg f2 d closing n (mkPS (flat_map (xntoks pf) l ++ tclose :: rest) st)
  = Ok (mkPS (tclose :: rest) (map SkNode (rev l') ++ st)).
Proof.
  intros HP Htc Hcl Hd l l' HF. induction HF as [|x x' l l' Hx HF IH]; intros Hb n st Hn.
  - cbn [flat_map app rev map]. destruct n; cbn [conn_loop]; rewrite accept_cons, Htc, tkind_eqb_refl; reflexivity.
  - destruct n as [|m]; [simpl in Hn; lia|].
    cbn [flat_map]. rewrite <- app_assoc. cbn [conn_loop].
    rewrite (opens_not_closing _ closing st (proj1 (xtoks_head pf) x x' _ Hx) Hcl).
    rewrite (HP x x' f2 d st _ Hx).
    + cbn [bind]. rewrite IH.
      * cbn [rev]. rewrite map_app, <- app_assoc. reflexivity.
      * intros y Hy. apply Hb. right. exact Hy.
      * simpl in Hn. lia.
    + apply Hb. left. reflexivity.
    + exact Hd.
Qed.

Lemma xconn_body f (IHn : XP_node f) series opening closing (topen tclose : tok) l n' f2 d st rest :
  tk topen = opening -> tk tclose = closing -> (closing = KRBr \/ closing = KRPar) ->
  match flat_children (xpnode f) series l with Some items => wrap series items | None => None end = Some n' ->
  2 * length (flat_map (xntoks f) l) + 1 <= f2 -> 2 * f <= d ->
  connection (S f2) (S (S d)) reg opening closing series (mkPS ((topen :: flat_map (xntoks f) l ++ [tclose]) ++ rest) st)
  = Ok (mkPS rest (SkNode n' :: st)).
Proof.
  intros Hto Htc Hcl Hp HF HD.
  destruct (flat_children (xpnode f) series l) as [items|] eqn:Efc; [|discriminate].
  destruct (flat_children_inv _ _ _ _ Efc) as (l' & HF2 & ->).
  rewrite connection_S. unfold pop_token, push_stack. cbn [ptoks pstack app bind]. rewrite Hto.
  rewrite <- app_assoc. cbn [app].
  assert (Hne : l <> []).
  { intros ->. inversion HF2; subst. unfold wrap in Hp. simpl in Hp. destruct series; discriminate. }
  assert (Hop : opens (flat_map (xntoks f) l ++ tclose :: rest)).
  { destruct HF2 as [|y y' l0 l0' Hy _]; [congruence|]. cbn [flat_map]. rewrite <- app_assoc.
    apply (proj1 (xtoks_head f) y y' _ Hy). }
  rewrite (opens_not_closing _ closing _ Hop Hcl).
  rewrite (xloop_children f f2 d closing tclose rest IHn Htc Hcl HD l l' HF2).
  - cbn [bind]. unfold expect. cbn [ptoks]. rewrite Htc, tkind_eqb_refl. cbn [bind].
    apply finish_exact. exact Hp.
  - intros x Hx. pose proof (xin_flat_len f l x Hx). lia.
  - pose proof (xflat_len f l l' HF2). lia.
Qed.

Lemma params_toks_len : forall names ps, length ps = length names -> length names <= length (params_toks names ps) + 0.
Proof.
  induction names as [|n names IH]; intros [|p ps] Hl; cbn [params_toks length] in *; try lia.
  rewrite app_length. assert (H1 : 1 <= length (param_toks n p)) by (unfold param_toks; cbn [app length]; lia).
  destruct ps as [|p2 ps].
  - destruct names; [cbn [length]; lia|discriminate].
  - destruct names as [|n2 names]; [discriminate|]. cbn [length]. specialize (IH (p2 :: ps)). cbn [length] in IH.
    assert (length (n2 :: names) <= length (params_toks (n2 :: names) (p2 :: ps)) + 0) by (apply IH; cbn [length] in *; lia).
    cbn [length] in *. lia.
Qed.

Lemma xstep_all pf : XP_node pf /\ XP_conn pf.
Proof.
  induction pf as [|f [IHn IHc]]; [split; intros ? ? ? ? ? ? H; discriminate H|]. split.
  - intros [ci s subs|c] n' F D st rest Hp HF HD.
    + cbn [xpnode xntoks] in *.
      destruct (nth_error reg ci) as [r|] eqn:Er; [|discriminate].
      destruct (elem_okb r s) eqn:Eok; [|discriminate]. inversion Hp; subst n'.
      destruct F as [|F1]; [lia|]. rewrite main_loop_S.
      assert (Eh : elem_toks r s ++ rest = ident_tok (r_sym r) :: (tl (elem_toks r s) ++ rest)) by reflexivity.
      rewrite Eh, !accept_cons. cbn [ident_tok tk tkind_eqb]. rewrite <- Eh.
      apply element_exact; auto.
      assert (Hlen : length (r_keys r) <= length (params_toks (r_keys r) (map snd (epars s)))).
      { pose proof (params_toks_len (r_keys r) (map snd (epars s))) as H. rewrite Nat.add_0_r in H. apply H.
        unfold elem_okb in Eok. rewrite !andb_true_iff in Eok. destruct Eok as [[_ Hnum] _]. apply list_eqb_N_eq in Hnum.
        rewrite map_length, <- (map_length fst (epars s)), Hnum, map_length, seq_length. reflexivity. }
      unfold elem_toks in HF. cbn [length] in HF. rewrite !app_length in HF. cbn [length] in HF. lia.
    + change (xntoks (S f) (NC c)) with (xctoks f c) in *. cbn [xpnode] in Hp. apply IHc; auto; lia.
  - intros [l|l] n' F D st rest Hp HF HD; cbn [xpconn xctoks] in *;
      cbn [length] in HF; rewrite app_length in HF; cbn [length] in HF;
      destruct F as [|[|f2]]; try lia; destruct D as [|[|d]]; try lia;
      rewrite main_loop_S; cbn [app]; rewrite !accept_cons; cbn [ptok tk tkind_eqb].
    + apply (xconn_body f IHn true KLBr KRBr (ptok KLBr) (ptok KRBr) l n' f2 d st rest); auto. lia. lia.
    + apply (xconn_body f IHn false KLPar KRPar (ptok KLPar) (ptok KRPar) l n' f2 d st rest); auto. lia. lia.
Qed.

Theorem ext_parse_tokens pf c n' :
  xpconn pf c = Some n' -> 2 * pf <= depth_budget ->
  parse_tokens reg (xctoks pf c) = Ok (top n').
Proof.
  intros Hp Hd. unfold parse_tokens.
  assert (Hshape : exists t r, xctoks pf c = t :: r /\ (tk t = KLBr \/ tk t = KLPar)).
  { destruct pf as [|f]; [discriminate|]. destruct c as [l|l]; cbn [xctoks]; eexists; eexists; split; try reflexivity; auto. }
  destruct Hshape as (t & r & Ets & Hk).
  assert (Hm : migrate (mkPS (xctoks pf c) []) = Ok (mkPS (xctoks pf c) [])).
  { unfold migrate. rewrite Ets, accept_cons. destruct Hk as [-> | ->]; reflexivity. }
  rewrite Hm. cbn [bind].
  remember (4 * length (xctoks pf c) + 10) as fuel eqn:Ef.
  destruct fuel as [|m]; [lia|].
  assert (Hml : main_loop (S m) depth_budget reg (mkPS (xctoks pf c) []) = Ok (mkPS [] [SkNode n'])).
  { rewrite <- (app_nil_r (xctoks pf c)) at 1. apply (proj2 (xstep_all pf)); auto; lia. }
  rewrite Ets in *. cbn [ptoks]. rewrite Hml. cbn [bind].
  assert (Hl : forall k, (fix loop (n : nat) (q : pst) {struct n} : outcome pst :=
                 match ptoks q with
                 | [] => Ok q
                 | _ :: _ => match n with
                             | 0 => Crash COutOfFuel
                             | S m0 => let* q' := main_loop (S m) depth_budget reg q in loop m0 q'
                             end
                 end) k (mkPS [] [SkNode n']) = Ok (mkPS [] [SkNode n'])).
  { intros [|k]; reflexivity. }
  rewrite Hl. cbn [bind]. unfold assemble. cbn [pstack].
  destruct n' as [ci st subs|[l|l]]; reflexivity.
Qed.

End Ext.

(* ---- what the rebuilt tree keeps: every element with its label, values, limits and fixed flags, in order ------------------- *)
Fixpoint xleaves (n : node) : list (nat * elt) :=
  match n with NE ci s _ => [(ci, s)] | NC c => xcleaves c end
with xcleaves (c : conn) : list (nat * elt) :=
  match c with Ser l => flat_map xleaves l | Par l => flat_map xleaves l end.

Lemma xleaves_expand series x : flat_map xleaves (expand series x) = xleaves x.
Proof.
  unfold expand, conn_kind_is. destruct x as [ci st subs|[l|l]]; destruct series; simpl; rewrite ?app_nil_r; reflexivity.
Qed.

Lemma xleaves_wrap series items n' : wrap series items = Some n' -> xleaves n' = flat_map xleaves items.
Proof.
  unfold wrap. destruct series.
  - destruct items as [|a [|b r]]; intro H; inversion H; subst; simpl; rewrite ?app_nil_r; reflexivity.
  - destruct (length items <? 2); intro H; inversion H; reflexivity.
Qed.

Lemma xpconn_S_ser reg f l :
  xpconn reg (S f) (Ser l) = match flat_children (xpnode reg f) true l with Some items => wrap true items | None => None end.
Proof. reflexivity. Qed.
Lemma xpconn_S_par reg f l :
  xpconn reg (S f) (Par l) = match flat_children (xpnode reg f) false l with Some items => wrap false items | None => None end.
Proof. reflexivity. Qed.
Lemma xpnode_S_conn reg f c : xpnode reg (S f) (NC c) = xpconn reg f c.
Proof. reflexivity. Qed.
Lemma xpnode_S_elem reg f ci s subs :
  xpnode reg (S f) (NE ci s subs) =
  match nth_error reg ci with Some r => if elem_okb r s then Some (NE ci s (r_subdefaults r)) else None | None => None end.
Proof. reflexivity. Qed.

Lemma xleaves_kept reg pf :
  (forall n n', xpnode reg pf n = Some n' -> xleaves n' = xleaves n) /\
  (forall c n', xpconn reg pf c = Some n' -> xleaves n' = xcleaves c).
Proof.
  induction pf as [|f [IHn IHc]]; [split; intros; discriminate|]. split.
  - intros [ci st subs|c] n'.
    + rewrite xpnode_S_elem. destruct (nth_error reg ci) as [r|]; [|discriminate]. destruct (elem_okb r st); [|discriminate].
      intro H; inversion H; subst. reflexivity.
    + rewrite xpnode_S_conn. apply IHc.
  - assert (Hch : forall series l items, flat_children (xpnode reg f) series l = Some items ->
                    flat_map xleaves items = flat_map xleaves l).
    { intros series l items H. destruct (flat_children_inv _ _ _ _ H) as (l' & HF & ->). clear H.
      induction HF as [|x x' l0 l0' Hx _ IH]; simpl; auto.
      rewrite flat_map_app, xleaves_expand, (IHn _ _ Hx), IH. reflexivity. }
    intros [l|l] n'; cbn [xcleaves].
    + rewrite xpconn_S_ser. destruct (flat_children (xpnode reg f) true l) as [items|] eqn:Efc; [|intro H0; discriminate H0].
      intro Hw. rewrite (xleaves_wrap _ _ _ Hw). eapply Hch; eauto.
    + rewrite xpconn_S_par. destruct (flat_children (xpnode reg f) false l) as [items|] eqn:Efc; [|intro H0; discriminate H0].
      intro Hw. rewrite (xleaves_wrap _ _ _ Hw). eapply Hch; eauto.
Qed.

Lemma xleaves_top n : xcleaves (top n) = xleaves n.
Proof. destruct n as [ci s subs|[l|l]]; simpl; rewrite ?app_nil_r; reflexivity. Qed.

(* The extended-syntax round trip at the level of tokens, for every tree of non-container elements whose values lie within their limits:
   the parser accepts the tokens of the printed form and returns the specified tree, whose elements — class, label, values, limits,
   fixed flags — are those of the printed tree, in order. *)
Theorem ext_round_trip_tokens (reg : registry) :
  syms_unique reg = true ->
  forall pf c n', xpconn reg pf c = Some n' -> 2 * pf <= depth_budget ->
  parse_tokens reg (xctoks reg pf c) = Ok (top n') /\ xcleaves (top n') = xcleaves c.
Proof.
  intros Hu pf c n' Hp Hd. split.
  - apply ext_parse_tokens; auto. apply syms_unique_sound. exact Hu.
  - rewrite xleaves_top. apply (proj2 (xleaves_kept reg pf) c n' Hp).
Qed.

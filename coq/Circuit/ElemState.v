(* Circuit/ElemState.v — executable model of the parameter API of
   pyimpspec.circuit.base.Element / Container (set_values, set_lower_limits, set_upper_limits,
   set_fixed, set_label, reset_parameter(s), __copy__, __deepcopy__).
   Model only: no proofs here (facts are in ElemState_facts.v), so the model still runs
   when a proof breaks.  The code is mirrored statement by statement; see comments. *)
From Coq Require Import ZArith QArith Bool List.
From PV Require Import Base.Num Base.Outcome.
Import ListNotations.

Definition key := N.

(* Python values that the harness passes as arguments *)
Inductive pyval :=
  | VNum (x : xnum)            (* float / int *)
  | VBool (b : bool)
  | VStr (s : list N)          (* a str; as a number it is a non-numeric string ("abc", label text) *)
  | VNone.

(* float(v) *)
Definition to_float (v : pyval) : outcome xnum :=
  match v with
  | VNum x => Ok x
  | VBool b => Ok (Fin (if b then 1 else 0)%Q)
  | VStr _ => Err EValue       (* float("abc") -> ValueError; the harness never sends numeric strings *)
  | VNone => Err EType         (* float(None) -> TypeError *)
  end.

Record pstate := mkP { pv : xnum; plo : xnum; phi : xnum; pfx : bool }.

Record elt := mkE { elabel : list N; epars : list (key * pstate) }.

(* class-level information: ordered defaults, and which __copy__ the class uses *)
Record cls := mkC { cdefaults : list (key * pstate); ccontainer : bool }.

Definition fresh (c : cls) : elt := mkE [] (cdefaults c).

Fixpoint lookup {A} (k : key) (l : list (key * A)) : option A :=
  match l with
  | [] => None
  | (k', a) :: r => if N.eqb k k' then Some a else lookup k r
  end.

Fixpoint update {A} (k : key) (a : A) (l : list (key * A)) : list (key * A) :=
  match l with
  | [] => []
  | (k', a') :: r => if N.eqb k k' then (k', a) :: r else (k', a') :: update k a r
  end.

Definition has_key {A} (k : key) (l : list (key * A)) : bool :=
  match lookup k l with Some _ => true | None => false end.

(* ---- argument merging: `pairs = kwargs.copy()` then positional pairs ------------------- *)
(* [dangling] = an odd number of positional arguments was given *)
Record args := mkA { kw : list (key * pyval); pos : list (key * pyval); dangling : bool }.

Fixpoint merge_pos (pairs : list (key * pyval)) (p : list (key * pyval)) : outcome (list (key * pyval)) :=
  match p with
  | [] => Ok pairs
  | (k, v) :: r => if has_key k pairs then Err EKey else merge_pos (pairs ++ [(k, v)]) r
  end.

Definition merge (a : args) : outcome (list (key * pyval)) :=
  if dangling a then Err EValue else merge_pos (kw a) (pos a).

(* ---- the four per-pair bodies -------------------------------------------------------------- *)
(* each setter's loop body has the shape
      if key not in self._parameter_X: raise KeyError
      <compute the new parameter record or raise>
      store it
   [gfn] is the middle part, a function of the addressed parameter only *)
Definition gfn := pstate -> pyval -> outcome pstate.

Definition g_value : gfn := fun p v =>
  let* x := to_float v in Ok (mkP x (plo p) (phi p) (pfx p)).

Definition g_lower : gfn := fun p v =>
  let* x := to_float v in
  if xgeb x (phi p) then Err EValue
  else Ok (mkP (if xltb (pv p) x then x else pv p) x (phi p) (pfx p)).

Definition g_upper : gfn := fun p v =>
  let* x := to_float v in
  if xleb x (plo p) then Err EValue
  else Ok (mkP (if xgtb (pv p) x then x else pv p) (plo p) x (pfx p)).

Definition g_fixed : gfn := fun p v =>
  match v with
  | VBool b => Ok (mkP (pv p) (plo p) (phi p) b)
  | _ => Err EType
  end.

Definition upd_body (g : gfn) (ps : list (key * pstate)) (k : key) (v : pyval) : outcome (list (key * pstate)) :=
  match lookup k ps with
  | None => Err EKey
  | Some p => let* p' := g p v in Ok (update k p' ps)
  end.

(* result of a call: the state survives a refused update *)
Inductive res := ROk | RErr (e : errkind) | RCrash (c : crashkind).


(* `for key, value in pairs.items(): ...` — earlier pairs stay applied when a later one raises *)
Fixpoint loop (g : gfn) (ps : list (key * pstate)) (pairs : list (key * pyval)) : list (key * pstate) * res :=
  match pairs with
  | [] => (ps, ROk)
  | (k, v) :: r =>
      match upd_body g ps k v with
      | Ok ps' => loop g ps' r
      | Err e => (ps, RErr e)
      | Crash c => (ps, RCrash c)
      end
  end.

Definition setter (f : gfn) (e : elt) (a : args) : elt * res :=
  match merge a with
  | Ok pairs => let '(ps, r) := loop f (epars e) pairs in (mkE (elabel e) ps, r)
  | Err er => (e, RErr er)
  | Crash c => (e, RCrash c)
  end.

(* ---- set_label ------------------------------------------------------------------------------ *)
(* str.strip(): ASCII white space is \t \n \v \f \r, \x1c-\x1f and space.  The harness only sends
   non-ASCII characters that are not white space, so this is exact on the generated alphabet. *)
Definition is_space (c : N) : bool :=
  ((9 <=? c) && (c <=? 13) || (28 <=? c) && (c <=? 32))%N.
Fixpoint lstrip (s : list N) : list N :=
  match s with c :: r => if is_space c then lstrip r else s | [] => [] end.
Definition strip (s : list N) : list N := rev (lstrip (rev (lstrip s))).
Definition is_ascii (c : N) : bool := (c <? 128)%N.
Definition is_digit (c : N) : bool := ((48 <=? c) && (c <=? 57))%N.

Definition set_label (e : elt) (v : pyval) : elt * res :=
  match v with
  | VStr s =>
      let l := strip s in
      match l with
      | [] => (mkE [] (epars e), ROk)
      | _ => if negb (forallb is_ascii l) then (e, RErr EValue)
             else if forallb is_digit l then (e, RErr EValue)
             else (mkE l (epars e), ROk)
      end
  | _ => (e, RErr EType)
  end.

(* ---- dictionaries passed as **kwargs --------------------------------------------------------- *)
Definition kwargs_of (f : pstate -> pyval) (ps : list (key * pstate)) : args :=
  mkA (map (fun kp => (fst kp, f (snd kp))) ps) [] false.

Definition sel (ks : list key) (d : list (key * pstate)) : outcome (list (key * pstate)) :=
  (* cls.get_default_X( *args): `results[key] = d[key]` raises KeyError on an unknown key *)
  fold_right (fun k acc => let* r := acc in
                           match lookup k d with Some p => Ok ((k, p) :: r) | None => Err EKey end)
             (Ok []) ks.

(* a chain a.f(..).g(..): stops at the first failure *)
Definition andthen (er : elt * res) (f : elt -> elt * res) : elt * res :=
  match snd er with ROk => f (fst er) | _ => er end.

(* reset_parameters( *keys): the four setters in the coded order.
   [ks = []] means "no arguments" = all keys in dictionary order; otherwise [ks] is the iteration
   order of `set(args)` as the harness observed it in the same process. *)
(* _set_limits(lower, upper): set_lower_limits(-inf for each key); set_upper_limits(upper);
   set_lower_limits(lower) — so that no intermediate step can collide with an old limit *)
Definition set_limits_order : list (gfn * (pstate -> pyval)) :=
  [ (g_lower, fun _ => VNum NInf);
    (g_upper, fun p => VNum (phi p));
    (g_lower, fun p => VNum (plo p)) ].

Definition reset_order : list (gfn * (pstate -> pyval)) :=
  [ (g_value, fun p => VNum (pv p)) ] ++ set_limits_order ++
  [ (g_fixed, fun p => VBool (pfx p)) ].

Definition chain (steps : list (gfn * (pstate -> pyval))) (src : list (key * pstate)) (e : elt) : elt * res :=
  fold_left (fun er st => andthen er (fun e' => setter (fst st) e' (kwargs_of (snd st) src)))
            steps (e, ROk).

Definition reset_parameters (c : cls) (e : elt) (ks : list key) : elt * res :=
  match (match ks with [] => Ok (cdefaults c) | _ => sel ks (cdefaults c) end) with
  | Ok src => chain reset_order src e
  | Err er => (e, RErr er)
  | Crash cr => (e, RCrash cr)
  end.

(* reset_parameter(key): positional-pair forms, one key *)
Definition reset_parameter (c : cls) (e : elt) (k : key) : elt * res :=
  match lookup k (cdefaults c) with
  | None => (e, RErr EKey)
  | Some p => chain reset_order [(k, p)] e
  end.

(* ---- __copy__ / __deepcopy__ ----------------------------------------------------------------- *)
(* Element.__copy__:   type(self)()._set_limits(lo, hi).set_values( **v).set_fixed( **fx).set_label(label)
   Container.__copy__: type(self)( **values, **subcircuits)._set_limits(lo, hi).set_fixed( **fx).set_label(label) *)
Definition copy_order_element : list (gfn * (pstate -> pyval)) :=
  set_limits_order ++
  [ (g_value, fun p => VNum (pv p));
    (g_fixed, fun p => VBool (pfx p)) ].
Definition copy_order_container : list (gfn * (pstate -> pyval)) :=
  set_limits_order ++
  [ (g_fixed, fun p => VBool (pfx p)) ].

(* Container.__init__( **values): `self._parameter_value[key] = float(kwargs[key])` *)
Definition init_with_values (c : cls) (src : list (key * pstate)) : elt :=
  mkE [] (map (fun kp => match lookup (fst kp) src with
                         | Some p => (fst kp, mkP (pv p) (plo (snd kp)) (phi (snd kp)) (pfx (snd kp)))
                         | None => kp end) (cdefaults c)).

Definition do_copy (c : cls) (e : elt) : elt * res :=
  let start := if ccontainer c then init_with_values c (epars e) else fresh c in
  let order := if ccontainer c then copy_order_container else copy_order_element in
  andthen (chain order (epars e) start) (fun e' => set_label e' (VStr (elabel e))).

(* ---- operations and traces -------------------------------------------------------------------- *)
Inductive eop :=
  | SetValues (a : args) | SetLower (a : args) | SetUpper (a : args) | SetFixed (a : args)
  | SetLabel (v : pyval)
  | ResetAll (ks : list key) | ResetOne (k : key)
  | Copy | DeepCopy.

(* an observation after one call: the result, the element afterwards, and for copies the copy *)
Record obs := mkO { ores : res; oelt : elt; ocopy : option elt }.

(* what a whole-world observation adds: a second live instance of the same class and the class
   defaults as read back through the class methods.  The functional model cannot alias them, so
   in model traces they are constant; on observed traces they are what the implementation shows. *)
Record wobs := mkW { wobs_o : obs; wother : elt; wdefs : list (key * pstate) }.

Definition step (c : cls) (e : elt) (o : eop) : obs :=
  match o with
  | SetValues a => let '(e', r) := setter g_value e a in mkO r e' None
  | SetLower a => let '(e', r) := setter g_lower e a in mkO r e' None
  | SetUpper a => let '(e', r) := setter g_upper e a in mkO r e' None
  | SetFixed a => let '(e', r) := setter g_fixed e a in mkO r e' None
  | SetLabel v => let '(e', r) := set_label e v in mkO r e' None
  | ResetAll ks => let '(e', r) := reset_parameters c e ks in mkO r e' None
  | ResetOne k => let '(e', r) := reset_parameter c e k in mkO r e' None
  | Copy | DeepCopy =>
      let '(e', r) := do_copy c e in
      mkO r e (match r with ROk => Some e' | _ => None end)
  end.

Fixpoint run (c : cls) (e : elt) (ops : list eop) : list (eop * obs) :=
  match ops with
  | [] => []
  | o :: r => let ob := step c e o in (o, ob) :: run c (oelt ob) r
  end.

(* ---- comparison of observations (for the correspondence check) ------------------------------- *)
Definition psame (p q : pstate) : bool :=
  xsame (pv p) (pv q) && xsame (plo p) (plo q) && xsame (phi p) (phi q) && Bool.eqb (pfx p) (pfx q).

Fixpoint list_eqb {A} (eqb : A -> A -> bool) (l m : list A) : bool :=
  match l, m with
  | [], [] => true
  | a :: l', b :: m' => eqb a b && list_eqb eqb l' m'
  | _, _ => false
  end.

Definition pars_same (l m : list (key * pstate)) : bool :=
  list_eqb (fun a b => N.eqb (fst a) (fst b) && psame (snd a) (snd b)) l m.
Definition esame (a b : elt) : bool :=
  list_eqb N.eqb (elabel a) (elabel b) && pars_same (epars a) (epars b).

Definition res_eqb (a b : res) : bool :=
  match a, b with
  | ROk, ROk => true
  | RErr x, RErr y => errkind_eqb x y
  | RCrash x, RCrash y => crashkind_eqb x y
  | _, _ => false
  end.

Definition obs_same (a b : obs) : bool :=
  res_eqb (ores a) (ores b) && esame (oelt a) (oelt b) &&
  match ocopy a, ocopy b with
  | None, None => true
  | Some x, Some y => esame x y
  | _, _ => false
  end.

Definition wobs_same (a b : wobs) : bool :=
  obs_same (wobs_o a) (wobs_o b) && esame (wother a) (wother b) && pars_same (wdefs a) (wdefs b).

Definition wrun (c : cls) (other : elt) (e : elt) (ops : list eop) : list (eop * wobs) :=
  map (fun oo => (fst oo, mkW (snd oo) other (cdefaults c))) (run c e ops).

Definition trace_same (t u : list (eop * wobs)) : bool :=
  list_eqb (fun a b => wobs_same (snd a) (snd b)) t u.

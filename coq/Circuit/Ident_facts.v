(* Circuit/Ident_facts.v — per-type counts are 1..k in traversal order; display names are injective. *)
From Coq Require Import ZArith Bool List Lia.
From PV Require Import Base.Outcome Circuit.Tree Circuit.Printer Circuit.Ident.
Import ListNotations.
Local Open Scope nat_scope.

Lemma str_eqb_eq a b : str_eqb a b = true <-> a = b.
Proof.
  revert b. induction a as [|x a IH]; intros [|y b]; simpl; split; try discriminate; auto.
  - rewrite andb_true_iff. intros [H1 H2]. apply N.eqb_eq in H1. apply IH in H2. congruence.
  - intro H. inversion H; subst. rewrite N.eqb_refl. apply IH. auto.
Qed.

Lemma str_eqb_refl a : str_eqb a a = true.
Proof. apply str_eqb_eq. auto. Qed.

Lemma count_sym_app s a b : count_sym s (a ++ b) = count_sym s a + count_sym s b.
Proof. induction a; simpl; auto. rewrite IHa. lia. Qed.

(* ---- per-type counts ----------------------------------------------------------------------------------- *)
Definition ids_of (s : str) (es : list ielt) (ids : list (nat * nat)) : list nat :=
  map (fun ep => snd (snd ep)) (filter (fun ep => str_eqb s (ie_sym (fst ep))) (combine es ids)).

Lemma typed_from_counts s : forall es bef,
  ids_of s es (typed_from bef es) = seq (S (count_sym s bef)) (count_sym s es).
Proof.
  unfold ids_of. induction es as [|e r IH]; intro bef; simpl; auto.
  destruct (str_eqb s (ie_sym e)) eqn:E; simpl.
  - apply str_eqb_eq in E. subst s. f_equal. rewrite IH, count_sym_app. simpl. rewrite str_eqb_refl. f_equal. lia.
  - rewrite IH, count_sym_app. simpl. rewrite E. f_equal. lia.
Qed.

Theorem typed_counts s es : ids_of s es (typed_ids es) = seq 1 (count_sym s es).
Proof. apply (typed_from_counts s es []). Qed.

Lemma typed_from_length es : forall bef, length (typed_from bef es) = length es.
Proof. induction es; intro b; simpl; auto. Qed.

Lemma map_fst_combine {A B} (a : list A) (b : list B) : length a = length b -> map fst (combine a b) = a.
Proof. revert b. induction a; intros [|y b]; simpl; try discriminate; auto. intro H. f_equal. apply IHa. lia. Qed.
Lemma map_snd_combine {A B} (a : list A) (b : list B) : length a = length b -> map snd (combine a b) = b.
Proof. revert b. induction a; intros [|y b]; simpl; try discriminate; auto. intro H. f_equal. apply IHa. lia. Qed.

Lemma running_ids_are_0_to_N es : map snd (running_ids es) = seq 0 (length es) /\ map fst (running_ids es) = map ie_uid es.
Proof.
  unfold running_ids. split.
  - apply map_snd_combine. rewrite map_length, seq_length. auto.
  - apply map_fst_combine. rewrite map_length, seq_length. auto.
Qed.

(* ---- display names are injective --------------------------------------------------------------------- *)
From PV Require Import Circuit.Printer_facts.
Local Open Scope nat_scope.

Definition nounder (s : str) : bool := forallb (fun c => negb (N.eqb c 95)) s.

Lemma split_first (a a' b b' : str) :
  nounder a = true -> nounder a' = true -> a ++ 95%N :: b = a' ++ 95%N :: b' -> a = a' /\ b = b'.
Proof.
  revert a'. induction a as [|x a IH]; intros [|y a'] Ha Ha' H; simpl in *.
  - inversion H. auto.
  - inversion H; subst. apply andb_true_iff in Ha'. destruct Ha' as [Hy _]. rewrite N.eqb_refl in Hy. discriminate.
  - inversion H; subst. apply andb_true_iff in Ha. destruct Ha as [Hx _]. rewrite N.eqb_refl in Hx. discriminate.
  - inversion H; subst. apply andb_true_iff in Ha. apply andb_true_iff in Ha'.
    destruct (IH a' (proj2 Ha) (proj2 Ha') H2) as [-> ->]. auto.
Qed.

Lemma typed_from_nth es : forall bef k e,
  nth_error es k = Some e ->
  nth_error (typed_from bef es) k = Some (ie_uid e, S (count_sym (ie_sym e) (bef ++ firstn k es))).
Proof.
  induction es as [|x r IH]; intros bef k e H; destruct k; simpl in *; try discriminate.
  - inversion H; subst. rewrite app_nil_r. auto.
  - rewrite (IH (bef ++ [x]) k e H). rewrite <- app_assoc. auto.
Qed.

Definition name_of (e : ielt) (tid : nat) : str :=
  ie_sym e ++ [95%N] ++ (match ie_label e with [] => dec_str tid | l => l end).

Lemma nth_error_combine {A B} (a : list A) (b : list B) k x y :
  nth_error a k = Some x -> nth_error b k = Some y -> nth_error (combine a b) k = Some (x, y).
Proof.
  revert b k. induction a as [|u a IH]; intros [|v b] [|k] Ha Hb; simpl in *; try discriminate.
  - inversion Ha; inversion Hb; subst; auto.
  - apply IH; auto.
Qed.

Lemma names_nth es k e :
  nth_error es k = Some e ->
  nth_error (names es) k = Some (ie_uid e, name_of e (S (count_sym (ie_sym e) (firstn k es)))).
Proof.
  intro H. unfold names. pose proof (typed_from_nth es [] k e H) as Ht. simpl in Ht.
  assert (Hc : nth_error (combine es (typed_ids es)) k = Some (e, (ie_uid e, S (count_sym (ie_sym e) (firstn k es)))))
    by (apply nth_error_combine; auto).
  rewrite (map_nth_error _ _ _ Hc). auto.
Qed.

Lemma count_firstn_lt s es i j ei :
  i < j -> nth_error es i = Some ei -> ie_sym ei = s ->
  count_sym s (firstn i es) < count_sym s (firstn j es).
Proof.
  revert i j. induction es as [|x r IH]; intros i j Hij Hi Hs; destruct i; simpl in *; try discriminate.
  - inversion Hi; subst. destruct j; [lia|]. simpl. rewrite str_eqb_refl. lia.
  - destruct j; [lia|]. simpl. assert (i < j) by lia. specialize (IH i j H Hi Hs). lia.
Qed.

Definition label_ok_ident (l : str) : Prop := l = [] \/ forallb is_dchar l = false.

Theorem names_injective es i j ei ej :
  i < j -> nth_error es i = Some ei -> nth_error es j = Some ej ->
  nounder (ie_sym ei) = true -> nounder (ie_sym ej) = true ->
  label_ok_ident (ie_label ei) -> label_ok_ident (ie_label ej) ->
  (ie_sym ei = ie_sym ej -> ie_label ei <> [] -> ie_label ei <> ie_label ej) ->
  name_of ei (S (count_sym (ie_sym ei) (firstn i es))) <> name_of ej (S (count_sym (ie_sym ej) (firstn j es))).
Proof.
  intros Hij Hi Hj Hui Huj Hli Hlj Hdist Heq. unfold name_of in Heq. simpl in Heq.
  destruct (split_first _ _ _ _ Hui Huj Heq) as [Hs Hsuf].
  destruct (ie_label ei) as [|c l] eqn:Eli.
  - destruct (ie_label ej) as [|c' l'] eqn:Elj.
    + (* both unlabelled: the counts differ *)
      unfold dec_str in Hsuf. apply dec_digits_inj in Hsuf; try lia.
      pose proof (count_firstn_lt (ie_sym ei) es i j ei Hij Hi eq_refl) as Hlt. rewrite <- Hs in Hsuf. lia.
    + (* a label is never all digits *)
      destruct Hlj as [H|H]; [discriminate|]. rewrite <- Hsuf in H. unfold dec_str in H.
      destruct (dec_digits_ok (Z.of_nat (S (count_sym (ie_sym ei) (firstn i es))))) as [_ Hd]; [lia|]. congruence.
  - destruct (ie_label ej) as [|c' l'] eqn:Elj.
    + destruct Hli as [H|H]; [discriminate|]. rewrite Hsuf in H. unfold dec_str in H.
      destruct (dec_digits_ok (Z.of_nat (S (count_sym (ie_sym ej) (firstn j es))))) as [_ Hd]; [lia|]. congruence.
    + apply (Hdist Hs); [discriminate|auto].
Qed.

Lemma sym_vars_lengths es : map (fun uv => length (snd uv)) (sym_vars es) = map (fun e => length (ie_keys e)) es.
Proof.
  unfold sym_vars. rewrite map_map.
  rewrite (map_ext _ (fun ei : ielt * nat => length (ie_keys (fst ei)))) by (intros [e i]; simpl; apply map_length).
  rewrite <- (map_map fst (fun e => length (ie_keys e))). rewrite map_fst_combine; auto. rewrite seq_length. auto.
Qed.

(* ---- the traversal lists no element object twice ------------------------------------------------------------------------- *)
Lemma dedup_spec : forall l seen,
  NoDup (map ie_uid (dedup seen l)) /\ (forall u, In u (map ie_uid (dedup seen l)) -> ~ In u seen)
  /\ (forall e, In e (dedup seen l) -> In e l).
Proof.
  induction l as [|e r IH]; intro seen; simpl.
  - repeat split; [constructor|intros u []|intros e []].
  - destruct (existsb (Nat.eqb (ie_uid e)) seen) eqn:E.
    + destruct (IH seen) as (H1 & H2 & H3). repeat split; auto.
    + destruct (IH (ie_uid e :: seen)) as (H1 & H2 & H3). repeat split.
      * simpl. constructor; auto. intro Hin. apply (H2 _ Hin). left. reflexivity.
      * intros u [Hu|Hu].
        -- subst u. intro Hs. assert (Hex : existsb (Nat.eqb (ie_uid e)) seen = true).
           { apply existsb_exists. exists (ie_uid e). split; auto. apply Nat.eqb_refl. }
           congruence.
        -- intro Hs. apply (H2 _ Hu). right. exact Hs.
      * intros x [Hx|Hx]; [left; auto|right; apply H3; auto].
Qed.

Theorem elems_no_duplicates fuel c : NoDup (map ie_uid (elems fuel c)).
Proof. destruct fuel; simpl; [constructor|]. apply dedup_spec. Qed.

(* the identifiers handed out are therefore pairwise distinct per object: one running identifier per listed element object *)
Corollary running_ids_functional fuel c :
  NoDup (map fst (running_ids (elems fuel c))).
Proof.
  unfold running_ids. rewrite map_fst_combine by (rewrite map_length, seq_length; reflexivity). apply elems_no_duplicates.
Qed.

(* ---- the traversal reaches every element object (completeness), for any fuel not smaller than the nesting depth -------- *)
Section Ind.
Variables (P : inode -> Prop) (Q : iconn -> Prop).
Hypothesis HE : forall u s l k subs, (forall c, In (Some c) subs -> Q c) -> P (IE u s l k subs).
Hypothesis HC : forall c, Q c -> P (IC c).
Hypothesis HS : forall l, (forall n, In n l -> P n) -> Q (ISer l).
Hypothesis HP : forall l, (forall n, In n l -> P n) -> Q (IPar l).

Fixpoint inode_ind2 (n : inode) : P n :=
  match n with
  | IE u s l k subs =>
      HE u s l k subs
        ((fix go (subs : list (option iconn)) : forall c, In (Some c) subs -> Q c :=
            match subs with
            | [] => fun c H => match H with end
            | os :: r => fun c H =>
                match H with
                | or_introl e => match os as o return o = Some c -> Q c with
                                 | Some c' => fun e' => match (f_equal (fun x => match x with Some y => y | None => c' end) e') in _ = y return Q y with eq_refl => iconn_ind2 c' end
                                 | None => fun e' => match (eq_ind None (fun x => match x with None => True | Some _ => False end) I _ e') with end
                                 end e
                | or_intror H' => go r c H'
                end
            end) subs)
  | IC c => HC c (iconn_ind2 c)
  end
with iconn_ind2 (c : iconn) : Q c :=
  match c with
  | ISer l => HS l ((fix go (l : list inode) : forall n, In n l -> P n :=
                       match l with
                       | [] => fun n H => match H with end
                       | x :: r => fun n H => match H with
                                              | or_introl e => match e in _ = y return P y with eq_refl => inode_ind2 x end
                                              | or_intror H' => go r n H'
                                              end
                       end) l)
  | IPar l => HP l ((fix go (l : list inode) : forall n, In n l -> P n :=
                       match l with
                       | [] => fun n H => match H with end
                       | x :: r => fun n H => match H with
                                              | or_introl e => match e in _ = y return P y with eq_refl => inode_ind2 x end
                                              | or_intror H' => go r n H'
                                              end
                       end) l)
  end.
End Ind.

Lemma tree_ind2 (P : inode -> Prop) (Q : iconn -> Prop) :
  (forall u s l k subs, (forall c, In (Some c) subs -> Q c) -> P (IE u s l k subs)) ->
  (forall c, Q c -> P (IC c)) ->
  (forall l, (forall n, In n l -> P n) -> Q (ISer l)) ->
  (forall l, (forall n, In n l -> P n) -> Q (IPar l)) ->
  (forall n, P n) /\ (forall c, Q c).
Proof. intros HE HC HS HP. split; [apply (inode_ind2 P Q HE HC HS HP)|apply (iconn_ind2 P Q HE HC HS HP)]. Qed.

Fixpoint depth_node (n : inode) : nat :=
  match n with
  | IE _ _ _ _ subs => S ((fix go (l : list (option iconn)) := match l with [] => 0 | Some c :: r => Nat.max (depth_conn c) (go r) | None :: r => go r end) subs)
  | IC c => S (depth_conn c)
  end
with depth_conn (c : iconn) : nat :=
  match c with
  | ISer l | IPar l => S ((fix go (l : list inode) := match l with [] => 0 | x :: r => Nat.max (depth_node x) (go r) end) l)
  end.

Definition max_sub (l : list (option iconn)) : nat :=
  (fix go (l : list (option iconn)) := match l with [] => 0 | Some c :: r => Nat.max (depth_conn c) (go r) | None :: r => go r end) l.
Definition max_node (l : list inode) : nat :=
  (fix go (l : list inode) := match l with [] => 0 | x :: r => Nat.max (depth_node x) (go r) end) l.

Lemma max_sub_in l c : In (Some c) l -> depth_conn c <= max_sub l.
Proof. induction l as [|[x|] r IH]; simpl; intros H; [contradiction| |]; destruct H as [H|H]; try discriminate; try (inversion H; subst); try lia; specialize (IH H); unfold max_sub in *; lia. Qed.
Lemma max_node_in l n : In n l -> depth_node n <= max_node l.
Proof. induction l as [|x r IH]; simpl; intros H; [contradiction|]. destruct H as [H|H]; [subst; lia|]. specialize (IH H). unfold max_node in *. lia. Qed.

(* fuel-free versions of the two walks *)
Fixpoint items_node' (n : inode) : list ielt :=
  match n with
  | IE u s l k subs => [mkIE u s l k subs]
  | IC c => items_conn' c
  end
with items_conn' (c : iconn) : list ielt :=
  match c with
  | ISer l | IPar l => (fix go (l : list inode) := match l with [] => [] | x :: r => items_node' x ++ go r end) l
  end.

Fixpoint uids_node' (n : inode) : list nat :=
  match n with
  | IE u _ _ _ subs => u :: (fix go (l : list (option iconn)) := match l with [] => [] | Some c :: r => uids_conn' c ++ go r | None :: r => go r end) subs
  | IC c => uids_conn' c
  end
with uids_conn' (c : iconn) : list nat :=
  match c with
  | ISer l | IPar l => (fix go (l : list inode) := match l with [] => [] | x :: r => uids_node' x ++ go r end) l
  end.

Definition sub_uids (os : option iconn) : list nat := match os with Some s => uids_conn' s | None => [] end.
Definition elt_uids (e : ielt) : list nat := ie_uid e :: flat_map sub_uids (ie_subs e).

Lemma go_items l : (fix go (l : list inode) := match l with [] => [] | x :: r => items_node' x ++ go r end) l = flat_map items_node' l.
Proof. induction l; simpl; congruence. Qed.
Lemma go_uids l : (fix go (l : list inode) := match l with [] => [] | x :: r => uids_node' x ++ go r end) l = flat_map uids_node' l.
Proof. induction l; simpl; congruence. Qed.
Lemma go_subs l : (fix go (l : list (option iconn)) := match l with [] => [] | Some c :: r => uids_conn' c ++ go r | None :: r => go r end) l = flat_map sub_uids l.
Proof. induction l as [|[c|] r IH]; simpl; congruence. Qed.

Lemma flat_map_ext_in {A B} (f g : A -> list B) l : (forall x, In x l -> f x = g x) -> flat_map f l = flat_map g l.
Proof. induction l; simpl; intro H; auto. rewrite H by auto. rewrite IHl; auto. Qed.

Lemma flat_map_flat_map {A B C} (f : A -> list B) (g : B -> list C) l : flat_map g (flat_map f l) = flat_map (fun x => flat_map g (f x)) l.
Proof. induction l; simpl; auto. rewrite flat_map_app. congruence. Qed.

(* with enough fuel the fuelled walks are the fuel-free ones *)
Lemma items_fuel :
  (forall n f, depth_node n <= f -> items_node f n = items_node' n) /\ (forall c f, depth_conn c <= f -> items_conn f c = items_conn' c).
Proof.
  apply tree_ind2.
  - intros u s l k subs _ f H. destruct f; [simpl in H; lia|reflexivity].
  - intros c IH f H. destruct f; [simpl in H; lia|]. simpl in *. apply IH. lia.
  - intros l IH f H. destruct f; [simpl in H; lia|]. cbn [items_conn items_conn']. rewrite go_items.
    apply flat_map_ext_in. intros x Hx. apply IH; auto. pose proof (max_node_in l x Hx). simpl in H. unfold max_node in *. lia.
  - intros l IH f H. destruct f; [simpl in H; lia|]. cbn [items_conn items_conn']. rewrite go_items.
    apply flat_map_ext_in. intros x Hx. apply IH; auto. pose proof (max_node_in l x Hx). simpl in H. unfold max_node in *. lia.
Qed.

Lemma uids_fuel :
  (forall n f, depth_node n <= f -> all_uids_node f n = uids_node' n) /\ (forall c f, depth_conn c <= f -> all_uids_conn f c = uids_conn' c).
Proof.
  apply tree_ind2.
  - intros u s l k subs IH f H. destruct f; [simpl in H; lia|]. cbn [all_uids_node uids_node']. f_equal. rewrite go_subs.
    apply flat_map_ext_in. intros [c|] Hc; [|reflexivity]. simpl. apply IH; auto. pose proof (max_sub_in subs c Hc). simpl in H. unfold max_sub in *. lia.
  - intros c IH f H. destruct f; [simpl in H; lia|]. simpl in *. apply IH. lia.
  - intros l IH f H. destruct f; [simpl in H; lia|]. cbn [all_uids_conn uids_conn']. rewrite go_uids.
    apply flat_map_ext_in. intros x Hx. apply IH; auto. pose proof (max_node_in l x Hx). simpl in H. unfold max_node in *. lia.
  - intros l IH f H. destruct f; [simpl in H; lia|]. cbn [all_uids_conn uids_conn']. rewrite go_uids.
    apply flat_map_ext_in. intros x Hx. apply IH; auto. pose proof (max_node_in l x Hx). simpl in H. unfold max_node in *. lia.
Qed.

(* every element object is a top-level element of the connection tree or lies in a sub-circuit of one *)
Lemma uids_structure :
  (forall n, uids_node' n = flat_map elt_uids (items_node' n)) /\ (forall c, uids_conn' c = flat_map elt_uids (items_conn' c)).
Proof.
  apply tree_ind2.
  - intros u s l k subs _. cbn [uids_node' items_node' flat_map]. rewrite go_subs, app_nil_r. reflexivity.
  - intros c IH. exact IH.
  - intros l IH. cbn [uids_conn' items_conn']. rewrite go_uids, go_items, flat_map_flat_map. apply flat_map_ext_in. exact IH.
  - intros l IH. cbn [uids_conn' items_conn']. rewrite go_uids, go_items, flat_map_flat_map. apply flat_map_ext_in. exact IH.
Qed.

Lemma sub_depth :
  (forall n e s, In e (items_node' n) -> In (Some s) (ie_subs e) -> depth_conn s < depth_node n)
  /\ (forall c e s, In e (items_conn' c) -> In (Some s) (ie_subs e) -> depth_conn s < depth_conn c).
Proof.
  apply tree_ind2.
  - intros u sy l k subs _ e s He Hs. destruct He as [He|[]]. subst e. simpl in Hs. pose proof (max_sub_in subs s Hs). simpl. unfold max_sub in *. lia.
  - intros c IH e s He Hs. simpl in *. specialize (IH e s He Hs). lia.
  - intros l IH e s He Hs. cbn [items_conn'] in He. rewrite go_items in He. apply in_flat_map in He. destruct He as (x & Hx & He).
    specialize (IH x Hx e s He Hs). pose proof (max_node_in l x Hx). simpl. unfold max_node in *. lia.
  - intros l IH e s He Hs. cbn [items_conn'] in He. rewrite go_items in He. apply in_flat_map in He. destruct He as (x & Hx & He).
    specialize (IH x Hx e s He Hs). pose proof (max_node_in l x Hx). simpl. unfold max_node in *. lia.
Qed.

Lemma dedup_complete : forall l seen u, In u (map ie_uid l) -> ~ In u seen -> In u (map ie_uid (dedup seen l)).
Proof.
  induction l as [|e r IH]; intros seen u Hu Hs; simpl in *; [contradiction|].
  destruct (existsb (Nat.eqb (ie_uid e)) seen) eqn:E.
  - destruct Hu as [Hu|Hu]; [|apply IH; auto]. subst u. exfalso. apply existsb_exists in E. destruct E as (x & Hx & Hex).
    apply Nat.eqb_eq in Hex. subst x. contradiction.
  - simpl. destruct Hu as [Hu|Hu]; [left; exact Hu|]. destruct (Nat.eq_dec (ie_uid e) u) as [->|Hne]; [left; reflexivity|].
    right. apply IH; auto. intros [H|H]; auto.
Qed.

Theorem traversal_complete : forall f c, depth_conn c <= f ->
  forall u, In u (all_uids_conn f c) -> In u (map ie_uid (elems f c)).
Proof.
  induction f as [|f IH]; intros c Hd u Hu.
  - destruct c; simpl in Hd; lia.
  - rewrite (proj2 uids_fuel c (S f) Hd) in Hu. rewrite (proj2 uids_structure c) in Hu.
    cbn [elems]. rewrite (proj2 items_fuel c (S f) Hd).
    apply dedup_complete; [|intros []]. rewrite map_app. apply in_or_app.
    apply in_flat_map in Hu. destruct Hu as (e & He & Hue). destruct Hue as [Hue|Hue].
    + left. subst u. apply in_map. exact He.
    + right. apply in_flat_map in Hue. destruct Hue as ([s|] & Hs & Hus); [|contradiction]. simpl in Hus.
      pose proof (proj2 sub_depth c e s He Hs) as Hlt.
      assert (Hds : depth_conn s <= f) by lia.
      rewrite <- (proj2 uids_fuel s f Hds) in Hus. specialize (IH s Hds u Hus).
      apply in_map_iff in IH. destruct IH as (x & Hx & Hin). apply in_map_iff. exists x. split; auto.
      apply in_flat_map. exists e. split; auto. apply in_flat_map. exists (Some s). split; auto.
Qed.

Theorem traversal_sound : forall f c, depth_conn c <= f ->
  forall u, In u (map ie_uid (elems f c)) -> In u (all_uids_conn f c).
Proof.
  induction f as [|f IH]; intros c Hd u Hu.
  - destruct c; simpl in Hd; lia.
  - rewrite (proj2 uids_fuel c (S f) Hd), (proj2 uids_structure c).
    cbn [elems] in Hu. rewrite (proj2 items_fuel c (S f) Hd) in Hu.
    apply in_map_iff in Hu. destruct Hu as (x & Hx & Hin). destruct (dedup_spec (items_conn' c ++ flat_map (fun e => flat_map (fun os => match os with Some s => elems f s | None => [] end) (ie_subs e)) (items_conn' c)) []) as (_ & _ & Hsub).
    specialize (Hsub x Hin). apply in_app_or in Hsub. destruct Hsub as [Hsub|Hsub].
    + apply in_flat_map. exists x. split; auto. left. exact Hx.
    + apply in_flat_map in Hsub. destruct Hsub as (e & He & Hsub). apply in_flat_map in Hsub. destruct Hsub as ([s|] & Hs & Hxs); [|contradiction].
      pose proof (proj2 sub_depth c e s He Hs) as Hlt. assert (Hds : depth_conn s <= f) by lia.
      assert (Hu' : In u (all_uids_conn f s)) by (apply IH; auto; apply in_map_iff; exists x; auto).
      rewrite (proj2 uids_fuel s f Hds) in Hu'. apply in_flat_map. exists e. split; auto. right.
      apply in_flat_map. exists (Some s). split; auto.
Qed.

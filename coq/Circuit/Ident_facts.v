(* Circuit/Ident_facts.v — per-type counts are 1..k in traversal order; display names are injective. *)
From Coq Require Import ZArith Bool List Lia.
From PV Require Import Base.Outcome Circuit.Tree Circuit.Printer Circuit.Ident.
Import ListNotations.
Local Open Scope nat_scope.

Lemma str_eqb_eq a b : str_eqb a b = true <-> a = b.
Proof.
  revert b. induction a as [|x a IH]; intros [|y b]; simpl; split; try discriminate; auto.
  - rewrite andb_true_iff. intros [H1 H2]. apply N.eqb_eq in H1. apply IH in H2. congruence.
  - intro H. inversion H; subst. rewrite N.eqb_refl. apply IH. auto.
Qed.

Lemma str_eqb_refl a : str_eqb a a = true.
Proof. apply str_eqb_eq. auto. Qed.

Lemma count_sym_app s a b : count_sym s (a ++ b) = count_sym s a + count_sym s b.
Proof. induction a; simpl; auto. rewrite IHa. lia. Qed.

(* ---- per-type counts ----------------------------------------------------------------------------------- *)
Definition ids_of (s : str) (es : list ielt) (ids : list (nat * nat)) : list nat :=
  map (fun ep => snd (snd ep)) (filter (fun ep => str_eqb s (ie_sym (fst ep))) (combine es ids)).

Lemma typed_from_counts s : forall es bef,
  ids_of s es (typed_from bef es) = seq (S (count_sym s bef)) (count_sym s es).
Proof.
  unfold ids_of. induction es as [|e r IH]; intro bef; simpl; auto.
  destruct (str_eqb s (ie_sym e)) eqn:E; simpl.
  - apply str_eqb_eq in E. subst s. f_equal. rewrite IH, count_sym_app. simpl. rewrite str_eqb_refl. f_equal. lia.
  - rewrite IH, count_sym_app. simpl. rewrite E. f_equal. lia.
Qed.

Theorem typed_counts s es : ids_of s es (typed_ids es) = seq 1 (count_sym s es).
Proof. apply (typed_from_counts s es []). Qed.

Lemma typed_from_length es : forall bef, length (typed_from bef es) = length es.
Proof. induction es; intro b; simpl; auto. Qed.

Lemma map_fst_combine {A B} (a : list A) (b : list B) : length a = length b -> map fst (combine a b) = a.
Proof. revert b. induction a; intros [|y b]; simpl; try discriminate; auto. intro H. f_equal. apply IHa. lia. Qed.
Lemma map_snd_combine {A B} (a : list A) (b : list B) : length a = length b -> map snd (combine a b) = b.
Proof. revert b. induction a; intros [|y b]; simpl; try discriminate; auto. intro H. f_equal. apply IHa. lia. Qed.

Lemma running_ids_are_0_to_N es : map snd (running_ids es) = seq 0 (length es) /\ map fst (running_ids es) = map ie_uid es.
Proof.
  unfold running_ids. split.
  - apply map_snd_combine. rewrite map_length, seq_length. auto.
  - apply map_fst_combine. rewrite map_length, seq_length. auto.
Qed.

(* ---- display names are injective --------------------------------------------------------------------- *)
From PV Require Import Circuit.Printer_facts.
Local Open Scope nat_scope.

Definition nounder (s : str) : bool := forallb (fun c => negb (N.eqb c 95)) s.

Lemma split_first (a a' b b' : str) :
  nounder a = true -> nounder a' = true -> a ++ 95%N :: b = a' ++ 95%N :: b' -> a = a' /\ b = b'.
Proof.
  revert a'. induction a as [|x a IH]; intros [|y a'] Ha Ha' H; simpl in *.
  - inversion H. auto.
  - inversion H; subst. apply andb_true_iff in Ha'. destruct Ha' as [Hy _]. rewrite N.eqb_refl in Hy. discriminate.
  - inversion H; subst. apply andb_true_iff in Ha. destruct Ha as [Hx _]. rewrite N.eqb_refl in Hx. discriminate.
  - inversion H; subst. apply andb_true_iff in Ha. apply andb_true_iff in Ha'.
    destruct (IH a' (proj2 Ha) (proj2 Ha') H2) as [-> ->]. auto.
Qed.

Lemma typed_from_nth es : forall bef k e,
  nth_error es k = Some e ->
  nth_error (typed_from bef es) k = Some (ie_uid e, S (count_sym (ie_sym e) (bef ++ firstn k es))).
Proof.
  induction es as [|x r IH]; intros bef k e H; destruct k; simpl in *; try discriminate.
  - inversion H; subst. rewrite app_nil_r. auto.
  - rewrite (IH (bef ++ [x]) k e H). rewrite <- app_assoc. auto.
Qed.

Definition name_of (e : ielt) (tid : nat) : str :=
  ie_sym e ++ [95%N] ++ (match ie_label e with [] => dec_str tid | l => l end).

Lemma nth_error_combine {A B} (a : list A) (b : list B) k x y :
  nth_error a k = Some x -> nth_error b k = Some y -> nth_error (combine a b) k = Some (x, y).
Proof.
  revert b k. induction a as [|u a IH]; intros [|v b] [|k] Ha Hb; simpl in *; try discriminate.
  - inversion Ha; inversion Hb; subst; auto.
  - apply IH; auto.
Qed.

Lemma names_nth es k e :
  nth_error es k = Some e ->
  nth_error (names es) k = Some (ie_uid e, name_of e (S (count_sym (ie_sym e) (firstn k es)))).
Proof.
  intro H. unfold names. pose proof (typed_from_nth es [] k e H) as Ht. simpl in Ht.
  assert (Hc : nth_error (combine es (typed_ids es)) k = Some (e, (ie_uid e, S (count_sym (ie_sym e) (firstn k es)))))
    by (apply nth_error_combine; auto).
  rewrite (map_nth_error _ _ _ Hc). auto.
Qed.

Lemma count_firstn_lt s es i j ei :
  i < j -> nth_error es i = Some ei -> ie_sym ei = s ->
  count_sym s (firstn i es) < count_sym s (firstn j es).
Proof.
  revert i j. induction es as [|x r IH]; intros i j Hij Hi Hs; destruct i; simpl in *; try discriminate.
  - inversion Hi; subst. destruct j; [lia|]. simpl. rewrite str_eqb_refl. lia.
  - destruct j; [lia|]. simpl. assert (i < j) by lia. specialize (IH i j H Hi Hs). lia.
Qed.

Definition label_ok_ident (l : str) : Prop := l = [] \/ forallb is_dchar l = false.

Theorem names_injective es i j ei ej :
  i < j -> nth_error es i = Some ei -> nth_error es j = Some ej ->
  nounder (ie_sym ei) = true -> nounder (ie_sym ej) = true ->
  label_ok_ident (ie_label ei) -> label_ok_ident (ie_label ej) ->
  (ie_sym ei = ie_sym ej -> ie_label ei <> [] -> ie_label ei <> ie_label ej) ->
  name_of ei (S (count_sym (ie_sym ei) (firstn i es))) <> name_of ej (S (count_sym (ie_sym ej) (firstn j es))).
Proof.
  intros Hij Hi Hj Hui Huj Hli Hlj Hdist Heq. unfold name_of in Heq. simpl in Heq.
  destruct (split_first _ _ _ _ Hui Huj Heq) as [Hs Hsuf].
  destruct (ie_label ei) as [|c l] eqn:Eli.
  - destruct (ie_label ej) as [|c' l'] eqn:Elj.
    + (* both unlabelled: the counts differ *)
      unfold dec_str in Hsuf. apply dec_digits_inj in Hsuf; try lia.
      pose proof (count_firstn_lt (ie_sym ei) es i j ei Hij Hi eq_refl) as Hlt. rewrite <- Hs in Hsuf. lia.
    + (* a label is never all digits *)
      destruct Hlj as [H|H]; [discriminate|]. rewrite <- Hsuf in H. unfold dec_str in H.
      destruct (dec_digits_ok (Z.of_nat (S (count_sym (ie_sym ei) (firstn i es))))) as [_ Hd]; [lia|]. congruence.
  - destruct (ie_label ej) as [|c' l'] eqn:Elj.
    + destruct Hli as [H|H]; [discriminate|]. rewrite Hsuf in H. unfold dec_str in H.
      destruct (dec_digits_ok (Z.of_nat (S (count_sym (ie_sym ej) (firstn j es))))) as [_ Hd]; [lia|]. congruence.
    + apply (Hdist Hs); [discriminate|auto].
Qed.

Lemma sym_vars_lengths es : map (fun uv => length (snd uv)) (sym_vars es) = map (fun e => length (ie_keys e)) es.
Proof.
  unfold sym_vars. rewrite map_map.
  rewrite (map_ext _ (fun ei : ielt * nat => length (ie_keys (fst ei)))) by (intros [e i]; simpl; apply map_length).
  rewrite <- (map_map fst (fun e => length (ie_keys e))). rewrite map_fst_combine; auto. rewrite seq_length. auto.
Qed.

(* ---- the traversal lists no element object twice ------------------------------------------------------------------------- *)
Lemma dedup_spec : forall l seen,
  NoDup (map ie_uid (dedup seen l)) /\ (forall u, In u (map ie_uid (dedup seen l)) -> ~ In u seen)
  /\ (forall e, In e (dedup seen l) -> In e l).
Proof.
  induction l as [|e r IH]; intro seen; simpl.
  - repeat split; [constructor|intros u []|intros e []].
  - destruct (existsb (Nat.eqb (ie_uid e)) seen) eqn:E.
    + destruct (IH seen) as (H1 & H2 & H3). repeat split; auto.
    + destruct (IH (ie_uid e :: seen)) as (H1 & H2 & H3). repeat split.
      * simpl. constructor; auto. intro Hin. apply (H2 _ Hin). left. reflexivity.
      * intros u [Hu|Hu].
        -- subst u. intro Hs. assert (Hex : existsb (Nat.eqb (ie_uid e)) seen = true).
           { apply existsb_exists. exists (ie_uid e). split; auto. apply Nat.eqb_refl. }
           congruence.
        -- intro Hs. apply (H2 _ Hu). right. exact Hs.
      * intros x [Hx|Hx]; [left; auto|right; apply H3; auto].
Qed.

Theorem elems_no_duplicates fuel c : NoDup (map ie_uid (elems fuel c)).
Proof. destruct fuel; simpl; [constructor|]. apply dedup_spec. Qed.

(* the identifiers handed out are therefore pairwise distinct per object: one running identifier per listed element object *)
Corollary running_ids_functional fuel c :
  NoDup (map fst (running_ids (elems fuel c))).
Proof.
  unfold running_ids. rewrite map_fst_combine by (rewrite map_length, seq_length; reflexivity). apply elems_no_duplicates.
Qed.

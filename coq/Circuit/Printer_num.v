(* Circuit/Printer_num.v — the shape of what "%.dE" prints for a finite number: [-] one digit [. d digits] E (+|-) at least two
   digits — for every rational and every number of decimals. *)
From Coq Require Import ZArith NArith QArith Qabs Qpower Bool List Lia ZifyBool ZifyN.
From PV Require Import Base.Num Base.Outcome Circuit.ElemState Circuit.Tree Circuit.Token Circuit.Printer Circuit.Token_decode Circuit.Token_ext.
Import ListNotations.
Local Open Scope Z_scope.

Lemma is_dig_ch z : 0 <= z < 10 -> is_dig (ch (48 + z)) = true.
Proof. intro H. unfold is_dig, ch. lia. Qed.

Lemma digits_rev_dig : forall fuel z, 0 <= z -> forallb is_dig (digits_rev fuel z) = true.
Proof.
  induction fuel as [|f IH]; intros z Hz; cbn [digits_rev forallb]; [reflexivity|].
  destruct (z <? 10) eqn:E.
  - cbn [forallb]. rewrite is_dig_ch by lia. reflexivity.
  - cbn [forallb]. rewrite is_dig_ch by (pose proof (Z.mod_pos_bound z 10); lia).
    rewrite IH; [reflexivity|]. apply Z.div_pos; lia.
Qed.

Lemma forallb_rev {A} (p : A -> bool) l : forallb p (rev l) = forallb p l.
Proof.
  induction l as [|x l IH]; [reflexivity|]. cbn [rev forallb]. rewrite forallb_app, IH. cbn [forallb]. rewrite andb_true_r. apply andb_comm.
Qed.

Lemma dec_digits_dig z : 0 <= z -> forallb is_dig (dec_digits z) = true /\ dec_digits z <> [].
Proof.
  intro Hz. unfold dec_digits. split.
  - rewrite forallb_rev. apply digits_rev_dig. exact Hz.
  - cbn [digits_rev]. destruct (z <? 10); intro H; apply (f_equal (@length N)) in H; rewrite rev_length in H; cbn [length] in H; discriminate.
Qed.

Lemma pad_left_dig w l : forallb is_dig l = true -> l <> [] -> forallb is_dig (pad_left w l) = true /\ pad_left w l <> [].
Proof.
  intros Hd Hn. unfold pad_left. split.
  - rewrite forallb_app, Hd, andb_true_r. induction (w - length l)%nat as [|k IH]; [reflexivity|]. cbn [repeat forallb]. rewrite IH. reflexivity.
  - destruct l; [congruence|]. destruct (repeat 48%N (w - length (n :: l))); discriminate.
Qed.

Lemma qfloor_nonneg q : 0 <= Qnum q -> 0 <= qfloor q.
Proof. intro H. unfold qfloor. apply Z.div_pos; [exact H|reflexivity]. Qed.

Lemma round_half_even_nonneg q : 0 <= Qnum q -> 0 <= round_half_even q.
Proof.
  intro H. unfold round_half_even. pose proof (qfloor_nonneg q H).
  destruct (Qcompare _ _); [destruct (Z.even (qfloor q))| |]; lia.
Qed.

Lemma pow10_num_nonneg e : 0 <= Qnum (pow10 e).
Proof.
  unfold pow10. assert (H : (0 <= Qpower (10 # 1) e)%Q) by (apply Qpower_0_le; discriminate).
  unfold Qle in H. cbn [Qnum Qden] in H. lia.
Qed.

(* the pieces of a printed number *)
Record numparts := mkNP { np_neg : bool; np_c : N; np_frac : str; np_eneg : bool; np_edigs : str }.

(* mantissa and exponent as fmtE computes them *)
Definition fmt_me (d : nat) (q : Q) : Z * Z :=
  let a := Qabs q in
  let dz := Z.of_nat d in
  if Qeq_bool a 0%Q then (0, 0)
  else
    let e := dec_exponent a in
    let m := round_half_even (a * pow10 (dz - e))%Q in
    if Z.pow 10 (dz + 1) <=? m then (Z.pow 10 dz, e + 1) else (m, e).

Definition fmt_parts (d : nat) (q : Q) : numparts :=
  let '(m, e) := fmt_me d q in
  let ds := pad_left (S d) (dec_digits m) in
  mkNP (if Qlt_le_dec q 0%Q then true else false) (hd 48%N ds) (tl ds) (e <? 0) (pad_left 2 (dec_digits (Z.abs e))).

Theorem fmtE_parts d q :
  fmtE d (Fin q) = num_text (np_neg (fmt_parts d q)) (np_c (fmt_parts d q)) (np_frac (fmt_parts d q)) (np_eneg (fmt_parts d q)) (np_edigs (fmt_parts d q))
  /\ num_shape (np_c (fmt_parts d q)) (np_frac (fmt_parts d q)) (np_edigs (fmt_parts d q)).
Proof.
  unfold fmtE, fmt_parts. fold (fmt_me d q).
  assert (Hm : 0 <= fst (fmt_me d q)).
  { unfold fmt_me. destruct (Qeq_bool (Qabs q) 0); [cbn; lia|]. cbv zeta.
    destruct (10 ^ (Z.of_nat d + 1) <=? _) eqn:E; cbn [fst].
    - apply Z.pow_nonneg. lia.
    - apply round_half_even_nonneg. cbn [Qnum Qmult]. apply Z.mul_nonneg_nonneg; [|apply pow10_num_nonneg].
      destruct q as [n dn]. cbn. lia. }
  destruct (fmt_me d q) as [m e] eqn:Eme. cbn [fst] in Hm.
  destruct (dec_digits_dig m Hm) as [Hd1 Hd2].
  destruct (pad_left_dig (S d) (dec_digits m) Hd1 Hd2) as [Hp1 Hp2].
  destruct (dec_digits_dig (Z.abs e) (Z.abs_nonneg e)) as [He1 He2].
  destruct (pad_left_dig 2 (dec_digits (Z.abs e)) He1 He2) as [Hq1 Hq2].
  destruct (pad_left (S d) (dec_digits m)) as [|c r] eqn:Eds; [congruence|].
  cbn [forallb] in Hp1. apply andb_prop in Hp1 as [Hc Hr].
  cbn [np_neg np_c np_frac np_eneg np_edigs hd tl]. split.
  - unfold num_text. destruct (Qlt_le_dec q 0); cbn [app]; destruct r; reflexivity.
  - repeat split; auto.
Qed.

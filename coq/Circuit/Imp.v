(* Circuit/Imp.v — series/parallel composition of impedances.
   [spec]: the pointwise law on extended values (finite | Inf): parts in series add, parts in parallel add as
   reciprocals, an open branch contributes nothing, a shorted branch shorts the connection.
   [impl]: a line-by-line model of Series._impedance and Parallel._impedance on VECTORS of frequencies
   (num_open_paths, the shorted mask, early returns, the two result branches) and of the inf check of
   _calculate_impedances.  Generic in the number type so that the same definitions run on exact complex
   rationals (correspondence) and are reasoned about on Coquelicot's C (laws).  Model only. *)
From Coq Require Import ZArith Bool List.
From PV Require Import Base.Outcome.
Import ListNotations.

Inductive ctree := Leaf (id : nat) | CSer (l : list ctree) | CPar (l : list ctree).

Section Generic.
Variable K : Type.
Variable k0 : K.
Variable kadd : K -> K -> K.
Variable kinv : K -> K.          (* reciprocal of a non-zero number *)
Variable kis0 : K -> bool.

Inductive ez := Zf (z : K) | Inf.

Definition ez_is_inf (a : ez) : bool := match a with Inf => true | _ => false end.
Definition ez_is_zero (a : ez) : bool := match a with Zf z => kis0 z | Inf => false end.
Definition ez_add (a b : ez) : ez := match a, b with Zf x, Zf y => Zf (kadd x y) | _, _ => Inf end.
(* 1/Z as numpy computes it: 1/0 = inf, 1/inf = 0 *)
Definition ez_inv (a : ez) : ez := match a with Zf z => if kis0 z then Inf else Zf (kinv z) | Inf => Zf k0 end.

(* ---- the pointwise law ------------------------------------------------------------------------------ *)
Fixpoint spec (t : ctree) (leaf : nat -> ez) : ez :=
  match t with
  | Leaf id => leaf id
  | CSer l => fold_left (fun acc c => ez_add acc (spec c leaf)) l (Zf k0)
  | CPar [] => Zf k0
  | CPar l =>
      let vals := map (fun c => spec c leaf) l in
      if existsb ez_is_zero vals then Zf k0
      else
        let fin := filter (fun v => negb (ez_is_inf v)) vals in
        match fin with
        | [] => Inf
        | _ => ez_inv (fold_left (fun acc v => ez_add acc (ez_inv v)) fin (Zf k0))
        end
  end.

(* ---- the implementation on vectors -------------------------------------------------------------------- *)
Definition zeros (n : nat) : list ez := repeat (Zf k0) n.
Definition vadd (a b : list ez) : list ez := map (fun xy : ez * ez => ez_add (fst xy) (snd xy)) (combine a b).
Definition count (p : ez -> bool) (v : list ez) : nat := length (filter p v).

(* results[non_shorted] = 1 / sum(1/Z[non_shorted]); shorted entries stay 0 *)
Definition par_result (n : nat) (shorted : list bool) (paths : list (list ez)) : list ez :=
  let sums := fold_left (fun acc Z => vadd acc (map ez_inv Z)) paths (zeros n) in
  map (fun sb : ez * bool => if snd sb then Zf k0 else ez_inv (fst sb)) (combine sums shorted).

Section Impl.
Variable leafv : nat -> list ez.
Variable n : nat.

(* the loop of Parallel._impedance over the remaining children, with its three accumulators *)
Fixpoint par_loop (impl : ctree -> outcome (list ez)) (children : list ctree)
         (total : nat) (shorted : list bool) (paths : list (list ez)) (num_open : nat) : outcome (list ez) :=
  match children with
  | [] =>
      if forallb (fun b => b) shorted then Ok (zeros n)
      else if Nat.eqb num_open total then Ok (repeat Inf n)      (* all paths open: an open connection *)
      else Ok (par_result n shorted (rev paths))
  | c :: rest =>
      let* Z := impl c in
      let ninf := count ez_is_inf Z in
      if Nat.eqb ninf n then par_loop impl rest total shorted paths (S num_open)
      else if Nat.ltb 0 ninf then Err EInfiniteImpedance
      else
        let nzero := count ez_is_zero Z in
        if Nat.eqb nzero n then Ok (zeros n)
        else
          let shorted' := if Nat.ltb 0 nzero then map (fun bz : bool * ez => fst bz || ez_is_zero (snd bz)) (combine shorted Z) else shorted in
          if Nat.ltb 0 nzero && forallb (fun b => b) shorted' then Ok (zeros n)
          else par_loop impl rest total shorted' (Z :: paths) num_open
  end.

Fixpoint ser_loop (impl : ctree -> outcome (list ez)) (children : list ctree) (acc : list ez) : outcome (list ez) :=
  match children with
  | [] => Ok acc
  | c :: rest => let* Z := impl c in ser_loop impl rest (vadd acc Z)
  end.

(* [impl] is written with the loops as local fixpoints (so that the recursion is structural); Imp_facts.v
   shows [impl (CSer l) = ser_loop impl l ..] and [impl (CPar l) = par_loop impl l ..] *)
Fixpoint impl (t : ctree) : outcome (list ez) :=
  match t with
  | Leaf id => Ok (leafv id)
  | CSer l =>
      (fix sl (children : list ctree) (acc : list ez) : outcome (list ez) :=
         match children with
         | [] => Ok acc
         | c :: rest => let* Z := impl c in sl rest (vadd acc Z)
         end) l (zeros n)
  | CPar [] => Ok (zeros n)
  | CPar l =>
      (fix pl (children : list ctree) (shorted : list bool) (paths : list (list ez)) (num_open : nat) : outcome (list ez) :=
         match children with
         | [] =>
             if forallb (fun b => b) shorted then Ok (zeros n)
             else if Nat.eqb num_open (length l) then Ok (repeat Inf n)
             else Ok (par_result n shorted (rev paths))
         | c :: rest =>
             let* Z := impl c in
             let ninf := count ez_is_inf Z in
             if Nat.eqb ninf n then pl rest shorted paths (S num_open)
             else if Nat.ltb 0 ninf then Err EInfiniteImpedance
             else
               let nzero := count ez_is_zero Z in
               if Nat.eqb nzero n then Ok (zeros n)
               else
                 let shorted' := if Nat.ltb 0 nzero then map (fun bz : bool * ez => fst bz || ez_is_zero (snd bz)) (combine shorted Z) else shorted in
                 if Nat.ltb 0 nzero && forallb (fun b => b) shorted' then Ok (zeros n)
                 else pl rest shorted' (Z :: paths) num_open
         end) l (repeat false n) [] 0
  end.

(* _calculate_impedances at positive finite frequencies: reject infinite results *)
Definition get_impedances (t : ctree) : outcome (list ez) :=
  let* Z := impl t in
  if existsb ez_is_inf Z then Err EInfiniteImpedance else Ok Z.
End Impl.
End Generic.

Arguments Zf {K} z.
Arguments Inf {K}.

(* Data/DataSpec.v — the reference model of property C05: a data set is a list of triples
   (frequency, impedance, masked?) kept in the order "descending frequency"; every operation acts on
   triples, so a point's frequency, impedance and flag can never come apart.  [spec_trace] is what the
   property demands of the observable views after the constructor and after every operation. *)
From Coq Require Import ZArith QArith Bool List.
From PV Require Import Base.Num Base.Outcome Data.DataSet.
Import ListNotations.

Definition triple := (Q * cplx * bool)%type.
Definition tf (t : triple) : Q := fst (fst t).
Definition tz (t : triple) : cplx := snd (fst t).
Definition tm (t : triple) : bool := snd t.

(* attach to each point the flag the caller gave for ITS index *)
Fixpoint attach (i : Z) (fs : list Q) (zs : list cplx) (m : dict) : list triple :=
  match fs, zs with
  | f :: fr, z :: zr => (f, z, dget i m false) :: attach (i + 1) fr zr m
  | _, _ => []
  end.

Definition valid_input (fs : list Q) (zs : list cplx) : bool :=
  Nat.eqb (length fs) (length zs) && negb (Nat.eqb (length fs) 0) && negb (has_dup fs).

Definition spec_construct (fs : list Q) (zs : list cplx) (mask : option dict) : list triple :=
  let pts := attach 0 fs zs (match mask with Some m => m | None => [] end) in
  match fs with
  | f0 :: _ => if Qltb f0 (last fs f0) then rev pts else pts
  | [] => pts
  end.

Fixpoint remask (i : Z) (ts : list triple) (m : dict) : list triple :=
  match ts with
  | [] => []
  | t :: r => (tf t, tz t, if dhas i m then dget i m false else tm t) :: remask (i + 1) r m
  end.

Definition spec_step (ts : list triple) (o : dop) : list triple * bool :=
  match o with
  | SetMask [] => (map (fun t => (tf t, tz t, false)) ts, true)
  | SetMask m => (remask 0 ts m, true)
  | LowPass c => (map (fun t => (tf t, tz t, tm t || Qltb c (tf t))) ts, true)
  | HighPass c => (map (fun t => (tf t, tz t, tm t || Qltb (tf t) c)) ts, true)
  | Subtract (SubScalar c) => (map (fun t => (tf t, csub (tz t) c, tm t)) ts, true)
  | Subtract (SubVector l) =>
      if Nat.eqb (length l) (length ts)
      then (map (fun tc => (tf (fst tc), csub (tz (fst tc)) (snd tc), tm (fst tc))) (combine ts l), true)
      else (ts, false)
  | RoundTrip _ dm => (if dm then map (fun t => (tf t, tz t, false)) ts else ts, true)   (* no "mask" key: nothing masked *)
  | Duplicate => (ts, true)
  end.

Fixpoint enum_flags (i : Z) (ts : list triple) : dict :=
  match ts with [] => [] | t :: r => (i, tm t) :: enum_flags (i + 1) r end.

Definition spec_obs (ok : bool) (ts : list triple) : dobs :=
  mkDO ok (map tf ts) (map tz ts)
       (map tf (filter (fun t => negb (tm t)) ts)) (map tz (filter (fun t => negb (tm t)) ts))
       (map tf (filter tm ts)) (map tz (filter tm ts))
       (enum_flags 0 ts) true.

Fixpoint spec_run (ts : list triple) (ops : list dop) : list dobs :=
  match ops with
  | [] => []
  | o :: r => let '(ts', ok) := spec_step ts o in spec_obs ok ts' :: spec_run ts' r
  end.

Definition spec_trace (c : dcase) : dtrace :=
  if valid_input (c_fs c) (c_zs c) then
    let ts := spec_construct (c_fs c) (c_zs c) (c_mask c) in
    mkTr true (c_mask c) (Some (spec_obs true ts)) (spec_run ts (c_ops c))
  else mkTr false (c_mask c) None [].

(* property C05 on an observed trace *)
Definition holds_on_data (c : dcase) (t : dtrace) : bool := trace_eqb (spec_trace c) t.

(* strictly descending frequencies *)
Fixpoint desc (l : list Q) : bool :=
  match l with
  | a :: ((b :: _) as r) => Qltb b a && desc r
  | _ => true
  end.
Fixpoint asc (l : list Q) : bool :=
  match l with
  | a :: ((b :: _) as r) => Qltb a b && asc r
  | _ => true
  end.

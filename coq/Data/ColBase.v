(* Data/ColBase.v — the five column kinds of the table reader (shared by the generated alias table and the model) *)
From Coq Require Import NArith List.
From PV Require Import Circuit.Tree.
Inductive kind := KFreq | KImag | KReal | KMag | KPhase.
Definition kind_eqb (a b : kind) : bool :=
  match a, b with KFreq, KFreq | KImag, KImag | KReal, KReal | KMag, KMag | KPhase, KPhase => true | _, _ => false end.
